/-
Shared evaluator lemmas for `RuschmModel/Eval.lean`.

1. FUEL MONOTONICITY of the whole mutual block (`evalExpr_mono`, `evalArgs_mono`, …,
   `…_mono_le`): a result that is not the fuel error is kept when more fuel is given.
   `NotFuel r` is the predicate "r is not `.error (.fuel, _)`".
2. Fuel-free judgements DEFINED from the executable functions
   (`Evals σ ρ e r σ'`, `EvalsArgs`, `AppliesProc` (= `applyProcedure`), `Applies` (= `applyLoop`),
   `AppliesScheme`, `EvalsDefs`, `EvalsBody`, `EvalsTail`): "for all large enough fuel the function
   returns `(r, σ')`, and `r` is not the fuel error"; introduction from one run (`Evals.intro`),
   determinism (`Evals.unique`), and the derived big-step rules (`Evals.prim`, `Evals.sym`,
   `Evals.lambda`, `Evals.quote`, `Evals.cond_true/false/void/err`, `Evals.assign…`,
   `Evals.call`, `Evals.call_nonproc`, `EvalsArgs.nil/cons/cons_err…`, `Applies.builtin`,
   `Applies.closure_value`, `Applies.closure_tail`, `Applies.apply`, `Applies.arity_err`, …).
3. Inversion lemmas (`Evals.cond_inv`, `Evals.call_inv`, `EvalsArgs.cons_inv`, `EvalsDefs.cons_inv`,
   `EvalsBody.cons_inv`, `AppliesScheme.inv`, …) and the list characterisations
   (`evalsArgs_iff_mapEvals`, `evalArgs_eq_mapEval`, `evalsDefs_iff_defsSeq`, `evalsBody_iff`).
4. Frames: `lookup_eq_chain`, `lookupAux_eq_chainOlderAux`, `parentsOlder_newFrame/define`,
   `frameBinding_define`, `chain_define`; parameter binding (`bindFixed_eq_bindAll`), `spreadApply_snoc`.
5. `Store.erase` commutes with every store operation the evaluator uses (`Store.erase_define`,
   `Store.erase_set`, `readLiteral_erase`, `applyPure_erase`, `bindFixed_erase`, …).
6. The reference evaluator `Ref.eval` (RuschmSpec/Ref.lean): fuel monotonicity (`Ref.eval_mono_le` …),
   the simulation `Ref.refines_all` (model ⇒ reference, invariant `Ref.TailOK` for pending tail calls)
   and its converse for values `Ref.conv_all` (invariant `Ref.TailConv`).
7. `RuschmModel/Xform.lean`: `toDefinition_sugar`, `toDefinition_lambda`, `Expr.beq_refl`, and the
   relational invariance of the whole transformer under syntax-environment relations (`EnvRel`,
   `Rel2`, `relAll`), giving `toBody_inChild`.
-/
import RuschmSpec.Ref
import RuschmModel.Xform
import RuschmProofs.SharedLemmas
namespace Ruschm.Eval
open Prim

def isFuel {α} : Except SErr α → Bool
  | .error (.fuel, _) => true
  | _ => false
def NotFuel {α} (r : Except SErr α) : Prop := isFuel r = false
@[simp] theorem NotFuel.ok {α} (v : α) : NotFuel (.ok v : Except SErr α) := rfl
@[simp] theorem notFuel_fuel {α} (l) : ¬ NotFuel (.error (.fuel, l) : Except SErr α) := by simp [NotFuel, isFuel]
theorem NotFuel.cast {α β} {e : SErr} (h : NotFuel (.error e : Except SErr α)) : NotFuel (.error e : Except SErr β) := by
  obtain ⟨e, l⟩ := e; cases e <;> simp_all [NotFuel, isFuel]

structure Mono (n : Nat) : Prop where
  expr : ∀ {σ ρ e r σ'}, evalExpr n σ ρ e = (r, σ') → NotFuel r → evalExpr (n+1) σ ρ e = (r, σ')
  args : ∀ {σ ρ es r σ'}, evalArgs n σ ρ es = (r, σ') → NotFuel r → evalArgs (n+1) σ ρ es = (r, σ')
  proc : ∀ {σ p as env r σ'}, applyProcedure n σ p as env = (r, σ') → NotFuel r → applyProcedure (n+1) σ p as env = (r, σ')
  loop : ∀ {σ p as env r σ'}, applyLoop n σ p as env = (r, σ') → NotFuel r → applyLoop (n+1) σ p as env = (r, σ')
  scheme : ∀ {σ lam cenv as r σ'}, applyScheme n σ lam cenv as = (r, σ') → NotFuel r → applyScheme (n+1) σ lam cenv as = (r, σ')
  defs : ∀ {σ ρ ds r σ'}, evalDefs n σ ρ ds = (r, σ') → NotFuel r → evalDefs (n+1) σ ρ ds = (r, σ')
  body : ∀ {σ ρ es r σ'}, evalBody n σ ρ es = (r, σ') → NotFuel r → evalBody (n+1) σ ρ es = (r, σ')
  tail : ∀ {σ ρ e r σ'}, evalTail n σ ρ e = (r, σ') → NotFuel r → evalTail (n+1) σ ρ e = (r, σ')

theorem mono_expr {n} (ih : Mono n) {σ ρ e r σ'} (h : evalExpr (n+1) σ ρ e = (r, σ')) (hr : NotFuel r) :
    evalExpr (n+2) σ ρ e = (r, σ') := by
  cases e with
  | prim p l => rw [evalExpr] at h ⊢; exact h
  | datum d l => rw [evalExpr] at h ⊢; exact h
  | quote d l => rw [evalExpr] at h ⊢; exact h
  | lambda lam l => rw [evalExpr] at h ⊢; exact h
  | sym s l => rw [evalExpr] at h ⊢; exact h
  | assign name ve l =>
    rw [evalExpr] at h ⊢
    split at h
    next er σ1 heq =>
      cases h; rw [ih.expr heq hr]
    next v σ1 heq =>
      rw [ih.expr heq (by simp)]; exact h
  | cond t c a l =>
    rw [evalExpr] at h ⊢
    split at h
    next er σ1 heq =>
      cases h; rw [ih.expr heq hr]
    next v σ1 heq =>
      rw [ih.expr heq (by simp)]; simp only
      split at h
      · rw [if_pos ‹_›]; exact ih.expr h hr
      · rw [if_neg ‹_›]
        split at h
        · exact ih.expr h hr
        · exact h
  | call f args l =>
    rw [evalExpr] at h ⊢
    split at h
    next er σ1 heq =>
      cases h; rw [ih.expr heq hr]
    next v σ1 heq =>
      rw [ih.expr heq (by simp)]; simp only
      split at h
      next rargs σ2 hargs =>
        by_cases hfa : NotFuel rargs
        · rw [ih.args hargs hfa]; simp only
          split at h
          · split at h
            · exact h
            · exact ih.proc h hr
          · exact h
        · exfalso
          cases rargs with
          | ok _ => simp at hfa
          | error e =>
            obtain ⟨e, l⟩ := e
            cases e <;> simp [NotFuel, isFuel] at hfa
            split at h <;> simp at h <;> cases h.1 <;> simp at hr

theorem mono_args {n} (ih : Mono n) {σ ρ es r σ'} (h : evalArgs (n+1) σ ρ es = (r, σ')) (hr : NotFuel r) :
    evalArgs (n+2) σ ρ es = (r, σ') := by
  cases es with
  | nil => rw [evalArgs] at h ⊢; exact h
  | cons a as =>
    rw [evalArgs] at h ⊢
    split at h
    next er σ1 heq => cases h; rw [ih.expr heq hr.cast]
    next v σ1 heq =>
      rw [ih.expr heq (by simp)]; simp only
      split at h
      next er σ2 heq2 => cases h; rw [ih.args heq2 hr]
      next vs σ2 heq2 => rw [ih.args heq2 (by simp)]; exact h

theorem mono_proc {n} (ih : Mono n) {σ p as env r σ'} (h : applyProcedure (n+1) σ p as env = (r, σ'))
    (hr : NotFuel r) : applyProcedure (n+2) σ p as env = (r, σ') := by
  rw [applyProcedure] at h ⊢
  split at h
  next r1 σ1 heq =>
    cases h; rw [ih.loop heq hr]

theorem mono_loop {n} (ih : Mono n) {σ p as env r σ'} (h : applyLoop (n+1) σ p as env = (r, σ'))
    (hr : NotFuel r) : applyLoop (n+2) σ p as env = (r, σ') := by
  unfold applyLoop at h ⊢
  split at h
  · exact h
  next fixed variadic hpa =>
    skip
    split at h
    · rw [if_pos ‹_›]; exact h
    · rw [if_neg ‹_›]
      split at h
      · -- apply
        split at h
        · exact h
        next f args' hsp => exact ih.loop h hr
      · exact h
      · -- closure
        split at h
        next er σ1 heq => cases h; rw [ih.scheme heq hr.cast]
        next v σ1 heq => rw [ih.scheme heq (by simp)]; exact h
        next f targs tenv σ1 heq =>
          rw [ih.scheme heq (by simp)]; simp only
          split at h
          next er σ2 heq2 => cases h; rw [ih.expr heq2 hr]
          next first σ2 heq2 =>
            rw [ih.expr heq2 (by simp)]; simp only
            split at h
            next er σ3 heq3 => cases h; rw [ih.args heq3 hr.cast]
            next vs σ3 heq3 =>
              rw [ih.args heq3 (by simp)]; simp only
              split at h
              · exact h
              · exact ih.loop h hr
      · exact h

theorem mono_defs {n} (ih : Mono n) {σ ρ ds r σ'} (h : evalDefs (n+1) σ ρ ds = (r, σ'))
    (hr : NotFuel r) : evalDefs (n+2) σ ρ ds = (r, σ') := by
  cases ds with
  | nil => rw [evalDefs] at h ⊢; exact h
  | cons d ds =>
    obtain ⟨name, e, l⟩ := d
    rw [evalDefs] at h ⊢
    split at h
    next er σ1 heq => cases h; rw [ih.expr heq hr.cast]
    next v σ1 heq => rw [ih.expr heq (by simp)]; exact ih.defs h hr

theorem mono_body {n} (ih : Mono n) {σ ρ es r σ'} (h : evalBody (n+1) σ ρ es = (r, σ'))
    (hr : NotFuel r) : evalBody (n+2) σ ρ es = (r, σ') := by
  match es with
  | [] => rw [evalBody] at h ⊢; exact h
  | [last] => rw [evalBody] at h ⊢; exact ih.tail h hr
  | e :: e2 :: es =>
    rw [evalBody] at h ⊢
    · split at h
      next er σ1 heq => cases h; rw [ih.expr heq hr.cast]
      next v σ1 heq => rw [ih.expr heq (by simp)]; exact ih.body h hr
    all_goals simp

theorem mono_tail {n} (ih : Mono n) {σ ρ e r σ'} (h : evalTail (n+1) σ ρ e = (r, σ'))
    (hr : NotFuel r) : evalTail (n+2) σ ρ e = (r, σ') := by
  unfold evalTail at h ⊢
  split at h
  · exact h
  · split at h
    next er σ1 heq => cases h; rw [ih.expr heq hr.cast]
    next tv σ1 heq =>
      rw [ih.expr heq (by simp)]; simp only
      split at h
      · rw [if_pos ‹_›]; exact ih.tail h hr
      · rw [if_neg ‹_›]
        split at h
        · exact ih.tail h hr
        · exact h
  · split at h
    next er σ1 heq => cases h; rw [ih.expr heq hr.cast]
    next v σ1 heq => rw [ih.expr heq (by simp)]; exact h

theorem mono_scheme {n} (ih : Mono n) {σ lam cenv as r σ'} (h : applyScheme (n+1) σ lam cenv as = (r, σ'))
    (hr : NotFuel r) : applyScheme (n+2) σ lam cenv as = (r, σ') := by
  unfold applyScheme at h ⊢
  simp only at h ⊢
  split at h
  · exact h
  next restArgs σ1 hb =>
    skip
    split at h
    next er σ2 heq => cases h; rw [ih.defs heq hr.cast]
    next σ2 heq => rw [ih.defs heq (by simp)]; exact ih.body h hr

theorem mono_all : ∀ n, Mono n
  | 0 => by
    constructor <;> intro _ _ _ <;> intros <;> rename_i h hr <;>
      simp only [evalExpr, evalArgs, applyProcedure, applyLoop, applyScheme, evalDefs, evalBody, evalTail] at h <;>
      cases h <;> simp at hr
  | n+1 =>
    have ih := mono_all n
    ⟨mono_expr ih, mono_args ih, mono_proc ih, mono_loop ih, mono_scheme ih, mono_defs ih, mono_body ih, mono_tail ih⟩


/-! ## Fuel monotonicity, general form -/

section mono
variable {α : Type}

/-- generic: a fuel-indexed function that keeps non-fuel results for one more unit keeps them for any more -/
theorem mono_add {f : Nat → Res α} (step : ∀ n r σ', f n = (r, σ') → NotFuel r → f (n+1) = (r, σ'))
    {n r σ'} (h : f n = (r, σ')) (hr : NotFuel r) (k : Nat) : f (n+k) = (r, σ') := by
  induction k with
  | zero => exact h
  | succ k ih => exact step _ _ _ ih hr

theorem mono_le {f : Nat → Res α} (step : ∀ n r σ', f n = (r, σ') → NotFuel r → f (n+1) = (r, σ'))
    {n m r σ'} (h : f n = (r, σ')) (hr : NotFuel r) (hnm : n ≤ m) : f m = (r, σ') := by
  obtain ⟨k, rfl⟩ := Nat.exists_eq_add_of_le hnm
  exact mono_add step h hr k
end mono

theorem evalExpr_mono_le {n m σ ρ e r σ'} (h : evalExpr n σ ρ e = (r, σ')) (hr : NotFuel r) (hnm : n ≤ m) :
    evalExpr m σ ρ e = (r, σ') :=
  mono_le (f := fun n => evalExpr n σ ρ e) (fun n _ _ h hr => (mono_all n).expr h hr) h hr hnm
theorem evalArgs_mono_le {n m σ ρ es r σ'} (h : evalArgs n σ ρ es = (r, σ')) (hr : NotFuel r) (hnm : n ≤ m) :
    evalArgs m σ ρ es = (r, σ') :=
  mono_le (f := fun n => evalArgs n σ ρ es) (fun n _ _ h hr => (mono_all n).args h hr) h hr hnm
theorem applyProcedure_mono_le {n m σ p as env r σ'} (h : applyProcedure n σ p as env = (r, σ')) (hr : NotFuel r)
    (hnm : n ≤ m) : applyProcedure m σ p as env = (r, σ') :=
  mono_le (f := fun n => applyProcedure n σ p as env) (fun n _ _ h hr => (mono_all n).proc h hr) h hr hnm
theorem applyLoop_mono_le {n m σ p as env r σ'} (h : applyLoop n σ p as env = (r, σ')) (hr : NotFuel r)
    (hnm : n ≤ m) : applyLoop m σ p as env = (r, σ') :=
  mono_le (f := fun n => applyLoop n σ p as env) (fun n _ _ h hr => (mono_all n).loop h hr) h hr hnm
theorem applyScheme_mono_le {n m σ lam cenv as r σ'} (h : applyScheme n σ lam cenv as = (r, σ')) (hr : NotFuel r)
    (hnm : n ≤ m) : applyScheme m σ lam cenv as = (r, σ') :=
  mono_le (f := fun n => applyScheme n σ lam cenv as) (fun n _ _ h hr => (mono_all n).scheme h hr) h hr hnm
theorem evalDefs_mono_le {n m σ ρ ds r σ'} (h : evalDefs n σ ρ ds = (r, σ')) (hr : NotFuel r) (hnm : n ≤ m) :
    evalDefs m σ ρ ds = (r, σ') :=
  mono_le (f := fun n => evalDefs n σ ρ ds) (fun n _ _ h hr => (mono_all n).defs h hr) h hr hnm
theorem evalBody_mono_le {n m σ ρ es r σ'} (h : evalBody n σ ρ es = (r, σ')) (hr : NotFuel r) (hnm : n ≤ m) :
    evalBody m σ ρ es = (r, σ') :=
  mono_le (f := fun n => evalBody n σ ρ es) (fun n _ _ h hr => (mono_all n).body h hr) h hr hnm
theorem evalTail_mono_le {n m σ ρ e r σ'} (h : evalTail n σ ρ e = (r, σ')) (hr : NotFuel r) (hnm : n ≤ m) :
    evalTail m σ ρ e = (r, σ') :=
  mono_le (f := fun n => evalTail n σ ρ e) (fun n _ _ h hr => (mono_all n).tail h hr) h hr hnm

/-- FUEL MONOTONICITY (`+ k` form) -/
theorem evalExpr_mono {n σ ρ e r σ'} (h : evalExpr n σ ρ e = (r, σ')) (hr : NotFuel r) (k : Nat) :
    evalExpr (n+k) σ ρ e = (r, σ') := evalExpr_mono_le h hr (Nat.le_add_right _ _)
theorem evalArgs_mono {n σ ρ es r σ'} (h : evalArgs n σ ρ es = (r, σ')) (hr : NotFuel r) (k : Nat) :
    evalArgs (n+k) σ ρ es = (r, σ') := evalArgs_mono_le h hr (Nat.le_add_right _ _)
theorem applyProcedure_mono {n σ p as env r σ'} (h : applyProcedure n σ p as env = (r, σ')) (hr : NotFuel r)
    (k : Nat) : applyProcedure (n+k) σ p as env = (r, σ') := applyProcedure_mono_le h hr (Nat.le_add_right _ _)
theorem applyLoop_mono {n σ p as env r σ'} (h : applyLoop n σ p as env = (r, σ')) (hr : NotFuel r)
    (k : Nat) : applyLoop (n+k) σ p as env = (r, σ') := applyLoop_mono_le h hr (Nat.le_add_right _ _)
theorem applyScheme_mono {n σ lam cenv as r σ'} (h : applyScheme n σ lam cenv as = (r, σ')) (hr : NotFuel r)
    (k : Nat) : applyScheme (n+k) σ lam cenv as = (r, σ') := applyScheme_mono_le h hr (Nat.le_add_right _ _)
theorem evalDefs_mono {n σ ρ ds r σ'} (h : evalDefs n σ ρ ds = (r, σ')) (hr : NotFuel r) (k : Nat) :
    evalDefs (n+k) σ ρ ds = (r, σ') := evalDefs_mono_le h hr (Nat.le_add_right _ _)
theorem evalBody_mono {n σ ρ es r σ'} (h : evalBody n σ ρ es = (r, σ')) (hr : NotFuel r) (k : Nat) :
    evalBody (n+k) σ ρ es = (r, σ') := evalBody_mono_le h hr (Nat.le_add_right _ _)
theorem evalTail_mono {n σ ρ e r σ'} (h : evalTail n σ ρ e = (r, σ')) (hr : NotFuel r) (k : Nat) :
    evalTail (n+k) σ ρ e = (r, σ') := evalTail_mono_le h hr (Nat.le_add_right _ _)

/-! ## Fuel-free judgements -/

/-- `f` (a fuel-indexed run) settles on the non-fuel outcome `(r, σ')` -/
def Stable {α} (f : Nat → Res α) (r : Except SErr α) (σ' : Store) : Prop :=
  NotFuel r ∧ ∃ N, ∀ n, N ≤ n → f n = (r, σ')

theorem Stable.unique {α} {f : Nat → Res α} {r₁ r₂ σ₁ σ₂} (h₁ : Stable f r₁ σ₁) (h₂ : Stable f r₂ σ₂) :
    r₁ = r₂ ∧ σ₁ = σ₂ := by
  obtain ⟨_, N₁, h₁⟩ := h₁; obtain ⟨_, N₂, h₂⟩ := h₂
  have := (h₁ (max N₁ N₂) (Nat.le_max_left ..)).symm.trans (h₂ (max N₁ N₂) (Nat.le_max_right ..))
  exact ⟨congrArg Prod.fst this, congrArg Prod.snd this⟩

theorem Stable.notFuel {α} {f : Nat → Res α} {r σ'} (h : Stable f r σ') : NotFuel r := h.1

/-- `e` evaluates in store `σ`, frame `ρ` to outcome `r` (a value or a non-fuel error), leaving `σ'` -/
def Evals (σ : Store) (ρ : Nat) (e : Expr) (r : Except SErr Value) (σ' : Store) : Prop :=
  Stable (fun n => evalExpr n σ ρ e) r σ'
def EvalsArgs (σ : Store) (ρ : Nat) (es : List Expr) (r : Except SErr (List Value)) (σ' : Store) : Prop :=
  Stable (fun n => evalArgs n σ ρ es) r σ'
/-- one activation of `apply_procedure` (`applyProcedure`: depth bookkeeping around the loop) -/
def AppliesProc (σ : Store) (p : Value) (args : List Value) (env : Nat) (r : Except SErr Value) (σ' : Store) : Prop :=
  Stable (fun n => applyProcedure n σ p args env) r σ'
/-- the trampoline loop `applyLoop` started with procedure `p` and arguments `args` -/
def Applies (σ : Store) (p : Value) (args : List Value) (env : Nat) (r : Except SErr Value) (σ' : Store) : Prop :=
  Stable (fun n => applyLoop n σ p args env) r σ'
def AppliesScheme (σ : Store) (lam : Lambda) (cenv : Nat) (args : List Value) (r : Except SErr TailRes) (σ' : Store) : Prop :=
  Stable (fun n => applyScheme n σ lam cenv args) r σ'
def EvalsDefs (σ : Store) (ρ : Nat) (ds : List Def) (r : Except SErr Unit) (σ' : Store) : Prop :=
  Stable (fun n => evalDefs n σ ρ ds) r σ'
def EvalsBody (σ : Store) (ρ : Nat) (es : List Expr) (r : Except SErr TailRes) (σ' : Store) : Prop :=
  Stable (fun n => evalBody n σ ρ es) r σ'
def EvalsTail (σ : Store) (ρ : Nat) (e : Expr) (r : Except SErr TailRes) (σ' : Store) : Prop :=
  Stable (fun n => evalTail n σ ρ e) r σ'

/-! ### from one run to the judgement and back -/

theorem Evals.out {σ ρ e r σ'} (h : Evals σ ρ e r σ') :
    NotFuel r ∧ ∃ N, ∀ n, N ≤ n → evalExpr n σ ρ e = (r, σ') := h
theorem EvalsArgs.out {σ ρ es r σ'} (h : EvalsArgs σ ρ es r σ') :
    NotFuel r ∧ ∃ N, ∀ n, N ≤ n → evalArgs n σ ρ es = (r, σ') := h
theorem AppliesProc.out {σ p as env r σ'} (h : AppliesProc σ p as env r σ') :
    NotFuel r ∧ ∃ N, ∀ n, N ≤ n → applyProcedure n σ p as env = (r, σ') := h
theorem Applies.out {σ p as env r σ'} (h : Applies σ p as env r σ') :
    NotFuel r ∧ ∃ N, ∀ n, N ≤ n → applyLoop n σ p as env = (r, σ') := h
theorem AppliesScheme.out {σ lam cenv as r σ'} (h : AppliesScheme σ lam cenv as r σ') :
    NotFuel r ∧ ∃ N, ∀ n, N ≤ n → applyScheme n σ lam cenv as = (r, σ') := h
theorem EvalsDefs.out {σ ρ ds r σ'} (h : EvalsDefs σ ρ ds r σ') :
    NotFuel r ∧ ∃ N, ∀ n, N ≤ n → evalDefs n σ ρ ds = (r, σ') := h
theorem EvalsBody.out {σ ρ es r σ'} (h : EvalsBody σ ρ es r σ') :
    NotFuel r ∧ ∃ N, ∀ n, N ≤ n → evalBody n σ ρ es = (r, σ') := h
theorem EvalsTail.out {σ ρ e r σ'} (h : EvalsTail σ ρ e r σ') :
    NotFuel r ∧ ∃ N, ∀ n, N ≤ n → evalTail n σ ρ e = (r, σ') := h

theorem Evals.intro {n σ ρ e r σ'} (h : evalExpr n σ ρ e = (r, σ')) (hr : NotFuel r) : Evals σ ρ e r σ' :=
  ⟨hr, n, fun _ hm => evalExpr_mono_le h hr hm⟩
theorem EvalsArgs.intro {n σ ρ es r σ'} (h : evalArgs n σ ρ es = (r, σ')) (hr : NotFuel r) : EvalsArgs σ ρ es r σ' :=
  ⟨hr, n, fun _ hm => evalArgs_mono_le h hr hm⟩
theorem AppliesProc.intro {n σ p as env r σ'} (h : applyProcedure n σ p as env = (r, σ')) (hr : NotFuel r) :
    AppliesProc σ p as env r σ' := ⟨hr, n, fun _ hm => applyProcedure_mono_le h hr hm⟩
theorem Applies.intro {n σ p as env r σ'} (h : applyLoop n σ p as env = (r, σ')) (hr : NotFuel r) :
    Applies σ p as env r σ' := ⟨hr, n, fun _ hm => applyLoop_mono_le h hr hm⟩
theorem AppliesScheme.intro {n σ lam cenv as r σ'} (h : applyScheme n σ lam cenv as = (r, σ')) (hr : NotFuel r) :
    AppliesScheme σ lam cenv as r σ' := ⟨hr, n, fun _ hm => applyScheme_mono_le h hr hm⟩
theorem EvalsDefs.intro {n σ ρ ds r σ'} (h : evalDefs n σ ρ ds = (r, σ')) (hr : NotFuel r) : EvalsDefs σ ρ ds r σ' :=
  ⟨hr, n, fun _ hm => evalDefs_mono_le h hr hm⟩
theorem EvalsBody.intro {n σ ρ es r σ'} (h : evalBody n σ ρ es = (r, σ')) (hr : NotFuel r) : EvalsBody σ ρ es r σ' :=
  ⟨hr, n, fun _ hm => evalBody_mono_le h hr hm⟩
theorem EvalsTail.intro {n σ ρ e r σ'} (h : evalTail n σ ρ e = (r, σ')) (hr : NotFuel r) : EvalsTail σ ρ e r σ' :=
  ⟨hr, n, fun _ hm => evalTail_mono_le h hr hm⟩

/-- the judgement is exactly "some run returns this non-fuel outcome" -/
theorem evals_iff {σ ρ e r σ'} : Evals σ ρ e r σ' ↔ NotFuel r ∧ ∃ n, evalExpr n σ ρ e = (r, σ') :=
  ⟨fun ⟨hr, N, h⟩ => ⟨hr, N, h N (Nat.le_refl _)⟩, fun ⟨hr, _, h⟩ => Evals.intro h hr⟩
theorem applies_iff {σ p as env r σ'} : Applies σ p as env r σ' ↔ NotFuel r ∧ ∃ n, applyLoop n σ p as env = (r, σ') :=
  ⟨fun ⟨hr, N, h⟩ => ⟨hr, N, h N (Nat.le_refl _)⟩, fun ⟨hr, _, h⟩ => Applies.intro h hr⟩

/-- a run that does not end in the fuel error agrees with the judgement -/
theorem Evals.run_eq {σ ρ e r σ' n r₂ σ₂} (h : Evals σ ρ e r σ') (h₂ : evalExpr n σ ρ e = (r₂, σ₂))
    (hr₂ : NotFuel r₂) : r₂ = r ∧ σ₂ = σ' := Stable.unique (Evals.intro h₂ hr₂) h
theorem Evals.unique {σ ρ e r₁ σ₁ r₂ σ₂} (h₁ : Evals σ ρ e r₁ σ₁) (h₂ : Evals σ ρ e r₂ σ₂) :
    r₁ = r₂ ∧ σ₁ = σ₂ := Stable.unique h₁ h₂
theorem EvalsArgs.unique {σ ρ es r₁ σ₁ r₂ σ₂} (h₁ : EvalsArgs σ ρ es r₁ σ₁) (h₂ : EvalsArgs σ ρ es r₂ σ₂) :
    r₁ = r₂ ∧ σ₁ = σ₂ := Stable.unique h₁ h₂
theorem Applies.unique {σ p as env r₁ σ₁ r₂ σ₂} (h₁ : Applies σ p as env r₁ σ₁) (h₂ : Applies σ p as env r₂ σ₂) :
    r₁ = r₂ ∧ σ₁ = σ₂ := Stable.unique h₁ h₂
theorem AppliesProc.unique {σ p as env r₁ σ₁ r₂ σ₂} (h₁ : AppliesProc σ p as env r₁ σ₁)
    (h₂ : AppliesProc σ p as env r₂ σ₂) : r₁ = r₂ ∧ σ₁ = σ₂ := Stable.unique h₁ h₂


/-! ## The big-step rules (derived) -/

theorem Stable.of_succ {α} {f : Nat → Res α} {r σ'} (hr : NotFuel r) (N : Nat)
    (h : ∀ n, N ≤ n → f (n+1) = (r, σ')) : Stable f r σ' :=
  ⟨hr, N+1, fun n hn => by
    obtain ⟨m, rfl⟩ : ∃ m, n = m+1 := ⟨n-1, by omega⟩
    exact h m (by omega)⟩

theorem NotFuel.error_of {α} {e : Err} {l : Loc} (h : e ≠ .fuel) : NotFuel (.error (e, l) : Except SErr α) := by
  cases e <;> simp_all [NotFuel, isFuel]

theorem evalPrim_ne_fuel {p e} (h : evalPrim p = .error e) : e ≠ .fuel := by
  cases p <;> simp [evalPrim] at h
  rename_i n d
  unfold Num.exactRatio at h
  simp only [Except.map] at h
  split at h
  · rename_i h'
    split at h'
    · cases h'; cases h; simp
    · split at h'
      · split at h' <;> cases h'
      · cases h'
  · cases h

theorem Evals.prim {σ ρ p l v} (h : evalPrim p = .ok v) : Evals σ ρ (.prim p l) (.ok v) σ :=
  Stable.of_succ (by simp) 0 fun n _ => by show evalExpr (n+1) _ _ _ = _; rw [evalExpr, h]
theorem Evals.prim_err {σ ρ p l e} (h : evalPrim p = .error e) : Evals σ ρ (.prim p l) (.error (e, none)) σ :=
  Stable.of_succ (.error_of (evalPrim_ne_fuel h)) 0 fun n _ => by show evalExpr (n+1) _ _ _ = _; rw [evalExpr, h]
theorem Evals.sym {σ ρ s l v} (h : σ.lookup ρ s = some v) : Evals σ ρ (.sym s l) (.ok v) σ :=
  Stable.of_succ (by simp) 0 fun n _ => by show evalExpr (n+1) _ _ _ = _; rw [evalExpr, h]
theorem Evals.sym_unbound {σ ρ s l} (h : σ.lookup ρ s = none) : Evals σ ρ (.sym s l) (.error (.unbound, l)) σ :=
  Stable.of_succ (.error_of (by simp)) 0 fun n _ => by show evalExpr (n+1) _ _ _ = _; rw [evalExpr, h]
theorem Evals.lambda {σ ρ lam l} : Evals σ ρ (.lambda lam l) (.ok (.closure lam ρ)) σ :=
  Stable.of_succ (by simp) 0 fun n _ => by show evalExpr (n+1) _ _ _ = _; rw [evalExpr]
theorem Evals.quote {σ ρ d l r σ'} (h : readLiteral σ d = (r, σ')) (hr : NotFuel r) : Evals σ ρ (.quote d l) r σ' :=
  Stable.of_succ hr 0 fun n _ => by show evalExpr (n+1) _ _ _ = _; rw [evalExpr, h]
theorem Evals.datum {σ ρ d l r σ'} (h : readLiteral σ d = (r, σ')) (hr : NotFuel r) : Evals σ ρ (.datum d l) r σ' :=
  Stable.of_succ hr 0 fun n _ => by show evalExpr (n+1) _ _ _ = _; rw [evalExpr, h]

theorem Evals.cond_err {σ ρ t c a l er σ₁} (ht : Evals σ ρ t (.error er) σ₁) :
    Evals σ ρ (.cond t c a l) (.error er) σ₁ := by
  obtain ⟨hr, N, h⟩ := ht.out
  exact Stable.of_succ hr N fun n hn => by show evalExpr (n+1) _ _ _ = _; rw [evalExpr, h n hn]
theorem Evals.cond_true {σ ρ t c a l tv σ₁ r σ'} (ht : Evals σ ρ t (.ok tv) σ₁) (htv : tv.truthy = true)
    (hc : Evals σ₁ ρ c r σ') : Evals σ ρ (.cond t c a l) r σ' := by
  obtain ⟨_, N₁, h₁⟩ := ht.out; obtain ⟨hr, N₂, h₂⟩ := hc.out
  exact Stable.of_succ hr (max N₁ N₂) fun n hn => by
    show evalExpr (n+1) _ _ _ = _
    rw [evalExpr, h₁ n (by omega)]; simp only [htv, if_true]; exact h₂ n (by omega)
theorem Evals.cond_false {σ ρ t c alt l tv σ₁ r σ'} (ht : Evals σ ρ t (.ok tv) σ₁) (htv : tv.truthy = false)
    (hc : Evals σ₁ ρ alt r σ') : Evals σ ρ (.cond t c (some alt) l) r σ' := by
  obtain ⟨_, N₁, h₁⟩ := ht.out; obtain ⟨hr, N₂, h₂⟩ := hc.out
  exact Stable.of_succ hr (max N₁ N₂) fun n hn => by
    show evalExpr (n+1) _ _ _ = _
    rw [evalExpr, h₁ n (by omega)]; simp only [htv]; exact h₂ n (by omega)
theorem Evals.cond_void {σ ρ t c l tv σ₁} (ht : Evals σ ρ t (.ok tv) σ₁) (htv : tv.truthy = false) :
    Evals σ ρ (.cond t c none l) (.ok .void) σ₁ := by
  obtain ⟨_, N₁, h₁⟩ := ht.out
  exact Stable.of_succ (by simp) N₁ fun n hn => by
    show evalExpr (n+1) _ _ _ = _
    rw [evalExpr, h₁ n (by omega)]; simp [htv]

theorem Evals.assign_err {σ ρ x e l er σ₁} (he : Evals σ ρ e (.error er) σ₁) :
    Evals σ ρ (.assign x e l) (.error er) σ₁ := by
  obtain ⟨hr, N, h⟩ := he.out
  exact Stable.of_succ hr N fun n hn => by show evalExpr (n+1) _ _ _ = _; rw [evalExpr, h n hn]
theorem Evals.assign {σ ρ x e l v σ₁ σ'} (he : Evals σ ρ e (.ok v) σ₁) (hs : σ₁.set ρ x v = (true, σ')) :
    Evals σ ρ (.assign x e l) (.ok .void) σ' := by
  obtain ⟨_, N, h⟩ := he.out
  exact Stable.of_succ (by simp) N fun n hn => by show evalExpr (n+1) _ _ _ = _; rw [evalExpr, h n hn]; simp [hs]
theorem Evals.assign_unbound {σ ρ x e l v σ₁ σ'} (he : Evals σ ρ e (.ok v) σ₁) (hs : σ₁.set ρ x v = (false, σ')) :
    Evals σ ρ (.assign x e l) (.error (.unbound, l)) σ' := by
  obtain ⟨_, N, h⟩ := he.out
  exact Stable.of_succ (.error_of (by simp)) N fun n hn => by
    show evalExpr (n+1) _ _ _ = _; rw [evalExpr, h n hn]; simp [hs]

/-- the call rule: operator, then all operands, then the application -/
theorem Evals.call {σ ρ f args l fv σ₁ vs σ₂ r σ'} (hf : Evals σ ρ f (.ok fv) σ₁)
    (ha : EvalsArgs σ₁ ρ args (.ok vs) σ₂) (hp : (procArity fv).isSome)
    (hap : AppliesProc σ₂ fv vs ρ r σ') : Evals σ ρ (.call f args l) r σ' := by
  obtain ⟨_, N₁, h₁⟩ := hf.out; obtain ⟨_, N₂, h₂⟩ := ha.out; obtain ⟨hr, N₃, h₃⟩ := hap.out
  exact Stable.of_succ hr (max N₁ (max N₂ N₃)) fun n hn => by
    show evalExpr (n+1) _ _ _ = _
    rw [evalExpr, h₁ n (by omega)]; simp only; rw [h₂ n (by omega)]; simp only
    obtain ⟨a, ha⟩ := Option.isSome_iff_exists.mp hp
    simp only [ha]; exact h₃ n (by omega)
theorem Evals.call_op_err {σ ρ f args l er σ₁} (hf : Evals σ ρ f (.error er) σ₁) :
    Evals σ ρ (.call f args l) (.error er) σ₁ := by
  obtain ⟨hr, N, h⟩ := hf.out
  exact Stable.of_succ hr N fun n hn => by show evalExpr (n+1) _ _ _ = _; rw [evalExpr, h n hn]
theorem Evals.call_arg_err {σ ρ f args l fv σ₁ er σ₂} (hf : Evals σ ρ f (.ok fv) σ₁)
    (ha : EvalsArgs σ₁ ρ args (.error er) σ₂) (hp : (procArity fv).isSome) :
    Evals σ ρ (.call f args l) (.error er) σ₂ := by
  obtain ⟨_, N₁, h₁⟩ := hf.out; obtain ⟨hr, N₂, h₂⟩ := ha.out
  exact Stable.of_succ hr.cast (max N₁ N₂) fun n hn => by
    show evalExpr (n+1) _ _ _ = _
    rw [evalExpr, h₁ n (by omega)]; simp only; rw [h₂ n (by omega)]; simp only
    obtain ⟨a, ha⟩ := Option.isSome_iff_exists.mp hp
    simp only [ha]
/-- a non-procedure operator is reported after the operands have been evaluated, whatever they gave -/
theorem Evals.call_nonproc {σ ρ f args l fv σ₁ ra σ₂} (hf : Evals σ ρ f (.ok fv) σ₁)
    (ha : EvalsArgs σ₁ ρ args ra σ₂) (hp : procArity fv = none) :
    Evals σ ρ (.call f args l) (.error (.nonProcedure, f.loc)) σ₂ := by
  obtain ⟨_, N₁, h₁⟩ := hf.out; obtain ⟨hr, N₂, h₂⟩ := ha.out
  exact Stable.of_succ (.error_of (by simp)) (max N₁ N₂) fun n hn => by
    show evalExpr (n+1) _ _ _ = _
    rw [evalExpr, h₁ n (by omega)]; simp only; rw [h₂ n (by omega)]; simp only [hp]
    split
    · simp [NotFuel, isFuel] at hr
    · rfl

theorem EvalsArgs.nil {σ ρ} : EvalsArgs σ ρ [] (.ok []) σ :=
  Stable.of_succ (by simp) 0 fun n _ => by show evalArgs (n+1) _ _ _ = _; rw [evalArgs]
theorem EvalsArgs.cons {σ ρ a as v σ₁ vs σ'} (h : Evals σ ρ a (.ok v) σ₁) (ht : EvalsArgs σ₁ ρ as (.ok vs) σ') :
    EvalsArgs σ ρ (a :: as) (.ok (v :: vs)) σ' := by
  obtain ⟨_, N₁, h₁⟩ := h.out; obtain ⟨_, N₂, h₂⟩ := ht.out
  exact Stable.of_succ (by simp) (max N₁ N₂) fun n hn => by
    show evalArgs (n+1) _ _ _ = _
    rw [evalArgs, h₁ n (by omega)]; simp only; rw [h₂ n (by omega)]
theorem EvalsArgs.cons_err {σ ρ a as er σ₁} (h : Evals σ ρ a (.error er) σ₁) :
    EvalsArgs σ ρ (a :: as) (.error er) σ₁ := by
  obtain ⟨hr, N₁, h₁⟩ := h.out
  exact Stable.of_succ hr.cast N₁ fun n hn => by
    show evalArgs (n+1) _ _ _ = _
    rw [evalArgs, h₁ n (by omega)]
theorem EvalsArgs.cons_tail_err {σ ρ a as v σ₁ er σ'} (h : Evals σ ρ a (.ok v) σ₁)
    (ht : EvalsArgs σ₁ ρ as (.error er) σ') : EvalsArgs σ ρ (a :: as) (.error er) σ' := by
  obtain ⟨_, N₁, h₁⟩ := h.out; obtain ⟨hr, N₂, h₂⟩ := ht.out
  exact Stable.of_succ hr (max N₁ N₂) fun n hn => by
    show evalArgs (n+1) _ _ _ = _
    rw [evalArgs, h₁ n (by omega)]; simp only; rw [h₂ n (by omega)]

/-- an activation is the loop run one level deeper -/
theorem AppliesProc.of_loop {σ p args env r σ₁} (h : Applies (enter σ) p args env r σ₁) :
    AppliesProc σ p args env r (leave σ₁) := by
  obtain ⟨hr, N, h⟩ := h.out
  exact Stable.of_succ hr N fun n hn => by show applyProcedure (n+1) _ _ _ _ = _; rw [applyProcedure, h n hn]


/-! ### the trampoline loop -/

theorem Applies.not_proc {σ p args env} (hp : procArity p = none) :
    Applies σ p args env (.error (.panic "apply_procedure: not a procedure", none)) σ :=
  Stable.of_succ (.error_of (by simp)) 0 fun n _ => by
    show applyLoop (n+1) _ _ _ _ = _
    unfold applyLoop; simp only [hp]
/-- the arity test is made at the head of every iteration -/
theorem Applies.arity_err {σ p args env fixed variadic} (hp : procArity p = some (fixed, variadic))
    (ha : arityOk fixed variadic args.length = false) : Applies σ p args env (.error (.arity, none)) σ :=
  Stable.of_succ (.error_of (by simp)) 0 fun n _ => by
    show applyLoop (n+1) _ _ _ _ = _
    unfold applyLoop; simp only [hp, ha]; simp
/-- a native procedure other than `apply` returns -/
theorem Applies.builtin {σ b args env r σ'} (hb : b ≠ .apply)
    (ha : arityOk b.arity.1 b.arity.2 args.length = true) (h : applyPure σ b args = (r, σ')) (hr : NotFuel r) :
    Applies σ (.builtin b) args env r σ' :=
  Stable.of_succ hr 0 fun n _ => by
    show applyLoop (n+1) _ _ _ _ = _
    rw [applyLoop]
    · simp only [procArity, ha]; simpa using h
    · exact fun h => hb h
/-- `apply`: the loop continues with the applied procedure and the spread arguments -/
theorem Applies.apply {σ args env f args' r σ'} (ha : 1 ≤ args.length) (hs : spreadApply args = .ok (f, args'))
    (h : Applies σ f args' env r σ') : Applies σ (.builtin .apply) args env r σ' := by
  obtain ⟨hr, N, h⟩ := h.out
  exact Stable.of_succ hr N fun n hn => by
    show applyLoop (n+1) _ _ _ _ = _
    rw [applyLoop]
    have : arityOk 1 true args.length = true := by
      have : ¬ args.length < 1 := by omega
      simp [arityOk, this]
    simp only [procArity, Builtin.arity, this, hs]; simpa using h n hn
theorem Applies.apply_err {σ args env er} (ha : 1 ≤ args.length) (hs : spreadApply args = .error er)
    (hne : er ≠ .fuel) : Applies σ (.builtin .apply) args env (.error (er, none)) σ :=
  Stable.of_succ (.error_of hne) 0 fun n _ => by
    show applyLoop (n+1) _ _ _ _ = _
    rw [applyLoop]
    have : arityOk 1 true args.length = true := by
      have : ¬ args.length < 1 := by omega
      simp [arityOk, this]
    simp only [procArity, Builtin.arity, this, hs]; simp

section closure
variable {σ : Store} {lam : Lambda} {cenv : Nat} {args : List Value} {env : Nat}

theorem Applies.closure_err {er σ₁}
    (ha : arityOk lam.formals.fixed.length lam.formals.rest.isSome args.length = true)
    (hs : AppliesScheme σ lam cenv args (.error er) σ₁) : Applies σ (.closure lam cenv) args env (.error er) σ₁ := by
  obtain ⟨hr, N, h⟩ := hs.out
  exact Stable.of_succ hr.cast N fun n hn => by
    show applyLoop (n+1) _ _ _ _ = _
    rw [applyLoop]; simp only [procArity, ha, h n hn]; simp
/-- the body's last expression was not a call: the loop returns its value -/
theorem Applies.closure_value {v σ₁}
    (ha : arityOk lam.formals.fixed.length lam.formals.rest.isSome args.length = true)
    (hs : AppliesScheme σ lam cenv args (.ok (.value v)) σ₁) : Applies σ (.closure lam cenv) args env (.ok v) σ₁ := by
  obtain ⟨_, N, h⟩ := hs.out
  exact Stable.of_succ (by simp) N fun n hn => by
    show applyLoop (n+1) _ _ _ _ = _
    rw [applyLoop]; simp only [procArity, ha, h n hn]; simp
/-- a pending tail call: operator, operands, procedure test, and the loop continues (same activation) -/
theorem Applies.closure_tail {f targs tenv σ₁ fv σ₂ vs σ₃ r σ'}
    (ha : arityOk lam.formals.fixed.length lam.formals.rest.isSome args.length = true)
    (hs : AppliesScheme σ lam cenv args (.ok (.tailCall f targs tenv)) σ₁)
    (hf : Evals σ₁ tenv f (.ok fv) σ₂) (hargs : EvalsArgs σ₂ tenv targs (.ok vs) σ₃)
    (hp : (procArity fv).isSome) (hl : Applies σ₃ fv vs env r σ') :
    Applies σ (.closure lam cenv) args env r σ' := by
  obtain ⟨_, N₁, h₁⟩ := hs.out; obtain ⟨_, N₂, h₂⟩ := hf.out; obtain ⟨_, N₃, h₃⟩ := hargs.out
  obtain ⟨hr, N₄, h₄⟩ := hl.out
  exact Stable.of_succ hr (max (max N₁ N₂) (max N₃ N₄)) fun n hn => by
    show applyLoop (n+1) _ _ _ _ = _
    obtain ⟨a, hpa⟩ := Option.isSome_iff_exists.mp hp
    rw [applyLoop]; simp only [procArity, ha, h₁ n (by omega), h₂ n (by omega), h₃ n (by omega)]
    simp only [procArity] at hpa
    simp [hpa, h₄ n (by omega)]
theorem Applies.closure_tail_op_err {f targs tenv σ₁ er σ₂}
    (ha : arityOk lam.formals.fixed.length lam.formals.rest.isSome args.length = true)
    (hs : AppliesScheme σ lam cenv args (.ok (.tailCall f targs tenv)) σ₁)
    (hf : Evals σ₁ tenv f (.error er) σ₂) : Applies σ (.closure lam cenv) args env (.error er) σ₂ := by
  obtain ⟨_, N₁, h₁⟩ := hs.out; obtain ⟨hr, N₂, h₂⟩ := hf.out
  exact Stable.of_succ hr (max N₁ N₂) fun n hn => by
    show applyLoop (n+1) _ _ _ _ = _
    rw [applyLoop]; simp only [procArity, ha, h₁ n (by omega), h₂ n (by omega)]; simp
/-- in the trampoline an operand error is reported whatever the operator evaluated to -/
theorem Applies.closure_tail_arg_err {f targs tenv σ₁ fv σ₂ er σ₃}
    (ha : arityOk lam.formals.fixed.length lam.formals.rest.isSome args.length = true)
    (hs : AppliesScheme σ lam cenv args (.ok (.tailCall f targs tenv)) σ₁)
    (hf : Evals σ₁ tenv f (.ok fv) σ₂) (hargs : EvalsArgs σ₂ tenv targs (.error er) σ₃) :
    Applies σ (.closure lam cenv) args env (.error er) σ₃ := by
  obtain ⟨_, N₁, h₁⟩ := hs.out; obtain ⟨_, N₂, h₂⟩ := hf.out; obtain ⟨hr, N₃, h₃⟩ := hargs.out
  exact Stable.of_succ hr.cast (max (max N₁ N₂) N₃) fun n hn => by
    show applyLoop (n+1) _ _ _ _ = _
    rw [applyLoop]; simp only [procArity, ha, h₁ n (by omega), h₂ n (by omega), h₃ n (by omega)]; simp
theorem Applies.closure_tail_nonproc {f targs tenv σ₁ fv σ₂ vs σ₃}
    (ha : arityOk lam.formals.fixed.length lam.formals.rest.isSome args.length = true)
    (hs : AppliesScheme σ lam cenv args (.ok (.tailCall f targs tenv)) σ₁)
    (hf : Evals σ₁ tenv f (.ok fv) σ₂) (hargs : EvalsArgs σ₂ tenv targs (.ok vs) σ₃)
    (hp : procArity fv = none) : Applies σ (.closure lam cenv) args env (.error (.nonProcedure, f.loc)) σ₃ := by
  obtain ⟨_, N₁, h₁⟩ := hs.out; obtain ⟨_, N₂, h₂⟩ := hf.out; obtain ⟨_, N₃, h₃⟩ := hargs.out
  exact Stable.of_succ (.error_of (by simp)) (max (max N₁ N₂) N₃) fun n hn => by
    show applyLoop (n+1) _ _ _ _ = _
    rw [applyLoop]; simp only [procArity, ha, h₁ n (by omega), h₂ n (by omega), h₃ n (by omega)]
    simp only [procArity] at hp
    simp [hp]
end closure

/-! ### procedure bodies -/

/-- one unfolding of `applyScheme`, with the rest-parameter step named -/
theorem applyScheme_succ (n : Nat) (σ : Store) (lam : Lambda) (cenv : Nat) (args : List Value) :
    applyScheme (n+1) σ lam cenv args =
      match bindFixed (σ.newFrame (some cenv)).2 (σ.newFrame (some cenv)).1 lam.formals.fixed args with
      | (.error er, σ₁) => (.error (er, none), σ₁)
      | (.ok restArgs, σ₁) =>
        match evalDefs n (Ref.bindRest σ₁ (σ.newFrame (some cenv)).1 lam.formals.rest restArgs)
            (σ.newFrame (some cenv)).1 lam.defs with
        | (.error er, σ₂) => (.error er, σ₂)
        | (.ok (), σ₂) => evalBody n σ₂ (σ.newFrame (some cenv)).1 lam.body := by
  rw [applyScheme]; simp only [Ref.bindRest]
  generalize bindFixed _ _ _ _ = x
  obtain ⟨r, σ₁⟩ := x
  cases r with
  | error e => rfl
  | ok ra =>
    simp only
    generalize lam.formals.rest = rest
    cases rest <;> rfl

/-- `apply_scheme_procedure`: new frame under the closure's frame, parameters, definitions, body -/
theorem AppliesScheme.intro_ok {σ lam cenv args restArgs σ₁ σ₂ r σ'}
    (hb : bindFixed (σ.newFrame (some cenv)).2 (σ.newFrame (some cenv)).1 lam.formals.fixed args = (.ok restArgs, σ₁))
    (hd : EvalsDefs (Ref.bindRest σ₁ (σ.newFrame (some cenv)).1 lam.formals.rest restArgs)
            (σ.newFrame (some cenv)).1 lam.defs (.ok ()) σ₂)
    (hbody : EvalsBody σ₂ (σ.newFrame (some cenv)).1 lam.body r σ') : AppliesScheme σ lam cenv args r σ' := by
  obtain ⟨_, N₁, h₁⟩ := hd.out; obtain ⟨hr, N₂, h₂⟩ := hbody.out
  exact Stable.of_succ hr (max N₁ N₂) fun n hn => by
    show applyScheme (n+1) _ _ _ _ = _
    rw [applyScheme_succ]; simp only [hb, h₁ n (by omega)]; exact h₂ n (by omega)
theorem AppliesScheme.defs_err {σ lam cenv args restArgs σ₁ er σ₂}
    (hb : bindFixed (σ.newFrame (some cenv)).2 (σ.newFrame (some cenv)).1 lam.formals.fixed args = (.ok restArgs, σ₁))
    (hd : EvalsDefs (Ref.bindRest σ₁ (σ.newFrame (some cenv)).1 lam.formals.rest restArgs)
            (σ.newFrame (some cenv)).1 lam.defs (.error er) σ₂) :
    AppliesScheme σ lam cenv args (.error er) σ₂ := by
  obtain ⟨hr, N₁, h₁⟩ := hd.out
  exact Stable.of_succ hr.cast N₁ fun n hn => by
    show applyScheme (n+1) _ _ _ _ = _
    rw [applyScheme_succ]; simp only [hb, h₁ n (by omega)]

theorem EvalsDefs.nil {σ ρ} : EvalsDefs σ ρ [] (.ok ()) σ :=
  Stable.of_succ (by simp) 0 fun n _ => by show evalDefs (n+1) _ _ _ = _; rw [evalDefs]
/-- a definition is evaluated in the frame and bound there before the next one -/
theorem EvalsDefs.cons {σ ρ x e l ds v σ₁ r σ'} (h : Evals σ ρ e (.ok v) σ₁)
    (ht : EvalsDefs (σ₁.define ρ x v) ρ ds r σ') : EvalsDefs σ ρ (.mk x e l :: ds) r σ' := by
  obtain ⟨_, N₁, h₁⟩ := h.out; obtain ⟨hr, N₂, h₂⟩ := ht.out
  exact Stable.of_succ hr (max N₁ N₂) fun n hn => by
    show evalDefs (n+1) _ _ _ = _
    rw [evalDefs, h₁ n (by omega)]; exact h₂ n (by omega)
theorem EvalsDefs.cons_err {σ ρ x e l ds er σ₁} (h : Evals σ ρ e (.error er) σ₁) :
    EvalsDefs σ ρ (.mk x e l :: ds) (.error er) σ₁ := by
  obtain ⟨hr, N₁, h₁⟩ := h.out
  exact Stable.of_succ hr.cast N₁ fun n hn => by
    show evalDefs (n+1) _ _ _ = _
    rw [evalDefs, h₁ n (by omega)]

theorem EvalsBody.last {σ ρ e r σ'} (h : EvalsTail σ ρ e r σ') : EvalsBody σ ρ [e] r σ' := by
  obtain ⟨hr, N, h⟩ := h.out
  exact Stable.of_succ hr N fun n hn => by show evalBody (n+1) _ _ _ = _; rw [evalBody]; exact h n hn
theorem EvalsBody.cons {σ ρ e e' es v σ₁ r σ'} (h : Evals σ ρ e (.ok v) σ₁) (ht : EvalsBody σ₁ ρ (e' :: es) r σ') :
    EvalsBody σ ρ (e :: e' :: es) r σ' := by
  obtain ⟨_, N₁, h₁⟩ := h.out; obtain ⟨hr, N₂, h₂⟩ := ht.out
  exact Stable.of_succ hr (max N₁ N₂) fun n hn => by
    show evalBody (n+1) _ _ _ = _
    rw [evalBody]
    · rw [h₁ n (by omega)]; exact h₂ n (by omega)
    · simp
theorem EvalsBody.cons_err {σ ρ e e' es er σ₁} (h : Evals σ ρ e (.error er) σ₁) :
    EvalsBody σ ρ (e :: e' :: es) (.error er) σ₁ := by
  obtain ⟨hr, N₁, h₁⟩ := h.out
  exact Stable.of_succ hr.cast N₁ fun n hn => by
    show evalBody (n+1) _ _ _ = _
    rw [evalBody]
    · rw [h₁ n (by omega)]
    · simp

/-- a call in tail position is handed back unevaluated -/
theorem EvalsTail.call {σ ρ f args l} : EvalsTail σ ρ (.call f args l) (.ok (.tailCall f args ρ)) σ :=
  Stable.of_succ (by simp) 0 fun n _ => by show evalTail (n+1) _ _ _ = _; rw [evalTail]
theorem EvalsTail.cond_err {σ ρ t c a l er σ₁} (ht : Evals σ ρ t (.error er) σ₁) :
    EvalsTail σ ρ (.cond t c a l) (.error er) σ₁ := by
  obtain ⟨hr, N, h⟩ := ht.out
  exact Stable.of_succ hr.cast N fun n hn => by show evalTail (n+1) _ _ _ = _; rw [evalTail, h n hn]
theorem EvalsTail.cond_true {σ ρ t c a l tv σ₁ r σ'} (ht : Evals σ ρ t (.ok tv) σ₁) (htv : tv.truthy = true)
    (hc : EvalsTail σ₁ ρ c r σ') : EvalsTail σ ρ (.cond t c a l) r σ' := by
  obtain ⟨_, N₁, h₁⟩ := ht.out; obtain ⟨hr, N₂, h₂⟩ := hc.out
  exact Stable.of_succ hr (max N₁ N₂) fun n hn => by
    show evalTail (n+1) _ _ _ = _
    rw [evalTail, h₁ n (by omega)]; simp only [htv, if_true]; exact h₂ n (by omega)
theorem EvalsTail.cond_false {σ ρ t c alt l tv σ₁ r σ'} (ht : Evals σ ρ t (.ok tv) σ₁) (htv : tv.truthy = false)
    (hc : EvalsTail σ₁ ρ alt r σ') : EvalsTail σ ρ (.cond t c (some alt) l) r σ' := by
  obtain ⟨_, N₁, h₁⟩ := ht.out; obtain ⟨hr, N₂, h₂⟩ := hc.out
  exact Stable.of_succ hr (max N₁ N₂) fun n hn => by
    show evalTail (n+1) _ _ _ = _
    rw [evalTail, h₁ n (by omega)]; simp only [htv]; exact h₂ n (by omega)
theorem EvalsTail.cond_void {σ ρ t c l tv σ₁} (ht : Evals σ ρ t (.ok tv) σ₁) (htv : tv.truthy = false) :
    EvalsTail σ ρ (.cond t c none l) (.ok (.value .void)) σ₁ := by
  obtain ⟨_, N₁, h₁⟩ := ht.out
  exact Stable.of_succ (by simp) N₁ fun n hn => by
    show evalTail (n+1) _ _ _ = _
    rw [evalTail, h₁ n (by omega)]; simp [htv]
/-- anything that is neither a call nor an `if` is evaluated -/
theorem EvalsTail.other {σ ρ e v σ'} (hcall : ∀ f as l, e ≠ .call f as l) (hcond : ∀ t c a l, e ≠ .cond t c a l)
    (h : Evals σ ρ e (.ok v) σ') : EvalsTail σ ρ e (.ok (.value v)) σ' := by
  obtain ⟨_, N₁, h₁⟩ := h.out
  exact Stable.of_succ (by simp) N₁ fun n hn => by
    show evalTail (n+1) _ _ _ = _
    unfold evalTail
    split
    · exact absurd rfl (hcall _ _ _)
    · exact absurd rfl (hcond _ _ _ _)
    · rw [h₁ n hn]
theorem EvalsTail.other_err {σ ρ e er σ'} (hcall : ∀ f as l, e ≠ .call f as l) (hcond : ∀ t c a l, e ≠ .cond t c a l)
    (h : Evals σ ρ e (.error er) σ') : EvalsTail σ ρ e (.error er) σ' := by
  obtain ⟨hr, N₁, h₁⟩ := h.out
  exact Stable.of_succ hr.cast N₁ fun n hn => by
    show evalTail (n+1) _ _ _ = _
    unfold evalTail
    split
    · exact absurd rfl (hcall _ _ _)
    · exact absurd rfl (hcond _ _ _ _)
    · rw [h₁ n hn]


/-! ## Inversion: what a settled run of a compound form consists of -/

theorem Evals.cond_inv {σ ρ t c a l r σ'} (h : Evals σ ρ (.cond t c a l) r σ') :
    (∃ er, Evals σ ρ t (.error er) σ' ∧ r = .error er) ∨
    (∃ tv σ₁, Evals σ ρ t (.ok tv) σ₁ ∧
      ((tv.truthy = true ∧ Evals σ₁ ρ c r σ') ∨
       (tv.truthy = false ∧ ∃ alt, a = some alt ∧ Evals σ₁ ρ alt r σ') ∨
       (tv.truthy = false ∧ a = none ∧ r = .ok .void ∧ σ' = σ₁))) := by
  obtain ⟨hr, N, hN⟩ := h.out
  clear h
  have h := hN (N+1) (by omega)
  clear hN
  rw [evalExpr] at h
  split at h
  next er σ₁ heq => cases h; exact .inl ⟨er, Evals.intro heq hr, rfl⟩
  next tv σ₁ heq =>
    refine .inr ⟨tv, σ₁, Evals.intro heq (by simp), ?_⟩
    split at h
    next htv => exact .inl ⟨htv, Evals.intro h hr⟩
    next htv =>
      have htv : tv.truthy = false := by simpa using htv
      split at h
      next alt => exact .inr (.inl ⟨htv, alt, rfl, Evals.intro h hr⟩)
      next => cases h; exact .inr (.inr ⟨htv, rfl, rfl, rfl⟩)

theorem Evals.call_inv {σ ρ f args l r σ'} (h : Evals σ ρ (.call f args l) r σ') :
    (∃ er, Evals σ ρ f (.error er) σ' ∧ r = .error er) ∨
    (∃ fv σ₁ ra σ₂, Evals σ ρ f (.ok fv) σ₁ ∧ EvalsArgs σ₁ ρ args ra σ₂ ∧
      ((procArity fv = none ∧ r = .error (.nonProcedure, f.loc) ∧ σ' = σ₂) ∨
       ((procArity fv).isSome ∧ ∃ er, ra = .error er ∧ r = .error er ∧ σ' = σ₂) ∨
       ((procArity fv).isSome ∧ ∃ vs, ra = .ok vs ∧ AppliesProc σ₂ fv vs ρ r σ'))) := by
  obtain ⟨hr, N, hN⟩ := h.out
  clear h
  have h := hN (N+1) (by omega)
  clear hN
  rw [evalExpr] at h
  split at h
  next er σ₁ heq => cases h; exact .inl ⟨er, Evals.intro heq hr, rfl⟩
  next fv σ₁ heq =>
    split at h
    next ra σ₂ hargs =>
      refine .inr ⟨fv, σ₁, ra, σ₂, Evals.intro heq (by simp), ?_⟩
      split at h
      next a hpa =>
        split at h
        next er => cases h; exact ⟨EvalsArgs.intro hargs hr.cast, .inr (.inl ⟨by simp [hpa], er, rfl, rfl, rfl⟩)⟩
        next vs => exact ⟨EvalsArgs.intro hargs (by simp), .inr (.inr ⟨by simp [hpa], vs, rfl, AppliesProc.intro h hr⟩)⟩
      next hpa =>
        split at h
        next l => cases h; simp at hr
        next hnf =>
          cases h
          refine ⟨EvalsArgs.intro hargs ?_, .inl ⟨hpa, rfl, rfl⟩⟩
          cases ra with
          | ok _ => simp
          | error e =>
            obtain ⟨e, l⟩ := e
            by_cases he : e = .fuel
            · subst he; exact absurd rfl (hnf l)
            · exact .error_of he

theorem EvalsArgs.nil_inv {σ ρ r σ'} (h : EvalsArgs σ ρ [] r σ') : r = .ok [] ∧ σ' = σ := by
  obtain ⟨_, N, hN⟩ := h.out
  clear h
  have h := hN (N+1) (by omega)
  clear hN
  rw [evalArgs] at h; cases h; exact ⟨rfl, rfl⟩

theorem EvalsArgs.cons_inv {σ ρ a as r σ'} (h : EvalsArgs σ ρ (a :: as) r σ') :
    (∃ er, Evals σ ρ a (.error er) σ' ∧ r = .error er) ∨
    (∃ v σ₁, Evals σ ρ a (.ok v) σ₁ ∧
      ((∃ er, EvalsArgs σ₁ ρ as (.error er) σ' ∧ r = .error er) ∨
       (∃ vs, EvalsArgs σ₁ ρ as (.ok vs) σ' ∧ r = .ok (v :: vs)))) := by
  obtain ⟨hr, N, hN⟩ := h.out
  clear h
  have h := hN (N+1) (by omega)
  clear hN
  rw [evalArgs] at h
  split at h
  next er σ₁ heq => cases h; exact .inl ⟨er, Evals.intro heq hr.cast, rfl⟩
  next v σ₁ heq =>
    refine .inr ⟨v, σ₁, Evals.intro heq (by simp), ?_⟩
    split at h
    next er σ₂ heq2 => cases h; exact .inl ⟨er, EvalsArgs.intro heq2 hr, rfl⟩
    next vs σ₂ heq2 => cases h; exact .inr ⟨vs, EvalsArgs.intro heq2 (by simp), rfl⟩

/-- `evalArgs` is the left-to-right `mapM` of `Evals` -/
theorem evalsArgs_iff_mapEvals {σ ρ es r σ'} : EvalsArgs σ ρ es r σ' ↔ Ref.MapEvals (fun σ e r σ' => Evals σ ρ e r σ') σ es r σ' := by
  induction es generalizing σ r σ' with
  | nil =>
    simp only [Ref.MapEvals]
    exact ⟨fun h => h.nil_inv, fun ⟨h₁, h₂⟩ => h₁ ▸ h₂ ▸ EvalsArgs.nil⟩
  | cons a as ih =>
    simp only [Ref.MapEvals]
    constructor
    · intro h
      rcases h.cons_inv with ⟨er, h₁, rfl⟩ | ⟨v, σ₁, h₁, ⟨er, h₂, rfl⟩ | ⟨vs, h₂, rfl⟩⟩
      · exact .inl ⟨er, h₁, rfl⟩
      · exact .inr ⟨v, σ₁, h₁, .inl ⟨er, ih.mp h₂, rfl⟩⟩
      · exact .inr ⟨v, σ₁, h₁, .inr ⟨vs, ih.mp h₂, rfl⟩⟩
    · rintro (⟨er, h₁, rfl⟩ | ⟨v, σ₁, h₁, ⟨er, h₂, rfl⟩ | ⟨vs, h₂, rfl⟩⟩)
      · exact .cons_err h₁
      · exact .cons_tail_err h₁ (ih.mpr h₂)
      · exact .cons h₁ (ih.mpr h₂)

/-- with enough fuel for the whole list, `evalArgs` is literally `mapEval` of `evalExpr` at that fuel -/
theorem evalArgs_eq_mapEval {n σ ρ es r σ'} (h : evalArgs n σ ρ es = (r, σ')) (hr : NotFuel r) :
    Ref.mapEval (fun σ e => evalExpr n σ ρ e) σ es = (r, σ') := by
  induction es generalizing n σ r σ' with
  | nil =>
    cases n with
    | zero => rw [evalArgs] at h; cases h; simp at hr
    | succ n => rw [evalArgs] at h; exact h
  | cons a as ih =>
    cases n with
    | zero => rw [evalArgs] at h; cases h; simp at hr
    | succ n =>
      rw [evalArgs] at h
      simp only [Ref.mapEval]
      split at h
      next er σ₁ heq => cases h; rw [evalExpr_mono_le heq hr.cast (Nat.le_succ n)]
      next v σ₁ heq =>
        rw [evalExpr_mono_le heq (by simp) (Nat.le_succ n)]; simp only
        split at h
        next er σ₂ heq2 =>
          cases h
          rw [ih (evalArgs_mono_le heq2 hr (Nat.le_succ n)) hr]
        next vs σ₂ heq2 =>
          cases h
          rw [ih (evalArgs_mono_le heq2 (by simp) (Nat.le_succ n)) (by simp)]

/-! ## Variable lookup and the parent chain -/

theorem lookupAux_eq_chainAux {σ : Store} (h : Ref.ParentsOlder σ) (x : String) :
    ∀ k₁ k₂ ρ, ρ < k₁ → ρ < k₂ →
      σ.lookupAux k₁ ρ x = (Ref.chainAux σ k₂ ρ).findSome? (Ref.frameBinding σ x) := by
  intro k₁
  induction k₁ with
  | zero => intro k₂ ρ h1; omega
  | succ k₁ ih =>
    intro k₂ ρ h1 h2
    obtain ⟨k₂, rfl⟩ : ∃ m, k₂ = m + 1 := ⟨k₂ - 1, by omega⟩
    rw [Store.lookupAux, Ref.chainAux]
    cases hf : σ.frames[ρ]? with
    | none => simp
    | some f =>
      simp only [List.findSome?_cons, Ref.frameBinding, hf, Option.bind_some]
      cases hx : f.defs.lookup x with
      | some v => simp
      | none =>
        simp only
        cases hp : f.parent with
        | none => simp
        | some p =>
          have hlt := h ρ f p hf hp
          simp only [hlt, if_true]
          exact ih k₂ p (by omega) (by omega)

theorem lookup_eq_chain {σ : Store} (h : Ref.ParentsOlder σ) (ρ : Nat) (x : String) :
    σ.lookup ρ x = (Ref.chain σ ρ).findSome? (Ref.frameBinding σ x) := by
  unfold Store.lookup Ref.chain
  by_cases hρ : ρ < σ.frames.size
  · exact lookupAux_eq_chainAux h x _ _ ρ (by omega) hρ
  · have : σ.frames[ρ]? = none := by simp; omega
    rw [Store.lookupAux]; simp only [this]
    cases hs : σ.frames.size with
    | zero => simp [Ref.chainAux]
    | succ k => simp [Ref.chainAux, this]


theorem parentsOlder_empty : Ref.ParentsOlder {} := by
  intro i f p h; simp at h

theorem parentsOlder_newFrame {σ : Store} (h : Ref.ParentsOlder σ) {parent : Option Nat}
    (hp : ∀ p, parent = some p → p < σ.frames.size) : Ref.ParentsOlder (σ.newFrame parent).2 := by
  intro i f p hf hfp
  simp only [Store.newFrame] at hf
  rw [Array.getElem?_push] at hf
  split at hf
  next hi' => cases hf; exact hi' ▸ hp p hfp
  next hi' => exact h i f p hf hfp

theorem parentsOlder_define {σ : Store} (h : Ref.ParentsOlder σ) (ρ : Nat) (k : String) (v : Value) :
    Ref.ParentsOlder (σ.define ρ k v) := by
  intro i f p hf hfp
  unfold Store.define at hf
  split at hf
  next hρ =>
    simp only [Array.getElem?_modify] at hf
    split at hf
    next hi =>
      cases hg : σ.frames[i]? with
      | none => simp [hg] at hf
      | some g =>
        simp only [hg, Option.map_some, Option.some.injEq] at hf
        subst hf
        exact h i g p hg hfp
    next => exact h i f p hf hfp
  next => exact h i f p hf hfp

end Ruschm.Eval

namespace Ruschm
open Prim Eval

/-! ## `Store.erase`: the depth instrumentation is never read -/

/-- a step followed by erasure -/
def Res.eraseStore {α} (r : Res α) : Res α := (r.1, r.2.erase)

@[simp] theorem Store.erase_vecs (σ : Store) : σ.erase.vecs = σ.vecs := rfl
@[simp] theorem Store.erase_frames (σ : Store) : σ.erase.frames = σ.frames := rfl
@[simp] theorem Store.erase_out (σ : Store) : σ.erase.out = σ.out := rfl
@[simp] theorem Store.erase_ticks (σ : Store) : σ.erase.ticks = σ.ticks := rfl
@[simp] theorem Store.erase_erase (σ : Store) : σ.erase.erase = σ.erase := rfl
@[simp] theorem Store.erase_enter (σ : Store) : (enter σ).erase = σ.erase := rfl
@[simp] theorem Store.erase_leave (σ : Store) : (leave σ).erase = σ.erase := rfl

theorem Store.erase_define (σ : Store) (ρ k v) : (σ.define ρ k v).erase = σ.erase.define ρ k v := by
  unfold Store.define
  by_cases h : ρ < σ.frames.size
  · simp [h, Store.erase]
  · simp [h]

theorem Store.lookupAux_congr {σ τ : Store} (h : σ.frames = τ.frames) (n ρ k) :
    σ.lookupAux n ρ k = τ.lookupAux n ρ k := by
  induction n generalizing ρ with
  | zero => rfl
  | succ n ih => simp only [Store.lookupAux, h, ih]

@[simp] theorem Store.erase_lookup (σ : Store) (ρ k) : σ.erase.lookup ρ k = σ.lookup ρ k :=
  Store.lookupAux_congr (σ := σ.erase) (τ := σ) rfl _ _ _

theorem Store.resolveAux_congr {σ τ : Store} (h : σ.frames = τ.frames) (n ρ k) :
    σ.resolveAux n ρ k = τ.resolveAux n ρ k := by
  induction n generalizing ρ with
  | zero => rfl
  | succ n ih => simp only [Store.resolveAux, h, ih]

theorem Store.erase_set (σ : Store) (ρ k v) : σ.erase.set ρ k v = ((σ.set ρ k v).1, (σ.set ρ k v).2.erase) := by
  unfold Store.set Store.resolve
  rw [Store.resolveAux_congr (σ := σ.erase) (τ := σ) rfl]
  split
  · simp [Store.erase_define]
  · rfl

theorem Store.erase_newFrame (σ : Store) (p) :
    σ.erase.newFrame p = ((σ.newFrame p).1, (σ.newFrame p).2.erase) := rfl

theorem Store.erase_allocVec (σ : Store) (m items) :
    σ.erase.allocVec m items = ((σ.allocVec m items).1, (σ.allocVec m items).2.erase) := rfl

theorem bindFixed_erase (σ : Store) (ρ fs as) :
    bindFixed σ.erase ρ fs as = ((bindFixed σ ρ fs as).1, (bindFixed σ ρ fs as).2.erase) := by
  induction fs generalizing σ as with
  | nil => rfl
  | cons f fs ih =>
    cases as with
    | nil => rfl
    | cons a as => simp only [bindFixed]; rw [← ih, Store.erase_define]

theorem bindRest_erase (σ : Store) (ρ rest ra) : (Ref.bindRest σ ρ rest ra).erase = Ref.bindRest σ.erase ρ rest ra := by
  cases rest <;> simp [Ref.bindRest, Store.erase_define]

mutual
theorem readLiteral_erase : ∀ (d : Datum) (σ : Store), readLiteral σ.erase d = (readLiteral σ d).eraseStore
  | .prim p l, σ => by rw [readLiteral, readLiteral]; cases evalPrim p <;> rfl
  | .sym s l, σ => by rw [readLiteral, readLiteral]; rfl
  | .nil l, σ => by rw [readLiteral, readLiteral]; rfl
  | .pair a d l, σ => by
    rw [readLiteral, readLiteral, readLiteral_erase a σ]
    cases h : readLiteral σ a with
    | mk r σ₁ =>
      cases r with
      | error e => rfl
      | ok va =>
        simp only [Res.eraseStore]
        rw [readLiteral_erase d σ₁]
        cases h2 : readLiteral σ₁ d with
        | mk r2 σ₂ => cases r2 <;> rfl
  | .vec xs l, σ => by
    rw [readLiteral, readLiteral, readLiterals_erase xs σ]
    cases h : readLiterals σ xs with
    | mk r σ₁ => cases r <;> rfl
theorem readLiterals_erase : ∀ (ds : List Datum) (σ : Store), readLiterals σ.erase ds = (readLiterals σ ds).eraseStore
  | [], σ => by rw [readLiterals, readLiterals]; rfl
  | x :: xs, σ => by
    rw [readLiterals, readLiterals, readLiteral_erase x σ]
    cases h : readLiteral σ x with
    | mk r σ₁ =>
      cases r with
      | error e => rfl
      | ok va =>
        simp only [Res.eraseStore]
        rw [readLiterals_erase xs σ₁]
        cases h2 : readLiterals σ₁ xs with
        | mk r2 σ₂ => cases r2 <;> rfl
end


theorem display_congr {σ τ : Store} (h : σ.vecs = τ.vecs) : ∀ n v, display σ n v = display τ n v ∧ displayTail σ n v = displayTail τ n v := by
  intro n
  induction n with
  | zero => intro v; exact ⟨by unfold display; rfl, by unfold displayTail; rfl⟩
  | succ n ih =>
    intro v
    have e1 : display σ n = display τ n := funext fun v => (ih v).1
    have e2 : displayTail σ n = displayTail τ n := funext fun v => (ih v).2
    constructor
    · unfold display; rw [e1, e2, h]
    · unfold displayTail; rw [e1, e2]

theorem canon_congr {σ τ : Store} (h : σ.vecs = τ.vecs) : ∀ n v, canon σ n v = canon τ n v ∧ canonTail σ n v = canonTail τ n v := by
  intro n
  induction n with
  | zero => intro v; exact ⟨by unfold canon; rfl, by unfold canonTail; rfl⟩
  | succ n ih =>
    intro v
    have e1 : canon σ n = canon τ n := funext fun v => (ih v).1
    have e2 : canonTail σ n = canonTail τ n := funext fun v => (ih v).2
    constructor
    · unfold canon; rw [e1, e2, h]
    · unfold canonTail; rw [e1, e2]

theorem lift_erase {α} (σ : Store) (r : Except Err α) (k : α → Value) : lift σ.erase r k = (lift σ r k).eraseStore := by
  cases r <;> rfl
theorem num1_erase (σ : Store) (args b f) : num1 σ.erase args b f = (num1 σ args b f).eraseStore := by
  unfold num1; split
  · split
    · rfl
    · split <;> rfl
  · rfl
theorem num2_erase (σ : Store) (args b f) : num2 σ.erase args b f = (num2 σ args b f).eraseStore := by
  unfold num2; split
  · split
    · rfl
    · split
      · rfl
      · split <;> rfl
  · rfl

theorem applyPure_erase (σ : Store) (b : Builtin) (args : List Value) :
    applyPure σ.erase b args = (applyPure σ b args).eraseStore := by
  have hd := fun n v => (display_congr (σ := σ.erase) (τ := σ) rfl n v).1
  have hc := fun n v => (canon_congr (σ := σ.erase) (τ := σ) rfl n v).1
  cases b
  case display =>
    simp only [applyPure]; split
    · rw [hd]; rfl
    · rfl
  case tick =>
    simp only [applyPure]; split
    · rw [hc]; rfl
    · rfl
  all_goals simp only [applyPure, lift_erase, num1_erase, num2_erase, realFn, realFn2, Store.erase_vecs]
  all_goals try rfl
  all_goals (repeat' split)
  all_goals try rfl
  all_goals done

end Ruschm

namespace Ruschm.Ref
open Prim Eval

/-! ## Fuel monotonicity of the reference evaluator -/

structure Mono (n : Nat) : Prop where
  eval : ∀ {σ ρ e r σ'}, eval n σ ρ e = (r, σ') → NotFuel r → eval (n+1) σ ρ e = (r, σ')
  list : ∀ {σ ρ es r σ'}, evalList n σ ρ es = (r, σ') → NotFuel r → evalList (n+1) σ ρ es = (r, σ')
  apply : ∀ {σ p as r σ'}, apply n σ p as = (r, σ') → NotFuel r → apply (n+1) σ p as = (r, σ')
  defs : ∀ {σ ρ ds r σ'}, evalDefs n σ ρ ds = (r, σ') → NotFuel r → evalDefs (n+1) σ ρ ds = (r, σ')
  seq : ∀ {σ ρ es r σ'}, evalSeq n σ ρ es = (r, σ') → NotFuel r → evalSeq (n+1) σ ρ es = (r, σ')

theorem mono_eval {n} (ih : Mono n) {σ ρ e r σ'} (h : eval (n+1) σ ρ e = (r, σ')) (hr : NotFuel r) :
    eval (n+2) σ ρ e = (r, σ') := by
  cases e with
  | prim p l => rw [eval] at h ⊢; exact h
  | datum d l => rw [eval] at h ⊢; exact h
  | quote d l => rw [eval] at h ⊢; exact h
  | lambda lam l => rw [eval] at h ⊢; exact h
  | sym s l => rw [eval] at h ⊢; exact h
  | assign name ve l =>
    rw [eval] at h ⊢
    split at h
    next er σ1 heq => cases h; rw [ih.eval heq hr]
    next v σ1 heq => rw [ih.eval heq (by simp)]; exact h
  | cond t c a l =>
    rw [eval] at h ⊢
    split at h
    next er σ1 heq => cases h; rw [ih.eval heq hr]
    next v σ1 heq =>
      rw [ih.eval heq (by simp)]; simp only
      split at h
      · rw [if_pos ‹_›]; exact ih.eval h hr
      · rw [if_neg ‹_›]
        split at h
        · exact ih.eval h hr
        · exact h
  | call f args l =>
    rw [eval] at h ⊢
    split at h
    next er σ1 heq => cases h; rw [ih.eval heq hr]
    next v σ1 heq =>
      rw [ih.eval heq (by simp)]; simp only
      split at h
      next rargs σ2 hargs =>
        by_cases hfa : NotFuel rargs
        · rw [ih.list hargs hfa]; simp only
          split at h
          · split at h
            · exact h
            · exact h
          · split at h
            · exact h
            · exact ih.apply h hr
        · exfalso
          cases rargs with
          | ok _ => simp at hfa
          | error e =>
            obtain ⟨e, l⟩ := e
            cases e <;> simp [NotFuel, isFuel] at hfa
            split at h <;> simp at h <;> cases h.1 <;> simp at hr

theorem mono_list {n} (ih : Mono n) {σ ρ es r σ'} (h : evalList (n+1) σ ρ es = (r, σ')) (hr : NotFuel r) :
    evalList (n+2) σ ρ es = (r, σ') := by
  cases es with
  | nil => rw [evalList] at h ⊢; exact h
  | cons a as =>
    rw [evalList] at h ⊢
    split at h
    next er σ1 heq => cases h; rw [ih.eval heq hr.cast]
    next v σ1 heq =>
      rw [ih.eval heq (by simp)]; simp only
      split at h
      next er σ2 heq2 => cases h; rw [ih.list heq2 hr]
      next vs σ2 heq2 => rw [ih.list heq2 (by simp)]; exact h

theorem mono_defs {n} (ih : Mono n) {σ ρ ds r σ'} (h : evalDefs (n+1) σ ρ ds = (r, σ'))
    (hr : NotFuel r) : evalDefs (n+2) σ ρ ds = (r, σ') := by
  cases ds with
  | nil => rw [evalDefs] at h ⊢; exact h
  | cons d ds =>
    obtain ⟨name, e, l⟩ := d
    rw [evalDefs] at h ⊢
    split at h
    next er σ1 heq => cases h; rw [ih.eval heq hr.cast]
    next v σ1 heq => rw [ih.eval heq (by simp)]; exact ih.defs h hr

theorem mono_seq {n} (ih : Mono n) {σ ρ es r σ'} (h : evalSeq (n+1) σ ρ es = (r, σ'))
    (hr : NotFuel r) : evalSeq (n+2) σ ρ es = (r, σ') := by
  match es with
  | [] => rw [evalSeq] at h ⊢; exact h
  | [last] => rw [evalSeq] at h ⊢; exact ih.eval h hr
  | e :: e2 :: es =>
    rw [evalSeq] at h ⊢
    · split at h
      next er σ1 heq => cases h; rw [ih.eval heq hr]
      next v σ1 heq => rw [ih.eval heq (by simp)]; exact ih.seq h hr
    all_goals simp

theorem mono_apply {n} (ih : Mono n) {σ p as r σ'} (h : apply (n+1) σ p as = (r, σ'))
    (hr : NotFuel r) : apply (n+2) σ p as = (r, σ') := by
  unfold apply at h ⊢
  split at h
  · exact h
  next fixed variadic hpa =>
    split at h
    · rw [if_pos ‹_›]; exact h
    · rw [if_neg ‹_›]
      split at h
      · split at h
        · exact h
        next f args' hsp => exact ih.apply h hr
      · exact h
      · simp only at h ⊢
        split at h
        · exact h
        · split at h
          next er σ2 heq => cases h; rw [ih.defs heq hr.cast]
          next σ2 heq => rw [ih.defs heq (by simp)]; exact ih.seq h hr
      · exact h

theorem mono_all : ∀ n, Mono n
  | 0 => by
    constructor <;> intro _ _ _ <;> intros <;> rename_i h hr <;>
      simp only [eval, evalList, apply, evalDefs, evalSeq] at h <;>
      cases h <;> simp at hr
  | n+1 =>
    have ih := mono_all n
    ⟨mono_eval ih, mono_list ih, mono_apply ih, mono_defs ih, mono_seq ih⟩

theorem eval_mono_le {n m σ ρ e r σ'} (h : eval n σ ρ e = (r, σ')) (hr : NotFuel r) (hnm : n ≤ m) :
    eval m σ ρ e = (r, σ') :=
  mono_le (f := fun n => eval n σ ρ e) (fun n _ _ h hr => (mono_all n).eval h hr) h hr hnm
theorem evalList_mono_le {n m σ ρ es r σ'} (h : evalList n σ ρ es = (r, σ')) (hr : NotFuel r) (hnm : n ≤ m) :
    evalList m σ ρ es = (r, σ') :=
  mono_le (f := fun n => evalList n σ ρ es) (fun n _ _ h hr => (mono_all n).list h hr) h hr hnm
theorem apply_mono_le {n m σ p as r σ'} (h : apply n σ p as = (r, σ')) (hr : NotFuel r) (hnm : n ≤ m) :
    apply m σ p as = (r, σ') :=
  mono_le (f := fun n => apply n σ p as) (fun n _ _ h hr => (mono_all n).apply h hr) h hr hnm
theorem evalDefs_mono_le {n m σ ρ ds r σ'} (h : evalDefs n σ ρ ds = (r, σ')) (hr : NotFuel r) (hnm : n ≤ m) :
    evalDefs m σ ρ ds = (r, σ') :=
  mono_le (f := fun n => evalDefs n σ ρ ds) (fun n _ _ h hr => (mono_all n).defs h hr) h hr hnm
theorem evalSeq_mono_le {n m σ ρ es r σ'} (h : evalSeq n σ ρ es = (r, σ')) (hr : NotFuel r) (hnm : n ≤ m) :
    evalSeq m σ ρ es = (r, σ') :=
  mono_le (f := fun n => evalSeq n σ ρ es) (fun n _ _ h hr => (mono_all n).seq h hr) h hr hnm

/-! ## The model refines the reference -/

theorem AgreeErr.refl (e : SErr) : AgreeErr e e := .inl rfl
theorem Agree.refl {α} (r : Except SErr α) : Agree r r := by
  cases r <;> simp [Agree, AgreeErr]
theorem Agree.ok_iff {α} {a : α} {r' : Except SErr α} : Agree (.ok a) r' ↔ r' = .ok a := by
  cases r' <;> simp [Agree, eq_comm]
theorem Agree.error_iff {α} {e : SErr} {r' : Except SErr α} :
    Agree (.error e) r' ↔ ∃ e', r' = .error e' ∧ AgreeErr e e' := by
  cases r' <;> simp [Agree]
theorem AgreeErr.notFuel {α β} {e e' : SErr} (h : AgreeErr e e') (hr : NotFuel (.error e : Except SErr α)) :
    NotFuel (.error e' : Except SErr β) := by
  rcases h with rfl | ⟨l, rfl⟩
  · exact hr.cast
  · exact .error_of (by simp)
theorem Agree.notFuel {α} {r r' : Except SErr α} (h : Agree r r') (hr : NotFuel r) : NotFuel r' := by
  cases r with
  | ok a => rw [Agree.ok_iff.mp h]; simp
  | error e => obtain ⟨e', rfl, he⟩ := Agree.error_iff.mp h; exact he.notFuel hr

/-- the location of a call expression plays no role in the reference -/
theorem eval_call_loc (m σ ρ f args l l') : eval m σ ρ (.call f args l) = eval m σ ρ (.call f args l') := by
  cases m with
  | zero => rw [eval, eval]
  | succ m => rw [eval, eval]

/-- What the outcome of a procedure body in the model (a value, an error, or a PENDING TAIL CALL)
means for a direct-style run `run` of the same body: a value or an error is `run`'s outcome; a
pending call `(f, args, env)` in store `σ₁` promises that whatever the reference makes of the call
`(f args…)` in `env`, from `σ₁`, is `run`'s outcome. -/
def TailOK (run : Nat → Res Value) (rt : Except SErr TailRes) (σ₁ : Store) : Prop :=
  match rt with
  | .error er => ∃ m er', run m = (.error er', σ₁.erase) ∧ AgreeErr er er'
  | .ok (.value v) => ∃ m, run m = (.ok v, σ₁.erase)
  | .ok (.tailCall f targs tenv) =>
    ∀ m r σ₂, eval m σ₁.erase tenv (.call f targs none) = (r, σ₂) → NotFuel r → ∃ m', run m' = (r, σ₂)

theorem TailOK.lift {inner outer : Nat → Res Value} {rt σ₁} (hnf : NotFuel rt)
    (h : ∀ m r s, inner m = (r, s) → NotFuel r → ∃ m', outer m' = (r, s)) (ht : TailOK inner rt σ₁) :
    TailOK outer rt σ₁ := by
  cases rt with
  | error er =>
    obtain ⟨m, er', hm, ha⟩ := ht
    obtain ⟨m', hm'⟩ := h m _ _ hm (ha.notFuel (α := TailRes) hnf)
    exact ⟨m', er', hm', ha⟩
  | ok t =>
    cases t with
    | value v =>
      obtain ⟨m, hm⟩ := ht
      obtain ⟨m', hm'⟩ := h m _ _ hm (by simp)
      exact ⟨m', hm'⟩
    | tailCall f targs tenv =>
      intro m r σ₂ hm hr
      obtain ⟨m₁, hm₁⟩ := ht m r σ₂ hm hr
      exact h m₁ _ _ hm₁ hr

structure Refines (n : Nat) : Prop where
  expr : ∀ {σ ρ e r σ'}, evalExpr n σ ρ e = (r, σ') → NotFuel r →
    ∃ m r', eval m σ.erase ρ e = (r', σ'.erase) ∧ Agree r r'
  args : ∀ {σ ρ es r σ'}, evalArgs n σ ρ es = (r, σ') → NotFuel r →
    ∃ m r', evalList m σ.erase ρ es = (r', σ'.erase) ∧ Agree r r'
  proc : ∀ {σ p as env r σ'}, applyProcedure n σ p as env = (r, σ') → NotFuel r →
    ∃ m r', apply m σ.erase p as = (r', σ'.erase) ∧ Agree r r'
  loop : ∀ {σ p as env r σ'}, applyLoop n σ p as env = (r, σ') → NotFuel r →
    ∃ m r', apply m σ.erase p as = (r', σ'.erase) ∧ Agree r r'
  scheme : ∀ {σ lam cenv as rt σ₁}, applyScheme n σ lam cenv as = (rt, σ₁) → NotFuel rt →
    arityOk lam.formals.fixed.length lam.formals.rest.isSome as.length = true →
    TailOK (fun m => apply m σ.erase (.closure lam cenv) as) rt σ₁
  defs : ∀ {σ ρ ds r σ'}, Eval.evalDefs n σ ρ ds = (r, σ') → NotFuel r →
    ∃ m r', evalDefs m σ.erase ρ ds = (r', σ'.erase) ∧ Agree r r'
  body : ∀ {σ ρ es rt σ₁}, evalBody n σ ρ es = (rt, σ₁) → NotFuel rt →
    TailOK (fun m => evalSeq m σ.erase ρ es) rt σ₁
  tail : ∀ {σ ρ e rt σ₁}, evalTail n σ ρ e = (rt, σ₁) → NotFuel rt →
    TailOK (fun m => eval m σ.erase ρ e) rt σ₁

section
variable {n : Nat} (ih : Refines n)
include ih

theorem Refines.expr_ok {σ ρ e v σ'} (h : evalExpr n σ ρ e = (.ok v, σ')) :
    ∃ m, eval m σ.erase ρ e = (.ok v, σ'.erase) := by
  obtain ⟨m, r', hm, ha⟩ := ih.expr h (by simp)
  rw [Agree.ok_iff.mp ha] at hm; exact ⟨m, hm⟩
theorem Refines.expr_err {σ ρ e er σ'} (h : evalExpr n σ ρ e = (.error er, σ')) (hr : NotFuel (.error er : Except SErr Value)) :
    ∃ m er', eval m σ.erase ρ e = (.error er', σ'.erase) ∧ AgreeErr er er' := by
  obtain ⟨m, r', hm, ha⟩ := ih.expr h hr
  obtain ⟨e', rfl, he⟩ := Agree.error_iff.mp ha
  exact ⟨m, e', hm, he⟩
theorem Refines.args_ok {σ ρ es vs σ'} (h : evalArgs n σ ρ es = (.ok vs, σ')) :
    ∃ m, evalList m σ.erase ρ es = (.ok vs, σ'.erase) := by
  obtain ⟨m, r', hm, ha⟩ := ih.args h (by simp)
  rw [Agree.ok_iff.mp ha] at hm; exact ⟨m, hm⟩
theorem Refines.args_err {σ ρ es er σ'} (h : evalArgs n σ ρ es = (.error er, σ')) (hr : NotFuel (.error er : Except SErr (List Value))) :
    ∃ m er', evalList m σ.erase ρ es = (.error er', σ'.erase) ∧ AgreeErr er er' := by
  obtain ⟨m, r', hm, ha⟩ := ih.args h hr
  obtain ⟨e', rfl, he⟩ := Agree.error_iff.mp ha
  exact ⟨m, e', hm, he⟩
theorem Refines.defs_ok {σ ρ ds σ'} (h : Eval.evalDefs n σ ρ ds = (.ok (), σ')) :
    ∃ m, evalDefs m σ.erase ρ ds = (.ok (), σ'.erase) := by
  obtain ⟨m, r', hm, ha⟩ := ih.defs h (by simp)
  rw [Agree.ok_iff.mp ha] at hm; exact ⟨m, hm⟩
theorem Refines.defs_err {σ ρ ds er σ'} (h : Eval.evalDefs n σ ρ ds = (.error er, σ')) (hr : NotFuel (.error er : Except SErr Unit)) :
    ∃ m er', evalDefs m σ.erase ρ ds = (.error er', σ'.erase) ∧ AgreeErr er er' := by
  obtain ⟨m, r', hm, ha⟩ := ih.defs h hr
  obtain ⟨e', rfl, he⟩ := Agree.error_iff.mp ha
  exact ⟨m, e', hm, he⟩

theorem refines_expr {σ ρ e r σ'} (h : evalExpr (n+1) σ ρ e = (r, σ')) (hr : NotFuel r) :
    ∃ m r', eval m σ.erase ρ e = (r', σ'.erase) ∧ Agree r r' := by
  cases e with
  | prim p l =>
    rw [evalExpr] at h
    refine ⟨1, r, ?_, Agree.refl _⟩
    rw [eval]; cases hp : evalPrim p <;> simp only [hp] at h ⊢ <;> cases h <;> rfl
  | datum d l =>
    rw [evalExpr] at h
    refine ⟨1, r, ?_, Agree.refl _⟩
    rw [eval, readLiteral_erase, h]; rfl
  | quote d l =>
    rw [evalExpr] at h
    refine ⟨1, r, ?_, Agree.refl _⟩
    rw [eval, readLiteral_erase, h]; rfl
  | lambda lam l =>
    rw [evalExpr] at h; cases h
    exact ⟨1, _, by rw [eval], Agree.refl _⟩
  | sym s l =>
    rw [evalExpr] at h
    refine ⟨1, r, ?_, Agree.refl _⟩
    rw [eval, Store.erase_lookup]; cases hl : σ.lookup ρ s <;> simp only [hl] at h ⊢ <;> cases h <;> rfl
  | assign name ve l =>
    rw [evalExpr] at h
    split at h
    next er σ1 heq =>
      cases h
      obtain ⟨m, er', hm, ha⟩ := ih.expr_err heq hr
      exact ⟨m+1, .error er', by rw [eval, hm], ha⟩
    next v σ1 heq =>
      obtain ⟨m, hm⟩ := ih.expr_ok heq
      refine ⟨m+1, r, ?_, Agree.refl _⟩
      rw [eval, hm]; simp only [Store.erase_set]
      split at h <;> rename_i hs <;> cases h <;> simp [hs]
  | cond t c a l =>
    rw [evalExpr] at h
    split at h
    next er σ1 heq =>
      cases h
      obtain ⟨m, er', hm, ha⟩ := ih.expr_err heq hr
      exact ⟨m+1, .error er', by rw [eval, hm], ha⟩
    next tv σ1 heq =>
      obtain ⟨m₁, hm₁⟩ := ih.expr_ok heq
      split at h
      next htv =>
        obtain ⟨m₂, r', hm₂, ha⟩ := ih.expr h hr
        refine ⟨max m₁ m₂ + 1, r', ?_, ha⟩
        rw [eval, eval_mono_le hm₁ (by simp) (Nat.le_max_left ..)]
        simp only [htv, if_true]
        exact eval_mono_le hm₂ (ha.notFuel hr) (Nat.le_max_right ..)
      next htv =>
        split at h
        next alt =>
          obtain ⟨m₂, r', hm₂, ha⟩ := ih.expr h hr
          refine ⟨max m₁ m₂ + 1, r', ?_, ha⟩
          rw [eval, eval_mono_le hm₁ (by simp) (Nat.le_max_left ..)]
          simp only [htv]
          exact eval_mono_le hm₂ (ha.notFuel hr) (Nat.le_max_right ..)
        next =>
          cases h
          refine ⟨m₁ + 1, _, ?_, Agree.refl _⟩
          rw [eval, hm₁]; simp [htv]
  | call f args l =>
    rw [evalExpr] at h
    split at h
    next er σ1 heq =>
      cases h
      obtain ⟨m, er', hm, ha⟩ := ih.expr_err heq hr
      exact ⟨m+1, .error er', by rw [eval, hm], ha⟩
    next fv σ1 heq =>
      obtain ⟨m₁, hm₁⟩ := ih.expr_ok heq
      split at h
      next ra σ2 hargs =>
        cases hpa : procArity fv with
        | none =>
          simp only [hpa] at h
          split at h
          · cases h; simp at hr
          next hnf =>
            cases h
            have hra : NotFuel ra := by
              cases ra with
              | ok _ => simp
              | error e =>
                obtain ⟨e, l⟩ := e
                by_cases he : e = .fuel
                · subst he; exact absurd rfl (hnf l)
                · exact .error_of he
            obtain ⟨m₂, ra', hm₂, ha⟩ := ih.args hargs hra
            refine ⟨max m₁ m₂ + 1, _, ?_, Agree.refl _⟩
            rw [eval, eval_mono_le hm₁ (by simp) (Nat.le_max_left ..)]
            simp only
            rw [evalList_mono_le hm₂ (ha.notFuel hra) (Nat.le_max_right ..)]
            simp only [hpa]
            have := ha.notFuel hra
            split
            · simp at this
            · rfl
        | some ar =>
          simp only [hpa] at h
          split at h
          next er =>
            cases h
            obtain ⟨m₂, er', hm₂, ha⟩ := ih.args_err hargs hr.cast
            refine ⟨max m₁ m₂ + 1, .error er', ?_, ha⟩
            rw [eval, eval_mono_le hm₁ (by simp) (Nat.le_max_left ..)]
            simp only
            rw [evalList_mono_le hm₂ (ha.notFuel (α := Value) hr) (Nat.le_max_right ..)]
            simp only [hpa]
          next vs =>
            obtain ⟨m₂, hm₂⟩ := ih.args_ok hargs
            obtain ⟨m₃, r', hm₃, ha⟩ := ih.proc h hr
            refine ⟨max m₁ (max m₂ m₃) + 1, r', ?_, ha⟩
            rw [eval, eval_mono_le hm₁ (by simp) (Nat.le_max_left ..)]
            simp only
            rw [evalList_mono_le hm₂ (by simp) (by omega)]
            simp only [hpa]
            exact apply_mono_le hm₃ (ha.notFuel hr) (by omega)

theorem refines_args {σ ρ es r σ'} (h : evalArgs (n+1) σ ρ es = (r, σ')) (hr : NotFuel r) :
    ∃ m r', evalList m σ.erase ρ es = (r', σ'.erase) ∧ Agree r r' := by
  cases es with
  | nil => rw [evalArgs] at h; cases h; exact ⟨1, _, by rw [evalList], Agree.refl _⟩
  | cons a as =>
    rw [evalArgs] at h
    split at h
    next er σ1 heq =>
      cases h
      obtain ⟨m, er', hm, ha⟩ := ih.expr_err heq hr.cast
      exact ⟨m+1, .error er', by rw [evalList, hm], ha⟩
    next v σ1 heq =>
      obtain ⟨m₁, hm₁⟩ := ih.expr_ok heq
      split at h
      next er σ2 heq2 =>
        cases h
        obtain ⟨m₂, er', hm₂, ha⟩ := ih.args_err heq2 hr
        refine ⟨max m₁ m₂ + 1, .error er', ?_, ha⟩
        rw [evalList, eval_mono_le hm₁ (by simp) (Nat.le_max_left ..)]
        simp only
        rw [evalList_mono_le hm₂ (ha.notFuel hr) (Nat.le_max_right ..)]
      next vs σ2 heq2 =>
        cases h
        obtain ⟨m₂, hm₂⟩ := ih.args_ok heq2
        refine ⟨max m₁ m₂ + 1, _, ?_, Agree.refl _⟩
        rw [evalList, eval_mono_le hm₁ (by simp) (Nat.le_max_left ..)]
        simp only
        rw [evalList_mono_le hm₂ (by simp) (Nat.le_max_right ..)]

theorem refines_proc {σ p as env r σ'} (h : applyProcedure (n+1) σ p as env = (r, σ')) (hr : NotFuel r) :
    ∃ m r', apply m σ.erase p as = (r', σ'.erase) ∧ Agree r r' := by
  rw [applyProcedure] at h
  split at h
  next r1 σ1 heq =>
    cases h
    obtain ⟨m, r', hm, ha⟩ := ih.loop heq hr
    exact ⟨m, r', by simpa using hm, ha⟩

theorem refines_defs {σ ρ ds r σ'} (h : Eval.evalDefs (n+1) σ ρ ds = (r, σ')) (hr : NotFuel r) :
    ∃ m r', evalDefs m σ.erase ρ ds = (r', σ'.erase) ∧ Agree r r' := by
  cases ds with
  | nil => rw [Eval.evalDefs] at h; cases h; exact ⟨1, _, by rw [evalDefs], Agree.refl _⟩
  | cons d ds =>
    obtain ⟨x, e, l⟩ := d
    rw [Eval.evalDefs] at h
    split at h
    next er σ1 heq =>
      cases h
      obtain ⟨m, er', hm, ha⟩ := ih.expr_err heq hr.cast
      exact ⟨m+1, .error er', by rw [evalDefs, hm], ha⟩
    next v σ1 heq =>
      obtain ⟨m₁, hm₁⟩ := ih.expr_ok heq
      obtain ⟨m₂, r', hm₂, ha⟩ := ih.defs h hr
      refine ⟨max m₁ m₂ + 1, r', ?_, ha⟩
      rw [evalDefs, eval_mono_le hm₁ (by simp) (Nat.le_max_left ..)]
      simp only
      rw [← Store.erase_define]
      exact evalDefs_mono_le hm₂ (ha.notFuel hr) (Nat.le_max_right ..)

theorem refines_tail {σ ρ e rt σ₁} (h : evalTail (n+1) σ ρ e = (rt, σ₁)) (hr : NotFuel rt) :
    TailOK (fun m => eval m σ.erase ρ e) rt σ₁ := by
  unfold evalTail at h
  split at h
  next f args l =>
    cases h
    intro m r σ₂ hm _
    exact ⟨m, (eval_call_loc m _ _ f args l none).trans hm⟩
  next t c a l =>
    split at h
    next er σ1 heq =>
      cases h
      obtain ⟨m, er', hm, ha⟩ := ih.expr_err heq hr.cast
      exact ⟨m+1, er', by show eval (m+1) _ _ _ = _; rw [eval, hm], ha⟩
    next tv σ1 heq =>
      obtain ⟨m₁, hm₁⟩ := ih.expr_ok heq
      split at h
      next htv =>
        refine TailOK.lift hr ?_ (ih.tail h hr)
        intro m r s hm hnf
        refine ⟨max m₁ m + 1, ?_⟩
        show eval (max m₁ m + 1) _ _ _ = _
        rw [eval, eval_mono_le hm₁ (by simp) (Nat.le_max_left ..)]
        simp only [htv, if_true]
        exact eval_mono_le hm hnf (Nat.le_max_right ..)
      next htv =>
        split at h
        next alt =>
          refine TailOK.lift hr ?_ (ih.tail h hr)
          intro m r s hm hnf
          refine ⟨max m₁ m + 1, ?_⟩
          show eval (max m₁ m + 1) _ _ _ = _
          rw [eval, eval_mono_le hm₁ (by simp) (Nat.le_max_left ..)]
          simp only [htv]
          exact eval_mono_le hm hnf (Nat.le_max_right ..)
        next =>
          cases h
          refine ⟨m₁ + 1, ?_⟩
          show eval (m₁ + 1) _ _ _ = _
          rw [eval, hm₁]; simp [htv]
  next hcall hcond =>
    split at h
    next er σ1 heq =>
      cases h
      obtain ⟨m, er', hm, ha⟩ := ih.expr_err heq hr.cast
      exact ⟨m, er', hm, ha⟩
    next v σ1 heq =>
      cases h
      obtain ⟨m, hm⟩ := ih.expr_ok heq
      exact ⟨m, hm⟩

theorem refines_body {σ ρ es rt σ₁} (h : evalBody (n+1) σ ρ es = (rt, σ₁)) (hr : NotFuel rt) :
    TailOK (fun m => evalSeq m σ.erase ρ es) rt σ₁ := by
  match es with
  | [] =>
    rw [evalBody] at h; cases h
    exact ⟨1, _, by show evalSeq 1 _ _ _ = _; rw [evalSeq], AgreeErr.refl _⟩
  | [last] =>
    rw [evalBody] at h
    refine TailOK.lift hr ?_ (ih.tail h hr)
    intro m r s hm _
    exact ⟨m+1, by show evalSeq (m+1) _ _ _ = _; rw [evalSeq]; exact hm⟩
  | e :: e2 :: es =>
    rw [evalBody] at h
    · split at h
      next er σ1 heq =>
        cases h
        obtain ⟨m, er', hm, ha⟩ := ih.expr_err heq hr.cast
        refine ⟨m+1, er', ?_, ha⟩
        show evalSeq (m+1) _ _ _ = _
        rw [evalSeq, hm]; simp
      next v σ1 heq =>
        obtain ⟨m₁, hm₁⟩ := ih.expr_ok heq
        refine TailOK.lift hr ?_ (ih.body h hr)
        intro m r s hm hnf
        refine ⟨max m₁ m + 1, ?_⟩
        show evalSeq (max m₁ m + 1) _ _ _ = _
        rw [evalSeq, eval_mono_le hm₁ (by simp) (Nat.le_max_left ..)]
        · exact evalSeq_mono_le hm hnf (Nat.le_max_right ..)
        · simp
    · simp
end

/-- one unfolding of the reference application of a closure whose arity test passes -/
theorem apply_closure_succ (m : Nat) (σ : Store) (lam : Lambda) (cenv : Nat) (as : List Value)
    (ha : arityOk lam.formals.fixed.length lam.formals.rest.isSome as.length = true) :
    apply (m+1) σ (.closure lam cenv) as =
      match bindFixed (σ.newFrame (some cenv)).2 (σ.newFrame (some cenv)).1 lam.formals.fixed as with
      | (.error er, σ₁) => (.error (er, none), σ₁)
      | (.ok restArgs, σ₁) =>
        match evalDefs m (bindRest σ₁ (σ.newFrame (some cenv)).1 lam.formals.rest restArgs)
            (σ.newFrame (some cenv)).1 lam.defs with
        | (.error er, σ₂) => (.error er, σ₂)
        | (.ok (), σ₂) => evalSeq m σ₂ (σ.newFrame (some cenv)).1 lam.body := by
  rw [apply]; simp only [procArity, ha]; rfl

section
variable {n : Nat} (ih : Refines n)
include ih

theorem refines_scheme {σ lam cenv as rt σ₁} (h : applyScheme (n+1) σ lam cenv as = (rt, σ₁)) (hr : NotFuel rt)
    (ha : arityOk lam.formals.fixed.length lam.formals.rest.isSome as.length = true) :
    TailOK (fun m => apply m σ.erase (.closure lam cenv) as) rt σ₁ := by
  rw [applyScheme_succ] at h
  have e1 : (σ.erase.newFrame (some cenv)).2 = (σ.newFrame (some cenv)).2.erase := rfl
  have e2 : (σ.erase.newFrame (some cenv)).1 = (σ.newFrame (some cenv)).1 := rfl
  split at h
  next er σ1 hb =>
    cases h
    refine ⟨1, _, ?_, AgreeErr.refl _⟩
    show apply 1 _ _ _ = _
    rw [apply_closure_succ _ _ _ _ _ ha, e1, e2, bindFixed_erase, hb]
  next restArgs σ1 hb =>
    split at h
    next er σ2 hd =>
      cases h
      obtain ⟨m, er', hm, hag⟩ := ih.defs_err hd hr.cast
      refine ⟨m+1, er', ?_, hag⟩
      show apply (m+1) _ _ _ = _
      rw [apply_closure_succ _ _ _ _ _ ha, e1, e2, bindFixed_erase, hb]
      simp only
      rw [← bindRest_erase, hm]
    next σ2 hd =>
      obtain ⟨m₁, hm₁⟩ := ih.defs_ok hd
      refine TailOK.lift hr ?_ (ih.body h hr)
      intro m r s hm hnf
      refine ⟨max m₁ m + 1, ?_⟩
      show apply (max m₁ m + 1) _ _ _ = _
      rw [apply_closure_succ _ _ _ _ _ ha, e1, e2, bindFixed_erase, hb]
      simp only
      rw [← bindRest_erase, evalDefs_mono_le hm₁ (by simp) (Nat.le_max_left ..)]
      exact evalSeq_mono_le hm hnf (Nat.le_max_right ..)

theorem refines_loop {σ p as env r σ'} (h : applyLoop (n+1) σ p as env = (r, σ')) (hr : NotFuel r) :
    ∃ m r', apply m σ.erase p as = (r', σ'.erase) ∧ Agree r r' := by
  unfold applyLoop at h
  split at h
  next hpa =>
    cases h
    exact ⟨1, .error (.nonProcedure, none), by unfold apply; simp only [hpa], .inr ⟨none, rfl⟩⟩
  next fixed variadic hpa =>
    split at h
    next har =>
      cases h
      exact ⟨1, _, by unfold apply; simp only [hpa, har]; rfl, Agree.refl _⟩
    next har =>
      split at h
      · -- apply
        split at h
        next er hsp =>
          cases h
          refine ⟨1, _, ?_, Agree.refl _⟩
          rw [apply]; simp only [hpa, har, hsp]; rfl
        next f args' hsp =>
          obtain ⟨m, r', hm, hag⟩ := ih.loop h hr
          refine ⟨m+1, r', ?_, hag⟩
          rw [apply]; simp only [hpa, har, hsp]; exact hm
      next b hb =>
        refine ⟨1, r, ?_, Agree.refl _⟩
        rw [apply]
        · simp only [hpa, har]
          simp only [applyPure_erase, h]; rfl
        · exact hb
      next lam cenv =>
        have ha : arityOk lam.formals.fixed.length lam.formals.rest.isSome as.length = true := by
          simp only [procArity, Option.some.injEq, Prod.mk.injEq] at hpa
          obtain ⟨rfl, rfl⟩ := hpa
          simpa using har
        split at h
        next er σ1 hs =>
          cases h
          obtain ⟨m, er', hm, hag⟩ := ih.scheme hs hr.cast ha
          exact ⟨m, .error er', hm, hag⟩
        next v σ1 hs =>
          cases h
          obtain ⟨m, hm⟩ := ih.scheme hs (by simp) ha
          exact ⟨m, _, hm, Agree.refl _⟩
        next f targs tenv σ1 hs =>
          have hT := ih.scheme hs (by simp) ha
          split at h
          next er σ2 hf =>
            cases h
            obtain ⟨m, er', hm, hag⟩ := ih.expr_err hf hr
            obtain ⟨m', hm'⟩ := hT (m+1) (.error er') σ'.erase (by rw [eval, hm]) (hag.notFuel hr)
            exact ⟨m', .error er', hm', hag⟩
          next fv σ2 hf =>
            obtain ⟨m₁, hm₁⟩ := ih.expr_ok hf
            split at h
            next er σ3 hargs =>
              cases h
              obtain ⟨m₂, er', hm₂, hag⟩ := ih.args_err hargs hr.cast
              have hnf' : NotFuel (.error er' : Except SErr (List Value)) := hag.notFuel (α := Value) hr
              cases hpf : procArity fv with
              | none =>
                obtain ⟨m', hm'⟩ := hT (max m₁ m₂ + 1) (.error (.nonProcedure, f.loc)) σ'.erase (by
                  rw [eval, eval_mono_le hm₁ (by simp) (Nat.le_max_left ..)]
                  simp only
                  rw [evalList_mono_le hm₂ hnf' (Nat.le_max_right ..)]
                  simp only [hpf]
                  split
                  next heq => cases heq; simp at hnf'
                  · rfl) (.error_of (by simp))
                exact ⟨m', .error (.nonProcedure, f.loc), hm', .inr ⟨_, rfl⟩⟩
              | some ar =>
                obtain ⟨m', hm'⟩ := hT (max m₁ m₂ + 1) (.error er') σ'.erase (by
                  rw [eval, eval_mono_le hm₁ (by simp) (Nat.le_max_left ..)]
                  simp only
                  rw [evalList_mono_le hm₂ hnf' (Nat.le_max_right ..)]
                  simp only [hpf]) hnf'.cast
                exact ⟨m', .error er', hm', hag⟩
            next vs σ3 hargs =>
              obtain ⟨m₂, hm₂⟩ := ih.args_ok hargs
              split at h
              next hpf =>
                cases h
                obtain ⟨m', hm'⟩ := hT (max m₁ m₂ + 1) (.error (.nonProcedure, f.loc)) σ'.erase (by
                  rw [eval, eval_mono_le hm₁ (by simp) (Nat.le_max_left ..)]
                  simp only
                  rw [evalList_mono_le hm₂ (by simp) (Nat.le_max_right ..)]
                  simp only [hpf]) (.error_of (by simp))
                exact ⟨m', .error (.nonProcedure, f.loc), hm', .inr ⟨_, rfl⟩⟩
              next ar hpf =>
                obtain ⟨m₃, r', hm₃, hag⟩ := ih.loop h hr
                obtain ⟨m', hm'⟩ := hT (max m₁ (max m₂ m₃) + 1) r' σ'.erase (by
                  rw [eval, eval_mono_le hm₁ (by simp) (Nat.le_max_left ..)]
                  simp only
                  rw [evalList_mono_le hm₂ (by simp) (by omega)]
                  simp only [hpf]
                  exact apply_mono_le hm₃ (hag.notFuel hr) (by omega)) (hag.notFuel hr)
                exact ⟨m', _, hm', hag⟩
      next h1 h2 h3 =>
        exfalso
        cases p <;> simp [procArity] at hpa
        · exact h3 _ _ rfl
        · exact h2 _ rfl
end

theorem refines_all : ∀ n, Refines n
  | 0 => by
    constructor
    · intro σ ρ e r σ' h hr; rw [evalExpr] at h; cases h; simp at hr
    · intro σ ρ e r σ' h hr; rw [evalArgs] at h; cases h; simp at hr
    · intro σ p as env r σ' h hr; rw [applyProcedure] at h; cases h; simp at hr
    · intro σ p as env r σ' h hr; rw [applyLoop] at h; cases h; simp at hr
    · intro σ lam cenv as rt σ₁ h hr; rw [applyScheme] at h; cases h; simp at hr
    · intro σ ρ ds r σ' h hr; rw [Eval.evalDefs] at h; cases h; simp at hr
    · intro σ ρ es rt σ₁ h hr; rw [evalBody] at h; cases h; simp at hr
    · intro σ ρ e rt σ₁ h hr; rw [evalTail] at h; cases h; simp at hr
  | n+1 =>
    have ih := refines_all n
    ⟨refines_expr ih, refines_args ih, refines_proc ih, refines_loop ih, refines_scheme ih, refines_defs ih,
      refines_body ih, refines_tail ih⟩

end Ruschm.Ref

namespace Ruschm.Eval
open Ref (DefsSeq MapEvals bindRest chain chainAux frameBinding)

/-! ## Procedure bodies: inversion -/

theorem EvalsDefs.nil_inv {σ ρ r σ'} (h : EvalsDefs σ ρ [] r σ') : r = .ok () ∧ σ' = σ := by
  obtain ⟨_, N, hN⟩ := h.out
  have h := hN (N+1) (by omega)
  rw [evalDefs] at h; cases h; exact ⟨rfl, rfl⟩

theorem EvalsDefs.cons_inv {σ ρ x e l ds r σ'} (h : EvalsDefs σ ρ (.mk x e l :: ds) r σ') :
    (∃ er, Evals σ ρ e (.error er) σ' ∧ r = .error er) ∨
    (∃ v σ₁, Evals σ ρ e (.ok v) σ₁ ∧ EvalsDefs (σ₁.define ρ x v) ρ ds r σ') := by
  obtain ⟨hr, N, hN⟩ := h.out
  clear h
  have h := hN (N+1) (by omega)
  clear hN
  rw [evalDefs] at h
  split at h
  next er σ₁ heq => cases h; exact .inl ⟨er, Evals.intro heq hr.cast, rfl⟩
  next v σ₁ heq => exact .inr ⟨v, σ₁, Evals.intro heq (by simp), EvalsDefs.intro h hr⟩

/-- `evalDefs` is `DefsSeq` of `Evals`: each definition is evaluated in frame `ρ` after the earlier
ones have been bound there -/
theorem evalsDefs_iff_defsSeq {σ ρ ds r σ'} :
    EvalsDefs σ ρ ds r σ' ↔ DefsSeq (fun σ e r σ' => Evals σ ρ e r σ') ρ σ ds r σ' := by
  induction ds generalizing σ with
  | nil =>
    simp only [DefsSeq]
    exact ⟨fun h => h.nil_inv, fun ⟨h₁, h₂⟩ => h₁ ▸ h₂ ▸ EvalsDefs.nil⟩
  | cons d ds ih =>
    obtain ⟨x, e, l⟩ := d
    simp only [DefsSeq]
    constructor
    · intro h
      rcases h.cons_inv with ⟨er, h₁, rfl⟩ | ⟨v, σ₁, h₁, h₂⟩
      · exact .inl ⟨er, h₁, rfl⟩
      · exact .inr ⟨v, σ₁, h₁, ih.mp h₂⟩
    · rintro (⟨er, h₁, rfl⟩ | ⟨v, σ₁, h₁, h₂⟩)
      · exact .cons_err h₁
      · exact .cons h₁ (ih.mpr h₂)

theorem EvalsBody.last_inv {σ ρ e r σ'} (h : EvalsBody σ ρ [e] r σ') : EvalsTail σ ρ e r σ' := by
  obtain ⟨hr, N, hN⟩ := h.out
  have h := hN (N+1) (by omega)
  rw [evalBody] at h
  exact EvalsTail.intro h hr

theorem EvalsBody.cons_inv {σ ρ e e' es r σ'} (h : EvalsBody σ ρ (e :: e' :: es) r σ') :
    (∃ er, Evals σ ρ e (.error er) σ' ∧ r = .error er) ∨
    (∃ v σ₁, Evals σ ρ e (.ok v) σ₁ ∧ EvalsBody σ₁ ρ (e' :: es) r σ') := by
  obtain ⟨hr, N, hN⟩ := h.out
  clear h
  have h := hN (N+1) (by omega)
  clear hN
  rw [evalBody] at h
  · split at h
    next er σ₁ heq => cases h; exact .inl ⟨er, Evals.intro heq hr.cast, rfl⟩
    next v σ₁ heq => exact .inr ⟨v, σ₁, Evals.intro heq (by simp), EvalsBody.intro h hr⟩
  · simp

/-- a body `e₁ … eₖ last`: the `eᵢ` in order (values dropped, first error stops), then `last` as the
tail expression -/
theorem evalsBody_iff {σ ρ es last r σ'} :
    EvalsBody σ ρ (es ++ [last]) r σ' ↔
      (∃ er, MapEvals (fun σ e r σ' => Evals σ ρ e r σ') σ es (.error er) σ' ∧ r = .error er) ∨
      (∃ vs σ₁, MapEvals (fun σ e r σ' => Evals σ ρ e r σ') σ es (.ok vs) σ₁ ∧ EvalsTail σ₁ ρ last r σ') := by
  induction es generalizing σ with
  | nil =>
    simp only [List.nil_append, MapEvals]
    constructor
    · intro h; exact .inr ⟨[], σ, ⟨rfl, rfl⟩, h.last_inv⟩
    · rintro (⟨er, ⟨h, _⟩, _⟩ | ⟨vs, σ₁, ⟨_, rfl⟩, h⟩)
      · cases h
      · exact .last h
  | cons e es ih =>
    have hne : ∃ e' es', es ++ [last] = e' :: es' := by
      cases es with
      | nil => exact ⟨last, [], rfl⟩
      | cons a as => exact ⟨a, as ++ [last], rfl⟩
    obtain ⟨e', es', hes⟩ := hne
    simp only [List.cons_append, MapEvals]
    constructor
    · intro h
      rw [hes] at h
      rcases h.cons_inv with ⟨er, h₁, rfl⟩ | ⟨v, σ₁, h₁, h₂⟩
      · exact .inl ⟨er, .inl ⟨er, h₁, rfl⟩, rfl⟩
      · rw [← hes] at h₂
        rcases ih.mp h₂ with ⟨er, h₃, rfl⟩ | ⟨vs, σ₂, h₃, h₄⟩
        · exact .inl ⟨er, .inr ⟨v, σ₁, h₁, .inl ⟨er, h₃, rfl⟩⟩, rfl⟩
        · exact .inr ⟨v :: vs, σ₂, .inr ⟨v, σ₁, h₁, .inr ⟨vs, h₃, rfl⟩⟩, h₄⟩
    · rw [hes]
      rintro (⟨er, (⟨er', h₁, he⟩ | ⟨v, σ₁, h₁, (⟨er', h₃, he⟩ | ⟨vs, _, he⟩)⟩), rfl⟩ |
              ⟨vs, σ₂, (⟨er', _, he⟩ | ⟨v, σ₁, h₁, (⟨er', _, he⟩ | ⟨vs', h₃, he⟩)⟩), h₄⟩)
      · cases he; exact .cons_err h₁
      · cases he
        refine .cons h₁ ?_
        rw [← hes]; exact ih.mpr (.inl ⟨_, h₃, rfl⟩)
      · cases he
      · cases he
      · cases he
      · cases he
        refine .cons h₁ ?_
        rw [← hes]; exact ih.mpr (.inr ⟨_, _, h₃, h₄⟩)

theorem bindFixed_error_ne_fuel {σ ρ fs as e σ₁} (h : bindFixed σ ρ fs as = (.error e, σ₁)) : e ≠ .fuel := by
  induction fs generalizing σ as with
  | nil => simp [bindFixed] at h
  | cons f fs ih =>
    cases as with
    | nil => simp only [bindFixed, Prod.mk.injEq, Except.error.injEq] at h; rw [← h.1]; simp
    | cons a as => simp only [bindFixed] at h; exact ih h

theorem AppliesScheme.bind_err {σ lam cenv args e σ₁}
    (hb : bindFixed (σ.newFrame (some cenv)).2 (σ.newFrame (some cenv)).1 lam.formals.fixed args = (.error e, σ₁)) :
    AppliesScheme σ lam cenv args (.error (e, none)) σ₁ :=
  Stable.of_succ (.error_of (bindFixed_error_ne_fuel hb)) 0 fun n _ => by
    show applyScheme (n+1) _ _ _ _ = _
    rw [applyScheme_succ]; simp only [hb]

theorem AppliesScheme.inv {σ lam cenv args rt σ'} (h : AppliesScheme σ lam cenv args rt σ') :
    (∃ e σ₁, bindFixed (σ.newFrame (some cenv)).2 (σ.newFrame (some cenv)).1 lam.formals.fixed args = (.error e, σ₁) ∧
      rt = .error (e, none) ∧ σ' = σ₁) ∨
    (∃ restArgs σ₁, bindFixed (σ.newFrame (some cenv)).2 (σ.newFrame (some cenv)).1 lam.formals.fixed args = (.ok restArgs, σ₁) ∧
      ((∃ er, EvalsDefs (bindRest σ₁ (σ.newFrame (some cenv)).1 lam.formals.rest restArgs) (σ.newFrame (some cenv)).1
            lam.defs (.error er) σ' ∧ rt = .error er) ∨
       (∃ σ₂, EvalsDefs (bindRest σ₁ (σ.newFrame (some cenv)).1 lam.formals.rest restArgs) (σ.newFrame (some cenv)).1
            lam.defs (.ok ()) σ₂ ∧ EvalsBody σ₂ (σ.newFrame (some cenv)).1 lam.body rt σ'))) := by
  obtain ⟨hr, N, hN⟩ := h.out
  clear h
  have h := hN (N+1) (by omega)
  clear hN
  rw [applyScheme_succ] at h
  split at h
  next e σ₁ hb => cases h; exact .inl ⟨e, _, hb, rfl, rfl⟩
  next restArgs σ₁ hb =>
    refine .inr ⟨restArgs, σ₁, hb, ?_⟩
    split at h
    next er σ₂ hd => cases h; exact .inl ⟨er, EvalsDefs.intro hd hr.cast, rfl⟩
    next σ₂ hd => exact .inr ⟨σ₂, EvalsDefs.intro hd (by simp), EvalsBody.intro h hr⟩

theorem Evals.lambda_inv {σ ρ lam l r σ'} (h : Evals σ ρ (.lambda lam l) r σ') : r = .ok (.closure lam ρ) ∧ σ' = σ := by
  obtain ⟨_, N, hN⟩ := h.out
  have h := hN (N+1) (by omega)
  rw [evalExpr] at h; cases h; exact ⟨rfl, rfl⟩

end Ruschm.Eval

namespace Ruschm.Eval
open Ref (DefsSeq MapEvals bindRest chain chainAux frameBinding)

/-! ## `define` and the frames -/

theorem defsInsert_lookup (defs : List (String × Value)) (k : String) (v : Value) (k' : String) :
    (Store.defsInsert defs k v).lookup k' = if k' = k then some v else defs.lookup k' := by
  have hbeq : ∀ a : String, (k' == a) = decide (k' = a) := fun a => by
    by_cases h : k' = a <;> simp [h]
  induction defs with
  | nil =>
    simp only [Store.defsInsert, List.lookup, hbeq]
    by_cases h : k' = k <;> simp [h]
  | cons a defs ih =>
    obtain ⟨a, b⟩ := a
    simp only [Store.defsInsert]
    by_cases ha : a = k
    · subst ha
      simp only [if_true, List.lookup, hbeq]
      by_cases h : k' = a <;> simp [h]
    · simp only [ha, if_false, List.lookup, ih, hbeq]
      by_cases h' : k' = a
      · subst h'; simp [ha]
      · simp [h']

theorem frames_define_getElem? (σ : Store) (ρ : Nat) (x : String) (v : Value) (i : Nat) :
    (σ.define ρ x v).frames[i]? =
      if i = ρ then (σ.frames[i]?).map (fun f => { f with defs := Store.defsInsert f.defs x v }) else σ.frames[i]? := by
  unfold Store.define
  by_cases hρ : ρ < σ.frames.size
  · simp only [hρ, dite_true, Array.getElem?_modify]
    by_cases h : ρ = i
    · subst h; simp
    · have : ¬ i = ρ := fun h' => h h'.symm
      simp [h, this]
  · simp only [hρ, dite_false]
    by_cases h : i = ρ
    · subst h
      have : σ.frames[i]? = none := by simp; omega
      simp [this]
    · simp [h]

/-- after `define ρ x v`, frame `ρ` binds `x` to `v`; every other (frame, name) is unchanged -/
theorem frameBinding_define {σ : Store} {ρ : Nat} (hρ : ρ < σ.frames.size) (x : String) (v : Value) (y : String) (i : Nat) :
    frameBinding (σ.define ρ x v) y i = if i = ρ ∧ y = x then some v else frameBinding σ y i := by
  simp only [frameBinding, frames_define_getElem?]
  by_cases hi : i = ρ
  · subst hi
    have : ∃ f, σ.frames[i]? = some f := ⟨σ.frames[i], by simp [hρ]⟩
    obtain ⟨f, hf⟩ := this
    simp only [hf, if_true, Option.map_some, Option.bind_some, defsInsert_lookup, true_and]
  · simp [hi]

theorem frames_size_define (σ : Store) (ρ x v) : (σ.define ρ x v).frames.size = σ.frames.size := by
  unfold Store.define; split <;> simp

theorem chainAux_define (σ : Store) (ρ x v) (k i : Nat) : chainAux (σ.define ρ x v) k i = chainAux σ k i := by
  induction k generalizing i with
  | zero => rfl
  | succ k ih =>
    simp only [chainAux, frames_define_getElem?]
    by_cases h : i = ρ
    · subst h
      cases hf : σ.frames[i]? with
      | none => simp
      | some f => simp [ih]
    · simp only [h, if_false]
      cases hf : σ.frames[i]? with
      | none => simp
      | some f => simp [ih]

/-- `define` changes no parent link: every parent chain is what it was -/
theorem chain_define (σ : Store) (ρ x v) (i : Nat) : chain (σ.define ρ x v) i = chain σ i := by
  unfold chain; rw [frames_size_define, chainAux_define]

end Ruschm.Eval

namespace Ruschm.Eval
open Ref (bindRest)

/-! ## Parameter binding and `apply` -/

theorem arityOk_variadic (n m : Nat) : arityOk n true m = true ↔ n ≤ m := by
  simp [arityOk]
theorem arityOk_fixed (n m : Nat) : arityOk n false m = true ↔ m = n := by
  simp [arityOk]; omega

theorem bindFixed_eq_bindAll (σ : Store) (ρ : Nat) (fixed : List String) (args : List Value)
    (h : fixed.length ≤ args.length) :
    bindFixed σ ρ fixed args = (.ok (args.drop fixed.length), Ref.bindAll σ ρ fixed args) := by
  induction fixed generalizing σ args with
  | nil => simp [bindFixed, Ref.bindAll]
  | cons f fs ih =>
    cases args with
    | nil => simp at h
    | cons a as =>
      simp only [bindFixed, Ref.bindAll, List.length_cons, List.drop_succ_cons]
      exact ih _ _ (by simpa using h)

theorem elems_ofList (vs : List Value) : (Value.ofList vs).elems = vs := by
  induction vs with
  | nil => rfl
  | cons v vs ih => simp [Value.ofList, Value.elems, ih]

theorem spreadApply_snoc {f : Value} {as : List Value} {lst : Value} (hf : (procArity f).isSome)
    (hl : lst = .nil ∨ ∃ a d, lst = .pair a d) :
    spreadApply (f :: (as ++ [lst])) = .ok (f, as ++ lst.elems) := by
  obtain ⟨ar, har⟩ := Option.isSome_iff_exists.mp hf
  unfold spreadApply
  simp only [har, List.getLast?_append, List.getLast?_singleton, List.dropLast_concat]
  rcases hl with rfl | ⟨a, d, rfl⟩ <;> simp

end Ruschm.Eval

/-! ## `define` sugar (RuschmModel/Xform.lean) -/

namespace Ruschm.Xform

theorem XM.bind_def {α β} (m : XM α) (f : α → XM β) (s : SynEnv) :
    (m >>= f) s = match m s with
      | (.ok a, s') => f a s'
      | (.error e, s') => (.error e, s') := rfl
theorem XM.pure_def {α} (a : α) (s : SynEnv) : (pure a : XM α) s = (.ok a, s) := rfl

theorem toDefinition_sugar (j : Nat) (f : String) (lf l₁ : Loc) (formalsD : Datum) (bs : List Datum) (s : SynEnv) :
    toDefinition (j+1) (Datum.pair (.sym f lf) formalsD l₁ :: bs) s =
      (do let formals ← toFormals formalsD
          let (defs, body) ← toBody j bs [] []
          pure (f, Expr.lambda (.mk formals defs body) lf)) s := by
  rw [toDefinition]
  simp only [XM.bind_def, XM.pure_def, need, identOf, Macro.identOf, lift, Datum.loc, List.head?_cons, List.drop_succ_cons, List.drop_zero]

theorem elems_pair (a d : Datum) (l : Loc) : (Datum.pair a d l).elems = a :: d.elems := by
  simp only [Datum.elems, Datum.spine]
  generalize d.spine = sp
  obtain ⟨xs, t⟩ := sp
  cases t <;> rfl

theorem toDefinition_lambda (j : Nat) (f : String) (lf l₂ l₃ l₄ : Loc) (formalsD bsD : Datum) (s : SynEnv) :
    toDefinition (j+4) [.sym f lf, .pair (.sym "lambda" l₂) (.pair formalsD bsD l₄) l₃] s =
      (do let formals ← toFormals formalsD
          let (defs, body) ← inChild (toBody j bsD.elems [] [])
          pure (f, Expr.lambda (.mk formals defs body) l₃)) s := by
  rw [toDefinition]
  simp only [XM.bind_def, XM.pure_def, need, List.head?_cons, List.drop_succ_cons, List.drop_zero]
  rw [toExpr]
  simp only [XM.bind_def]
  rw [toStatement]
  simp (config := {decide := true}) only [XM.bind_def, lift, Macro.popProper, if_true, if_false, elems_pair, Datum.loc]
  rw [toLambda]
  simp only [XM.bind_def, XM.pure_def, need, List.head?_cons, List.drop_succ_cons, List.drop_zero]
  generalize toFormals formalsD s = x
  obtain ⟨r, s'⟩ := x
  cases r with
  | error e => rfl
  | ok fm =>
    simp only
    generalize inChild (toBody j bsD.elems [] []) s' = y
    obtain ⟨r, s''⟩ := y
    cases r <;> rfl


theorem toStatement_define (k : Nat) (ld l l' : Loc) (a d : Datum) (s : SynEnv) :
    toStatement (k+1) (.pair (.sym "define" ld) (.pair a d l') l) s =
      (do let (n, e) ← toDefinition k (a :: d.elems)
          pure (Statement.definition (.mk n e l))) s := by
  rw [toStatement]
  simp (config := {decide := true}) only [XM.bind_def, lift, Macro.popProper, if_true, elems_pair, Datum.loc]

-- `toFormals_env` lives in `SharedLemmas.lean` (shared with the `Safe*` chain)

end Ruschm.Xform

namespace Ruschm

mutual
theorem Datum.beq_refl : ∀ d : Datum, Datum.beq d d = true
  | .prim p l => by simp [Datum.beq]
  | .sym s l => by simp [Datum.beq]
  | .pair a d l => by simp [Datum.beq, Datum.beq_refl a, Datum.beq_refl d]
  | .nil l => by simp [Datum.beq]
  | .vec xs l => by simp [Datum.beq, Datum.beqList_refl xs]
theorem Datum.beqList_refl : ∀ ds : List Datum, Datum.beqList ds ds = true
  | [] => by simp [Datum.beqList]
  | x :: xs => by simp [Datum.beqList, Datum.beq_refl x, Datum.beqList_refl xs]
end

mutual
theorem Expr.beq_refl : ∀ e : Expr, Expr.beq e e = true
  | .sym s l => by simp [Expr.beq]
  | .prim p l => by simp [Expr.beq]
  | .assign n e l => by simp [Expr.beq, Expr.beq_refl e]
  | .lambda lam l => by simp [Expr.beq, Lambda.beq_refl lam]
  | .call f as l => by simp [Expr.beq, Expr.beq_refl f, Expr.beqList_refl as]
  | .cond t c none l => by simp [Expr.beq, Expr.beq_refl t, Expr.beq_refl c]
  | .cond t c (some a) l => by simp [Expr.beq, Expr.beq_refl t, Expr.beq_refl c, Expr.beq_refl a]
  | .quote d l => by simp [Expr.beq, Datum.beq_refl]
  | .datum d l => by simp [Expr.beq, Datum.beq_refl]
theorem Expr.beqList_refl : ∀ es : List Expr, Expr.beqList es es = true
  | [] => by simp [Expr.beqList]
  | x :: xs => by simp [Expr.beqList, Expr.beq_refl x, Expr.beqList_refl xs]
theorem Lambda.beq_refl : ∀ l : Lambda, Lambda.beq l l = true
  | .mk f d b => by simp [Lambda.beq, Def.beqList_refl d, Expr.beqList_refl b]
theorem Def.beq_refl : ∀ d : Def, Def.beq d d = true
  | .mk n e l => by simp [Def.beq, Expr.beq_refl e]
theorem Def.beqList_refl : ∀ ds : List Def, Def.beqList ds ds = true
  | [] => by simp [Def.beqList]
  | x :: xs => by simp [Def.beqList, Def.beq_refl x, Def.beqList_refl xs]
end

end Ruschm

namespace Ruschm.Ref
open Prim Eval

/-! ## Conversely: a value of the reference is the value of the model -/

/-- the model's body outcome `rt` (in store `σ₁`) leads to the reference value `v` and store `τ` -/
def TailConv (m : Nat) (rt : TailRes) (σ₁ : Store) (v : Value) (τ : Store) : Prop :=
  match rt with
  | .value v' => v' = v ∧ σ₁.erase = τ
  | .tailCall f targs tenv => eval m σ₁.erase tenv (.call f targs none) = (.ok v, τ)

theorem TailConv.mono {m m' rt σ₁ v τ} (h : TailConv m rt σ₁ v τ) (hm : m ≤ m') : TailConv m' rt σ₁ v τ := by
  cases rt with
  | value v' => exact h
  | tailCall f targs tenv => exact eval_mono_le (show eval m _ _ _ = _ from h) (by simp) hm

structure Conv (m : Nat) : Prop where
  eval : ∀ {σ ρ e v τ}, eval m σ.erase ρ e = (.ok v, τ) → ∃ σ', Evals σ ρ e (.ok v) σ' ∧ σ'.erase = τ
  list : ∀ {σ ρ es vs τ}, evalList m σ.erase ρ es = (.ok vs, τ) → ∃ σ', EvalsArgs σ ρ es (.ok vs) σ' ∧ σ'.erase = τ
  apply : ∀ {σ p as v τ}, apply m σ.erase p as = (.ok v, τ) → ∀ env, ∃ σ', Applies σ p as env (.ok v) σ' ∧ σ'.erase = τ
  defs : ∀ {σ ρ ds τ}, evalDefs m σ.erase ρ ds = (.ok (), τ) → ∃ σ', EvalsDefs σ ρ ds (.ok ()) σ' ∧ σ'.erase = τ
  seq : ∀ {σ ρ es v τ}, evalSeq m σ.erase ρ es = (.ok v, τ) →
    ∃ rt σ₁, EvalsBody σ ρ es (.ok rt) σ₁ ∧ TailConv m rt σ₁ v τ
  tail : ∀ {σ ρ e v τ}, Ref.eval m σ.erase ρ e = (.ok v, τ) →
    ∃ rt σ₁, EvalsTail σ ρ e (.ok rt) σ₁ ∧ TailConv m rt σ₁ v τ

section
variable {m : Nat} (ih : Conv m)
include ih

theorem conv_eval {σ ρ e v τ} (h : Ref.eval (m+1) σ.erase ρ e = (.ok v, τ)) :
    ∃ σ', Evals σ ρ e (.ok v) σ' ∧ σ'.erase = τ := by
  cases e with
  | prim p l =>
    rw [Ref.eval] at h
    cases hp : evalPrim p <;> simp only [hp] at h <;> cases h
    exact ⟨σ, .prim hp, rfl⟩
  | datum d l =>
    rw [Ref.eval, readLiteral_erase] at h
    cases hl : readLiteral σ d with
    | mk r σ' =>
      rw [hl] at h; cases h
      exact ⟨σ', .datum hl (by simp), rfl⟩
  | quote d l =>
    rw [Ref.eval, readLiteral_erase] at h
    cases hl : readLiteral σ d with
    | mk r σ' =>
      rw [hl] at h; cases h
      exact ⟨σ', .quote hl (by simp), rfl⟩
  | lambda lam l =>
    rw [Ref.eval] at h; cases h
    exact ⟨σ, .lambda, rfl⟩
  | sym s l =>
    rw [Ref.eval, Store.erase_lookup] at h
    cases hl : σ.lookup ρ s <;> simp only [hl] at h <;> cases h
    exact ⟨σ, .sym hl, rfl⟩
  | assign name ve l =>
    rw [Ref.eval] at h
    split at h
    · cases h
    next x τ₁ heq =>
      obtain ⟨σ₁, h₁, rfl⟩ := ih.eval heq
      rw [Store.erase_set] at h
      cases hs : σ₁.set ρ name x with
      | mk b σ₂ =>
        rw [hs] at h
        cases b <;> simp only at h <;> cases h
        exact ⟨σ₂, .assign h₁ hs, rfl⟩
  | cond t c a l =>
    rw [Ref.eval] at h
    split at h
    · cases h
    next tv τ₁ heq =>
      obtain ⟨σ₁, h₁, rfl⟩ := ih.eval heq
      split at h
      next htv =>
        obtain ⟨σ₂, h₂, rfl⟩ := ih.eval h
        exact ⟨σ₂, .cond_true h₁ htv h₂, rfl⟩
      next htv =>
        have htv : tv.truthy = false := by simpa using htv
        split at h
        next alt =>
          obtain ⟨σ₂, h₂, rfl⟩ := ih.eval h
          exact ⟨σ₂, .cond_false h₁ htv h₂, rfl⟩
        next =>
          cases h
          exact ⟨σ₁, .cond_void h₁ htv, rfl⟩
  | call f args l =>
    rw [Ref.eval] at h
    split at h
    · cases h
    next fv τ₁ heq =>
      obtain ⟨σ₁, h₁, rfl⟩ := ih.eval heq
      split at h
      next ra τ₂ hargs =>
        split at h
        · split at h <;> cases h
        next ar hpa =>
          split at h
          · cases h
          next vs =>
            obtain ⟨σ₂, h₂, rfl⟩ := ih.list hargs
            obtain ⟨σ₃, h₃, rfl⟩ := ih.apply (σ := enter σ₂) (by simpa using h) ρ
            exact ⟨leave σ₃, .call h₁ h₂ (by simp [hpa]) (.of_loop h₃), by simp⟩

theorem conv_list {σ ρ es vs τ} (h : evalList (m+1) σ.erase ρ es = (.ok vs, τ)) :
    ∃ σ', EvalsArgs σ ρ es (.ok vs) σ' ∧ σ'.erase = τ := by
  cases es with
  | nil => rw [evalList] at h; cases h; exact ⟨σ, .nil, rfl⟩
  | cons a as =>
    rw [evalList] at h
    split at h
    · cases h
    next x τ₁ heq =>
      obtain ⟨σ₁, h₁, rfl⟩ := ih.eval heq
      split at h
      · cases h
      next xs τ₂ heq2 =>
        cases h
        obtain ⟨σ₂, h₂, rfl⟩ := ih.list heq2
        exact ⟨σ₂, .cons h₁ h₂, rfl⟩

theorem conv_defs {σ ρ ds τ} (h : evalDefs (m+1) σ.erase ρ ds = (.ok (), τ)) :
    ∃ σ', EvalsDefs σ ρ ds (.ok ()) σ' ∧ σ'.erase = τ := by
  cases ds with
  | nil => rw [evalDefs] at h; cases h; exact ⟨σ, .nil, rfl⟩
  | cons d ds =>
    obtain ⟨x, e, l⟩ := d
    rw [evalDefs] at h
    split at h
    · cases h
    next xv τ₁ heq =>
      obtain ⟨σ₁, h₁, rfl⟩ := ih.eval heq
      rw [← Store.erase_define] at h
      obtain ⟨σ₂, h₂, rfl⟩ := ih.defs h
      exact ⟨σ₂, .cons h₁ h₂, rfl⟩

theorem conv_tail {σ ρ e v τ} (h : Ref.eval (m+1) σ.erase ρ e = (.ok v, τ)) :
    ∃ rt σ₁, EvalsTail σ ρ e (.ok rt) σ₁ ∧ TailConv (m+1) rt σ₁ v τ := by
  by_cases hcall : ∃ f as l, e = .call f as l
  · obtain ⟨f, as, l, rfl⟩ := hcall
    exact ⟨_, σ, .call, (eval_call_loc _ _ _ f as none l).trans h⟩
  by_cases hcond : ∃ t c a l, e = .cond t c a l
  · obtain ⟨t, c, a, l, rfl⟩ := hcond
    rw [Ref.eval] at h
    split at h
    · cases h
    next tv τ₁ heq =>
      obtain ⟨σ₁, h₁, rfl⟩ := ih.eval heq
      split at h
      next htv =>
        obtain ⟨rt, σ₂, h₂, hc⟩ := ih.tail h
        exact ⟨rt, σ₂, .cond_true h₁ htv h₂, hc.mono (Nat.le_succ m)⟩
      next htv =>
        have htv : tv.truthy = false := by simpa using htv
        split at h
        next alt =>
          obtain ⟨rt, σ₂, h₂, hc⟩ := ih.tail h
          exact ⟨rt, σ₂, .cond_false h₁ htv h₂, hc.mono (Nat.le_succ m)⟩
        next =>
          cases h
          exact ⟨.value .void, σ₁, .cond_void h₁ htv, rfl, rfl⟩
  · obtain ⟨σ', h₁, rfl⟩ := conv_eval ih h
    refine ⟨.value v, σ', .other ?_ ?_ h₁, rfl, rfl⟩
    · intro f as l he; exact hcall ⟨f, as, l, he⟩
    · intro t c a l he; exact hcond ⟨t, c, a, l, he⟩

theorem conv_seq {σ ρ es v τ} (h : evalSeq (m+1) σ.erase ρ es = (.ok v, τ)) :
    ∃ rt σ₁, EvalsBody σ ρ es (.ok rt) σ₁ ∧ TailConv (m+1) rt σ₁ v τ := by
  match es with
  | [] => rw [evalSeq] at h; cases h
  | [last] =>
    rw [evalSeq] at h
    obtain ⟨rt, σ₁, h₁, hc⟩ := ih.tail h
    exact ⟨rt, σ₁, .last h₁, hc.mono (Nat.le_succ m)⟩
  | e :: e2 :: es =>
    rw [evalSeq] at h
    · split at h
      · cases h
      next x τ₁ heq =>
        obtain ⟨σ₁, h₁, rfl⟩ := ih.eval heq
        obtain ⟨rt, σ₂, h₂, hc⟩ := ih.seq h
        exact ⟨rt, σ₂, .cons h₁ h₂, hc.mono (Nat.le_succ m)⟩
    · simp

theorem conv_apply {σ p as v τ} (h : Ref.apply (m+1) σ.erase p as = (.ok v, τ)) (env : Nat) :
    ∃ σ', Applies σ p as env (.ok v) σ' ∧ σ'.erase = τ := by
  unfold Ref.apply at h
  split at h
  · cases h
  next fixed variadic hpa =>
    split at h
    · cases h
    next har =>
      have har' : arityOk fixed variadic as.length = true := by simpa using har
      split at h
      · -- apply
        split at h
        · cases h
        next f args' hsp =>
          obtain ⟨σ', h₁, rfl⟩ := ih.apply h env
          have hlen : 1 ≤ as.length := by
            simp only [procArity, Builtin.arity, Option.some.injEq, Prod.mk.injEq] at hpa
            obtain ⟨rfl, rfl⟩ := hpa
            exact (arityOk_variadic _ _).mp har'
          exact ⟨σ', .apply hlen hsp h₁, rfl⟩
      next b hb =>
        rw [applyPure_erase] at h
        cases hp : applyPure σ b as with
        | mk r σ' =>
          rw [hp] at h; cases h
          simp only [procArity, Option.some.injEq] at hpa
          refine ⟨σ', .builtin (fun hb' => hb (hb' ▸ rfl)) ?_ hp (by simp), rfl⟩
          rw [hpa]; exact har'
      next lam cenv =>
        have ha : arityOk lam.formals.fixed.length lam.formals.rest.isSome as.length = true := by
          simp only [procArity, Option.some.injEq, Prod.mk.injEq] at hpa
          obtain ⟨rfl, rfl⟩ := hpa
          exact har'
        have e1 : (σ.erase.newFrame (some cenv)).2 = (σ.newFrame (some cenv)).2.erase := rfl
        have e2 : (σ.erase.newFrame (some cenv)).1 = (σ.newFrame (some cenv)).1 := rfl
        simp only [e1, e2, bindFixed_erase] at h
        cases hb : bindFixed (σ.newFrame (some cenv)).2 (σ.newFrame (some cenv)).1 lam.formals.fixed as with
        | mk rb σ₁ =>
          rw [hb] at h
          cases rb with
          | error e => cases h
          | ok restArgs =>
            simp only at h
            rw [← bindRest_erase] at h
            split at h
            · cases h
            next τ₂ hd =>
              obtain ⟨σ₂, h₂, rfl⟩ := ih.defs hd
              obtain ⟨rt, σ₃, h₃, hc⟩ := ih.seq h
              have hs := AppliesScheme.intro_ok hb h₂ h₃
              cases rt with
              | value v' =>
                obtain ⟨rfl, rfl⟩ := hc
                exact ⟨σ₃, .closure_value ha hs, rfl⟩
              | tailCall f targs tenv =>
                have hc : Ref.eval m σ₃.erase tenv (.call f targs none) = (.ok v, τ) := hc
                cases m with
                | zero => rw [Ref.eval] at hc; cases hc
                | succ m₀ =>
                  rw [Ref.eval] at hc
                  split at hc
                  · cases hc
                  next fv τ₁ hf =>
                    obtain ⟨σ₄, h₄, rfl⟩ := ih.eval (eval_mono_le hf (by simp) (Nat.le_succ m₀))
                    split at hc
                    next ra τ₂ hargs =>
                      split at hc
                      · split at hc <;> cases hc
                      next ar hpf =>
                        split at hc
                        · cases hc
                        next vs =>
                          obtain ⟨σ₅, h₅, rfl⟩ := ih.list (evalList_mono_le hargs (by simp) (Nat.le_succ m₀))
                          obtain ⟨σ₆, h₆, rfl⟩ := ih.apply (apply_mono_le hc (by simp) (Nat.le_succ m₀)) env
                          exact ⟨σ₆, .closure_tail ha hs h₄ h₅ (by simp [hpf]) h₆, rfl⟩
      · cases h
end

theorem conv_all : ∀ m, Conv m
  | 0 => by
    constructor
    · intro σ ρ e v τ h; rw [Ref.eval] at h; cases h
    · intro σ ρ es vs τ h; rw [evalList] at h; cases h
    · intro σ p as v τ h; rw [Ref.apply] at h; cases h
    · intro σ ρ ds τ h; rw [evalDefs] at h; cases h
    · intro σ ρ es v τ h; rw [evalSeq] at h; cases h
    · intro σ ρ e v τ h; rw [Ref.eval] at h; cases h
  | m+1 =>
    have ih := conv_all m
    ⟨conv_eval ih, conv_list ih, conv_apply ih, conv_defs ih, conv_seq ih, conv_tail ih⟩

end Ruschm.Ref

namespace Ruschm.Eval
open Ref

theorem lookupAux_eq_chainOlderAux (σ : Store) (x : String) (k ρ : Nat) :
    σ.lookupAux k ρ x = (chainOlderAux σ k ρ).findSome? (frameBinding σ x) := by
  induction k generalizing ρ with
  | zero => rfl
  | succ k ih =>
    rw [Store.lookupAux, chainOlderAux]
    cases hf : σ.frames[ρ]? with
    | none => simp
    | some f =>
      simp only [List.findSome?_cons, frameBinding, hf, Option.bind_some]
      cases hx : f.defs.lookup x with
      | some v => simp
      | none =>
        simp only
        cases hp : f.parent with
        | none => simp
        | some p =>
          by_cases hlt : p < ρ
          · simp only [hlt, if_true]; exact ih p
          · simp [hlt]

theorem chainOlderAux_eq_chainAux {σ : Store} (h : ParentsOlder σ) :
    ∀ k₁ k₂ ρ, ρ < k₁ → ρ < k₂ → chainOlderAux σ k₁ ρ = chainAux σ k₂ ρ := by
  intro k₁
  induction k₁ with
  | zero => intro k₂ ρ h1; omega
  | succ k₁ ih =>
    intro k₂ ρ h1 h2
    obtain ⟨k₂, rfl⟩ : ∃ m, k₂ = m + 1 := ⟨k₂ - 1, by omega⟩
    rw [chainOlderAux, chainAux]
    cases hf : σ.frames[ρ]? with
    | none => rfl
    | some f =>
      simp only
      cases hp : f.parent with
      | none => rfl
      | some p =>
        have hlt := h ρ f p hf hp
        simp only [hlt, if_true]
        rw [ih k₂ p (by omega) (by omega)]

end Ruschm.Eval

namespace Ruschm.Xform

/-! ## The transformer depends on the syntax environment only through lookups -/

/-- scope `a` shadowing scope `b` looks like scope `h` -/
def LookupSq (a b h : List (String × Macro.Rules)) : Prop :=
  ∀ k, h.lookup k = (a.lookup k).or (b.lookup k)

/-- `s₂` is `s₁` with the two scopes at depth `d`, `d+1` squashed into one; `t` lies below them -/
inductive SqRel (t : SynEnv) : Nat → SynEnv → SynEnv → Prop
  | here {a b h} : LookupSq a b h → SqRel t 0 (a :: b :: t) (h :: t)
  | there {d c s₁ s₂} : SqRel t d s₁ s₂ → SqRel t (d+1) (c :: s₁) (c :: s₂)

theorem scopeInsert_lookup (scope : List (String × Macro.Rules)) (k : String) (r : Macro.Rules) (k' : String) :
    (scopeInsert scope k r).lookup k' = if k' = k then some r else scope.lookup k' := by
  have hbeq : ∀ a : String, (k' == a) = decide (k' = a) := fun a => by
    by_cases h : k' = a <;> simp [h]
  induction scope with
  | nil =>
    simp only [scopeInsert, List.lookup, hbeq]
    by_cases h : k' = k <;> simp [h]
  | cons a scope ih =>
    obtain ⟨a, b⟩ := a
    simp only [scopeInsert]
    by_cases ha : a = k
    · subst ha
      simp only [if_true, List.lookup, hbeq]
      by_cases h : k' = a <;> simp [h]
    · simp only [ha, if_false, List.lookup, ih, hbeq]
      by_cases h' : k' = a
      · subst h'; simp [ha]
      · simp [h']

/-- what `inChild` does to the environment its argument returns -/
def popScope : SynEnv → SynEnv
  | _ :: s' => s'
  | [] => []

/-- a depth-indexed relation between syntax environments that every primitive of the transformer
respects: equal lookups, closed under `define`, under opening and under closing a child scope -/
class EnvRel (R : Nat → SynEnv → SynEnv → Prop) : Prop where
  get? : ∀ {d s₁ s₂}, R d s₁ s₂ → ∀ k, s₁.get? k = s₂.get? k
  define : ∀ {d s₁ s₂}, R d s₁ s₂ → ∀ k r, R d (s₁.define k r) (s₂.define k r)
  push : ∀ {d s₁ s₂}, R d s₁ s₂ → R (d+1) ([] :: s₁) ([] :: s₂)
  pop : ∀ {d o₁ o₂}, R (d+1) o₁ o₂ → R d (popScope o₁) (popScope o₂)

theorem SqRel.get?' {t d s₁ s₂} (h : SqRel t d s₁ s₂) (k : String) : s₁.get? k = s₂.get? k := by
  induction h with
  | here hl =>
    simp only [SynEnv.get?, hl k]
    rename_i a b h
    cases a.lookup k <;> simp
  | there _ ih => simp only [SynEnv.get?, ih]

theorem SqRel.define' {t d s₁ s₂} (h : SqRel t d s₁ s₂) (k : String) (r : Macro.Rules) :
    SqRel t d (s₁.define k r) (s₂.define k r) := by
  cases h with
  | here hl =>
    simp only [SynEnv.define]
    refine .here fun k' => ?_
    simp only [scopeInsert_lookup, hl k']
    by_cases hk : k' = k <;> simp [hk]
  | there h' => simp only [SynEnv.define]; exact .there h'

instance (t : SynEnv) : EnvRel (SqRel t) where
  get? := SqRel.get?'
  define := SqRel.define'
  push := .there
  pop := fun h => by cases h with | there h' => exact h'

/-- `s₁` is `s₂` with one more, empty, outermost scope — or they are equal -/
def BotRel (d : Nat) (s₁ s₂ : SynEnv) : Prop :=
  (s₂.length = d ∧ s₁ = s₂ ++ [[]]) ∨ s₁ = s₂

theorem get?_append_empty (pre : SynEnv) (k : String) : SynEnv.get? (pre ++ [[]]) k = SynEnv.get? pre k := by
  induction pre with
  | nil => simp [SynEnv.get?, List.lookup]
  | cons c pre ih => simp only [List.cons_append, SynEnv.get?, ih]

instance : EnvRel BotRel where
  get? := fun {d s₁ s₂} h k => by
    rcases h with ⟨_, rfl⟩ | rfl
    · exact get?_append_empty s₂ k
    · rfl
  define := fun {d s₁ s₂} h k r => by
    rcases h with ⟨hl, rfl⟩ | rfl
    · cases s₂ with
      | nil => exact .inr (by simp [SynEnv.define, scopeInsert])
      | cons c pre => exact .inl ⟨by simpa [SynEnv.define] using hl, by simp [SynEnv.define]⟩
    · exact .inr rfl
  push := fun {d s₁ s₂} h => by
    rcases h with ⟨hl, rfl⟩ | rfl
    · exact .inl ⟨by simp [hl], by simp⟩
    · exact .inr rfl
  pop := fun {d o₁ o₂} h => by
    rcases h with ⟨hl, rfl⟩ | rfl
    · cases o₂ with
      | nil => simp at hl
      | cons c pre => exact .inl ⟨by simpa [popScope] using hl, by simp [popScope]⟩
    · exact .inr rfl

/-- `m` computes the same result in related environments and keeps them related -/
structure Rel2 (R : Nat → SynEnv → SynEnv → Prop) {α} (m : XM α) : Prop where
  rel : ∀ d s₁ s₂, R d s₁ s₂ → (m s₁).1 = (m s₂).1 ∧ R d (m s₁).2 (m s₂).2

section combinators
variable {R : Nat → SynEnv → SynEnv → Prop} [hR : EnvRel R]
set_option linter.unusedSectionVars false

theorem Rel2.pure {α} (a : α) : Rel2 R (pure a : XM α) := ⟨fun _ _ _ h => ⟨rfl, h⟩⟩
theorem Rel2.fail {α} (e : SErr) : Rel2 R (fail e : XM α) := ⟨fun _ _ _ h => ⟨rfl, h⟩⟩
theorem Rel2.lift {α} (x : Except SErr α) : Rel2 R (lift x) := ⟨fun _ _ _ h => ⟨rfl, h⟩⟩
theorem Rel2.need {α} (x : Option α) : Rel2 R (need x) := by
  cases x
  · exact Rel2.fail _
  · exact Rel2.pure _
theorem Rel2.identOf (d : Datum) : Rel2 R (identOf d) := Rel2.lift _
theorem Rel2.expectList (d : Datum) : Rel2 R (expectList d) := Rel2.lift _
theorem Rel2.defineSyntax (k r) : Rel2 R (defineSyntax k r) := ⟨fun _ _ _ h => ⟨rfl, hR.define h k r⟩⟩

theorem Rel2.bind {α β} {m : XM α} {f : α → XM β} (hm : Rel2 R m) (hf : ∀ a, Rel2 R (f a)) : Rel2 R (m >>= f) := by
  refine ⟨fun d s₁ s₂ h => ?_⟩
  obtain ⟨h₁, h₂⟩ := hm.rel d s₁ s₂ h
  simp only [XM.bind_def]
  generalize m s₁ = x at h₁ h₂
  generalize m s₂ = y at h₁ h₂
  obtain ⟨r₁, e₁⟩ := x
  obtain ⟨r₂, e₂⟩ := y
  simp only at h₁ h₂
  subst h₁
  cases r₁ with
  | error e => exact ⟨rfl, h₂⟩
  | ok a => exact (hf a).rel d e₁ e₂ h₂

/-- reading the environment is allowed when only lookups are made in it -/
theorem Rel2.getEnv_bind {β} {kw : String} {g : Option Macro.Rules → XM β} (hg : ∀ o, Rel2 R (g o)) :
    Rel2 R (getEnv >>= fun env => g (env.get? kw)) := by
  refine ⟨fun d s₁ s₂ h => ?_⟩
  simp only [XM.bind_def, getEnv, hR.get? h kw]
  exact (hg _).rel d s₁ s₂ h

theorem Rel2.getEnv_match {β} {kw : String} {A : Macro.Rules → XM β} {B : XM β}
    (hA : ∀ r, Rel2 R (A r)) (hB : Rel2 R B) :
    Rel2 R (getEnv >>= fun env => match env.get? kw with
      | some r => A r
      | none => B) :=
  Rel2.getEnv_bind (g := fun o => match o with | some r => A r | none => B) fun o => by
    cases o
    · exact hB
    · exact hA _

theorem Rel2.inChild {α} {m : XM α} (hm : Rel2 R m) : Rel2 R (inChild m) := by
  refine ⟨fun d s₁ s₂ h => ?_⟩
  obtain ⟨h₁, h₂⟩ := hm.rel (d+1) ([] :: s₁) ([] :: s₂) (hR.push h)
  simp only [Xform.inChild]
  generalize m ([] :: s₁) = x at h₁ h₂
  generalize m ([] :: s₂) = y at h₁ h₂
  obtain ⟨r₁, e₁⟩ := x
  obtain ⟨r₂, e₂⟩ := y
  simp only at h₁ h₂
  subst h₁
  have hp := hR.pop h₂
  cases e₁ <;> cases e₂ <;> exact ⟨rfl, hp⟩


theorem Rel2.mapM_loop {α β} {f : α → XM β} (hf : ∀ a, Rel2 R (f a)) (l : List α) (acc : List β) :
    Rel2 R (List.mapM.loop f l acc) := by
  induction l generalizing acc with
  | nil => simp only [List.mapM.loop]; exact Rel2.pure _
  | cons a l ih =>
    simp only [List.mapM.loop]
    exact Rel2.bind (hf a) fun b => ih _

theorem Rel2.mapM {α β} {f : α → XM β} (hf : ∀ a, Rel2 R (f a)) (l : List α) : Rel2 R (l.mapM f) :=
  Rel2.mapM_loop hf l []

syntax "rel2_close" : tactic
macro_rules
  | `(tactic| rel2_close) => `(tactic| first
      | exact Rel2.fail _ | exact Rel2.pure _ | exact Rel2.lift _ | exact Rel2.need _ | exact Rel2.identOf _
      | exact Rel2.expectList _ | exact Rel2.defineSyntax _ _)

theorem Rel2.toFormals (d : Datum) : Rel2 R (toFormals d) := by
  unfold Xform.toFormals
  split
  · simp only; split <;> rel2_close
  · simp only; split <;> rel2_close
  · rel2_close
  · rel2_close

theorem Rel2.toLibName (ds : List Datum) : Rel2 R (toLibName ds) := by
  unfold Xform.toLibName
  apply Rel2.mapM
  intro d
  split
  · rel2_close
  · split <;> rel2_close
  · rel2_close

theorem Rel2.toExportSpec (d : Datum) : Rel2 R (toExportSpec d) := by
  unfold Xform.toExportSpec
  repeat (first | rel2_close | apply Rel2.bind | intro _ | split | dsimp only)

theorem Rel2.toImportSet (n : Nat) (d : Datum) : Rel2 R (toImportSet n d) := by
  induction n generalizing d with
  | zero => rw [Xform.toImportSet]; rel2_close
  | succ n ih =>
    rw [Xform.toImportSet]
    repeat (first | rel2_close | exact ih _ | exact Rel2.toLibName _ | apply Rel2.bind | apply Rel2.mapM | intro _ | split | dsimp only)


structure RelAll (R : Nat → SynEnv → SynEnv → Prop) (n : Nat) : Prop where
  stmt : ∀ d, Rel2 R (toStatement n d)
  expr : ∀ d, Rel2 R (toExpr n d)
  call : ∀ first args loc, Rel2 R (toCall n first args loc)
  exprs : ∀ ds, Rel2 R (toExprs n ds)
  defn : ∀ args, Rel2 R (toDefinition n args)
  lam : ∀ args, Rel2 R (toLambda n args)
  body : ∀ ds defs exprs, Rel2 R (toBody n ds defs exprs)
  lib : ∀ args loc, Rel2 R (toLibrary n args loc)
  decls : ∀ ds, Rel2 R (toLibDecls n ds)
  decl : ∀ d, Rel2 R (toLibDecl n d)
  stmts : ∀ ds, Rel2 R (toStatements n ds)

syntax "rel2_all" term : tactic
macro_rules
  | `(tactic| rel2_all $ih) => `(tactic| repeat (first
      | rel2_close
      | exact RelAll.stmt $ih _ | exact RelAll.expr $ih _ | exact RelAll.call $ih _ _ _ | exact RelAll.exprs $ih _
      | exact RelAll.defn $ih _ | exact RelAll.lam $ih _ | exact RelAll.body $ih _ _ _ | exact RelAll.lib $ih _ _
      | exact RelAll.decls $ih _ | exact RelAll.decl $ih _ | exact RelAll.stmts $ih _
      | exact Rel2.toFormals _ | exact Rel2.toImportSet _ _ | exact Rel2.toLibName _ | exact Rel2.toExportSpec _
      | apply Rel2.inChild | apply Rel2.getEnv_match | apply Rel2.bind | apply Rel2.mapM | intro _ | split | dsimp only))

section
variable {n : Nat} (ih : RelAll R n)
include ih

theorem rel_expr (d : Datum) : Rel2 R (toExpr (n+1) d) := by
  rw [toExpr]; rel2_all ih
theorem rel_call (first args loc) : Rel2 R (toCall (n+1) first args loc) := by
  rw [toCall]; rel2_all ih
theorem rel_exprs (ds) : Rel2 R (toExprs (n+1) ds) := by
  cases ds <;> rw [toExprs] <;> rel2_all ih
theorem rel_defn (args) : Rel2 R (toDefinition (n+1) args) := by
  rw [toDefinition]; rel2_all ih
theorem rel_lam (args) : Rel2 R (toLambda (n+1) args) := by
  rw [toLambda]; rel2_all ih
theorem rel_body (ds defs exprs) : Rel2 R (toBody (n+1) ds defs exprs) := by
  cases ds <;> rw [toBody] <;> rel2_all ih
theorem rel_lib (args loc) : Rel2 R (toLibrary (n+1) args loc) := by
  rw [toLibrary]; rel2_all ih
theorem rel_decls (ds) : Rel2 R (toLibDecls (n+1) ds) := by
  cases ds <;> rw [toLibDecls] <;> rel2_all ih
theorem rel_decl (d) : Rel2 R (toLibDecl (n+1) d) := by
  rw [toLibDecl]; rel2_all ih
theorem rel_stmts (ds) : Rel2 R (toStatements (n+1) ds) := by
  cases ds <;> rw [toStatements] <;> rel2_all ih
theorem rel_stmt (d : Datum) : Rel2 R (toStatement (n+1) d) := by
  unfold toStatement; rel2_all ih
end

theorem relAll : ∀ n, RelAll R n
  | 0 => by
    constructor <;> intros <;>
      simp only [toStatement, toExpr, toCall, toExprs, toDefinition, toLambda, toBody, toLibrary, toLibDecls,
        toLibDecl, toStatements] <;> rel2_close
  | n+1 =>
    have ih := relAll n
    ⟨rel_stmt ih, rel_expr ih, rel_call ih, rel_exprs ih, rel_defn ih, rel_lam ih, rel_body ih, rel_lib ih,
      rel_decls ih, rel_decl ih, rel_stmts ih⟩


end combinators

/-- running a body transformer in a fresh child scope of a non-empty environment gives the result
it gives in that environment itself -/
theorem inChild_result_eq {α} {m : XM α} (hm : ∀ R [EnvRel R], Rel2 R m) (s : SynEnv) :
    (inChild m s).1 = (m s).1 := by
  have key : (m ([] :: s)).1 = (m s).1 := by
    cases s with
    | nil => exact ((hm BotRel).rel 0 [[]] [] (.inl ⟨rfl, rfl⟩)).1
    | cons h t => exact ((hm (SqRel t)).rel 0 ([] :: h :: t) (h :: t) (.here fun k => by simp)).1
  rw [← key]
  simp only [inChild]
  split <;> (rename_i heq; rw [heq])

/-- a procedure body transforms to the same definitions and expressions in a syntax environment
and in a fresh child scope of it -/
theorem toBody_inChild (j : Nat) (bs : List Datum) (s : SynEnv) :
    (inChild (toBody j bs [] []) s).1 = (toBody j bs [] [] s).1 :=
  inChild_result_eq (fun R _ => (relAll (R := R) j).body bs [] []) s

end Ruschm.Xform

/-
Specification vocabulary for the theorems of `RuschmProofs/C09More.lean` and `C10More.lean`
(operations with inexact operands).

* `Num.realFold op g ys` : the pure binary32 left fold: starting from the binary32 number `g`, every
                           operand of `ys` is converted (`Num.toReal`) and combined with `op`;
* `Num.fmax`, `Num.fmin` : the binary32 `max`/`min` of `first_of_order!`: the left operand is kept
                           only when the comparison `>` (resp. `<`) HOLDS, so a NaN on the left is
                           dropped and a NaN on the right is kept;
* `Num.Cmp`              : the meaning of one comparison: on two exact operands the relation in ℚ,
                           otherwise the binary32 relation on the converted operands.

Core Lean only.
-/
import RuschmSpec.Num

namespace Ruschm
namespace Num

/-- The binary32 left fold `(((g ⊕ y₁) ⊕ y₂) ⊕ …)`, every operand converted to binary32 first. -/
def realFold (op : Float32 → Float32 → Float32) (g : Float32) (ys : List Num) : Float32 :=
  ys.foldl (fun acc y => op acc y.toReal) g

/-- binary32 `max` as `first_of_order!(max, >)` computes it: `x` if `x > y` holds, else `y`.
(With a NaN the comparison is false: `fmax NaN y = y`, `fmax x NaN = NaN`.) -/
def fmax (x y : Float32) : Float32 := if x > y then x else y

/-- binary32 `min` as `first_of_order!(min, <)` computes it: `x` if `x < y` holds, else `y`. -/
def fmin (x y : Float32) : Float32 := if x < y then x else y

/-- Meaning of one comparison of `a` with `b`: both exact - the relation `ratRel` of their values in ℚ;
otherwise (at least one inexact) the binary32 relation `fRel` of the converted operands. -/
def Cmp (ratRel : Rat → Rat → Prop) (fRel : Float32 → Float32 → Prop) (a b : Num) : Prop :=
  match a.val, b.val with
  | some x, some y => ratRel x y
  | _, _ => fRel a.toReal b.toReal

end Num
end Ruschm

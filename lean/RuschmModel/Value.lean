/-
Values, environments and the store: `src/values.rs` (`Value`, `Procedure`, `ValueReference`),
`src/environment.rs` (`LexicalScope`). Frames and vectors are numbered cells of an explicit
store; pairs are plain data (the Rust boxes and deep-copies them: they have no identity).
-/
import RuschmModel.Ast
namespace Ruschm

/-- the native procedures of `(ruschm base)` and `(ruschm write)`, plus `tick`, a procedure the
harness registers in a native library `(verif host)` to observe evaluation order -/
inductive Builtin where
  | apply | car | cdr | eqv | eq | cons
  | isBoolean | isChar | isNumber | isString | isSymbol | isPair | isProcedure | isVector
  | not | booleanEq
  | add | sub | mul | div | numEq | lt | le | gt | ge | min | max
  | abs | sqrt | exp | ln | log | sin | cos | tan | asin | acos | atan | atan2
  | floor | ceiling | exact | floorQuotient | floorRemainder
  | newline | vector | makeVector | vectorLength | vectorRef | vectorSet
  | display
  | tick
  deriving DecidableEq, Repr, Inhabited

namespace Builtin

/-- the Scheme name it is bound to -/
def name : Builtin → String
  | apply => "apply" | car => "car" | cdr => "cdr" | eqv => "eqv?" | eq => "eq?" | cons => "cons"
  | isBoolean => "boolean?" | isChar => "char?" | isNumber => "number?" | isString => "string?"
  | isSymbol => "symbol?" | isPair => "pair?" | isProcedure => "procedure?" | isVector => "vector?"
  | not => "not" | booleanEq => "boolean=?"
  | add => "+" | sub => "-" | mul => "*" | div => "/" | numEq => "=" | lt => "<" | le => "<="
  | gt => ">" | ge => ">=" | min => "min" | max => "max"
  | abs => "abs" | sqrt => "sqrt" | exp => "exp" | ln => "ln" | log => "log" | sin => "sin"
  | cos => "cos" | tan => "tan" | asin => "asin" | acos => "acos" | atan => "atan" | atan2 => "atan2"
  | floor => "floor" | ceiling => "ceiling" | exact => "exact" | floorQuotient => "floor-quotient"
  | floorRemainder => "floor-remainder"
  | newline => "newline" | vector => "vector" | makeVector => "make-vector"
  | vectorLength => "vector-length" | vectorRef => "vector-ref" | vectorSet => "vector-set!"
  | display => "display" | tick => "tick"

/-- `ParameterFormals::len()` of the registered parameter list: fixed count and variadic flag -/
def arity : Builtin → Nat × Bool
  | apply => (1, true)
  | car | cdr => (1, false)
  | eqv | eq | cons => (2, false)
  | isBoolean | isChar | isNumber | isString | isSymbol | isPair | isProcedure | isVector | not => (1, false)
  | booleanEq => (0, true)
  | add | mul => (0, true)
  | sub | div => (1, true)
  | numEq | lt | le | gt | ge => (0, true)
  | min | max => (1, true)
  | abs | sqrt | exp | ln | sin | cos | tan | asin | acos | atan | floor | ceiling | exact => (1, false)
  | log | atan2 | floorQuotient | floorRemainder => (2, false)
  | newline => (0, false)
  | vector => (0, true)
  | makeVector => (2, false)
  | vectorLength => (1, false)
  | vectorRef => (2, false)
  | vectorSet => (3, false)
  | display => (1, false)
  | tick => (1, false)

/-- `(ruschm base)` in registration order -/
def baseList : List Builtin :=
  [apply, car, cdr, eqv, eq, cons, isBoolean, isChar, isNumber, isString, isSymbol, isPair,
   isProcedure, isVector, not, booleanEq, add, sub, mul, div, numEq, lt, le, gt, ge, min, max,
   abs, sqrt, exp, ln, log, sin, cos, tan, asin, acos, atan, atan2, floor, ceiling, exact,
   floorQuotient, floorRemainder, newline, vector, makeVector, vectorLength, vectorRef, vectorSet]

end Builtin

/-- `Value` -/
inductive Value where
  | num (n : Num)
  | bool (b : Bool)
  | char (c : Char)
  | str (s : String)
  | sym (s : String)
  | closure (lam : Lambda) (env : Nat)   -- `Procedure::User(SchemeProcedure, Rc<Environment>)`
  | builtin (b : Builtin)                -- `Procedure::Builtin`
  | vec (id : Nat)                       -- `ValueReference`: a cell of the store
  | pair (car cdr : Value)               -- `Pair(Box<GenericPair::Some>)`
  | nil                                  -- `Pair(Box<GenericPair::Empty>)`
  | transformer (r : Macro.Rules)
  | void
  deriving Inhabited

namespace Value

/-- `as_boolean`: only `#f` is false -/
def truthy : Value → Bool
  | .bool false => false
  | _ => true

/-- list of values as a `Value` (`collect::<Pair<R>>()`) -/
def ofList : List Value → Value
  | [] => .nil
  | x :: xs => .pair x (ofList xs)

/-- `into_iter()` of a pair value: the cars, then an improper tail as a last element -/
def elems : Value → List Value
  | .pair a d => a :: elems d
  | .nil => []
  | other => [other]

end Value

/-- one `LexicalScope`: its parent and its definitions (`HashMap` as an association list with
replace-or-append insertion; iteration order is never observed by the evaluator) -/
structure Frame where
  parent : Option Nat
  defs : List (String × Value)
  deriving Inhabited

/-- the target of a `ValueReference` -/
structure VecCell where
  mutable : Bool
  items : List Value
  deriving Inhabited

/-- everything evaluation can change: frames, vectors, the output written by `display` and
`newline`, the trace of the host `tick` procedure, and the nesting depth of `apply_procedure`
activations (current and maximum) -/
structure Store where
  frames : Array Frame := #[]
  vecs : Array VecCell := #[]
  out : List String := []          -- most recent first
  ticks : List String := []        -- most recent first
  depth : Nat := 0
  maxDepth : Nat := 0
  deriving Inhabited

namespace Store

def newFrame (σ : Store) (parent : Option Nat) : Nat × Store :=
  (σ.frames.size, { σ with frames := σ.frames.push { parent := parent, defs := [] } })

def defsInsert (defs : List (String × Value)) (k : String) (v : Value) : List (String × Value) :=
  match defs with
  | [] => [(k, v)]
  | (k', v') :: rest => if k' = k then (k, v) :: rest else (k', v') :: defsInsert rest k v

/-- `LexicalScope::define` -/
def define (σ : Store) (ρ : Nat) (k : String) (v : Value) : Store :=
  if h : ρ < σ.frames.size then
    { σ with frames := σ.frames.modify ρ (fun f => { f with defs := defsInsert f.defs k v }) }
  else σ

/-- `LexicalScope::get`: the nearest frame on the parent chain that defines `k`. Parents are
older than their children, so `ρ + 1` steps always suffice. -/
def lookupAux (σ : Store) : Nat → Nat → String → Option Value
  | 0, _, _ => none
  | fuel + 1, ρ, k =>
    match σ.frames[ρ]? with
    | none => none
    | some f =>
      match f.defs.lookup k with
      | some v => some v
      | none =>
        match f.parent with
        | some p => if p < ρ then lookupAux σ fuel p k else none
        | none => none

def lookup (σ : Store) (ρ : Nat) (k : String) : Option Value := lookupAux σ (ρ + 1) ρ k

/-- the frame `set!` would write to -/
def resolveAux (σ : Store) : Nat → Nat → String → Option Nat
  | 0, _, _ => none
  | fuel + 1, ρ, k =>
    match σ.frames[ρ]? with
    | none => none
    | some f =>
      if (f.defs.lookup k).isSome then some ρ
      else match f.parent with
        | some p => if p < ρ then resolveAux σ fuel p k else none
        | none => none

def resolve (σ : Store) (ρ : Nat) (k : String) : Option Nat := resolveAux σ (ρ + 1) ρ k

/-- `LexicalScope::set`: overwrite in the frame that defines `k`; `false` = unbound, store unchanged -/
def set (σ : Store) (ρ : Nat) (k : String) (v : Value) : Bool × Store :=
  match σ.resolve ρ k with
  | some r => (true, σ.define r k v)
  | none => (false, σ)

def allocVec (σ : Store) (mutable : Bool) (items : List Value) : Value × Store :=
  (.vec σ.vecs.size, { σ with vecs := σ.vecs.push { mutable := mutable, items := items } })

end Store
end Ruschm

/-
Property C07 — no panic, and the interpreter stays usable — for the NEW entry points of the model:
the lookup directory (`State.dir`, `fileKey`, `dirOf`), the file table changing between steps, and
the program-file entry point `Interp.evalFile` (`Interpreter::eval_file`).

`RuschmProofs/C07.lean` proves the property for sessions of TEXTS. Here:

1. `safe_ignores_dir` — the invariant `Interp.Safe` does not read `dir` or `files`: a file system
   is arbitrary data;
2. `evalFile_no_panic`, `evalFile_outcomes` — `evalFile` of ANY path (missing, unreadable, any text)
   never panics, keeps the state safe; the two io-error branches are stated as such;
3. `steps_no_panic`, `session_no_panic`, `session_generalises_run` — sessions whose steps are texts,
   program files, changes of the lookup directory and changes of the file system;
4. `library_files_with_any_content_no_panic`, `bad_library_file_is_reported` — a library file with
   arbitrary content under an arbitrary directory.

Helper lemmas: `RuschmProofs/SafeFilesLemmas.lean`. Vocabulary: `RuschmSpec/Safe.lean`.
-/
import RuschmProofs.SafeFilesLemmas
import RuschmProofs.C07

namespace Ruschm.C07Files
open Ruschm Interp

/-! ## Vocabulary: sessions of steps -/

/-- one step of a session with the interpreter and the file system around it -/
inductive Step where
  /-- `Interpreter::eval` on a text, with the model's fuel -/
  | text (fuel : Nat) (t : List Char)
  /-- `Interpreter::eval_file` on a path, with the model's fuel -/
  | file (fuel : Nat) (path : String)
  /-- a program directory is recorded (what `eval_file` does first; the harness field `D`) -/
  | setDir (d : String)
  /-- the file system changes: `key` now holds `entry` (a text, or something unreadable); an
  earlier entry under the same key is shadowed -/
  | addFile (key : String) (entry : FileEntry)
  /-- the file system changes: nothing is at `key` any more -/
  | removeFile (key : String)
  /-- the file system is replaced altogether -/
  | setFiles (files : List (String × FileEntry))

/-- one step: the outcome, if the step evaluates something, and the next state -/
def step (st : State) : Step → Option (Except SErr (Option Value)) × State
  | .text fuel t => (some (evalText fuel st t).1, (evalText fuel st t).2)
  | .file fuel path => (some (evalFile fuel st path).1, (evalFile fuel st path).2)
  | .setDir d => (none, { st with dir := d })
  | .addFile key entry => (none, { st with files := (key, entry) :: st.files })
  | .removeFile key => (none, { st with files := st.files.filter (fun p => p.1 ≠ key) })
  | .setFiles files => (none, { st with files := files })

/-- a session: the outcomes of the evaluating steps in order, and the final state -/
def runSteps (st : State) : List Step → List (Except SErr (Option Value)) × State
  | [] => ([], st)
  | s :: rest => ((step st s).1.toList ++ (runSteps (step st s).2 rest).1, (runSteps (step st s).2 rest).2)

/-- the sanity form -/
def probe : List Char := "((lambda (x) x) 42)".toList

/-- `addFile` does what it says: the entry is what a lookup under that key now finds -/
example (st : State) (k : String) (e : FileEntry) :
    (step st (.addFile k e)).2.files.lookup k = some e := by
  simp [step]

/-! ## 1. The invariant does not read the directory or the files -/

/-- `Interp.Safe` does not depend on the lookup directory or on the file system: a state is safe
exactly when the same state with ANY other directory and ANY other file table is; in particular
safety is kept by recording any directory, by adding any entry — a text or something unreadable —
under any key (shadowing or not), and by removing entries. -/
theorem safe_ignores_dir (st : State) :
    (∀ d, Interp.Safe { st with dir := d } ↔ Interp.Safe st) ∧
    (∀ fs d, Interp.Safe { st with files := fs, dir := d } ↔ Interp.Safe st) ∧
    (∀ key entry, Interp.Safe { st with files := (key, entry) :: st.files } ↔ Interp.Safe st) ∧
    (∀ key entry, Interp.Safe { st with files := assocInsert st.files key entry } ↔ Interp.Safe st) ∧
    (∀ key, Interp.Safe { st with files := st.files.filter (fun p => p.1 ≠ key) } ↔ Interp.Safe st) :=
  ⟨fun _ => ⟨fun h => h.congr rfl rfl rfl rfl rfl, fun h => h.congr rfl rfl rfl rfl rfl⟩,
   fun _ _ => ⟨fun h => h.congr rfl rfl rfl rfl rfl, fun h => h.congr rfl rfl rfl rfl rfl⟩,
   fun _ _ => ⟨fun h => h.congr rfl rfl rfl rfl rfl, fun h => h.congr rfl rfl rfl rfl rfl⟩,
   fun _ _ => ⟨fun h => h.congr rfl rfl rfl rfl rfl, fun h => h.congr rfl rfl rfl rfl rfl⟩,
   fun _ => ⟨fun h => h.congr rfl rfl rfl rfl rfl, fun h => h.congr rfl rfl rfl rfl rfl⟩⟩

/-- a safe state with a directory and an unreadable file put next to it -/
example : Interp.Safe { Interp.default_ false with files := [("proj/a.sld", .unreadable)], dir := "proj" } :=
  ((safe_ignores_dir (Interp.default_ false)).2.1 _ _).2 (C07.initial_safe false 0 []).1

/-! ## 2. The program-file entry point -/

/-- From a safe interpreter state, `eval_file` on ANY path — no such file, a file that cannot be
read as text, a file with any text whatever — with ANY fuel does not panic, and the state it
leaves is safe again, whatever the outcome. -/
theorem evalFile_no_panic (fuel : Nat) (st : State) (path : String) (h : Interp.Safe st) :
    NoPanic (Interp.evalFile fuel st path).1 ∧ Interp.Safe (Interp.evalFile fuel st path).2 :=
  have i := Interp.evalFile_post fuel st path h
  ⟨noPanic_iff.2 i.np, i.safe⟩

example : Interp.Safe (Interp.withStdlib 1000 true) := (C07.initial_safe true 1000 []).2.1

/-- The three branches of `eval_file`, for EVERY state (safe or not). The directory of the path
becomes the lookup directory first, whatever happens next. No file at the path, or a file that is
not text: the outcome is the io error (not a panic, not a value), and nothing else of the state
changes. A text: the outcome and the state are those of evaluating that text with the new
directory. In all three: the in-progress set, the files and the root frame are as before and the
lookup directory is the directory of the path. -/
theorem evalFile_outcomes (fuel : Nat) (st : State) (path : String) :
    (st.files.lookup path = none →
      Interp.evalFile fuel st path = (.error (.io, none), { st with dir := dirOf path })) ∧
    (st.files.lookup path = some .unreadable →
      Interp.evalFile fuel st path = (.error (.io, none), { st with dir := dirOf path })) ∧
    (∀ t, st.files.lookup path = some (.text t) →
      Interp.evalFile fuel st path = Interp.evalText fuel { st with dir := dirOf path } t.toList) ∧
    ((Interp.evalFile fuel st path).2.inProgress = st.inProgress ∧
      (Interp.evalFile fuel st path).2.files = st.files ∧
      (Interp.evalFile fuel st path).2.env = st.env ∧
      (Interp.evalFile fuel st path).2.dir = dirOf path) :=
  ⟨Interp.evalFile_missing, Interp.evalFile_unreadable, fun _ h => Interp.evalFile_text h,
    Interp.evalFile_frame fuel st path⟩

/-- the three hypotheses are satisfiable; the directory of `proj/main.scm` is `proj` -/
example : ([] : List (String × FileEntry)).lookup "proj/main.scm" = none ∧
    [("proj/main.scm", FileEntry.unreadable)].lookup "proj/main.scm" = some .unreadable ∧
    [("proj/main.scm", FileEntry.text "1")].lookup "proj/main.scm" = some (.text "1") ∧
    dirOf "proj/main.scm" = "proj" := by
  refine ⟨rfl, by simp [List.lookup], by simp [List.lookup], by decide⟩

/-- After `eval_file` — whatever the path, whatever the outcome, from EVERY state — the
interpreter still evaluates: the probe `((lambda (x) x) 42)` given as a text evaluates to 42, and
so does a program file that holds the probe, wherever it lies. -/
theorem usable_after_file (fuel : Nat) (st : State) (path : String) (fuel' : Nat) (hf : 7 ≤ fuel') :
    (Interp.evalText fuel' (Interp.evalFile fuel st path).2 probe).1 = .ok (some (.num (.int 42))) ∧
    ∀ path' fs, fs.lookup path' = some (.text "((lambda (x) x) 42)") →
      (Interp.evalFile fuel' { (Interp.evalFile fuel st path).2 with files := fs } path').1 =
        .ok (some (.num (.int 42))) := by
  refine ⟨C07.usable_after_error _ fuel' hf, fun path' fs h => ?_⟩
  rw [Interp.evalFile_text h]
  exact C07.usable_after_error _ fuel' hf

example : (7 : Nat) ≤ 7 ∧
    [("q/p.scm", FileEntry.text "((lambda (x) x) 42)")].lookup "q/p.scm" = some (.text "((lambda (x) x) 42)") :=
  ⟨Nat.le_refl _, by simp [List.lookup]⟩

/-! ## 3. Sessions of texts, program files, directory changes and file-system changes -/

private theorem step_safe (st : State) (s : Step) (h : Interp.Safe st) :
    (∀ r, (step st s).1 = some r → NoPanic r) ∧ Interp.Safe (step st s).2 := by
  cases s with
  | text fuel t =>
    have i := C07.interp_no_panic fuel st t h
    exact ⟨fun r hr => (by cases hr; exact i.1), i.2⟩
  | file fuel path =>
    have i := evalFile_no_panic fuel st path h
    exact ⟨fun r hr => (by cases hr; exact i.1), i.2⟩
  | setDir d => exact ⟨fun r hr => (by cases hr), h.congr rfl rfl rfl rfl rfl⟩
  | addFile k e => exact ⟨fun r hr => (by cases hr), h.congr rfl rfl rfl rfl rfl⟩
  | removeFile k => exact ⟨fun r hr => (by cases hr), h.congr rfl rfl rfl rfl rfl⟩
  | setFiles fs => exact ⟨fun r hr => (by cases hr), h.congr rfl rfl rfl rfl rfl⟩

/-- A session of steps from ANY safe state: no outcome is a panic and the final state is safe.
The steps are texts and program files evaluated with any fuel, and — between them — any change of
the lookup directory and any change of the file system. -/
theorem steps_no_panic (steps : List Step) :
    ∀ (st : State), Interp.Safe st →
      (∀ r ∈ (runSteps st steps).1, NoPanic r) ∧ Interp.Safe (runSteps st steps).2 := by
  induction steps with
  | nil => intro st h; exact ⟨by simp [runSteps], h⟩
  | cons s rest ih =>
    intro st h
    have h1 := step_safe st s h
    have h2 := ih _ h1.2
    simp only [runSteps]
    refine ⟨fun r hr => ?_, h2.2⟩
    rcases List.mem_append.1 hr with hr | hr
    · exact h1.1 r (by simpa [Option.mem_toList] using hr)
    · exact h2.1 r hr

example : Interp.Safe (Interp.default_ true) := (C07.initial_safe true 0 []).1

/-- **C07 for program files and a changing file system.** For every finite sequence of steps —
each a text given to `eval`, a path given to `eval_file`, a program directory being recorded, or
the file system changing (an entry added under any key, removed, or the whole table replaced) —
run on an interpreter created by `new_with_stdlib()` (any fuel for the import of the standard
library) or by `default()`, with any initial files and any initial lookup directory: no step ends
in a panic (every outcome is a value, a reported error, or the model's fuel outcome), the final
state is safe, and the sanity form `((lambda (x) x) 42)` then evaluates to 42 (fuel 7 or more). -/
theorem session_no_panic (b : Bool) (fuel₀ : Nat) (files : List (String × FileEntry)) (d : String)
    (steps : List Step) :
    ((∀ r ∈ (runSteps { Interp.withStdlib fuel₀ b with files := files, dir := d } steps).1, NoPanic r) ∧
      Interp.Safe (runSteps { Interp.withStdlib fuel₀ b with files := files, dir := d } steps).2 ∧
      ∀ fuel, 7 ≤ fuel →
        (Interp.evalText fuel (runSteps { Interp.withStdlib fuel₀ b with files := files, dir := d } steps).2
          probe).1 = .ok (some (.num (.int 42)))) ∧
    ((∀ r ∈ (runSteps { Interp.default_ b with files := files, dir := d } steps).1, NoPanic r) ∧
      Interp.Safe (runSteps { Interp.default_ b with files := files, dir := d } steps).2 ∧
      ∀ fuel, 7 ≤ fuel →
        (Interp.evalText fuel (runSteps { Interp.default_ b with files := files, dir := d } steps).2
          probe).1 = .ok (some (.num (.int 42)))) :=
  have i := C07.initial_safe b fuel₀ []
  have h1 := steps_no_panic steps _ (((safe_ignores_dir (Interp.withStdlib fuel₀ b)).2.1 files d).2 i.2.1)
  have h2 := steps_no_panic steps _ (((safe_ignores_dir (Interp.default_ b)).2.1 files d).2 i.1)
  ⟨⟨h1.1, h1.2, fun fuel hf => C07.usable_after_error _ fuel hf⟩,
   ⟨h2.1, h2.2, fun fuel hf => C07.usable_after_error _ fuel hf⟩⟩

/-- The sessions of steps generalise the sessions of texts of `C07.run_no_panic`: a session whose
steps are all texts is `Interp.run`, and every evaluating step contributes exactly one outcome
(no step is dropped from the list the theorems above quantify over). -/
theorem session_generalises_run (st : State) :
    (∀ inputs : List (Nat × List Char),
      runSteps st (inputs.map (fun p => Step.text p.1 p.2)) = Interp.run st inputs) ∧
    (∀ steps : List Step, (runSteps st steps).1.length =
      (steps.filter (fun s => match s with | .text _ _ => true | .file _ _ => true | _ => false)).length) := by
  constructor
  · intro inputs
    induction inputs generalizing st with
    | nil => rfl
    | cons p rest ih =>
      obtain ⟨fuel, text⟩ := p
      simp only [List.map_cons, runSteps, step, Interp.run, ih, Option.toList, List.cons_append,
        List.nil_append]
  · intro steps
    induction steps generalizing st with
    | nil => rfl
    | cons s rest ih =>
      cases s <;> simp [runSteps, step, ih, List.filter]

/-- the session function does evaluate. A program is put at `proj/main.scm` and run: 42. A path
where nothing is: the io error. An unreadable entry: the io error. -/
example : (runSteps {} [.addFile "proj/main.scm" (.text "((lambda (x) x) 42)"), .file 7 "proj/main.scm",
      .file 7 "nowhere.scm", .addFile "dir" .unreadable, .file 7 "dir"]).1 =
    [.ok (some (.num (.int 42))), .error (.io, none), .error (.io, none)] := by
  have h := (usable_after_file 0 {} "" 7 (Nat.le_refl _)).2 "proj/main.scm"
    [("proj/main.scm", .text "((lambda (x) x) 42)")] (by simp [List.lookup])
  have hd : (Interp.evalFile 0 ({} : State) "").2 = {} := by
    rw [Interp.evalFile_missing rfl]; rfl
  rw [hd] at h
  have hf := (evalFile_outcomes 7 { ({} : State) with files := [("proj/main.scm", .text "((lambda (x) x) 42)")] }
    "proj/main.scm").2.2.2
  simp only [runSteps, step, Option.toList, List.cons_append, List.nil_append, List.cons.injEq, and_true]
  refine ⟨h, ?_, ?_⟩
  · rw [Interp.evalFile_missing]
    rw [hf.2.1]; simp [List.lookup]
  · rw [Interp.evalFile_unreadable]
    simp only [List.lookup]
    rw [Interp.evalFile_missing]
    · simp
    · rw [hf.2.1]; simp [List.lookup]

/-! ## 4. Library files with arbitrary content, under an arbitrary directory -/

/-- Importing a library whose FILE holds arbitrary text, from any directory. Take any safe state,
any directory `d`, any library name, any string `content` (random characters, unbalanced
brackets, macro definitions, huge numbers — no hypothesis on it), and any rest of the file system;
put `content` where the library is looked up from `d` (`fileKey d (libPath name)`) and make `d`
the lookup directory. Then loading that library (`get_library`), any import declaration, and the
evaluation of any text (for instance `(import (name))`) with any fuel end in a value or a reported
error, never in a panic, and leave a safe state. `C07.library_file_no_panic` (the factory made of
the text) generalised over `dir` and carried through the import. -/
theorem library_files_with_any_content_no_panic (fuel : Nat) (st : State) (h : Interp.Safe st)
    (d : String) (name : LibName) (content : String) (others : List (String × FileEntry)) :
    let st' : State := { st with dir := d, files := (fileKey d (libPath name), .text content) :: others }
    st'.files.lookup (fileKey st'.dir (libPath name)) = some (.text content) ∧
    (∀ loc, NoPanic (Interp.getLibrary fuel st' name loc).1 ∧ Interp.Safe (Interp.getLibrary fuel st' name loc).2) ∧
    (∀ sets ρ, NoPanic (Interp.evalImport fuel st' sets ρ).1 ∧ Interp.Safe (Interp.evalImport fuel st' sets ρ).2) ∧
    (∀ text, NoPanic (Interp.evalText fuel st' text).1 ∧ Interp.Safe (Interp.evalText fuel st' text).2) ∧
    (∀ path, NoPanic (Interp.evalFile fuel st' path).1 ∧ Interp.Safe (Interp.evalFile fuel st' path).2) := by
  intro st'
  have hs : Interp.Safe st' := h.congr rfl rfl rfl rfl rfl
  refine ⟨by simp [st', List.lookup], fun loc => ?_, fun sets ρ => C07.import_no_panic fuel st' sets ρ hs,
    fun text => C07.interp_no_panic fuel st' text hs, fun path => evalFile_no_panic fuel st' path hs⟩
  have i := (Interp.iAt fuel).getLibrary (r := _) (st' := _) (loc := loc) (name := name) rfl hs
  exact ⟨noPanic_iff.2 i.np, i.safe⟩

example : Interp.Safe (Interp.default_ false) := (C07.initial_safe false 0 []).1

/-- The error branches of that lookup are errors, not values and not panics — for EVERY state.
For a library that has no instance and no registered factory, looked up in the current directory:
a file whose text `factoryOfText` rejects (with the non-panic error `e`:
`C07.library_file_no_panic`) makes `get_library` report exactly `e`; an unreadable file is the io
error; no file is "library not found" at the location of the import; in all three the state is
unchanged (nothing half-registered is left behind). -/
theorem bad_library_file_is_reported (fuel : Nat) (st : State) (name : LibName) (loc : Loc)
    (hi : libLookup st.instances name = none) (hf : libLookup st.factories name = none) :
    (∀ t e, st.files.lookup (fileKey st.dir (libPath name)) = some (.text t) →
      Interp.factoryOfText name t = .error e →
      Interp.getLibrary (fuel + 1) st name loc = (.error e, st) ∧ SErr.NP e) ∧
    (st.files.lookup (fileKey st.dir (libPath name)) = some .unreadable →
      Interp.getLibrary (fuel + 1) st name loc = (.error (.io, none), st)) ∧
    (st.files.lookup (fileKey st.dir (libPath name)) = none →
      Interp.getLibrary (fuel + 1) st name loc = (.error (.libNotFound, loc), st)) :=
  ⟨fun t e hfile he => ⟨Interp.getLibrary_bad_file hi hf hfile he,
      (Interp.factoryOfText_post name t).1 e he⟩,
   Interp.getLibrary_unreadable_file hi hf, Interp.getLibrary_no_file hi hf⟩

/-- the hypotheses are satisfiable: from the directory `proj`, the library `(m)` is looked up at
`proj/m.sld`; an empty file there defines no library -/
example : libLookup ({} : State).instances [.ident "m"] = none ∧
    libLookup ({} : State).factories [.ident "m"] = none ∧
    fileKey "proj" (libPath [.ident "m"]) = "proj/m.sld" ∧
    ({ dir := "proj", files := [("proj/m.sld", .text "")] } : State).files.lookup
      (fileKey "proj" (libPath [.ident "m"])) = some (.text "") ∧
    Interp.factoryOfText [.ident "m"] "" = .error (.libNotFound, none) := by
  refine ⟨rfl, rfl, by decide, ?_, Interp.factoryOfText_empty' _⟩
  have : fileKey "proj" (libPath [.ident "m"]) = "proj/m.sld" := by decide
  rw [this]; simp [List.lookup]

/-- a concrete run of the error branch: the program directory is `proj`, the file `proj/m.sld`
holds one closing bracket; loading `(m)` reports the reader's syntax error and changes nothing -/
example : Interp.getLibrary 1 ({ dir := "proj", files := [("proj/m.sld", .text ")")] } : State)
      [.ident "m"] (some (1, 9)) =
    (.error (.syntax, none), { dir := "proj", files := [("proj/m.sld", .text ")")] }) := by
  have hk : fileKey "proj" (libPath [.ident "m"]) = "proj/m.sld" := by decide
  refine ((bad_library_file_is_reported 0 _ [.ident "m"] (some (1, 9)) rfl rfl).1 ")" _ ?_
    (Interp.factoryOfText_rparen _)).1
  show List.lookup (fileKey "proj" (libPath [.ident "m"])) [("proj/m.sld", FileEntry.text ")")] = _
  rw [hk]; simp [List.lookup]

end Ruschm.C07Files

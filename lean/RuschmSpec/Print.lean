/-
Specification vocabulary for property C16 (what `display` prints can be read back).

Spec side only: which values the property is about (`Readable`), which datum the printed text of
such a value denotes (`datumOf`), how that datum is written by a printer that uses single spaces
(`showDatum`, and the same thing as a layout of the token sequence, `printerLayout`), and when two
values living in two stores are structurally equal (`EqualV` / `equalV`). The model of the Rust
code is `RuschmModel/{Prim,Eval,Read}.lean` (`Prim.display`, `Eval.readLiteral`, `Read.all`); the
theorems are in `RuschmProofs/C16.lean`.

Reals are *excluded* from `Readable`: `Prim.display` prints a placeholder for them (Rust's `{:?}`
of `f32` is not modelled), so nothing can be proved about their text here; the correspondence
check validates them against the real code by round trip. Strings are excluded too: `display`
prints them without quotes and escapes (the property does not name them).
-/
import RuschmSpec.Text
import RuschmSpec.Num
import RuschmModel.Eval

namespace Ruschm.Print
open Ruschm Ruschm.Text

/-! ## The values the property names -/

/-- One level of `Readable`: everything except the contents of vector cells, for which `rec` is
asked.
* booleans, characters, `()`;
* exact integers and ratios satisfying the representation invariant `Num.WF` (components fit
  `i32`, ratio in lowest terms with a positive denominator other than 1) — every number the
  interpreter computes satisfies it (`C09`);
* plain symbols: the spelling is an identifier the lexer reads without bars (`isPlainIdent`: not
  spelled like a number, not `.`, no delimiter characters, not empty);
* pairs of readable values (proper and improper lists);
* vectors whose cell exists in the store and whose items satisfy `rec`.
Reals, strings, procedures, transformers and the unspecified value are not readable. -/
def readableStep (σ : Store) (rec : Value → Bool) : Value → Bool
  | .num (.int i) => fitsI32 i
  | .num (.rat n d) => decide (Num.WF (.rat n d))
  | .num (.real _) => false
  | .bool _ => true
  | .char _ => true
  | .sym s => isPlainIdent s.toList
  | .nil => true
  | .pair a d => readableStep σ rec a && readableStep σ rec d
  | .vec id =>
    match σ.vecs[id]? with
    | some cell => cell.items.all rec
    | none => false
  | _ => false

/-- `readableN σ n v`: `v` is readable and its vectors nest at most `n` levels deep (an empty
vector counts for nothing). -/
def readableN (σ : Store) : Nat → Value → Bool
  | 0 => readableStep σ (fun _ => false)
  | n + 1 => readableStep σ (readableN σ n)

/-- The values property C16 is about. Vectors may nest, but not cyclically (a vector that
contains itself prints forever): since a chain of nested non-empty vectors without a cycle has at
most as many links as the store has cells, "nesting depth at most `σ.vecs.size`" is exactly
"finite": `Readable σ v ↔ ReadableI σ v` for the inductive predicate below
(`C16.readable_iff_inductive`). -/
def Readable (σ : Store) (v : Value) : Prop := readableN σ σ.vecs.size v = true

instance (σ : Store) (v : Value) : Decidable (Readable σ v) := by unfold Readable; infer_instance

mutual
/-- The same class as an inductive predicate (finite derivations = no cycles). -/
inductive ReadableI (σ : Store) : Value → Prop
  | int (i : Int) : fitsI32 i = true → ReadableI σ (.num (.int i))
  | rat (n d : Int) : Num.WF (.rat n d) → ReadableI σ (.num (.rat n d))
  | bool (b : Bool) : ReadableI σ (.bool b)
  | char (c : Char) : ReadableI σ (.char c)
  | sym (s : String) : isPlainIdent s.toList = true → ReadableI σ (.sym s)
  | nil : ReadableI σ .nil
  | pair {a d : Value} : ReadableI σ a → ReadableI σ d → ReadableI σ (.pair a d)
  | vec {id : Nat} {cell : VecCell} : σ.vecs[id]? = some cell → ReadableIs σ cell.items →
      ReadableI σ (.vec id)
inductive ReadableIs (σ : Store) : List Value → Prop
  | nil : ReadableIs σ []
  | cons {x : Value} {xs : List Value} : ReadableI σ x → ReadableIs σ xs → ReadableIs σ (x :: xs)
end

/-! ## The datum a value prints as -/

/-- One level of `datumOf` (locations are all `none`). For values that are not readable the result
is of no interest (reals and the other unreadable atoms give `()`). -/
def datumStep (σ : Store) (rec : Value → Datum) : Value → Datum
  | .num (.int i) => .prim (.int i) none
  | .num (.rat n d) => .prim (.rat n d.toNat) none
  | .num (.real _) => .nil none
  | .bool b => .prim (.bool b) none
  | .char c => .prim (.chr c) none
  | .str s => .prim (.str s) none
  | .sym s => .sym s none
  | .nil => .nil none
  | .pair a d => .pair (datumStep σ rec a) (datumStep σ rec d) none
  | .vec id =>
    match σ.vecs[id]? with
    | some cell => .vec (cell.items.map rec) none
    | none => .vec [] none
  | _ => .nil none

/-- `datumN σ n v`: the datum of `v`, entering at most `n` levels of vectors. -/
def datumN (σ : Store) : Nat → Value → Datum
  | 0 => datumStep σ (fun _ => .nil none)
  | n + 1 => datumStep σ (datumN σ n)

/-- The datum that the printed text of a readable value denotes: numbers, booleans and
characters as literals, symbols as identifiers, pairs as pairs, `()` as `()`, a vector as the
vector of the data of its items. -/
def datumOf (σ : Store) (v : Value) : Datum := datumN σ σ.vecs.size v

/-! ## The printer's text, on data -/

mutual
/-- A datum written the way `display` writes the corresponding value: atoms as `renderTok` writes
them, single spaces between elements, nothing after `(` and `#(` and before `)`, ` . ` before an
improper tail. -/
def showDatum : Datum → List Char
  | .prim p _ => renderTok (.prim p)
  | .sym s _ => renderTok (.ident s)
  | .nil _ => ['(', ')']
  | .vec xs _ => '#' :: '(' :: (showItems xs ++ [')'])
  | .pair a d _ => '(' :: (showDatum a ++ (showTail d ++ [')']))
/-- the rest of a list after its first element: ` x` per element, ` . t` for an improper end -/
def showTail : Datum → List Char
  | .nil _ => []
  | .pair a d _ => ' ' :: (showDatum a ++ showTail d)
  | .prim p _ => ' ' :: '.' :: ' ' :: renderTok (.prim p)
  | .sym s _ => ' ' :: '.' :: ' ' :: renderTok (.ident s)
  | .vec xs _ => ' ' :: '.' :: ' ' :: '#' :: '(' :: (showItems xs ++ [')'])
/-- vector items separated by single spaces -/
def showItems : List Datum → List Char
  | [] => []
  | x :: xs => showDatum x ++ showRest xs
def showRest : List Datum → List Char
  | [] => []
  | x :: xs => ' ' :: (showDatum x ++ showRest xs)
end

/-! ## The same as a layout of the token sequence -/

/-- `(` and `#(` -/
def opens : Token → Bool
  | .lparen | .vecIntro => true
  | _ => false

/-- the printer's separator before token `t` when the token before it opens (`o`) or not:
nothing after an opening token and before `)`, one space otherwise -/
def sep (o : Bool) (t : Token) : List Char := if o || t == .rparen then [] else [' ']

/-- the printer's layout of a token sequence: separators chosen by `sep`, nothing at the end;
with `o = true` also nothing at the beginning -/
def lay (o : Bool) : List Token → List (List Char)
  | [] => [[]]
  | t :: ts => sep o t :: lay (opens t) ts

/-- the text of a token sequence under the printer's layout -/
def layText (o : Bool) : List Token → List Char
  | [] => []
  | t :: ts => sep o t ++ (renderTok t ++ layText (opens t) ts)

/-- THE PRINTER'S LAYOUT of the canonical written form of a datum (`Syn.ofDatum`): nothing before
the first token and after the last, nothing after `(` / `#(` and before `)`, one space between any
other two tokens (in particular on both sides of the `.` of an improper list). -/
def printerLayout (d : Datum) : List (List Char) := lay true (Syn.ofDatum d).toks

/-! ## Structural equality across stores -/

mutual
/-- `EqualV σ₁ σ₂ v₁ v₂`: `v₁` (in store `σ₁`) and `v₂` (in store `σ₂`) are the same atoms — the
same number in the same representation, hence of the same exactness —, or pairs of equal values,
or vectors whose cells exist and hold equally many, item-wise equal values. Mutability of vectors
and the identity of cells are ignored (a vector that is read back is a fresh immutable literal).
Procedures, transformers and the unspecified value are never equal to anything. -/
inductive EqualV (σ₁ σ₂ : Store) : Value → Value → Prop
  | num (x : Num) : EqualV σ₁ σ₂ (.num x) (.num x)
  | bool (b : Bool) : EqualV σ₁ σ₂ (.bool b) (.bool b)
  | char (c : Char) : EqualV σ₁ σ₂ (.char c) (.char c)
  | str (s : String) : EqualV σ₁ σ₂ (.str s) (.str s)
  | sym (s : String) : EqualV σ₁ σ₂ (.sym s) (.sym s)
  | nil : EqualV σ₁ σ₂ .nil .nil
  | pair {a d a' d' : Value} : EqualV σ₁ σ₂ a a' → EqualV σ₁ σ₂ d d' →
      EqualV σ₁ σ₂ (.pair a d) (.pair a' d')
  | vec {i j : Nat} {c₁ c₂ : VecCell} : σ₁.vecs[i]? = some c₁ → σ₂.vecs[j]? = some c₂ →
      EqualVs σ₁ σ₂ c₁.items c₂.items → EqualV σ₁ σ₂ (.vec i) (.vec j)
/-- item-wise, same length -/
inductive EqualVs (σ₁ σ₂ : Store) : List Value → List Value → Prop
  | nil : EqualVs σ₁ σ₂ [] []
  | cons {x y : Value} {xs ys : List Value} : EqualV σ₁ σ₂ x y → EqualVs σ₁ σ₂ xs ys →
      EqualVs σ₁ σ₂ (x :: xs) (y :: ys)
end

/-- structural equality of `v₁` in `σ₁` and `v₂` in `σ₂` -/
abbrev equalV (σ₁ : Store) (v₁ : Value) (σ₂ : Store) (v₂ : Value) : Prop := EqualV σ₁ σ₂ v₁ v₂

/-- `σ'` has every vector cell of `σ`, unchanged (and possibly more) -/
def Extends (σ σ' : Store) : Prop := ∀ (i : Nat) (c : VecCell), σ.vecs[i]? = some c → σ'.vecs[i]? = some c

/-! ## Fuel of the model's `display` -/

/-- fuel `f` is enough to print `v`: more fuel prints the same text -/
def Enough (σ : Store) (f : Nat) (v : Value) : Prop :=
  ∀ f', f ≤ f' → Prim.display σ f' v = Prim.display σ f v

/-- the chain of pairs `(x₁ … xₙ . t)` -/
def consTail (xs : List Value) (t : Value) : Value := xs.foldr Value.pair t

/-- neither a pair nor `()`: what a dotted tail is -/
def isAtomic : Value → Bool
  | .pair _ _ | .nil => false
  | _ => true

end Ruschm.Print

/-
Helper lemmas for property C02 (tail calls run in bounded space): the activation counters
`Store.depth` / `Store.maxDepth` through every evaluator function.
-/
import RuschmProofs.ErrLemmas
import RuschmProofs.C05Shapes
namespace Ruschm.Eval
open Prim

/-! ## the activation counters -/

/-- what an evaluation step may do to the activation counters: `depth` is given back as it was
received, `maxDepth` does not decrease -/
def DepthOk (σ σ' : Store) : Prop := σ'.depth = σ.depth ∧ σ.maxDepth ≤ σ'.maxDepth

theorem DepthOk.refl (σ : Store) : DepthOk σ σ := ⟨rfl, Nat.le_refl _⟩
theorem DepthOk.trans {σ₁ σ₂ σ₃ : Store} (h₁ : DepthOk σ₁ σ₂) (h₂ : DepthOk σ₂ σ₃) : DepthOk σ₁ σ₃ :=
  ⟨h₂.1.trans h₁.1, Nat.le_trans h₁.2 h₂.2⟩
theorem DepthOk.of_eq {σ σ' : Store} (hd : σ'.depth = σ.depth) (hm : σ'.maxDepth = σ.maxDepth) : DepthOk σ σ' :=
  ⟨hd, Nat.le_of_eq hm.symm⟩

theorem define_counters (σ : Store) (ρ : Nat) (k : String) (v : Value) :
    (σ.define ρ k v).depth = σ.depth ∧ (σ.define ρ k v).maxDepth = σ.maxDepth := by
  unfold Store.define; split <;> exact ⟨rfl, rfl⟩

theorem set_counters (σ : Store) (ρ : Nat) (k : String) (v : Value) :
    (σ.set ρ k v).2.depth = σ.depth ∧ (σ.set ρ k v).2.maxDepth = σ.maxDepth := by
  unfold Store.set; split
  · exact define_counters ..
  · exact ⟨rfl, rfl⟩

theorem bindFixed_counters : ∀ (fs : List String) (as : List Value) (σ : Store) (ρ : Nat),
    (bindFixed σ ρ fs as).2.depth = σ.depth ∧ (bindFixed σ ρ fs as).2.maxDepth = σ.maxDepth
  | [], _, _, _ => ⟨rfl, rfl⟩
  | _ :: _, [], _, _ => ⟨rfl, rfl⟩
  | f :: fs, a :: as, σ, ρ => by
    rw [bindFixed]
    have h := bindFixed_counters fs as (σ.define ρ f a) ρ
    have h' := define_counters σ ρ f a
    exact ⟨h.1.trans h'.1, h.2.trans h'.2⟩

theorem readLiteral_counters (σ : Store) (d : Datum) :
    (readLiteral σ d).2.depth = σ.depth ∧ (readLiteral σ d).2.maxDepth = σ.maxDepth :=
  have h := (readLiteral_litExt d σ).rest
  ⟨h.2.2.2.1, h.2.2.2.2⟩

theorem lift_counters {α} (σ : Store) (r : Except Err α) (k : α → Value) :
    (lift σ r k).2.depth = σ.depth ∧ (lift σ r k).2.maxDepth = σ.maxDepth := by
  unfold lift; split <;> exact ⟨rfl, rfl⟩

theorem num1_counters (σ : Store) (args b f) :
    (num1 σ args b f).2.depth = σ.depth ∧ (num1 σ args b f).2.maxDepth = σ.maxDepth := by
  unfold num1
  repeat' split
  all_goals exact ⟨rfl, rfl⟩

theorem num2_counters (σ : Store) (args b f) :
    (num2 σ args b f).2.depth = σ.depth ∧ (num2 σ args b f).2.maxDepth = σ.maxDepth := by
  unfold num2
  repeat' split
  all_goals exact ⟨rfl, rfl⟩

/-- native procedures do not touch the activation counters -/
theorem applyPure_counters (σ : Store) (b : Builtin) (args : List Value) :
    (applyPure σ b args).2.depth = σ.depth ∧ (applyPure σ b args).2.maxDepth = σ.maxDepth := by
  cases b
  all_goals simp only [applyPure, realFn, realFn2]
  all_goals first
    | exact lift_counters ..
    | exact num1_counters ..
    | exact num2_counters ..
    | (repeat' split
       all_goals exact ⟨rfl, rfl⟩)

theorem depthOk_enter_leave {σ σ₁ : Store} (h : DepthOk (enter σ) σ₁) : DepthOk σ (leave σ₁) := by
  obtain ⟨hd, hm⟩ := h
  refine ⟨?_, ?_⟩
  · show σ₁.depth - 1 = σ.depth
    rw [hd]; show σ.depth + 1 - 1 = σ.depth; omega
  · show σ.maxDepth ≤ σ₁.maxDepth
    exact Nat.le_trans (Nat.le_max_left _ _) hm

/-- all eight evaluator functions, for one amount of fuel -/
structure Depth (n : Nat) : Prop where
  expr : ∀ σ ρ e, DepthOk σ (evalExpr n σ ρ e).2
  args : ∀ σ ρ es, DepthOk σ (evalArgs n σ ρ es).2
  proc : ∀ σ p as env, DepthOk σ (applyProcedure n σ p as env).2
  loop : ∀ σ p as env, DepthOk σ (applyLoop n σ p as env).2
  scheme : ∀ σ lam cenv as, DepthOk σ (applyScheme n σ lam cenv as).2
  defs : ∀ σ ρ ds, DepthOk σ (evalDefs n σ ρ ds).2
  body : ∀ σ ρ es, DepthOk σ (evalBody n σ ρ es).2
  tail : ∀ σ ρ e, DepthOk σ (evalTail n σ ρ e).2

theorem depth_expr {n} (ih : Depth n) (σ ρ e) : DepthOk σ (evalExpr (n+1) σ ρ e).2 := by
  cases e with
  | prim p l => rw [evalExpr]; split <;> exact .refl σ
  | datum d l => rw [evalExpr]; exact .of_eq (readLiteral_counters σ d).1 (readLiteral_counters σ d).2
  | quote d l => rw [evalExpr]; exact .of_eq (readLiteral_counters σ d).1 (readLiteral_counters σ d).2
  | lambda lam l => rw [evalExpr]; exact .refl σ
  | sym s l => rw [evalExpr]; split <;> exact .refl σ
  | assign name ve l =>
    rw [evalExpr]
    have h₁ := ih.expr σ ρ ve
    split
    · rename_i heq; rw [heq] at h₁; exact h₁
    · rename_i v σ₁ heq; rw [heq] at h₁
      have hs := set_counters σ₁ ρ name v
      split
      · rename_i heq₂; rw [heq₂] at hs; exact h₁.trans (.of_eq hs.1 hs.2)
      · rename_i heq₂; rw [heq₂] at hs; exact h₁.trans (.of_eq hs.1 hs.2)
  | cond t c a l =>
    rw [evalExpr]
    have h₁ := ih.expr σ ρ t
    split
    · rename_i heq; rw [heq] at h₁; exact h₁
    · rename_i tv σ₁ heq; rw [heq] at h₁
      split
      · exact h₁.trans (ih.expr ..)
      · split
        · exact h₁.trans (ih.expr ..)
        · exact h₁
  | call f args l =>
    rw [evalExpr]
    have h₁ := ih.expr σ ρ f
    split
    · rename_i heq; rw [heq] at h₁; exact h₁
    · rename_i fv σ₁ heq; rw [heq] at h₁
      have h₂ := ih.args σ₁ ρ args
      split
      rename_i rargs σ₂ heq₂
      rw [heq₂] at h₂
      split
      · split
        · exact h₁.trans h₂
        · exact (h₁.trans h₂).trans (ih.proc ..)
      · split <;> exact h₁.trans h₂

theorem depth_args {n} (ih : Depth n) (σ ρ es) : DepthOk σ (evalArgs (n+1) σ ρ es).2 := by
  cases es with
  | nil => rw [evalArgs]; exact .refl σ
  | cons a as =>
    rw [evalArgs]
    have h₁ := ih.expr σ ρ a
    split
    · rename_i heq; rw [heq] at h₁; exact h₁
    · rename_i v σ₁ heq; rw [heq] at h₁
      have h₂ := ih.args σ₁ ρ as
      split
      · rename_i heq₂; rw [heq₂] at h₂; exact h₁.trans h₂
      · rename_i heq₂; rw [heq₂] at h₂; exact h₁.trans h₂

theorem depth_proc {n} (ih : Depth n) (σ p as env) : DepthOk σ (applyProcedure (n+1) σ p as env).2 := by
  rw [applyProcedure]
  have h := ih.loop (enter σ) p as env
  split
  rename_i r σ₁ heq
  rw [heq] at h
  exact depthOk_enter_leave h

theorem depth_loop {n} (ih : Depth n) (σ p as env) : DepthOk σ (applyLoop (n+1) σ p as env).2 := by
  unfold applyLoop
  split
  · exact .refl σ
  · split
    · exact .refl σ
    · split
      · split
        · exact .refl σ
        · exact ih.loop ..
      · exact .of_eq (applyPure_counters ..).1 (applyPure_counters ..).2
      · rename_i lam cenv _
        have h₁ := ih.scheme σ lam cenv as
        split
        · rename_i heq; rw [heq] at h₁; exact h₁
        · rename_i heq; rw [heq] at h₁; exact h₁
        · rename_i f targs tenv σ₁ heq; rw [heq] at h₁
          have h₂ := ih.expr σ₁ tenv f
          split
          · rename_i heq₂; rw [heq₂] at h₂; exact h₁.trans h₂
          · rename_i fv σ₂ heq₂; rw [heq₂] at h₂
            have h₃ := ih.args σ₂ tenv targs
            split
            · rename_i heq₃; rw [heq₃] at h₃; exact (h₁.trans h₂).trans h₃
            · rename_i vs σ₃ heq₃; rw [heq₃] at h₃
              split
              · exact (h₁.trans h₂).trans h₃
              · exact ((h₁.trans h₂).trans h₃).trans (ih.loop ..)
      · exact .refl σ

theorem depth_scheme {n} (ih : Depth n) (σ lam cenv as) : DepthOk σ (applyScheme (n+1) σ lam cenv as).2 := by
  rw [applyScheme_succ]
  have hb := bindFixed_counters lam.formals.fixed as (σ.newFrame (some cenv)).2 (σ.newFrame (some cenv)).1
  have h₀ : DepthOk σ (bindFixed (σ.newFrame (some cenv)).2 (σ.newFrame (some cenv)).1 lam.formals.fixed as).2 :=
    .of_eq hb.1 hb.2
  split
  · rename_i heq; rw [heq] at h₀; exact h₀
  · rename_i restArgs σ₁ heq; rw [heq] at h₀
    have hr : DepthOk σ₁ (Ref.bindRest σ₁ (σ.newFrame (some cenv)).1 lam.formals.rest restArgs) := by
      unfold Ref.bindRest; split
      · exact .of_eq (define_counters ..).1 (define_counters ..).2
      · exact .refl _
    have h₁ := ih.defs (Ref.bindRest σ₁ (σ.newFrame (some cenv)).1 lam.formals.rest restArgs)
      (σ.newFrame (some cenv)).1 lam.defs
    split
    · rename_i heq₂; rw [heq₂] at h₁; exact (h₀.trans hr).trans h₁
    · rename_i heq₂; rw [heq₂] at h₁; exact ((h₀.trans hr).trans h₁).trans (ih.body ..)

theorem depth_defs {n} (ih : Depth n) (σ ρ ds) : DepthOk σ (evalDefs (n+1) σ ρ ds).2 := by
  cases ds with
  | nil => rw [evalDefs]; exact .refl σ
  | cons d ds =>
    obtain ⟨name, e, l⟩ := d
    rw [evalDefs]
    have h₁ := ih.expr σ ρ e
    split
    · rename_i heq; rw [heq] at h₁; exact h₁
    · rename_i v σ₁ heq; rw [heq] at h₁
      exact (h₁.trans (.of_eq (define_counters ..).1 (define_counters ..).2)).trans (ih.defs ..)

theorem depth_body {n} (ih : Depth n) (σ ρ es) : DepthOk σ (evalBody (n+1) σ ρ es).2 := by
  match es with
  | [] => rw [evalBody]; exact .refl σ
  | [last] => rw [evalBody]; exact ih.tail ..
  | e :: e2 :: es =>
    rw [evalBody]
    · have h₁ := ih.expr σ ρ e
      split
      · rename_i heq; rw [heq] at h₁; exact h₁
      · rename_i v σ₁ heq; rw [heq] at h₁; exact h₁.trans (ih.body ..)
    all_goals simp

theorem depth_tail {n} (ih : Depth n) (σ ρ e) : DepthOk σ (evalTail (n+1) σ ρ e).2 := by
  unfold evalTail
  split
  · exact .refl σ
  · rename_i t c a l
    have h₁ := ih.expr σ ρ t
    split
    · rename_i heq; rw [heq] at h₁; exact h₁
    · rename_i tv σ₁ heq; rw [heq] at h₁
      split
      · exact h₁.trans (ih.tail ..)
      · split
        · exact h₁.trans (ih.tail ..)
        · exact h₁
  · have h₁ := ih.expr σ ρ e
    split
    · rename_i heq; rw [heq] at h₁; exact h₁
    · rename_i heq; rw [heq] at h₁; exact h₁

theorem depth_all : ∀ n, Depth n
  | 0 => by
    constructor <;> intros <;>
      simp only [evalExpr, evalArgs, applyProcedure, applyLoop, applyScheme, evalDefs, evalBody, evalTail] <;>
      exact .refl _
  | n+1 =>
    have ih := depth_all n
    ⟨depth_expr ih, depth_args ih, depth_proc ih, depth_loop ih, depth_scheme ih, depth_defs ih,
     depth_body ih, depth_tail ih⟩

/-! ### the judgements keep the counters -/

theorem Stable.depthOk {α} {f : Nat → Res α} {σ r σ'} (h : Stable f r σ') (hd : ∀ n, DepthOk σ (f n).2) :
    DepthOk σ σ' := by
  obtain ⟨_, N, hN⟩ := h
  have := hd N; rw [hN N (Nat.le_refl _)] at this; exact this

theorem Evals.depthOk {σ ρ e r σ'} (h : Evals σ ρ e r σ') : DepthOk σ σ' :=
  Stable.depthOk h fun n => (depth_all n).expr σ ρ e
theorem EvalsArgs.depthOk {σ ρ es r σ'} (h : EvalsArgs σ ρ es r σ') : DepthOk σ σ' :=
  Stable.depthOk h fun n => (depth_all n).args σ ρ es
theorem AppliesProc.depthOk {σ p as env r σ'} (h : AppliesProc σ p as env r σ') : DepthOk σ σ' :=
  Stable.depthOk h fun n => (depth_all n).proc σ p as env
theorem Applies.depthOk {σ p as env r σ'} (h : Applies σ p as env r σ') : DepthOk σ σ' :=
  Stable.depthOk h fun n => (depth_all n).loop σ p as env
theorem AppliesScheme.depthOk {σ lam cenv as r σ'} (h : AppliesScheme σ lam cenv as r σ') : DepthOk σ σ' :=
  Stable.depthOk h fun n => (depth_all n).scheme σ lam cenv as
theorem EvalsDefs.depthOk {σ ρ ds r σ'} (h : EvalsDefs σ ρ ds r σ') : DepthOk σ σ' :=
  Stable.depthOk h fun n => (depth_all n).defs σ ρ ds
theorem EvalsBody.depthOk {σ ρ es r σ'} (h : EvalsBody σ ρ es r σ') : DepthOk σ σ' :=
  Stable.depthOk h fun n => (depth_all n).body σ ρ es
theorem EvalsTail.depthOk {σ ρ e r σ'} (h : EvalsTail σ ρ e r σ') : DepthOk σ σ' :=
  Stable.depthOk h fun n => (depth_all n).tail σ ρ e

/-! ## inversion of the trampoline steps -/

/-- a stable run, looked at one unit of fuel later -/
theorem Stable.at_succ {α} {f : Nat → Res α} {r σ'} (h : Stable f r σ') (M : Nat) :
    ∃ n, M ≤ n ∧ f (n+1) = (r, σ') := by
  obtain ⟨_, N, hN⟩ := h
  exact ⟨max M N, Nat.le_max_left _ _, hN _ (by omega)⟩

/-- a pending tail call: the loop on the caller IS the loop continued with the callee, in the store
left by operator and operands — there is no other way for it to end -/
theorem Applies.closure_tail_iff {σ : Store} {lam : Lambda} {cenv : Nat} {args : List Value} {env : Nat}
    {f targs tenv σ₁ fv σ₂ vs σ₃}
    (ha : arityOk lam.formals.fixed.length lam.formals.rest.isSome args.length = true)
    (hs : AppliesScheme σ lam cenv args (.ok (.tailCall f targs tenv)) σ₁)
    (hf : Evals σ₁ tenv f (.ok fv) σ₂) (hargs : EvalsArgs σ₂ tenv targs (.ok vs) σ₃)
    (hp : (procArity fv).isSome) (r σ') :
    Applies σ (.closure lam cenv) args env r σ' ↔ Applies σ₃ fv vs env r σ' := by
  constructor
  · intro h
    obtain ⟨_, N₁, h₁⟩ := hs.out; obtain ⟨_, N₂, h₂⟩ := hf.out; obtain ⟨_, N₃, h₃⟩ := hargs.out
    obtain ⟨n, hn, hrun⟩ := Stable.at_succ h (max N₁ (max N₂ N₃))
    rw [applyLoop_tail_step n env ha (h₁ n (by omega)) (h₂ n (by omega)) (h₃ n (by omega)) hp] at hrun
    exact Applies.intro hrun h.1
  · exact Applies.closure_tail ha hs hf hargs hp

/-- `apply`: the loop on `apply` IS the loop continued with the procedure it was handed, in the
same store -/
theorem Applies.apply_iff {σ : Store} {args : List Value} {env : Nat} {f args'} (ha : 1 ≤ args.length)
    (hs : spreadApply args = .ok (f, args')) (r σ') :
    Applies σ (.builtin .apply) args env r σ' ↔ Applies σ f args' env r σ' := by
  constructor
  · intro h
    obtain ⟨n, _, hrun⟩ := Stable.at_succ h 0
    rw [applyLoop_apply_step n σ env ha hs] at hrun
    exact Applies.intro hrun h.1
  · exact Applies.apply ha hs

/-- an activation IS the loop run one level deeper -/
theorem AppliesProc.iff_loop {σ p args env r σ'} :
    AppliesProc σ p args env r σ' ↔ ∃ σ₁, Applies (enter σ) p args env r σ₁ ∧ σ' = leave σ₁ := by
  constructor
  · intro h
    obtain ⟨n, _, hrun⟩ := Stable.at_succ h 0
    simp only [applyProcedure] at hrun
    cases hl : applyLoop n (enter σ) p args env with
    | mk r₁ σ₁ =>
      rw [hl] at hrun
      simp only [Prod.mk.injEq] at hrun
      obtain ⟨rfl, rfl⟩ := hrun
      exact ⟨σ₁, Applies.intro hl h.1, rfl⟩
  · rintro ⟨σ₁, h, rfl⟩; exact AppliesProc.of_loop h

/-! ## tail expressions -/

theorem EvalsSeq.depthOk {ρ σ es σ'} (h : EvalsSeq ρ σ es σ') : DepthOk σ σ' := by
  induction h with
  | nil => exact .refl _
  | cons h _ ih => exact h.depthOk.trans ih

theorem EvalsTail.cond_iff {σ ρ t c a l tv σ₁} (ht : Evals σ ρ t (.ok tv) σ₁) (r σ') :
    EvalsTail σ ρ (.cond t c a l) r σ' ↔
      if tv.truthy then EvalsTail σ₁ ρ c r σ'
      else match a with
        | some alt => EvalsTail σ₁ ρ alt r σ'
        | none => r = .ok (.value .void) ∧ σ' = σ₁ := by
  constructor
  · intro h
    obtain ⟨_, N₁, h₁⟩ := ht.out
    obtain ⟨n, hn, hrun⟩ := Stable.at_succ h N₁
    rw [evalTail, h₁ n hn] at hrun
    simp only at hrun
    split
    · rename_i htv; rw [if_pos htv] at hrun; exact EvalsTail.intro hrun h.1
    · rename_i htv; rw [if_neg htv] at hrun
      split
      · exact EvalsTail.intro hrun h.1
      · simp only [Prod.mk.injEq] at hrun; exact ⟨hrun.1.symm, hrun.2.symm⟩
  · intro h
    split at h
    · exact EvalsTail.cond_true ht ‹_› h
    · have htv : tv.truthy = false := by simpa using ‹¬ tv.truthy = true›
      split at h
      · exact EvalsTail.cond_false ht htv h
      · obtain ⟨rfl, rfl⟩ := h; exact EvalsTail.cond_void ht htv

end Ruschm.Eval

/-! ## tail position -/

namespace Ruschm.Eval

/-- `InTail sub e`: `sub` is in tail position of `e` — `e` itself; an arm of an `if` that is in
tail position; the last body expression of a `lambda` expression that is the operator of a call in
tail position (what `begin`, `let`, … expand to). -/
inductive InTail : Expr → Expr → Prop
  | here (e : Expr) : InTail e e
  | cond_then {sub t c a l} : InTail sub c → InTail sub (.cond t c a l)
  | cond_else {sub t c alt l} : InTail sub alt → InTail sub (.cond t c (some alt) l)
  | lam_call {sub formals defs pre last l args l'} : InTail sub last →
      InTail sub (.call (.lambda (.mk formals defs (pre ++ [last])) l) args l')

theorem InTail.trans {a b c : Expr} (h₁ : InTail a b) (h₂ : InTail b c) : InTail a c := by
  induction h₂ with
  | here => exact h₁
  | cond_then _ ih => exact .cond_then ih
  | cond_else _ ih => exact .cond_else ih
  | lam_call _ ih => exact .lam_call ih

/-- what the trampoline does with a pending call `(f targs…)` of frame `tenv`: operator, operands,
the procedure test, and THE LOOP CONTINUES with the callee (`Applies`, not `AppliesProc`) -/
def PendingRuns (env : Nat) (σ₁ : Store) (tenv : Nat) (f : Expr) (targs : List Expr)
    (r : Except SErr Value) (σ' : Store) : Prop :=
  (∃ er, Evals σ₁ tenv f (.error er) σ' ∧ r = .error er) ∨
  (∃ fv σ₂, Evals σ₁ tenv f (.ok fv) σ₂ ∧
    ((∃ er, EvalsArgs σ₂ tenv targs (.error er) σ' ∧ r = .error er) ∨
     (∃ vs σ₃, EvalsArgs σ₂ tenv targs (.ok vs) σ₃ ∧
       ((procArity fv = none ∧ r = .error (.nonProcedure, f.loc) ∧ σ' = σ₃) ∨
        ((procArity fv).isSome ∧ Applies σ₃ fv vs env r σ')))))

/-- `TailRuns env σ ρ e r σ'`: the running loop (entered from frame `env`), having reached the tail
expression `e` of the current procedure body in frame `ρ` and store `σ`, ends with outcome `r` in
store `σ'`: `e` is evaluated by `eval_tail_expression`; an error or a value ends the loop, a pending
call is run by `PendingRuns` -/
def TailRuns (env : Nat) (σ : Store) (ρ : Nat) (e : Expr) (r : Except SErr Value) (σ' : Store) : Prop :=
  (∃ er, EvalsTail σ ρ e (.error er) σ' ∧ r = .error er) ∨
  (∃ v, EvalsTail σ ρ e (.ok (.value v)) σ' ∧ r = .ok v) ∨
  (∃ f targs tenv σ₁, EvalsTail σ ρ e (.ok (.tailCall f targs tenv)) σ₁ ∧ PendingRuns env σ₁ tenv f targs r σ')

theorem EvalsDefs.of_seq {ρ σ ds σ'} (h : EvalsDefSeq ρ σ ds σ') : EvalsDefs σ ρ ds (.ok ()) σ' := by
  have := EvalsDefs.seq_then h (EvalsDefs.nil (ρ := ρ))
  simpa using this

theorem PendingRuns.applies {env σ lam cenv args f targs tenv σ₁ r σ'}
    (ha : arityOk lam.formals.fixed.length lam.formals.rest.isSome args.length = true)
    (hs : AppliesScheme σ lam cenv args (.ok (.tailCall f targs tenv)) σ₁)
    (h : PendingRuns env σ₁ tenv f targs r σ') : Applies σ (.closure lam cenv) args env r σ' := by
  rcases h with ⟨er, hf, rfl⟩ | ⟨fv, σ₂, hf, ⟨er, hargs, rfl⟩ | ⟨vs, σ₃, hargs, ⟨hp, rfl, rfl⟩ | ⟨hp, hl⟩⟩⟩
  · exact Applies.closure_tail_op_err ha hs hf
  · exact Applies.closure_tail_arg_err ha hs hf hargs
  · exact Applies.closure_tail_nonproc ha hs hf hargs hp
  · exact Applies.closure_tail ha hs hf hargs hp hl

/-- an iteration of the loop on a user procedure whose parameters are bound, whose definitions and
whose body expressions before the last one have been evaluated: the rest of the loop is `TailRuns`
of the last body expression -/
theorem TailRuns.applies {env σ formals defs pre last cenv args restArgs σ₁ σ₂ σ₃ r σ'}
    (ha : arityOk formals.fixed.length formals.rest.isSome args.length = true)
    (hb : bindFixed (σ.newFrame (some cenv)).2 (σ.newFrame (some cenv)).1 formals.fixed args = (.ok restArgs, σ₁))
    (hd : EvalsDefSeq (σ.newFrame (some cenv)).1
      (Ref.bindRest σ₁ (σ.newFrame (some cenv)).1 formals.rest restArgs) defs σ₂)
    (hpre : EvalsSeq (σ.newFrame (some cenv)).1 σ₂ pre σ₃)
    (h : TailRuns env σ₃ (σ.newFrame (some cenv)).1 last r σ') :
    Applies σ (.closure (.mk formals defs (pre ++ [last])) cenv) args env r σ' := by
  have hs : ∀ {tr σ₄}, EvalsTail σ₃ (σ.newFrame (some cenv)).1 last tr σ₄ →
      AppliesScheme σ (.mk formals defs (pre ++ [last])) cenv args tr σ₄ := fun ht =>
    AppliesScheme.intro_ok (lam := .mk formals defs (pre ++ [last])) hb (EvalsDefs.of_seq hd)
      (EvalsBody.seq_last hpre ht)
  rcases h with ⟨er, ht, rfl⟩ | ⟨v, ht, rfl⟩ | ⟨f, targs, tenv, σ₄, ht, hp⟩
  · exact Applies.closure_err ha (hs ht)
  · exact Applies.closure_value ha (hs ht)
  · exact hp.applies ha (hs ht)

/-- `TailPath env σ ρ e σs ρs sub`: evaluation of the tail expression `e` (frame `ρ`, store `σ`)
ARRIVES at the sub-expression `sub` as the tail expression to evaluate in frame `ρs`, store `σs`:
through the arm of an `if` its test selects, and through the application of a `lambda` expression
in operator position — operands, parameter binding, definitions and the body expressions before the
last one all evaluating without error. -/
inductive TailPath (env : Nat) : Store → Nat → Expr → Store → Nat → Expr → Prop
  | here {σ ρ e} : TailPath env σ ρ e σ ρ e
  | cond_then {σ ρ t c a l tv σ₁ σs ρs sub} (ht : Evals σ ρ t (.ok tv) σ₁) (htv : tv.truthy = true)
      (h : TailPath env σ₁ ρ c σs ρs sub) : TailPath env σ ρ (.cond t c a l) σs ρs sub
  | cond_else {σ ρ t c alt l tv σ₁ σs ρs sub} (ht : Evals σ ρ t (.ok tv) σ₁) (htv : tv.truthy = false)
      (h : TailPath env σ₁ ρ alt σs ρs sub) : TailPath env σ ρ (.cond t c (some alt) l) σs ρs sub
  | lam_call {σ ρ formals defs pre last l args l' vs σ₁ restArgs σ₂ σ₃ σ₄ σs ρs sub}
      (hargs : EvalsArgs σ ρ args (.ok vs) σ₁)
      (ha : arityOk formals.fixed.length formals.rest.isSome vs.length = true)
      (hb : bindFixed (σ₁.newFrame (some ρ)).2 (σ₁.newFrame (some ρ)).1 formals.fixed vs = (.ok restArgs, σ₂))
      (hd : EvalsDefSeq (σ₁.newFrame (some ρ)).1
        (Ref.bindRest σ₂ (σ₁.newFrame (some ρ)).1 formals.rest restArgs) defs σ₃)
      (hpre : EvalsSeq (σ₁.newFrame (some ρ)).1 σ₃ pre σ₄)
      (h : TailPath env σ₄ (σ₁.newFrame (some ρ)).1 last σs ρs sub) :
      TailPath env σ ρ (.call (.lambda (.mk formals defs (pre ++ [last])) l) args l') σs ρs sub

theorem EvalsDefSeq.depthOk {ρ σ ds σ'} (h : EvalsDefSeq ρ σ ds σ') : DepthOk σ σ' := by
  induction h with
  | nil => exact .refl _
  | cons h _ ih => exact (h.depthOk.trans (.of_eq (define_counters ..).1 (define_counters ..).2)).trans ih

theorem TailRuns.cond_true {env σ ρ t c a l tv σ₁ r σ'} (ht : Evals σ ρ t (.ok tv) σ₁) (htv : tv.truthy = true)
    (h : TailRuns env σ₁ ρ c r σ') : TailRuns env σ ρ (.cond t c a l) r σ' := by
  rcases h with ⟨er, h, rfl⟩ | ⟨v, h, rfl⟩ | ⟨f, targs, tenv, σ₂, h, hp⟩
  · exact .inl ⟨er, EvalsTail.cond_true ht htv h, rfl⟩
  · exact .inr (.inl ⟨v, EvalsTail.cond_true ht htv h, rfl⟩)
  · exact .inr (.inr ⟨f, targs, tenv, σ₂, EvalsTail.cond_true ht htv h, hp⟩)

theorem TailRuns.cond_false {env σ ρ t c alt l tv σ₁ r σ'} (ht : Evals σ ρ t (.ok tv) σ₁) (htv : tv.truthy = false)
    (h : TailRuns env σ₁ ρ alt r σ') : TailRuns env σ ρ (.cond t c (some alt) l) r σ' := by
  rcases h with ⟨er, h, rfl⟩ | ⟨v, h, rfl⟩ | ⟨f, targs, tenv, σ₂, h, hp⟩
  · exact .inl ⟨er, EvalsTail.cond_false ht htv h, rfl⟩
  · exact .inr (.inl ⟨v, EvalsTail.cond_false ht htv h, rfl⟩)
  · exact .inr (.inr ⟨f, targs, tenv, σ₂, EvalsTail.cond_false ht htv h, hp⟩)

/-- a pending call in tail position is run by the trampoline -/
theorem TailRuns.call {env σ ρ f targs l r σ'} (h : PendingRuns env σ ρ f targs r σ') :
    TailRuns env σ ρ (.call f targs l) r σ' :=
  .inr (.inr ⟨f, targs, ρ, σ, EvalsTail.call, h⟩)

/-- THE GENERAL PRINCIPLE: along a `TailPath` the sub-expression is `InTail`, the depth does not
change, and whatever the loop does from the sub-expression on is what it does from the enclosing
tail expression on — in particular a call reached this way is a pending call of THE SAME loop -/
theorem TailPath.spec {env σ ρ e σs ρs sub} (h : TailPath env σ ρ e σs ρs sub) :
    InTail sub e ∧ DepthOk σ σs ∧ ∀ r σ', TailRuns env σs ρs sub r σ' → TailRuns env σ ρ e r σ' := by
  induction h with
  | here => exact ⟨.here _, .refl _, fun _ _ h => h⟩
  | cond_then ht htv _ ih =>
    exact ⟨.cond_then ih.1, ht.depthOk.trans ih.2.1, fun r σ' h => TailRuns.cond_true ht htv (ih.2.2 r σ' h)⟩
  | cond_else ht htv _ ih =>
    exact ⟨.cond_else ih.1, ht.depthOk.trans ih.2.1, fun r σ' h => TailRuns.cond_false ht htv (ih.2.2 r σ' h)⟩
  | @lam_call σ ρ formals defs pre last l args l' vs σ₁ restArgs σ₂ σ₃ σ₄ σs ρs sub hargs ha hb hd hpre _ ih =>
    refine ⟨.lam_call ih.1, ?_, fun r σ' h => ?_⟩
    · have hbc := bindFixed_counters formals.fixed vs (σ₁.newFrame (some ρ)).2 (σ₁.newFrame (some ρ)).1
      rw [hb] at hbc
      have h₁₂ : DepthOk σ₁ σ₂ := .of_eq hbc.1 hbc.2
      have hr : DepthOk σ₂ (Ref.bindRest σ₂ (σ₁.newFrame (some ρ)).1 formals.rest restArgs) := by
        unfold Ref.bindRest; split
        · exact .of_eq (define_counters ..).1 (define_counters ..).2
        · exact .refl _
      exact ((((hargs.depthOk.trans h₁₂).trans hr).trans hd.depthOk).trans hpre.depthOk).trans ih.2.1
    · refine TailRuns.call (.inr ⟨.closure (.mk formals defs (pre ++ [last])) ρ, σ, Evals.lambda, .inr ⟨vs, σ₁, hargs, .inr ⟨rfl, ?_⟩⟩⟩)
      exact TailRuns.applies ha hb hd hpre (ih.2.2 r σ' h)

end Ruschm.Eval

/-! ## machinery for evaluating concrete loops -/

namespace Ruschm
open Eval Prim

namespace Store

/-- the store after a completed activation nested `k` levels deep: only `maxDepth` may have risen -/
def bump (σ : Store) (k : Nat) : Store := { σ with maxDepth := max σ.maxDepth (σ.depth + k) }

theorem leave_enter (σ : Store) : leave (enter σ) = σ.bump 1 := rfl

@[simp] theorem bump_bump (σ : Store) (j k : Nat) : (σ.bump j).bump k = σ.bump (max j k) := by
  simp only [bump]
  congr 1
  omega

@[simp] theorem bump_frames (σ : Store) (k : Nat) : (σ.bump k).frames = σ.frames := rfl
@[simp] theorem bump_depth (σ : Store) (k : Nat) : (σ.bump k).depth = σ.depth := rfl
@[simp] theorem bump_maxDepth (σ : Store) (k : Nat) : (σ.bump k).maxDepth = max σ.maxDepth (σ.depth + k) := rfl

theorem lookupAux_frames_congr {σ τ : Store} (h : σ.frames = τ.frames) (k : String) :
    ∀ n ρ, σ.lookupAux n ρ k = τ.lookupAux n ρ k := by
  intro n
  induction n with
  | zero => intro ρ; rfl
  | succ n ih =>
    intro ρ
    simp only [lookupAux, h]
    cases τ.frames[ρ]? with
    | none => rfl
    | some f =>
      simp only
      cases f.defs.lookup k with
      | some v => rfl
      | none =>
        simp only
        cases f.parent with
        | none => rfl
        | some p => simp only [ih p]

theorem lookup_frames_congr {σ τ : Store} (h : σ.frames = τ.frames) (ρ : Nat) (k : String) :
    σ.lookup ρ k = τ.lookup ρ k := lookupAux_frames_congr h k _ _

@[simp] theorem lookup_bump (σ : Store) (j ρ : Nat) (k : String) : (σ.bump j).lookup ρ k = σ.lookup ρ k :=
  lookup_frames_congr (σ := σ.bump j) (τ := σ) rfl ρ k

/-- `ρ + 1` units of fuel are enough for the chain of frame `ρ`; more do not matter -/
theorem lookupAux_fuel (σ : Store) (k : String) : ∀ n m ρ, ρ < n → ρ < m → σ.lookupAux n ρ k = σ.lookupAux m ρ k := by
  intro n
  induction n with
  | zero => intro m ρ h; omega
  | succ n ih =>
    intro m ρ hn hm
    obtain ⟨m, rfl⟩ : ∃ m', m = m' + 1 := ⟨m - 1, by omega⟩
    simp only [lookupAux]
    cases σ.frames[ρ]? with
    | none => rfl
    | some f =>
      simp only
      cases f.defs.lookup k with
      | some v => rfl
      | none =>
        simp only
        cases f.parent with
        | none => rfl
        | some p =>
          simp only
          by_cases hp : p < ρ
          · simp only [hp, if_true]; exact ih m p (by omega) (by omega)
          · simp only [hp, if_false]

theorem lookup_here {σ : Store} {ρ : Nat} {f : Frame} {k : String} {v : Value} (hf : σ.frames[ρ]? = some f)
    (hk : f.defs.lookup k = some v) : σ.lookup ρ k = some v := by
  simp [lookup, lookupAux, hf, hk]

theorem lookup_parent {σ : Store} {ρ p : Nat} {f : Frame} {k : String} (hf : σ.frames[ρ]? = some f)
    (hk : f.defs.lookup k = none) (hp : f.parent = some p) (hlt : p < ρ) : σ.lookup ρ k = σ.lookup p k := by
  have : σ.lookup ρ k = σ.lookupAux ρ p k := by
    simp only [lookup]
    rw [lookupAux]
    simp only [hf, hk, hp, hlt, if_true]
  rw [this]
  exact lookupAux_fuel σ k ρ (p+1) p hlt (by omega)

/-- the store with one more frame, a child of frame `parent` with the bindings `defs` -/
def pushFrame (σ : Store) (parent : Nat) (defs : List (String × Value)) : Store :=
  { σ with frames := σ.frames.push { parent := some parent, defs := defs } }

theorem newFrame_eq (σ : Store) (p : Nat) : σ.newFrame (some p) = (σ.frames.size, σ.pushFrame p []) := rfl

theorem modify_push_last {α} (A : Array α) (x : α) (f : α → α) : (A.push x).modify A.size f = A.push (f x) := by
  apply Array.ext
  · simp
  · intro i h1 h2
    simp [Array.getElem_modify, Array.getElem_push]
    split <;> split <;> simp_all <;> omega

theorem define_pushFrame (σ : Store) (p : Nat) (D : List (String × Value)) (k : String) (v : Value) :
    (σ.pushFrame p D).define σ.frames.size k v = σ.pushFrame p (defsInsert D k v) := by
  unfold define pushFrame
  simp only [Array.size_push, Nat.lt_succ_self, dite_true, modify_push_last]

@[simp] theorem pushFrame_depth (σ : Store) (p D) : (σ.pushFrame p D).depth = σ.depth := rfl
@[simp] theorem pushFrame_maxDepth (σ : Store) (p D) : (σ.pushFrame p D).maxDepth = σ.maxDepth := rfl
theorem pushFrame_frames (σ : Store) (p D) :
    (σ.pushFrame p D).frames = σ.frames.push { parent := some p, defs := D } := rfl

theorem pushFrame_get_last (σ : Store) (p D) :
    (σ.pushFrame p D).frames[σ.frames.size]? = some { parent := some p, defs := D } := by
  simp [pushFrame]

theorem pushFrame_get_old (σ : Store) (p D) {i : Nat} (h : i < σ.frames.size) :
    (σ.pushFrame p D).frames[i]? = σ.frames[i]? := by
  simp [pushFrame, Array.getElem?_push, Nat.ne_of_lt h]

/-- the chain of an old frame does not see the new frame -/
theorem lookupAux_pushFrame (σ : Store) (p D) (k : String) : ∀ n ρ, ρ < σ.frames.size →
    (σ.pushFrame p D).lookupAux n ρ k = σ.lookupAux n ρ k := by
  intro n
  induction n with
  | zero => intro ρ _; rfl
  | succ n ih =>
    intro ρ hρ
    simp only [lookupAux, pushFrame_get_old σ p D hρ]
    cases σ.frames[ρ]? with
    | none => rfl
    | some f =>
      simp only
      cases f.defs.lookup k with
      | some v => rfl
      | none =>
        simp only
        cases f.parent with
        | none => rfl
        | some q =>
          simp only
          by_cases hq : q < ρ
          · simp only [hq, if_true]; exact ih q (by omega)
          · simp only [hq, if_false]

/-- a parameter (or anything else bound in the new frame) is found there -/
theorem lookup_pushFrame_here {σ : Store} {p : Nat} {D : List (String × Value)} {k : String} {v : Value}
    (hk : D.lookup k = some v) : (σ.pushFrame p D).lookup σ.frames.size k = some v :=
  lookup_here (pushFrame_get_last σ p D) hk

/-- a name not bound in the new frame is looked up in the parent, in the old store -/
theorem lookup_pushFrame_parent {σ : Store} {p : Nat} {D : List (String × Value)} {k : String}
    (hk : D.lookup k = none) (hp : p < σ.frames.size) :
    (σ.pushFrame p D).lookup σ.frames.size k = σ.lookup p k := by
  rw [lookup_parent (pushFrame_get_last σ p D) hk rfl hp]
  exact lookupAux_pushFrame σ p D k _ p hp

end Store

namespace Eval

/-- the bindings `bindFixed` makes: `defsInsert` of each parameter in turn -/
def bindList : List (String × Value) → List String → List Value → List (String × Value)
  | D, f :: fs, a :: as => bindList (Store.defsInsert D f a) fs as
  | D, _, _ => D

theorem bindFixed_pushFrame (σ : Store) (p : Nat) : ∀ (fs : List String) (args : List Value) (D : List (String × Value)),
    fs.length ≤ args.length →
    bindFixed (σ.pushFrame p D) σ.frames.size fs args =
      (.ok (args.drop fs.length), σ.pushFrame p (bindList D fs args))
  | [], args, D, _ => by simp [bindFixed, bindList]
  | f :: fs, [], D, h => by simp at h
  | f :: fs, a :: as, D, h => by
    rw [bindFixed, Store.define_pushFrame, bindFixed_pushFrame σ p fs as _ (by simpa using h)]
    simp [bindList]

/-- all the bindings of the parameter frame: the fixed parameters, then the rest parameter -/
def paramDefs (F : Formals) (args : List Value) : List (String × Value) :=
  match F.rest with
  | some r => Store.defsInsert (bindList [] F.fixed args) r (Value.ofList (args.drop F.fixed.length))
  | none => bindList [] F.fixed args

/-- applying a procedure without internal definitions: its body runs in a new frame, child of the
closure's frame, that binds the parameters -/
theorem AppliesScheme.no_defs {σ lam cenv args r σ'} (hd : lam.defs = [])
    (hlen : lam.formals.fixed.length ≤ args.length)
    (hbody : EvalsBody (σ.pushFrame cenv (paramDefs lam.formals args)) σ.frames.size lam.body r σ') :
    AppliesScheme σ lam cenv args r σ' := by
  have hb := bindFixed_pushFrame σ cenv lam.formals.fixed args [] hlen
  refine AppliesScheme.intro_ok (restArgs := args.drop lam.formals.fixed.length)
    (σ₁ := σ.pushFrame cenv (bindList [] lam.formals.fixed args)) ?_ (hd ▸ EvalsDefs.nil) ?_
  · rw [Store.newFrame_eq]; exact hb
  · rw [Store.newFrame_eq]
    have : Ref.bindRest (σ.pushFrame cenv (bindList [] lam.formals.fixed args)) σ.frames.size lam.formals.rest
        (args.drop lam.formals.fixed.length) = σ.pushFrame cenv (paramDefs lam.formals args) := by
      unfold Ref.bindRest paramDefs
      cases lam.formals.rest with
      | none => rfl
      | some r => simp only; rw [Store.define_pushFrame]
    simp only
    rw [this]; exact hbody

/-- a call, in operand position, of a native procedure that does not touch the store: one nested
activation -/
theorem Evals.call_builtin {σ ρ op l args l' b vs σ₁ v} (hop : σ.lookup ρ op = some (.builtin b))
    (hb : b ≠ .apply) (hargs : EvalsArgs σ ρ args (.ok vs) σ₁)
    (hok : arityOk b.arity.1 b.arity.2 vs.length = true) (hpure : ∀ τ, applyPure τ b vs = (.ok v, τ)) :
    Evals σ ρ (.call (.sym op l) args l') (.ok v) (σ₁.bump 1) :=
  Evals.call (Evals.sym hop) hargs rfl
    (AppliesProc.of_loop (Applies.builtin hb hok (hpure _) (by simp)))

/-! ### the arithmetic of the loops -/

theorem exactRatio_one {x : Int} (h : fitsI32 x = true) : Num.exactRatio x 1 = .ok (.int x) := by
  unfold Num.exactRatio
  have h1 : fitsI32 1 = true := by decide
  simp [h, h1]

theorem applyPure_numEq (τ : Store) (a b : Int) :
    applyPure τ .numEq [.num (.int a), .num (.int b)] = (.ok (.bool (a == b)), τ) := by
  simp only [applyPure, cmpNum, expectNumber]
  show lift τ (cmpNum.go Num.eq (.int a) true [.num (.int b)]) _ = _
  simp only [cmpNum.go, expectNumber]
  show lift τ (cmpNum.go Num.eq (.int b) (true && Num.eq (.int a) (.int b)) []) _ = _
  have : Num.eq (.int a) (.int b) = (a == b) := rfl
  rw [this]
  cases a == b <;> rfl

theorem applyPure_sub (τ : Store) {a b : Int} (h : fitsI32 (a - b) = true) :
    applyPure τ .sub [.num (.int a), .num (.int b)] = (.ok (.num (.int (a - b))), τ) := by
  simp only [applyPure, subDiv, expectNumber]
  show lift τ (Num.sub (.int a) (.int b) >>= fun init => foldNum Num.sub init []) _ = _
  have : Num.sub (.int a) (.int b) = .ok (.int (a - b)) := by
    simp only [Num.sub, Num.upcast]; exact exactRatio_one h
  rw [this]; rfl

theorem applyPure_add (τ : Store) {a b : Int} (ha : fitsI32 a = true) (h : fitsI32 (a + b) = true) :
    applyPure τ .add [.num (.int a), .num (.int b)] = (.ok (.num (.int (a + b))), τ) := by
  simp only [applyPure, foldNum, List.foldlM_cons, List.foldlM_nil, expectNumber]
  have h0 : Num.add (.int 0) (.int a) = .ok (.int a) := by
    simp only [Num.add, Num.upcast, Int.zero_add]; exact exactRatio_one ha
  have h1 : Num.add (.int a) (.int b) = .ok (.int (a + b)) := by
    simp only [Num.add, Num.upcast]; exact exactRatio_one h
  show lift τ (Num.add (.int 0) (.int a) >>= fun s => Num.add s (.int b) >>= pure) _ = _
  rw [h0]
  show lift τ (Num.add (.int a) (.int b) >>= pure) _ = _
  rw [h1]; rfl

/-! ### what a frame sees -/

/-- frame `g` of `σ` exists and sees `k` bound to `v` -/
def Sees (σ : Store) (g : Nat) (k : String) (v : Value) : Prop := g < σ.frames.size ∧ σ.lookup g k = some v

theorem Sees.bump {σ g k v} (h : Sees σ g k v) (j : Nat) : Sees (σ.bump j) g k v :=
  ⟨h.1, by rw [Store.lookup_bump]; exact h.2⟩

theorem Sees.pushFrame {σ g k v} (h : Sees σ g k v) (p : Nat) (D : List (String × Value)) :
    Sees (σ.pushFrame p D) g k v :=
  ⟨by have := h.1; rw [Store.pushFrame_frames]; simp; omega, by
    rw [← h.2]; exact Store.lookupAux_pushFrame σ p D k _ g h.1⟩

/-- from the new parameter frame, a name that is not a parameter is seen as the closure's frame sees it -/
theorem Sees.from_child {σ g k v} (h : Sees σ g k v) {D : List (String × Value)} (hk : D.lookup k = none) :
    (σ.pushFrame g D).lookup σ.frames.size k = some v := by
  rw [Store.lookup_pushFrame_parent hk h.1]; exact h.2

theorem Sees.of_frames_eq {σ τ : Store} {g k v} (h : Sees σ g k v) (hf : τ.frames = σ.frames) : Sees τ g k v :=
  ⟨hf ▸ h.1, by rw [Store.lookup_frames_congr hf]; exact h.2⟩

theorem repeat_succ_eq (N : Nat) (A : Int) : Nat.repeat (fun a : Int => a + 1) N A = A + N := by
  induction N with
  | zero => simp [Nat.repeat]
  | succ N ih => rw [Nat.repeat, ih]; omega

/-! ### the counting loop -/

/-- `(lambda (n acc) (if (= n 0) acc (loop (- n 1) (+ acc 1))))` -/
def countLam : Lambda := .mk ⟨["n", "acc"], none⟩ []
  [.cond (.call (.sym "=" none) [.sym "n" none, .prim (.int 0) none] none) (.sym "acc" none)
     (some (.call (.sym "loop" none) [.call (.sym "-" none) [.sym "n" none, .prim (.int 1) none] none,
        .call (.sym "+" none) [.sym "acc" none, .prim (.int 1) none] none] none)) none]

/-- frame `g` sees `=`, `-`, `+` bound to the native procedures and `loop` to the closure of
`countLam` over `g` itself: the state after `(define (loop n acc) …)` in frame `g` -/
structure CountEnv (σ : Store) (g : Nat) : Prop where
  eq : Sees σ g "=" (.builtin .numEq)
  sub : Sees σ g "-" (.builtin .sub)
  add : Sees σ g "+" (.builtin .add)
  loop : Sees σ g "loop" (.closure countLam g)

theorem CountEnv.step {σ g} (h : CountEnv σ g) (D : List (String × Value)) (j : Nat) :
    CountEnv ((σ.pushFrame g D).bump j) g :=
  ⟨(h.eq.pushFrame g D).bump j, (h.sub.pushFrame g D).bump j, (h.add.pushFrame g D).bump j,
   (h.loop.pushFrame g D).bump j⟩

theorem count_paramDefs (x y : Value) : paramDefs countLam.formals [x, y] = [("n", x), ("acc", y)] := by
  simp [paramDefs, countLam, Lambda.formals, bindList, Store.defsInsert]

/-- THE LOOP, by induction on the count: the whole run happens in ONE iteration sequence of the
trampoline; `maxDepth` rises to `depth + 1` (the native calls in operand position) whatever `N` -/
theorem count_loop (g env : Nat) : ∀ (N : Nat) (A : Int) (σ : Store), CountEnv σ g →
    (N : Int) ≤ 2147483647 → -2147483648 ≤ A → A + N ≤ 2147483647 →
    ∃ σ', Applies σ (.closure countLam g) [.num (.int N), .num (.int A)] env (.ok (.num (.int (A + N)))) σ' ∧
      σ'.maxDepth = max σ.maxDepth (σ.depth + 1) := by
  intro N
  induction N with
  | zero =>
    intro A σ henv _ hA hAN
    let D : List (String × Value) := [("n", .num (.int (0 : Nat))), ("acc", .num (.int A))]
    have hn : (σ.pushFrame g D).lookup σ.frames.size "n" = some (.num (.int (0 : Nat))) :=
      Store.lookup_pushFrame_here rfl
    have hacc : ((σ.pushFrame g D).bump 1).lookup σ.frames.size "acc" = some (.num (.int A)) := by
      rw [Store.lookup_bump]; exact Store.lookup_pushFrame_here rfl
    have htest : Evals (σ.pushFrame g D) σ.frames.size
        (.call (.sym "=" none) [.sym "n" none, .prim (.int 0) none] none) (.ok (.bool true))
        ((σ.pushFrame g D).bump 1) :=
      Evals.call_builtin (henv.eq.from_child rfl) (by decide)
        (EvalsArgs.cons (Evals.sym hn) (EvalsArgs.cons (Evals.prim rfl) EvalsArgs.nil)) rfl
        (fun τ => applyPure_numEq τ _ _)
    refine ⟨(σ.pushFrame g D).bump 1, ?_, rfl⟩
    have : A + ((0 : Nat) : Int) = A := by simp
    rw [this]
    refine Applies.closure_value rfl (AppliesScheme.no_defs rfl (by simp [countLam, Lambda.formals]) ?_)
    rw [count_paramDefs]
    exact EvalsBody.last (EvalsTail.cond_true htest rfl
      (EvalsTail.other (by intros; exact Expr.noConfusion) (by intros; exact Expr.noConfusion) (Evals.sym hacc)))
  | succ N ih =>
    intro A σ henv hN hA hAN
    let D : List (String × Value) := [("n", .num (.int ((N + 1 : Nat) : Int))), ("acc", .num (.int A))]
    have hn : ∀ j, ((σ.pushFrame g D).bump j).lookup σ.frames.size "n" = some (.num (.int ((N + 1 : Nat) : Int))) := by
      intro j; rw [Store.lookup_bump]; exact Store.lookup_pushFrame_here rfl
    have hacc : ∀ j, ((σ.pushFrame g D).bump j).lookup σ.frames.size "acc" = some (.num (.int A)) := by
      intro j; rw [Store.lookup_bump]; exact Store.lookup_pushFrame_here rfl
    have hglob : ∀ {k v} j, Sees σ g k v → D.lookup k = none →
        ((σ.pushFrame g D).bump j).lookup σ.frames.size k = some v := by
      intro k v j hs hk; rw [Store.lookup_bump]; exact hs.from_child hk
    have htest : Evals (σ.pushFrame g D) σ.frames.size
        (.call (.sym "=" none) [.sym "n" none, .prim (.int 0) none] none) (.ok (.bool false))
        ((σ.pushFrame g D).bump 1) := by
      have h := Evals.call_builtin (σ := σ.pushFrame g D) (l := none) (l' := none) (henv.eq.from_child rfl) (by decide)
        (EvalsArgs.cons (Evals.sym (s := "n") (l := none) (Store.lookup_pushFrame_here rfl))
          (EvalsArgs.cons (Evals.prim (l := none) (p := .int 0) rfl) EvalsArgs.nil)) rfl
        (fun τ => applyPure_numEq τ ((N + 1 : Nat) : Int) 0)
      have hne : (((N + 1 : Nat) : Int) == 0) = false := by
        simp only [beq_eq_false_iff_ne, ne_eq]; omega
      rw [hne] at h; exact h
    have hsub : Evals ((σ.pushFrame g D).bump 1) σ.frames.size
        (.call (.sym "-" none) [.sym "n" none, .prim (.int 1) none] none) (.ok (.num (.int (N : Int))))
        (((σ.pushFrame g D).bump 1).bump 1) := by
      have h := Evals.call_builtin (l := none) (l' := none) (hglob 1 henv.sub rfl) (by decide)
        (EvalsArgs.cons (Evals.sym (l := none) (hn 1))
          (EvalsArgs.cons (Evals.prim (l := none) (p := .int 1) rfl) EvalsArgs.nil)) rfl
        (fun τ => applyPure_sub τ (a := ((N + 1 : Nat) : Int)) (b := 1) (by simp [fitsI32]; omega))
      have he : ((N + 1 : Nat) : Int) - 1 = (N : Int) := by omega
      rw [he] at h; exact h
    have hadd : Evals (((σ.pushFrame g D).bump 1).bump 1) σ.frames.size
        (.call (.sym "+" none) [.sym "acc" none, .prim (.int 1) none] none) (.ok (.num (.int (A + 1))))
        ((((σ.pushFrame g D).bump 1).bump 1).bump 1) := by
      refine Evals.call_builtin (l := none) (l' := none) ?_ (by decide)
        (EvalsArgs.cons (Evals.sym (l := none) ?_)
          (EvalsArgs.cons (Evals.prim (l := none) (p := .int 1) rfl) EvalsArgs.nil)) rfl
        (fun τ => applyPure_add τ (a := A) (b := 1) (by simp [fitsI32]; omega) (by simp [fitsI32]; omega))
      · simp only [Store.bump_bump]; exact hglob _ henv.add rfl
      · simp only [Store.bump_bump]; exact hacc _
    simp only [Store.bump_bump, Nat.max_self] at hsub hadd
    obtain ⟨σ', hl, hm⟩ := ih (A + 1) ((σ.pushFrame g D).bump 1) (henv.step D 1) (by omega) (by omega) (by omega)
    refine ⟨σ', ?_, ?_⟩
    · have he : A + ((N + 1 : Nat) : Int) = A + 1 + (N : Int) := by omega
      rw [he]
      refine Applies.closure_tail (f := .sym "loop" none) (tenv := σ.frames.size) rfl
        (AppliesScheme.no_defs rfl (by simp [countLam, Lambda.formals]) ?_)
        (Evals.sym (hglob 1 henv.loop rfl)) (EvalsArgs.cons hsub (EvalsArgs.cons hadd EvalsArgs.nil)) rfl hl
      rw [count_paramDefs]
      exact EvalsBody.last (EvalsTail.cond_false htest rfl EvalsTail.call)
    · rw [hm]
      simp only [Store.bump_maxDepth, Store.bump_depth, Store.pushFrame_depth, Store.pushFrame_maxDepth]
      omega

/-! ### shared pieces for the other loop shapes -/

theorem lookup_param {σ : Store} {g : Nat} {D : List (String × Value)} {k : String} {v : Value} (j : Nat)
    (h : D.lookup k = some v) : ((σ.pushFrame g D).bump j).lookup σ.frames.size k = some v := by
  rw [Store.lookup_bump]; exact Store.lookup_pushFrame_here h

theorem lookup_global {σ : Store} {g : Nat} {D : List (String × Value)} {k : String} {v : Value} (j : Nat)
    (hs : Sees σ g k v) (h : D.lookup k = none) : ((σ.pushFrame g D).bump j).lookup σ.frames.size k = some v := by
  rw [Store.lookup_bump]; exact hs.from_child h

/-- `(op a c)` with `op` bound to a native procedure that does not touch the store and operands that
do not touch it either -/
theorem Evals.bin_builtin {τ ρ op a c b va vc v} (hop : τ.lookup ρ op = some (.builtin b)) (hb : b ≠ .apply)
    (ha : Evals τ ρ a (.ok va) τ) (hc : Evals τ ρ c (.ok vc) τ)
    (hok : arityOk b.arity.1 b.arity.2 2 = true) (hpure : ∀ τ', applyPure τ' b [va, vc] = (.ok v, τ')) :
    Evals τ ρ (.call (.sym op none) [a, c] none) (.ok v) (τ.bump 1) :=
  Evals.call_builtin hop hb (EvalsArgs.cons ha (EvalsArgs.cons hc EvalsArgs.nil)) hok hpure

theorem Evals.int_lit {τ ρ} (i : Int) : Evals τ ρ (.prim (.int i) none) (.ok (.num (.int i))) τ := Evals.prim rfl

/-- `(= x 0)` -/
theorem Evals.eq_zero {τ ρ x} {N : Int} (hop : τ.lookup ρ "=" = some (.builtin .numEq))
    (hx : τ.lookup ρ x = some (.num (.int N))) :
    Evals τ ρ (.call (.sym "=" none) [.sym x none, .prim (.int 0) none] none) (.ok (.bool (N == 0))) (τ.bump 1) :=
  Evals.bin_builtin hop (by decide) (Evals.sym hx) (Evals.int_lit 0) rfl (fun τ' => applyPure_numEq τ' N 0)

/-- `(- x 1)` -/
theorem Evals.sub_one {τ ρ x} {N : Int} (hop : τ.lookup ρ "-" = some (.builtin .sub))
    (hx : τ.lookup ρ x = some (.num (.int N))) (hfit : fitsI32 (N - 1) = true) :
    Evals τ ρ (.call (.sym "-" none) [.sym x none, .prim (.int 1) none] none) (.ok (.num (.int (N - 1)))) (τ.bump 1) :=
  Evals.bin_builtin hop (by decide) (Evals.sym hx) (Evals.int_lit 1) rfl (fun τ' => applyPure_sub τ' hfit)

/-- `(+ x 1)` -/
theorem Evals.add_one {τ ρ x} {A : Int} (hop : τ.lookup ρ "+" = some (.builtin .add))
    (hx : τ.lookup ρ x = some (.num (.int A))) (hA : fitsI32 A = true) (hfit : fitsI32 (A + 1) = true) :
    Evals τ ρ (.call (.sym "+" none) [.sym x none, .prim (.int 1) none] none) (.ok (.num (.int (A + 1)))) (τ.bump 1) :=
  Evals.bin_builtin hop (by decide) (Evals.sym hx) (Evals.int_lit 1) rfl (fun τ' => applyPure_add τ' hA hfit)

theorem fits_of_bounds {x : Int} (h₁ : -2147483648 ≤ x) (h₂ : x ≤ 2147483647) : fitsI32 x = true := by
  simp [fitsI32]; omega

/-! ### the counting loop with its recursive call wrapped in a tail context -/

/-- `(lambda (n acc) (if (= n 0) acc E))` for an arbitrary tail expression `E` -/
def ctxLam (E : Expr) : Lambda := .mk ⟨["n", "acc"], none⟩ []
  [.cond (.call (.sym "=" none) [.sym "n" none, .prim (.int 0) none] none) (.sym "acc" none) (some E) none]

/-- the recursive call `(loop (- n 1) (+ acc 1))` -/
def recCall : Expr :=
  .call (.sym "loop" none) [.call (.sym "-" none) [.sym "n" none, .prim (.int 1) none] none,
    .call (.sym "+" none) [.sym "acc" none, .prim (.int 1) none] none] none

/-- frame `ρ` of `τ` sees the loop variables `n`, `acc` with the given values, the native `-`, `+`,
and `loop` bound to the closure of `L` over frame `g`, which itself sees `=`, `-`, `+`, `loop` -/
structure IterEnv (L : Lambda) (τ : Store) (ρ g : Nat) (N A : Int) : Prop where
  lt : ρ < τ.frames.size
  n : τ.lookup ρ "n" = some (.num (.int N))
  acc : τ.lookup ρ "acc" = some (.num (.int A))
  sub : τ.lookup ρ "-" = some (.builtin .sub)
  add : τ.lookup ρ "+" = some (.builtin .add)
  loop : τ.lookup ρ "loop" = some (.closure L g)
  geq : Sees τ g "=" (.builtin .numEq)
  gsub : Sees τ g "-" (.builtin .sub)
  gadd : Sees τ g "+" (.builtin .add)
  gloop : Sees τ g "loop" (.closure L g)

/-- what a tail context must do: from any frame that sees the loop's variables it leads
(`TailPath`) to the recursive call, in a frame that still sees them, raising `maxDepth` at most to
`depth + 1` -/
def GoodContext (env : Nat) (L : Lambda) (g : Nat) (E : Expr) : Prop :=
  ∀ τ ρ N A, IterEnv L τ ρ g N A → ∃ τs ρs, TailPath env τ ρ E τs ρs recCall ∧ IterEnv L τs ρs g N A ∧
    τs.maxDepth ≤ max τ.maxDepth (τ.depth + 1)

theorem ctx_paramDefs (E : Expr) (x y : Value) : paramDefs (ctxLam E).formals [x, y] = [("n", x), ("acc", y)] := by
  simp [paramDefs, ctxLam, Lambda.formals, bindList, Store.defsInsert]

theorem ctx_loop (g env : Nat) (E : Expr) (hE : GoodContext env (ctxLam E) g E) :
    ∀ (N : Nat) (A : Int) (σ : Store),
    Sees σ g "=" (.builtin .numEq) → Sees σ g "-" (.builtin .sub) → Sees σ g "+" (.builtin .add) →
    Sees σ g "loop" (.closure (ctxLam E) g) →
    (N : Int) ≤ 2147483647 → -2147483648 ≤ A → A + N ≤ 2147483647 →
    ∃ σ', Applies σ (.closure (ctxLam E) g) [.num (.int N), .num (.int A)] env (.ok (.num (.int (A + N)))) σ' ∧
      σ'.maxDepth ≤ max σ.maxDepth (σ.depth + 1) := by
  intro N
  induction N with
  | zero =>
    intro A σ heq hsub hadd hloop _ hA hAN
    let D : List (String × Value) := [("n", .num (.int (0 : Nat))), ("acc", .num (.int A))]
    have htest := Evals.eq_zero (τ := σ.pushFrame g D) (ρ := σ.frames.size) (x := "n") (N := ((0 : Nat) : Int))
      (heq.from_child rfl) (Store.lookup_pushFrame_here rfl)
    refine ⟨(σ.pushFrame g D).bump 1, ?_, Nat.le_of_eq rfl⟩
    have : A + ((0 : Nat) : Int) = A := by simp
    rw [this]
    refine Applies.closure_value rfl (AppliesScheme.no_defs rfl (by simp [ctxLam, Lambda.formals]) ?_)
    rw [ctx_paramDefs]
    exact EvalsBody.last (EvalsTail.cond_true htest rfl
      (EvalsTail.other (by intros; exact Expr.noConfusion) (by intros; exact Expr.noConfusion)
        (Evals.sym (lookup_param 1 rfl))))
  | succ N ih =>
    intro A σ heq hsub hadd hloop hN hA hAN
    let D : List (String × Value) := [("n", .num (.int ((N + 1 : Nat) : Int))), ("acc", .num (.int A))]
    have htest := Evals.eq_zero (τ := σ.pushFrame g D) (ρ := σ.frames.size) (x := "n") (N := ((N + 1 : Nat) : Int))
      (heq.from_child rfl) (Store.lookup_pushFrame_here rfl)
    have hne : (((N + 1 : Nat) : Int) == 0) = false := by
      simp only [beq_eq_false_iff_ne, ne_eq]; omega
    rw [hne] at htest
    -- the frame of this iteration, after the test
    have hit : IterEnv (ctxLam E) ((σ.pushFrame g D).bump 1) σ.frames.size g ((N + 1 : Nat) : Int) A :=
      ⟨by simp [Store.pushFrame_frames], lookup_param 1 rfl, lookup_param 1 rfl, lookup_global 1 hsub rfl,
       lookup_global 1 hadd rfl, lookup_global 1 hloop rfl, (heq.pushFrame g D).bump 1, (hsub.pushFrame g D).bump 1,
       (hadd.pushFrame g D).bump 1, (hloop.pushFrame g D).bump 1⟩
    obtain ⟨τs, ρs, hpath, hs, hms⟩ := hE _ _ _ _ hit
    have hsubE := Evals.sub_one hs.sub hs.n (fits_of_bounds (by omega) (by omega))
    have haddE := Evals.add_one (τ := τs.bump 1) (ρ := ρs) (x := "acc") (by rw [Store.lookup_bump]; exact hs.add)
      (by rw [Store.lookup_bump]; exact hs.acc) (fits_of_bounds (by omega) (by omega)) (fits_of_bounds (by omega) (by omega))
    simp only [Store.bump_bump, Nat.max_self] at haddE
    have he : ((N + 1 : Nat) : Int) - 1 = (N : Int) := by omega
    rw [he] at hsubE
    obtain ⟨σ', hl, hm⟩ := ih (A + 1) (τs.bump 1) (hs.geq.bump 1) (hs.gsub.bump 1) (hs.gadd.bump 1) (hs.gloop.bump 1)
      (by omega) (by omega) (by omega)
    have hd := hpath.spec.2.1.1
    refine ⟨σ', ?_, ?_⟩
    · have he' : A + ((N + 1 : Nat) : Int) = A + 1 + (N : Int) := by omega
      rw [he']
      have hruns : TailRuns env ((σ.pushFrame g D).bump 1) σ.frames.size E (.ok (.num (.int (A + 1 + N)))) σ' :=
        hpath.spec.2.2 _ _ (TailRuns.call (.inr ⟨_, _, Evals.sym hs.loop, .inr ⟨_, _,
          EvalsArgs.cons hsubE (EvalsArgs.cons haddE EvalsArgs.nil), .inr ⟨rfl, hl⟩⟩⟩))
      -- the body: the test is false, the alternative `E` is the tail expression
      rcases hruns with ⟨er, _, h⟩ | ⟨v, ht, h⟩ | ⟨f, targs, tenv, σ₁, ht, hp⟩
      · cases h
      · cases h
        refine Applies.closure_value rfl (AppliesScheme.no_defs rfl (by simp [ctxLam, Lambda.formals]) ?_)
        rw [ctx_paramDefs]
        exact EvalsBody.last (EvalsTail.cond_false htest rfl ht)
      · refine hp.applies rfl (AppliesScheme.no_defs rfl (by simp [ctxLam, Lambda.formals]) ?_)
        rw [ctx_paramDefs]
        exact EvalsBody.last (EvalsTail.cond_false htest rfl ht)
    · refine Nat.le_trans hm ?_
      simp only [Store.bump_maxDepth, Store.bump_depth]
      have h1 : τs.depth = σ.depth := hd
      simp only [Store.bump_maxDepth, Store.bump_depth, Store.pushFrame_depth, Store.pushFrame_maxDepth] at hms
      omega

/-- the empty context -/
theorem goodContext_here (env : Nat) (L : Lambda) (g : Nat) : GoodContext env L g recCall :=
  fun τ ρ _ _ h => ⟨τ, ρ, .here, h, Nat.le_max_left _ _⟩

/-- the context `((lambda () □))` — what `(begin □)` and `(let () □)` expand to — around a good context -/
theorem goodContext_thunk (env : Nat) (L : Lambda) (g : Nat) {E : Expr} (hE : GoodContext env L g E) :
    GoodContext env L g (.call (.lambda (.mk ⟨[], none⟩ [] ([] ++ [E])) none) [] none) := by
  intro τ ρ N A h
  have hl : ∀ {k v}, τ.lookup ρ k = some v → (τ.pushFrame ρ []).lookup τ.frames.size k = some v := by
    intro k v hk; rw [Store.lookup_pushFrame_parent rfl h.lt]; exact hk
  have hi : IterEnv L (τ.pushFrame ρ []) τ.frames.size g N A :=
    ⟨by simp [Store.pushFrame_frames], hl h.n, hl h.acc, hl h.sub, hl h.add, hl h.loop,
      h.geq.pushFrame ρ [], h.gsub.pushFrame ρ [], h.gadd.pushFrame ρ [], h.gloop.pushFrame ρ []⟩
  obtain ⟨τs, ρs, hp, hs, hm⟩ := hE _ _ N A hi
  exact ⟨τs, ρs, .lam_call EvalsArgs.nil rfl rfl .nil .nil hp, hs, hm⟩

/-- the context `((lambda (x) □) v)` — what `(let ((x v)) □)` expands to — for a variable `x` that is
none of the loop's names, around a good context -/
theorem goodContext_let (env : Nat) (L : Lambda) (g : Nat) {E : Expr} (x : String) (v : Int)
    (hx : x ≠ "n" ∧ x ≠ "acc" ∧ x ≠ "-" ∧ x ≠ "+" ∧ x ≠ "loop") (hE : GoodContext env L g E) :
    GoodContext env L g (.call (.lambda (.mk ⟨[x], none⟩ [] ([] ++ [E])) none) [.prim (.int v) none] none) := by
  intro τ ρ N A h
  have hD : ∀ k, x ≠ k → List.lookup k [(x, Value.num (.int v))] = none := by
    intro k hk
    simp only [List.lookup]
    have : (k == x) = false := by simp only [beq_eq_false_iff_ne, ne_eq]; exact fun h => hk h.symm
    rw [this]
  have hl : ∀ {k w}, x ≠ k → τ.lookup ρ k = some w →
      (τ.pushFrame ρ [(x, .num (.int v))]).lookup τ.frames.size k = some w := by
    intro k w hk hw; rw [Store.lookup_pushFrame_parent (hD k hk) h.lt]; exact hw
  have hi : IterEnv L (τ.pushFrame ρ [(x, .num (.int v))]) τ.frames.size g N A :=
    ⟨by simp [Store.pushFrame_frames], hl hx.1 h.n, hl hx.2.1 h.acc, hl hx.2.2.1 h.sub, hl hx.2.2.2.1 h.add,
      hl hx.2.2.2.2 h.loop, h.geq.pushFrame ρ _, h.gsub.pushFrame ρ _, h.gadd.pushFrame ρ _, h.gloop.pushFrame ρ _⟩
  obtain ⟨τs, ρs, hp, hs, hm⟩ := hE _ _ N A hi
  refine ⟨τs, ρs, .lam_call (vs := [.num (.int v)]) (restArgs := []) (σ₂ := τ.pushFrame ρ [(x, .num (.int v))])
    (EvalsArgs.cons (Evals.int_lit v) EvalsArgs.nil) rfl ?_ .nil .nil hp, hs, hm⟩
  rw [Store.newFrame_eq]
  exact bindFixed_pushFrame τ ρ [x] [.num (.int v)] [] (by simp)

/-- contexts compose through the arms of an `if` whose test is a constant -/
theorem goodContext_if_true (env : Nat) (L : Lambda) (g : Nat) {E : Expr} (alt : Option Expr) (h : GoodContext env L g E) :
    GoodContext env L g (.cond (.prim (.bool true) none) E alt none) := by
  intro τ ρ N A hi
  obtain ⟨τs, ρs, hp, hs, hm⟩ := h τ ρ N A hi
  exact ⟨τs, ρs, .cond_then (Evals.prim rfl) rfl hp, hs, hm⟩

theorem goodContext_if_false (env : Nat) (L : Lambda) (g : Nat) {E : Expr} (c : Expr) (h : GoodContext env L g E) :
    GoodContext env L g (.cond (.prim (.bool false) none) c (some E) none) := by
  intro τ ρ N A hi
  obtain ⟨τs, ρs, hp, hs, hm⟩ := h τ ρ N A hi
  exact ⟨τs, ρs, .cond_else (Evals.prim rfl) rfl hp, hs, hm⟩

/-! ### mutual recursion: `even?` / `odd?` -/

/-- `(lambda (n) (if (= n 0) #t (odd? (- n 1))))` and `(lambda (n) (if (= n 0) #f (even? (- n 1))))`:
`parityLam b other` answers `b` at zero and otherwise calls `other` -/
def parityLam (b : Bool) (other : String) : Lambda := .mk ⟨["n"], none⟩ []
  [.cond (.call (.sym "=" none) [.sym "n" none, .prim (.int 0) none] none) (.prim (.bool b) none)
     (some (.call (.sym other none) [.call (.sym "-" none) [.sym "n" none, .prim (.int 1) none] none] none)) none]

structure ParityEnv (σ : Store) (g : Nat) : Prop where
  eq : Sees σ g "=" (.builtin .numEq)
  sub : Sees σ g "-" (.builtin .sub)
  even : Sees σ g "even?" (.closure (parityLam true "odd?") g)
  odd : Sees σ g "odd?" (.closure (parityLam false "even?") g)

theorem ParityEnv.step {σ g} (h : ParityEnv σ g) (D : List (String × Value)) (j : Nat) :
    ParityEnv ((σ.pushFrame g D).bump j) g :=
  ⟨(h.eq.pushFrame g D).bump j, (h.sub.pushFrame g D).bump j, (h.even.pushFrame g D).bump j,
   (h.odd.pushFrame g D).bump j⟩

theorem parity_paramDefs (b other) (x : Value) : paramDefs (parityLam b other).formals [x] = [("n", x)] := by
  simp [paramDefs, parityLam, Lambda.formals, bindList, Store.defsInsert]

/-- both procedures at once, by induction on the count: `(even? N)` is `N % 2 = 0`, `(odd? N)` is
`N % 2 = 1`, each in ONE run of the trampoline although the two procedures alternate -/
theorem parity_loop (g env : Nat) : ∀ (N : Nat) (σ : Store), ParityEnv σ g → (N : Int) ≤ 2147483647 →
    (∃ σ', Applies σ (.closure (parityLam true "odd?") g) [.num (.int N)] env (.ok (.bool (N % 2 == 0))) σ' ∧
      σ'.maxDepth = max σ.maxDepth (σ.depth + 1)) ∧
    (∃ σ', Applies σ (.closure (parityLam false "even?") g) [.num (.int N)] env (.ok (.bool (N % 2 == 1))) σ' ∧
      σ'.maxDepth = max σ.maxDepth (σ.depth + 1)) := by
  intro N
  induction N with
  | zero =>
    intro σ henv _
    let D : List (String × Value) := [("n", .num (.int (0 : Nat)))]
    have htest := Evals.eq_zero (τ := σ.pushFrame g D) (ρ := σ.frames.size) (x := "n") (N := ((0 : Nat) : Int))
      (henv.eq.from_child rfl) (Store.lookup_pushFrame_here rfl)
    constructor
    · refine ⟨(σ.pushFrame g D).bump 1, ?_, rfl⟩
      refine Applies.closure_value rfl (AppliesScheme.no_defs rfl (by simp [parityLam, Lambda.formals]) ?_)
      rw [parity_paramDefs]
      exact EvalsBody.last (EvalsTail.cond_true htest rfl
        (EvalsTail.other (by intros; exact Expr.noConfusion) (by intros; exact Expr.noConfusion) (Evals.prim rfl)))
    · refine ⟨(σ.pushFrame g D).bump 1, ?_, rfl⟩
      refine Applies.closure_value rfl (AppliesScheme.no_defs rfl (by simp [parityLam, Lambda.formals]) ?_)
      rw [parity_paramDefs]
      exact EvalsBody.last (EvalsTail.cond_true htest rfl
        (EvalsTail.other (by intros; exact Expr.noConfusion) (by intros; exact Expr.noConfusion) (Evals.prim rfl)))
  | succ N ih =>
    intro σ henv hN
    let D : List (String × Value) := [("n", .num (.int ((N + 1 : Nat) : Int)))]
    have htest := Evals.eq_zero (τ := σ.pushFrame g D) (ρ := σ.frames.size) (x := "n") (N := ((N + 1 : Nat) : Int))
      (henv.eq.from_child rfl) (Store.lookup_pushFrame_here rfl)
    have hne : (((N + 1 : Nat) : Int) == 0) = false := by
      simp only [beq_eq_false_iff_ne, ne_eq]; omega
    rw [hne] at htest
    have hsubE := Evals.sub_one (τ := (σ.pushFrame g D).bump 1) (ρ := σ.frames.size) (x := "n")
      (N := ((N + 1 : Nat) : Int)) (lookup_global 1 henv.sub rfl) (lookup_param 1 rfl)
      (fits_of_bounds (by omega) (by omega))
    simp only [Store.bump_bump, Nat.max_self] at hsubE
    have he : ((N + 1 : Nat) : Int) - 1 = (N : Int) := by omega
    rw [he] at hsubE
    obtain ⟨⟨σe, hle, hme⟩, ⟨σo, hlo, hmo⟩⟩ := ih ((σ.pushFrame g D).bump 1) (henv.step D 1) (by omega)
    have hmax : max ((σ.pushFrame g D).bump 1).maxDepth (((σ.pushFrame g D).bump 1).depth + 1) =
        max σ.maxDepth (σ.depth + 1) := by
      simp only [Store.bump_maxDepth, Store.bump_depth, Store.pushFrame_depth, Store.pushFrame_maxDepth]; omega
    have hpar₁ : ((N + 1 : Nat) % 2 == 0) = (N % 2 == 1) := by
      rcases Nat.mod_two_eq_zero_or_one N with h | h <;> simp [Nat.add_mod, h]
    have hpar₂ : ((N + 1 : Nat) % 2 == 1) = (N % 2 == 0) := by
      rcases Nat.mod_two_eq_zero_or_one N with h | h <;> simp [Nat.add_mod, h]
    constructor
    · refine ⟨σo, ?_, hmo.trans hmax⟩
      rw [hpar₁]
      refine Applies.closure_tail (f := .sym "odd?" none) (tenv := σ.frames.size) rfl
        (AppliesScheme.no_defs rfl (by simp [parityLam, Lambda.formals]) ?_)
        (Evals.sym (lookup_global 1 henv.odd rfl)) (EvalsArgs.cons hsubE EvalsArgs.nil) rfl hlo
      rw [parity_paramDefs]
      exact EvalsBody.last (EvalsTail.cond_false htest rfl EvalsTail.call)
    · refine ⟨σe, ?_, hme.trans hmax⟩
      rw [hpar₂]
      refine Applies.closure_tail (f := .sym "even?" none) (tenv := σ.frames.size) rfl
        (AppliesScheme.no_defs rfl (by simp [parityLam, Lambda.formals]) ?_)
        (Evals.sym (lookup_global 1 henv.even rfl)) (EvalsArgs.cons hsubE EvalsArgs.nil) rfl hle
      rw [parity_paramDefs]
      exact EvalsBody.last (EvalsTail.cond_false htest rfl EvalsTail.call)

/-! ### a loop through a procedure parameter -/

/-- `(lambda (f n acc) (if (= n 0) acc (f f (- n 1) (+ acc 1))))`: the callee is the parameter `f` -/
def hoLam : Lambda := .mk ⟨["f", "n", "acc"], none⟩ []
  [.cond (.call (.sym "=" none) [.sym "n" none, .prim (.int 0) none] none) (.sym "acc" none)
     (some (.call (.sym "f" none) [.sym "f" none, .call (.sym "-" none) [.sym "n" none, .prim (.int 1) none] none,
        .call (.sym "+" none) [.sym "acc" none, .prim (.int 1) none] none] none)) none]

structure ArithEnv (σ : Store) (g : Nat) : Prop where
  eq : Sees σ g "=" (.builtin .numEq)
  sub : Sees σ g "-" (.builtin .sub)
  add : Sees σ g "+" (.builtin .add)

theorem ArithEnv.step {σ g} (h : ArithEnv σ g) (D : List (String × Value)) (j : Nat) :
    ArithEnv ((σ.pushFrame g D).bump j) g :=
  ⟨(h.eq.pushFrame g D).bump j, (h.sub.pushFrame g D).bump j, (h.add.pushFrame g D).bump j⟩

theorem ho_paramDefs (x y z : Value) : paramDefs hoLam.formals [x, y, z] = [("f", x), ("n", y), ("acc", z)] := by
  simp [paramDefs, hoLam, Lambda.formals, bindList, Store.defsInsert]

theorem ho_loop (g env : Nat) : ∀ (N : Nat) (A : Int) (σ : Store), ArithEnv σ g →
    (N : Int) ≤ 2147483647 → -2147483648 ≤ A → A + N ≤ 2147483647 →
    ∃ σ', Applies σ (.closure hoLam g) [.closure hoLam g, .num (.int N), .num (.int A)] env
        (.ok (.num (.int (A + N)))) σ' ∧ σ'.maxDepth = max σ.maxDepth (σ.depth + 1) := by
  intro N
  induction N with
  | zero =>
    intro A σ henv _ hA hAN
    let D : List (String × Value) := [("f", .closure hoLam g), ("n", .num (.int (0 : Nat))), ("acc", .num (.int A))]
    have htest := Evals.eq_zero (τ := σ.pushFrame g D) (ρ := σ.frames.size) (x := "n") (N := ((0 : Nat) : Int))
      (henv.eq.from_child rfl) (Store.lookup_pushFrame_here rfl)
    refine ⟨(σ.pushFrame g D).bump 1, ?_, rfl⟩
    have : A + ((0 : Nat) : Int) = A := by simp
    rw [this]
    refine Applies.closure_value rfl (AppliesScheme.no_defs rfl (by simp [hoLam, Lambda.formals]) ?_)
    rw [ho_paramDefs]
    exact EvalsBody.last (EvalsTail.cond_true htest rfl
      (EvalsTail.other (by intros; exact Expr.noConfusion) (by intros; exact Expr.noConfusion)
        (Evals.sym (lookup_param 1 rfl))))
  | succ N ih =>
    intro A σ henv hN hA hAN
    let D : List (String × Value) :=
      [("f", .closure hoLam g), ("n", .num (.int ((N + 1 : Nat) : Int))), ("acc", .num (.int A))]
    have htest := Evals.eq_zero (τ := σ.pushFrame g D) (ρ := σ.frames.size) (x := "n") (N := ((N + 1 : Nat) : Int))
      (henv.eq.from_child rfl) (Store.lookup_pushFrame_here rfl)
    have hne : (((N + 1 : Nat) : Int) == 0) = false := by
      simp only [beq_eq_false_iff_ne, ne_eq]; omega
    rw [hne] at htest
    have hsubE := Evals.sub_one (τ := (σ.pushFrame g D).bump 1) (ρ := σ.frames.size) (x := "n")
      (N := ((N + 1 : Nat) : Int)) (lookup_global 1 henv.sub rfl) (lookup_param 1 rfl)
      (fits_of_bounds (by omega) (by omega))
    have haddE := Evals.add_one (τ := ((σ.pushFrame g D).bump 1).bump 1) (ρ := σ.frames.size) (x := "acc") (A := A)
      (by simp only [Store.bump_bump]; exact lookup_global _ henv.add rfl)
      (by simp only [Store.bump_bump]; exact lookup_param _ rfl)
      (fits_of_bounds (by omega) (by omega)) (fits_of_bounds (by omega) (by omega))
    simp only [Store.bump_bump, Nat.max_self] at hsubE haddE
    have he : ((N + 1 : Nat) : Int) - 1 = (N : Int) := by omega
    rw [he] at hsubE
    obtain ⟨σ', hl, hm⟩ := ih (A + 1) ((σ.pushFrame g D).bump 1) (henv.step D 1) (by omega) (by omega) (by omega)
    refine ⟨σ', ?_, ?_⟩
    · have he' : A + ((N + 1 : Nat) : Int) = A + 1 + (N : Int) := by omega
      rw [he']
      refine Applies.closure_tail (f := .sym "f" none) (tenv := σ.frames.size) rfl
        (AppliesScheme.no_defs rfl (by simp [hoLam, Lambda.formals]) ?_)
        (Evals.sym (lookup_param 1 rfl))
        (EvalsArgs.cons (Evals.sym (s := "f") (l := none) (lookup_param 1 rfl))
          (EvalsArgs.cons hsubE (EvalsArgs.cons haddE EvalsArgs.nil)))
        rfl hl
      rw [ho_paramDefs]
      exact EvalsBody.last (EvalsTail.cond_false htest rfl EvalsTail.call)
    · rw [hm]
      simp only [Store.bump_maxDepth, Store.bump_depth, Store.pushFrame_depth, Store.pushFrame_maxDepth]
      omega

/-! ### a loop with a rest parameter -/

/-- `(lambda (n . rest) (if (= n 0) (car rest) (loop (- n 1) (+ (car rest) 1))))` -/
def varLam : Lambda := .mk ⟨["n"], some "rest"⟩ []
  [.cond (.call (.sym "=" none) [.sym "n" none, .prim (.int 0) none] none)
     (.call (.sym "car" none) [.sym "rest" none] none)
     (some (.call (.sym "loop" none) [.call (.sym "-" none) [.sym "n" none, .prim (.int 1) none] none,
        .call (.sym "+" none) [.call (.sym "car" none) [.sym "rest" none] none, .prim (.int 1) none] none] none)) none]

structure VarEnv (σ : Store) (g : Nat) : Prop where
  eq : Sees σ g "=" (.builtin .numEq)
  sub : Sees σ g "-" (.builtin .sub)
  add : Sees σ g "+" (.builtin .add)
  car : Sees σ g "car" (.builtin .car)
  loop : Sees σ g "loop" (.closure varLam g)

theorem VarEnv.step {σ g} (h : VarEnv σ g) (D : List (String × Value)) (j : Nat) :
    VarEnv ((σ.pushFrame g D).bump j) g :=
  ⟨(h.eq.pushFrame g D).bump j, (h.sub.pushFrame g D).bump j, (h.add.pushFrame g D).bump j,
   (h.car.pushFrame g D).bump j, (h.loop.pushFrame g D).bump j⟩

theorem var_paramDefs (x y : Value) :
    paramDefs varLam.formals [x, y] = [("n", x), ("rest", .pair y .nil)] := by
  simp [paramDefs, varLam, Lambda.formals, bindList, Store.defsInsert, Value.ofList]

theorem var_loop (g env : Nat) : ∀ (N : Nat) (A : Int) (σ : Store), VarEnv σ g →
    (N : Int) ≤ 2147483647 → -2147483648 ≤ A → A + N ≤ 2147483647 →
    ∃ σ', Applies σ (.closure varLam g) [.num (.int N), .num (.int A)] env (.ok (.num (.int (A + N)))) σ' ∧
      σ'.maxDepth = max σ.maxDepth (σ.depth + 1) := by
  intro N
  induction N with
  | zero =>
    intro A σ henv _ hA hAN
    let D : List (String × Value) := [("n", .num (.int (0 : Nat))), ("rest", .pair (.num (.int A)) .nil)]
    have htest := Evals.eq_zero (τ := σ.pushFrame g D) (ρ := σ.frames.size) (x := "n") (N := ((0 : Nat) : Int))
      (henv.eq.from_child rfl) (Store.lookup_pushFrame_here rfl)
    refine ⟨(σ.pushFrame g D).bump 1, ?_, rfl⟩
    have : A + ((0 : Nat) : Int) = A := by simp
    rw [this]
    -- `(car rest)` is itself a call in tail position: the loop continues with the native `car`
    refine Applies.closure_tail (f := .sym "car" none) (targs := [.sym "rest" none]) (tenv := σ.frames.size) rfl
      (AppliesScheme.no_defs rfl (by simp [varLam, Lambda.formals]) ?_)
      (Evals.sym (lookup_global 1 henv.car rfl))
      (EvalsArgs.cons (Evals.sym (s := "rest") (l := none) (v := .pair (.num (.int A)) .nil) (lookup_param 1 rfl))
        EvalsArgs.nil) rfl
      (Applies.builtin (b := .car) (args := [.pair (.num (.int A)) .nil]) (by decide) rfl rfl (by simp))
    rw [var_paramDefs]
    exact EvalsBody.last (EvalsTail.cond_true htest rfl EvalsTail.call)
  | succ N ih =>
    intro A σ henv hN hA hAN
    let D : List (String × Value) :=
      [("n", .num (.int ((N + 1 : Nat) : Int))), ("rest", .pair (.num (.int A)) .nil)]
    have htest := Evals.eq_zero (τ := σ.pushFrame g D) (ρ := σ.frames.size) (x := "n") (N := ((N + 1 : Nat) : Int))
      (henv.eq.from_child rfl) (Store.lookup_pushFrame_here rfl)
    have hne : (((N + 1 : Nat) : Int) == 0) = false := by
      simp only [beq_eq_false_iff_ne, ne_eq]; omega
    rw [hne] at htest
    have hsubE := Evals.sub_one (τ := (σ.pushFrame g D).bump 1) (ρ := σ.frames.size) (x := "n")
      (N := ((N + 1 : Nat) : Int)) (lookup_global 1 henv.sub rfl) (lookup_param 1 rfl)
      (fits_of_bounds (by omega) (by omega))
    have hcarE : Evals (((σ.pushFrame g D).bump 1).bump 1) σ.frames.size
        (.call (.sym "car" none) [.sym "rest" none] none) (.ok (.num (.int A)))
        ((((σ.pushFrame g D).bump 1).bump 1).bump 1) :=
      Evals.call_builtin (b := .car) (by simp only [Store.bump_bump]; exact lookup_global _ henv.car rfl) (by decide)
        (EvalsArgs.cons (Evals.sym (s := "rest") (l := none) (v := .pair (.num (.int A)) .nil)
          (by simp only [Store.bump_bump]; exact lookup_param _ rfl)) EvalsArgs.nil) rfl (fun τ' => rfl)
    have haddE : Evals (((σ.pushFrame g D).bump 1).bump 1) σ.frames.size
        (.call (.sym "+" none) [.call (.sym "car" none) [.sym "rest" none] none, .prim (.int 1) none] none)
        (.ok (.num (.int (A + 1)))) (((((σ.pushFrame g D).bump 1).bump 1).bump 1).bump 1) :=
      Evals.call_builtin (b := .add) (by simp only [Store.bump_bump]; exact lookup_global _ henv.add rfl) (by decide)
        (EvalsArgs.cons hcarE (EvalsArgs.cons (Evals.int_lit 1) EvalsArgs.nil)) rfl
        (fun τ' => applyPure_add τ' (fits_of_bounds (by omega) (by omega)) (fits_of_bounds (by omega) (by omega)))
    simp only [Store.bump_bump, Nat.max_self] at hsubE haddE
    have he : ((N + 1 : Nat) : Int) - 1 = (N : Int) := by omega
    rw [he] at hsubE
    obtain ⟨σ', hl, hm⟩ := ih (A + 1) ((σ.pushFrame g D).bump 1) (henv.step D 1) (by omega) (by omega) (by omega)
    refine ⟨σ', ?_, ?_⟩
    · have he' : A + ((N + 1 : Nat) : Int) = A + 1 + (N : Int) := by omega
      rw [he']
      refine Applies.closure_tail (f := .sym "loop" none) (tenv := σ.frames.size) rfl
        (AppliesScheme.no_defs rfl (by simp [varLam, Lambda.formals]) ?_)
        (Evals.sym (lookup_global 1 henv.loop rfl))
        (EvalsArgs.cons hsubE (EvalsArgs.cons haddE EvalsArgs.nil)) rfl hl
      rw [var_paramDefs]
      exact EvalsBody.last (EvalsTail.cond_false htest rfl EvalsTail.call)
    · rw [hm]
      simp only [Store.bump_maxDepth, Store.bump_depth, Store.pushFrame_depth, Store.pushFrame_maxDepth]
      omega

/-! ### `apply` in tail position -/

/-- `(lambda (n acc) (if (= n 0) acc (apply loop (- n 1) (cons (+ acc 1) '()))))` -/
def appLam : Lambda := .mk ⟨["n", "acc"], none⟩ []
  [.cond (.call (.sym "=" none) [.sym "n" none, .prim (.int 0) none] none) (.sym "acc" none)
     (some (.call (.sym "apply" none) [.sym "loop" none,
        .call (.sym "-" none) [.sym "n" none, .prim (.int 1) none] none,
        .call (.sym "cons" none) [.call (.sym "+" none) [.sym "acc" none, .prim (.int 1) none] none,
          .quote (.nil none) none] none] none)) none]

structure AppEnv (σ : Store) (g : Nat) : Prop where
  eq : Sees σ g "=" (.builtin .numEq)
  sub : Sees σ g "-" (.builtin .sub)
  add : Sees σ g "+" (.builtin .add)
  cons : Sees σ g "cons" (.builtin .cons)
  apply : Sees σ g "apply" (.builtin .apply)
  loop : Sees σ g "loop" (.closure appLam g)

theorem AppEnv.step {σ g} (h : AppEnv σ g) (D : List (String × Value)) (j : Nat) :
    AppEnv ((σ.pushFrame g D).bump j) g :=
  ⟨(h.eq.pushFrame g D).bump j, (h.sub.pushFrame g D).bump j, (h.add.pushFrame g D).bump j,
   (h.cons.pushFrame g D).bump j, (h.apply.pushFrame g D).bump j, (h.loop.pushFrame g D).bump j⟩

theorem app_paramDefs (x y : Value) : paramDefs appLam.formals [x, y] = [("n", x), ("acc", y)] := by
  simp [paramDefs, appLam, Lambda.formals, bindList, Store.defsInsert]

theorem app_loop (g env : Nat) : ∀ (N : Nat) (A : Int) (σ : Store), AppEnv σ g →
    (N : Int) ≤ 2147483647 → -2147483648 ≤ A → A + N ≤ 2147483647 →
    ∃ σ', Applies σ (.closure appLam g) [.num (.int N), .num (.int A)] env (.ok (.num (.int (A + N)))) σ' ∧
      σ'.maxDepth = max σ.maxDepth (σ.depth + 1) := by
  intro N
  induction N with
  | zero =>
    intro A σ henv _ hA hAN
    let D : List (String × Value) := [("n", .num (.int (0 : Nat))), ("acc", .num (.int A))]
    have htest := Evals.eq_zero (τ := σ.pushFrame g D) (ρ := σ.frames.size) (x := "n") (N := ((0 : Nat) : Int))
      (henv.eq.from_child rfl) (Store.lookup_pushFrame_here rfl)
    refine ⟨(σ.pushFrame g D).bump 1, ?_, rfl⟩
    have : A + ((0 : Nat) : Int) = A := by simp
    rw [this]
    refine Applies.closure_value rfl (AppliesScheme.no_defs rfl (by simp [appLam, Lambda.formals]) ?_)
    rw [app_paramDefs]
    exact EvalsBody.last (EvalsTail.cond_true htest rfl
      (EvalsTail.other (by intros; exact Expr.noConfusion) (by intros; exact Expr.noConfusion)
        (Evals.sym (lookup_param 1 rfl))))
  | succ N ih =>
    intro A σ henv hN hA hAN
    let D : List (String × Value) := [("n", .num (.int ((N + 1 : Nat) : Int))), ("acc", .num (.int A))]
    have htest := Evals.eq_zero (τ := σ.pushFrame g D) (ρ := σ.frames.size) (x := "n") (N := ((N + 1 : Nat) : Int))
      (henv.eq.from_child rfl) (Store.lookup_pushFrame_here rfl)
    have hne : (((N + 1 : Nat) : Int) == 0) = false := by
      simp only [beq_eq_false_iff_ne, ne_eq]; omega
    rw [hne] at htest
    have hsubE := Evals.sub_one (τ := (σ.pushFrame g D).bump 1) (ρ := σ.frames.size) (x := "n")
      (N := ((N + 1 : Nat) : Int)) (lookup_global 1 henv.sub rfl) (lookup_param 1 rfl)
      (fits_of_bounds (by omega) (by omega))
    have haddE := Evals.add_one (τ := ((σ.pushFrame g D).bump 1).bump 1) (ρ := σ.frames.size) (x := "acc") (A := A)
      (by simp only [Store.bump_bump]; exact lookup_global _ henv.add rfl)
      (by simp only [Store.bump_bump]; exact lookup_param _ rfl)
      (fits_of_bounds (by omega) (by omega)) (fits_of_bounds (by omega) (by omega))
    have hconsE : Evals (((σ.pushFrame g D).bump 1).bump 1) σ.frames.size
        (.call (.sym "cons" none) [.call (.sym "+" none) [.sym "acc" none, .prim (.int 1) none] none,
          .quote (.nil none) none] none)
        (.ok (.pair (.num (.int (A + 1))) .nil)) (((((σ.pushFrame g D).bump 1).bump 1).bump 1).bump 1) :=
      Evals.call_builtin (b := .cons) (by simp only [Store.bump_bump]; exact lookup_global _ henv.cons rfl) (by decide)
        (EvalsArgs.cons haddE (EvalsArgs.cons (Evals.quote rfl (by simp)) EvalsArgs.nil)) rfl (fun τ' => rfl)
    simp only [Store.bump_bump, Nat.max_self] at hsubE hconsE
    have he : ((N + 1 : Nat) : Int) - 1 = (N : Int) := by omega
    rw [he] at hsubE
    obtain ⟨σ', hl, hm⟩ := ih (A + 1) ((σ.pushFrame g D).bump 1) (henv.step D 1) (by omega) (by omega) (by omega)
    refine ⟨σ', ?_, ?_⟩
    · have he' : A + ((N + 1 : Nat) : Int) = A + 1 + (N : Int) := by omega
      rw [he']
      -- the pending call's operator is the native `apply`: the loop continues with it, and it
      -- continues the loop with the procedure it was handed
      refine Applies.closure_tail (f := .sym "apply" none) (tenv := σ.frames.size) rfl
        (AppliesScheme.no_defs rfl (by simp [appLam, Lambda.formals]) ?_)
        (Evals.sym (lookup_global 1 henv.apply rfl))
        (EvalsArgs.cons (Evals.sym (s := "loop") (l := none) (lookup_global 1 henv.loop rfl))
          (EvalsArgs.cons hsubE (EvalsArgs.cons hconsE EvalsArgs.nil))) rfl
        (Applies.apply (by simp) rfl hl)
      rw [app_paramDefs]
      exact EvalsBody.last (EvalsTail.cond_false htest rfl EvalsTail.call)
    · rw [hm]
      simp only [Store.bump_maxDepth, Store.bump_depth, Store.pushFrame_depth, Store.pushFrame_maxDepth]
      omega

end Eval
end Ruschm

/-! ## tail position in the data the parser transforms (the bundled derived forms) -/

namespace Ruschm.Macro
open Ruschm.C05

theorem isList_ofList (l : Loc) : ∀ xs : List Datum, IsList (Datum.ofList l xs) xs
  | [] => rfl
  | x :: xs => by
    have := isList_ofList none xs
    simp only [IsList, Datum.ofList, Datum.spine] at this ⊢
    rw [this]

theorem isList_withLoc {d : Datum} {es : List Datum} (l : Loc) (h : IsList d es) : IsList (d.withLoc l) es := by
  cases d <;> simp [IsList, Datum.withLoc, Datum.spine] at h ⊢ <;> exact h

theorem isList_pair {a d : Datum} {l : Loc} {es : List Datum} (h : IsList d es) : IsList (.pair a d l) (a :: es) := by
  simp only [IsList, Datum.spine] at h ⊢
  rw [h]

theorem withLoc_loc (d : Datum) (l : Loc) : (d.withLoc l).loc = l := by cases d <;> rfl

/-- a shape theorem about the use `rest.withLoc l`, with the use's location computed -/
macro "at_loc " t:term : term =>
  `((by have h' := $t; (try simp only [withLoc_loc] at h'); exact h'))

/-- `DTail sub d`: the datum `sub` is in tail position of the datum `d`, as the parser will transform
it — `d` itself; an arm of `(if t c)` / `(if t c a)`; the last body form of a `(lambda …)` in operator
position; and through one expansion step of a bundled derived form (`expand1` on the generated
`Gen.grammarData`; the use is what follows the keyword, located at the form, as
`transform_to_statement` passes it). -/
inductive DTail : Datum → Datum → Prop
  | here (d : Datum) : DTail d d
  | if_then {sub d i t c rest} (hd : IsList d (i :: t :: c :: rest)) (hi : isSym "if" i = true)
      (h : DTail sub c) : DTail sub d
  | if_else {sub d i t c a rest} (hd : IsList d (i :: t :: c :: a :: rest)) (hi : isSym "if" i = true)
      (h : DTail sub a) : DTail sub d
  | lam_call {sub d lam args k formals pre last} (hd : IsList d (lam :: args))
      (hl : IsList lam (k :: formals :: (pre ++ [last]))) (hk : isSym "lambda" k = true)
      (h : DTail sub last) : DTail sub d
  | expand {sub kw l₁ rest l d'} (hkw : kw ∈ keywords)
      (hx : ∀ fuel, matchFuel (rest.withLoc l) ≤ fuel → expand1 fuel kw (rest.withLoc l) = .ok d')
      (h : DTail sub d') : DTail sub (.pair (.sym kw l₁) rest l)

theorem DTail.trans {a b c : Datum} (h₁ : DTail a b) (h₂ : DTail b c) : DTail a c := by
  induction h₂ with
  | here => exact h₁
  | if_then hd hi _ ih => exact .if_then hd hi ih
  | if_else hd hi _ ih => exact .if_else hd hi ih
  | lam_call hd hl hk _ ih => exact .lam_call hd hl hk ih
  | expand hkw hx _ ih => exact .expand hkw hx ih

/-- the tail form of `((lambda formals body… last) args…)` as a template builds it -/
theorem DTail.of_lambda_call {sub : Datum} (loc : Loc) (formals : Datum) (pre : List Datum) (last : Datum)
    (args : List Datum) (h : DTail sub last) :
    DTail sub (L loc (L loc (S loc "lambda" :: formals :: (pre ++ [last])) :: args)) :=
  .lam_call (isList_ofList _ _) (isList_ofList _ _) rfl h

/-- `begin`: the last form -/
theorem dtail_begin {sub l₁ rest l pre last} (hu : IsList rest (pre ++ [last])) (h : DTail sub last) :
    DTail sub (.pair (.sym "begin" l₁) rest l) := by
  refine .expand (by decide) (fun fuel hf => at_loc (begin_shape (isList_withLoc l hu) (by simp) hf)) ?_
  exact DTail.of_lambda_call _ _ pre last [] h

/-- `(begin form… last)` as a template builds it -/
theorem dtail_begin_built {sub : Datum} (loc : Loc) {pre last} (h : DTail sub last) :
    DTail sub (L loc (S loc "begin" :: (pre ++ [last]))) :=
  dtail_begin (isList_ofList none _) h

/-- `when`: the last result -/
theorem dtail_when {sub l₁ rest l test pre last} (hu : IsList rest (test :: (pre ++ [last]))) (h : DTail sub last) :
    DTail sub (.pair (.sym "when" l₁) rest l) := by
  refine .expand (by decide) (fun fuel hf => at_loc (when_shape (isList_withLoc l hu) (by simp) hf)) ?_
  exact .if_then (isList_ofList _ _) rfl (dtail_begin_built _ h)

/-- `unless`: the last result -/
theorem dtail_unless {sub l₁ rest l test pre last} (hu : IsList rest (test :: (pre ++ [last]))) (h : DTail sub last) :
    DTail sub (.pair (.sym "unless" l₁) rest l) := by
  refine .expand (by decide) (fun fuel hf => at_loc (unless_shape (isList_withLoc l hu) (by simp) hf)) ?_
  exact .if_then (isList_ofList _ _) rfl (dtail_begin_built _ h)

/-- a derived-form use as a template builds it: `(kw x₁ …)` located at `loc` -/
theorem built_eq (loc : Loc) (kw : String) (xs : List Datum) :
    L loc (S loc kw :: xs) = .pair (.sym kw loc) (Datum.ofList none xs) loc := rfl

/-- `let`: the last body form (no bindings, or bindings `(name val) …`) -/
theorem dtail_let {sub l₁ rest l bs bds nvs pre last} (hu : IsList rest (bs :: (pre ++ [last])))
    (hbs : IsList bs bds) (hp : IsPairs bds nvs) (h : DTail sub last) :
    DTail sub (.pair (.sym "let" l₁) rest l) := by
  by_cases hnv : nvs = []
  · have hb : bds = [] := hp.nil_iff.2 hnv
    subst hb
    exact .expand (by decide) (fun fuel hf => at_loc (let_empty_shape (isList_withLoc l hu) hbs (by simp) hf))
      (DTail.of_lambda_call _ _ pre last [] h)
  · exact .expand (by decide) (fun fuel hf => at_loc (let_shape (isList_withLoc l hu) hbs hp hnv (by simp) hf))
      (DTail.of_lambda_call _ _ pre last _ h)

theorem isPairs_built (loc : Loc) : ∀ nvs : List (Datum × Datum),
    IsPairs (nvs.map fun nv => L loc [nv.1, nv.2]) nvs
  | [] => .nil
  | _ :: nvs => .cons (isList_ofList _ _) (isPairs_built loc nvs)

/-- `let*`: the last body form, for any number of bindings -/
theorem dtail_letstar {sub pre last} (h : DTail sub last) : ∀ (nvs : List (Datum × Datum)) {l₁ rest l bs bds},
    IsList rest (bs :: (pre ++ [last])) → IsList bs bds → IsPairs bds nvs →
    DTail sub (.pair (.sym "let*" l₁) rest l)
  | [], l₁, rest, l, bs, bds, hu, hbs, hp => by
    cases hp
    refine .expand (by decide) (fun fuel hf => at_loc (letstar_empty_shape (isList_withLoc l hu) hbs (by simp) hf)) ?_
    rw [built_eq]
    exact dtail_let (bs := L _ []) (isList_ofList none _) (isList_ofList _ _) .nil h
  | [nv], l₁, rest, l, bs, bds, hu, hbs, hp => by
    cases hp with
    | cons hb hps =>
      cases hps
      refine .expand (by decide) (fun fuel hf => at_loc (letstar_one_shape (isList_withLoc l hu) hbs hb (by simp) hf)) ?_
      rw [built_eq]
      exact dtail_let (isList_ofList none _) (isList_ofList _ [_]) (.cons (xy := nv) (isList_ofList _ _) .nil) h
  | nv :: nv₂ :: more, l₁, rest, l, bs, bds, hu, hbs, hp => by
    cases hp with
    | cons hb hps =>
      refine .expand (by decide) (fun fuel hf => at_loc (letstar_more_shape (isList_withLoc l hu) hbs hb hps (by simp) (by simp) hf)) ?_
      rw [built_eq]
      refine dtail_let (pre := []) (isList_ofList none _) (isList_ofList _ [_])
        (.cons (xy := nv) (isList_ofList _ _) .nil) ?_
      rw [built_eq]
      exact dtail_letstar h (nv₂ :: more) (isList_ofList none _) (isList_ofList _ _) (isPairs_built _ _)

/-- `and`: the last test -/
theorem dtail_and {sub last} (h : DTail sub last) : ∀ (pre : List Datum) {l₁ rest l},
    IsList rest (pre ++ [last]) → DTail sub (.pair (.sym "and" l₁) rest l)
  | [], l₁, rest, l, hu =>
    .expand (by decide) (fun fuel hf => at_loc (and_one_shape (isList_withLoc l hu) hf)) h
  | t :: pre, l₁, rest, l, hu => by
    refine .expand (by decide) (fun fuel hf => at_loc (and_more_shape (test := t) (tests := pre ++ [last]) (isList_withLoc l hu) (by simp) hf)) ?_
    refine .if_then (isList_ofList _ _) rfl ?_
    rw [built_eq]
    exact dtail_and h pre (isList_ofList none _)

/-- `or`: the last test -/
theorem dtail_or {sub last} (h : DTail sub last) : ∀ (pre : List Datum) {l₁ rest l},
    IsList rest (pre ++ [last]) → DTail sub (.pair (.sym "or" l₁) rest l)
  | [], l₁, rest, l, hu =>
    .expand (by decide) (fun fuel hf => at_loc (or_one_shape (isList_withLoc l hu) hf)) h
  | t :: pre, l₁, rest, l, hu => by
    refine .expand (by decide) (fun fuel hf => at_loc (or_more_shape (test := t) (tests := pre ++ [last]) (isList_withLoc l hu) (by simp) hf)) ?_
    rw [built_eq]
    refine dtail_let (pre := []) (nvs := [(S _ "x", t)]) (isList_ofList none _) (isList_ofList _ [_])
      (.cons (isList_ofList _ _) .nil) ?_
    refine .if_else (isList_ofList _ _) rfl ?_
    rw [built_eq]
    exact dtail_or h pre (isList_ofList none _)

/-! ### `cond` -/

/-- `(cond (else result… last))` -/
theorem dtail_cond_else {sub l₁ rest l c e pre last} (hu : IsList rest [c]) (hc : IsList c (e :: (pre ++ [last])))
    (he : isSym "else" e = true) (h : DTail sub last) : DTail sub (.pair (.sym "cond" l₁) rest l) :=
  .expand (by decide) (fun fuel hf => at_loc (cond_else_shape (isList_withLoc l hu) hc he (by simp) hf))
    (dtail_begin_built _ h)

/-- `(cond (test result… last))`, the only clause -/
theorem dtail_cond_clause_sole {sub l₁ rest l c test pre last} (hu : IsList rest [c])
    (hc : IsList c (test :: (pre ++ [last]))) (hte : isSym "else" test = false)
    (hna : ∀ a r, pre ++ [last] = [a, r] → isSym "=>" a = false) (h : DTail sub last) :
    DTail sub (.pair (.sym "cond" l₁) rest l) :=
  .expand (by decide) (fun fuel hf => at_loc (cond_normal_shape (isList_withLoc l hu) hc (by simp) hte hna hf))
    (.if_then (isList_ofList _ _) rfl (dtail_begin_built _ h))

/-- `(cond (test result… last) clause…)`: the last result of the first clause, and whatever is in tail
position of `(cond clause…)` -/
theorem dtail_cond_clause_more {sub l₁ rest l c test pre last clauses} (hu : IsList rest (c :: clauses))
    (hc : IsList c (test :: (pre ++ [last]))) (hcl : clauses ≠ [])
    (hna : ∀ a r, pre ++ [last] = [a, r] → isSym "=>" a = false) :
    (DTail sub last → DTail sub (.pair (.sym "cond" l₁) rest l)) ∧
    (DTail sub (.pair (.sym "cond" l) (Datum.ofList none clauses) l) → DTail sub (.pair (.sym "cond" l₁) rest l)) :=
  ⟨fun h => .expand (by decide) (fun fuel hf => at_loc (cond_normal_more_shape (isList_withLoc l hu) hc (by simp) hcl hna hf))
      (.if_then (isList_ofList _ _) rfl (dtail_begin_built _ h)),
   fun h => .expand (by decide) (fun fuel hf => at_loc (cond_normal_more_shape (isList_withLoc l hu) hc (by simp) hcl hna hf))
      (.if_else (isList_ofList _ _) rfl h)⟩

/-- `(cond (test => receiver))`: the call `(receiver temp)` -/
theorem dtail_cond_arrow_sole {l₁ rest l c test a r} (hu : IsList rest [c]) (hc : IsList c [test, a, r])
    (ha : isSym "=>" a = true) (hte : isSym "else" test = false) :
    DTail (L l [r, S l "temp"]) (.pair (.sym "cond" l₁) rest l) := by
  refine .expand (by decide) (fun fuel hf => at_loc (cond_arrow_shape (isList_withLoc l hu) hc ha hte hf)) ?_
  rw [built_eq]
  refine dtail_let (pre := []) (nvs := [(S _ "temp", test)]) (isList_ofList none _) (isList_ofList _ [_])
    (.cons (isList_ofList _ _) .nil) ?_
  exact .if_then (isList_ofList _ _) rfl (.here _)

/-- `(cond (test => receiver) clause…)`: the call `(receiver temp)`, and whatever is in tail position
of `(cond clause…)` -/
theorem dtail_cond_arrow_more {sub l₁ rest l c test a r clauses} (hu : IsList rest (c :: clauses))
    (hc : IsList c [test, a, r]) (ha : isSym "=>" a = true) (hcl : clauses ≠ []) :
    DTail (L l [r, S l "temp"]) (.pair (.sym "cond" l₁) rest l) ∧
    (DTail sub (.pair (.sym "cond" l) (Datum.ofList none clauses) l) → DTail sub (.pair (.sym "cond" l₁) rest l)) := by
  have key : ∀ {x}, DTail x (L l [S l "if", S l "temp", L l [r, S l "temp"], L l (S l "cond" :: clauses)]) →
      DTail x (.pair (.sym "cond" l₁) rest l) := by
    intro x hx
    refine .expand (by decide) (fun fuel hf => at_loc (cond_arrow_more_shape (isList_withLoc l hu) hc ha hcl hf)) ?_
    rw [built_eq]
    exact dtail_let (pre := []) (nvs := [(S _ "temp", test)]) (isList_ofList none _) (isList_ofList _ [_])
      (.cons (isList_ofList _ _) .nil) hx
  exact ⟨key (.if_then (isList_ofList _ _) rfl (.here _)), fun h => key (.if_else (isList_ofList _ _) rfl h)⟩

/-- `(cond (test))`: the test itself -/
theorem dtail_cond_test_sole {sub l₁ rest l c test} (hu : IsList rest [c]) (hc : IsList c [test])
    (h : DTail sub test) : DTail sub (.pair (.sym "cond" l₁) rest l) :=
  .expand (by decide) (fun fuel hf => at_loc (cond_test_shape (isList_withLoc l hu) hc hf)) h

/-- `(cond (test) clause…)`: whatever is in tail position of `(cond clause…)` -/
theorem dtail_cond_test_more {sub l₁ rest l c test clauses} (hu : IsList rest (c :: clauses)) (hc : IsList c [test])
    (hcl : clauses ≠ []) (h : DTail sub (.pair (.sym "cond" l) (Datum.ofList none clauses) l)) :
    DTail sub (.pair (.sym "cond" l₁) rest l) := by
  refine .expand (by decide) (fun fuel hf => at_loc (cond_test_more_shape (isList_withLoc l hu) hc hcl hf)) ?_
  rw [built_eq]
  refine dtail_let (pre := []) (nvs := [(S _ "temp", test)]) (isList_ofList none _) (isList_ofList _ [_])
    (.cons (isList_ofList _ _) .nil) ?_
  exact .if_else (isList_ofList _ _) rfl h

/-! ### `case` -/

/-- `(case (k…) clause…)` with a key that is a non-empty list: whatever is in tail position of
`(case atom-key clause…)` -/
theorem dtail_case_list_key {sub l₁ rest l k keys clauses} (hu : IsList rest (k :: clauses)) (hk : IsList k keys)
    (hkn : keys ≠ []) (hcl : clauses ≠ [])
    (h : DTail sub (.pair (.sym "case" l) (Datum.ofList none (S l "atom-key" :: clauses)) l)) :
    DTail sub (.pair (.sym "case" l₁) rest l) := by
  refine .expand (by decide) (fun fuel hf => at_loc (case_list_key_shape (isList_withLoc l hu) hk hkn hcl hf)) ?_
  rw [built_eq]
  exact dtail_let (pre := []) (nvs := [(S _ "atom-key", L _ keys)]) (isList_ofList none _) (isList_ofList _ [_])
    (.cons (isList_ofList _ _) .nil) h

/-- `(case key (else => receiver))`: the call `(receiver key)` -/
theorem dtail_case_else_arrow {l₁ rest l key c e a r} (hu : IsList rest [key, c]) (hc : IsList c [e, a, r])
    (he : isSym "else" e = true) (ha : isSym "=>" a = true) (hk : ∀ ks, IsList key ks → ks = []) :
    DTail (L l [r, key]) (.pair (.sym "case" l₁) rest l) :=
  .expand (by decide) (fun fuel hf => at_loc (case_else_arrow_shape (isList_withLoc l hu) hc he ha hk hf)) (.here _)

/-- `(case key (else result… last))` -/
theorem dtail_case_else {sub l₁ rest l key c e pre last} (hu : IsList rest [key, c])
    (hc : IsList c (e :: (pre ++ [last]))) (he : isSym "else" e = true)
    (hna : ∀ a r, pre ++ [last] = [a, r] → isSym "=>" a = false) (hk : ∀ ks, IsList key ks → ks = [])
    (h : DTail sub last) : DTail sub (.pair (.sym "case" l₁) rest l) :=
  .expand (by decide) (fun fuel hf => at_loc (case_else_shape (isList_withLoc l hu) hc he (by simp) hna hk hf))
    (dtail_begin_built _ h)

/-- `(case key ((atom…) => receiver))`, the only clause: the call `(receiver key)` -/
theorem dtail_case_arrow_sole {l₁ rest l key c as atoms a r} (hu : IsList rest [key, c]) (hc : IsList c [as, a, r])
    (has : IsList as atoms) (hne : atoms ≠ []) (ha : isSym "=>" a = true) (hk : ∀ ks, IsList key ks → ks = []) :
    DTail (L l [r, key]) (.pair (.sym "case" l₁) rest l) :=
  .expand (by decide) (fun fuel hf => at_loc (case_arrow_shape (isList_withLoc l hu) hc has hne ha hk hf))
    (.if_then (isList_ofList _ _) rfl (.here _))

/-- `(case key ((atom…) result… last))`, the only clause -/
theorem dtail_case_clause_sole {sub l₁ rest l key c as atoms pre last} (hu : IsList rest [key, c])
    (hc : IsList c (as :: (pre ++ [last]))) (has : IsList as atoms) (hne : atoms ≠ [])
    (hna : ∀ a r, pre ++ [last] = [a, r] → isSym "=>" a = false) (hk : ∀ ks, IsList key ks → ks = [])
    (h : DTail sub last) : DTail sub (.pair (.sym "case" l₁) rest l) :=
  .expand (by decide) (fun fuel hf => at_loc (case_normal_shape (isList_withLoc l hu) hc has hne (by simp) hna hk hf))
    (.if_then (isList_ofList _ _) rfl (dtail_begin_built _ h))

/-- `(case key ((atom…) => receiver) clause…)`: the call `(receiver key)`, and whatever is in tail
position of `(case key clause…)` -/
theorem dtail_case_arrow_more {sub l₁ rest l key c as atoms a r clauses} (hu : IsList rest (key :: c :: clauses))
    (hc : IsList c [as, a, r]) (has : IsList as atoms) (hne : atoms ≠ []) (ha : isSym "=>" a = true)
    (hcl : clauses ≠ []) (hk : ∀ ks, IsList key ks → ks = []) :
    DTail (L l [r, key]) (.pair (.sym "case" l₁) rest l) ∧
    (DTail sub (.pair (.sym "case" l) (Datum.ofList none (key :: clauses)) l) →
      DTail sub (.pair (.sym "case" l₁) rest l)) :=
  ⟨.expand (by decide) (fun fuel hf => at_loc (case_arrow_more_shape (isList_withLoc l hu) hc has hne ha hcl hk hf))
      (.if_then (isList_ofList _ _) rfl (.here _)),
   fun h => .expand (by decide) (fun fuel hf => at_loc (case_arrow_more_shape (isList_withLoc l hu) hc has hne ha hcl hk hf))
      (.if_else (isList_ofList _ _) rfl h)⟩

/-- `(case key ((atom…) result… last) clause…)`: the last result of the first clause, and whatever is
in tail position of `(case key clause…)` -/
theorem dtail_case_clause_more {sub l₁ rest l key c as atoms pre last clauses}
    (hu : IsList rest (key :: c :: clauses)) (hc : IsList c (as :: (pre ++ [last]))) (has : IsList as atoms)
    (hne : atoms ≠ []) (hcl : clauses ≠ []) (hna : ∀ a r, pre ++ [last] = [a, r] → isSym "=>" a = false)
    (hk : ∀ ks, IsList key ks → ks = []) :
    (DTail sub last → DTail sub (.pair (.sym "case" l₁) rest l)) ∧
    (DTail sub (.pair (.sym "case" l) (Datum.ofList none (key :: clauses)) l) →
      DTail sub (.pair (.sym "case" l₁) rest l)) :=
  ⟨fun h => .expand (by decide) (fun fuel hf => at_loc (case_normal_more_shape (isList_withLoc l hu) hc has hne (by simp) hcl hna hk hf))
      (.if_then (isList_ofList _ _) rfl (dtail_begin_built _ h)),
   fun h => .expand (by decide) (fun fuel hf => at_loc (case_normal_more_shape (isList_withLoc l hu) hc has hne (by simp) hcl hna hk hf))
      (.if_else (isList_ofList _ _) rfl h)⟩

end Ruschm.Macro

/-! ## the transformer: a successfully transformed expression leaves the syntax environment as it was -/

namespace Ruschm.Xform
namespace Keep

/-- a successful run whose result satisfies `P` leaves the syntax environment as it was -/
structure KeepIf {α} (P : α → Prop) (m : XM α) : Prop where
  keep : ∀ s a s', m s = (.ok a, s') → P a → s' = s
/-- `m` never succeeds with a result satisfying `P` -/
structure Never {α} (P : α → Prop) (m : XM α) : Prop where
  never : ∀ s a s', m s = (.ok a, s') → ¬ P a

abbrev Tt {α} : α → Prop := fun _ => True

theorem bind_run {α β} (m : XM α) (f : α → XM β) (s : SynEnv) :
    (m >>= f) s = match m s with
      | (.ok a, s') => f a s'
      | (.error e, s') => (.error e, s') := rfl

theorem bind_ok {α β} {m : XM α} {f : α → XM β} {s b s'} (h : (m >>= f) s = (.ok b, s')) :
    ∃ a s₁, m s = (.ok a, s₁) ∧ f a s₁ = (.ok b, s') := by
  rw [bind_run] at h
  generalize m s = x at h
  obtain ⟨r, s₁⟩ := x
  cases r with
  | error e => cases h
  | ok a => exact ⟨a, s₁, rfl, h⟩

variable {α β : Type} {P : β → Prop} {Q : α → Prop}

theorem KeepIf.pure (b : β) : KeepIf P (pure b : XM β) := ⟨fun _ _ _ h _ => by cases h; rfl⟩
theorem KeepIf.fail (e : SErr) : KeepIf P (fail e : XM β) := ⟨fun _ _ _ h _ => by cases h⟩
theorem KeepIf.lift (x : Except SErr β) : KeepIf P (lift x) := ⟨fun _ _ _ h _ => by
  simp only [Xform.lift, Prod.mk.injEq] at h; exact h.2.symm⟩
theorem KeepIf.need (x : Option β) : KeepIf P (need x) := by
  cases x
  · exact KeepIf.fail _
  · exact KeepIf.pure _
theorem KeepIf.identOf (d : Datum) : KeepIf Q' (identOf d) := KeepIf.lift _
theorem KeepIf.expectList (d : Datum) : KeepIf Q' (expectList d) := KeepIf.lift _
theorem KeepIf.getEnv : KeepIf Q' getEnv := ⟨fun _ _ _ h _ => by cases h; rfl⟩

theorem Never.pure {b : β} (hb : ¬ P b) : Never P (pure b : XM β) := ⟨fun _ _ _ h => by cases h; exact hb⟩
theorem Never.fail (e : SErr) : Never P (fail e : XM β) := ⟨fun _ _ _ h => by cases h⟩
theorem Never.bind {m : XM α} {f : α → XM β} (hf : ∀ a, Never P (f a)) : Never P (m >>= f) := by
  refine ⟨fun s b s' h => ?_⟩
  obtain ⟨a, s₁, _, h₂⟩ := bind_ok h
  exact (hf a).never _ _ _ h₂

theorem KeepIf.of_never {m : XM β} (h : Never P m) : KeepIf P m := ⟨fun s a s' hr hp => absurd hp (h.never s a s' hr)⟩

/-- sequencing: the first step keeps the environment whenever its result satisfies `Q`; the second
is run only on such results (on the others it cannot produce a `P`) -/
theorem KeepIf.bind_if {m : XM α} {f : α → XM β} (hm : KeepIf Q m) (hf : ∀ a, Q a → KeepIf P (f a))
    (hn : ∀ a, ¬ Q a → Never P (f a)) : KeepIf P (m >>= f) := by
  refine ⟨fun s b s' h hp => ?_⟩
  obtain ⟨a, s₁, h₁, h₂⟩ := bind_ok h
  by_cases hq : Q a
  · have := hm.keep s a s₁ h₁ hq
    subst this
    exact (hf a hq).keep _ _ _ h₂ hp
  · exact absurd hp ((hn a hq).never _ _ _ h₂)

theorem KeepIf.bind {m : XM α} {f : α → XM β} (hm : KeepIf Tt m) (hf : ∀ a, KeepIf P (f a)) : KeepIf P (m >>= f) :=
  KeepIf.bind_if (Q := Tt) hm (fun a _ => hf a) (fun _ h => absurd trivial h)

theorem KeepIf.inChild {m : XM β} (hm : KeepIf P m) : KeepIf P (inChild m) := by
  refine ⟨fun s b s' h hp => ?_⟩
  simp only [Xform.inChild] at h
  generalize hx : m ([] :: s) = x at h
  obtain ⟨r, e⟩ := x
  cases e with
  | nil => simp only [Prod.mk.injEq] at h; obtain ⟨rfl, rfl⟩ := h; have := hm.keep _ _ _ hx hp; cases this
  | cons c e' =>
    simp only [Prod.mk.injEq] at h
    obtain ⟨rfl, rfl⟩ := h
    have := hm.keep _ _ _ hx hp
    cases this; rfl

theorem KeepIf.toFormals (d : Datum) : KeepIf Q' (toFormals d) := by
  unfold Xform.toFormals
  split
  · simp only; split
    · exact KeepIf.fail _
    · exact KeepIf.pure _
  · simp only; split
    · exact KeepIf.fail _
    · exact KeepIf.pure _
  · exact KeepIf.pure _
  · exact KeepIf.fail _

end Keep
end Ruschm.Xform

namespace Ruschm.Xform
namespace Keep

/-- the statements an expression context accepts: expressions and definitions -/
def IsED : Statement → Prop
  | .expr _ => True
  | .definition _ => True
  | _ => False

theorem never_lib : ∀ n args loc, Never IsED (toLibrary n args loc)
  | 0, _, _ => by rw [toLibrary]; exact Never.fail _
  | n+1, _, _ => by
    rw [toLibrary]
    repeat (first | focus (apply Never.pure; simp [IsED]; done) | apply Never.bind | intro _)

structure KeepAll (n : Nat) : Prop where
  stmt : ∀ d, KeepIf IsED (toStatement n d)
  expr : ∀ d, KeepIf Tt (toExpr n d)
  call : ∀ f a l, KeepIf Tt (toCall n f a l)
  exprs : ∀ ds, KeepIf Tt (toExprs n ds)
  defn : ∀ args, KeepIf Tt (toDefinition n args)
  lam : ∀ args, KeepIf Tt (toLambda n args)
  body : ∀ ds defs exprs, KeepIf Tt (toBody n ds defs exprs)

syntax "keep_close" : tactic
macro_rules
  | `(tactic| keep_close) => `(tactic| first
      | exact KeepIf.fail _ | exact KeepIf.pure _ | exact KeepIf.lift _ | exact KeepIf.need _ | exact KeepIf.identOf _
      | exact KeepIf.expectList _ | exact KeepIf.getEnv | exact KeepIf.toFormals _)

syntax "keep_never" : tactic
macro_rules
  | `(tactic| keep_never) => `(tactic| focus (apply KeepIf.of_never; (repeat (first | focus (apply Never.pure; simp [IsED]; done) | exact Never.fail _ | exact never_lib _ _ _ | apply Never.bind | intro _)); done))

syntax "keep_all" term : tactic
macro_rules
  | `(tactic| keep_all $ih) => `(tactic| repeat (first
      | keep_close
      | exact KeepAll.stmt $ih _ | exact KeepAll.expr $ih _ | exact KeepAll.call $ih _ _ _ | exact KeepAll.exprs $ih _
      | exact KeepAll.defn $ih _ | exact KeepAll.lam $ih _ | exact KeepAll.body $ih _ _ _
      | keep_never
      | apply KeepIf.inChild | apply KeepIf.bind | intro _ | split | dsimp only))

section
variable {n : Nat} (ih : KeepAll n)
include ih

theorem keep_stmt (d : Datum) : KeepIf IsED (toStatement (n+1) d) := by
  unfold toStatement; keep_all ih

theorem keep_expr (d : Datum) : KeepIf Tt (toExpr (n+1) d) := by
  rw [toExpr]
  refine KeepIf.bind_if (Q := IsED) (ih.stmt d) (fun a _ => ?_) (fun a hq => ?_)
  · split
    · exact KeepIf.pure _
    · exact KeepIf.fail _
  · cases a <;> first | exact absurd trivial hq | exact Never.fail _

theorem keep_call (f a l) : KeepIf Tt (toCall (n+1) f a l) := by
  rw [toCall]; keep_all ih
theorem keep_exprs (ds) : KeepIf Tt (toExprs (n+1) ds) := by
  cases ds <;> rw [toExprs] <;> keep_all ih
theorem keep_defn (args) : KeepIf Tt (toDefinition (n+1) args) := by
  rw [toDefinition]; keep_all ih
theorem keep_lam (args) : KeepIf Tt (toLambda (n+1) args) := by
  rw [toLambda]; keep_all ih
theorem keep_body (ds defs exprs) : KeepIf Tt (toBody (n+1) ds defs exprs) := by
  cases ds with
  | nil => rw [toBody]; keep_all ih
  | cons d ds =>
    rw [toBody]
    refine KeepIf.bind_if (Q := IsED) (ih.stmt d) (fun a _ => ?_) (fun a hq => ?_)
    · keep_all ih
    · cases a <;> first | exact absurd trivial hq | exact Never.fail _
end

theorem keepAll : ∀ n, KeepAll n
  | 0 => by
    constructor <;> intros <;>
      simp only [toStatement, toExpr, toCall, toExprs, toDefinition, toLambda, toBody] <;> exact KeepIf.fail _
  | n+1 =>
    have ih := keepAll n
    ⟨keep_stmt ih, keep_expr ih, keep_call ih, keep_exprs ih, keep_defn ih, keep_lam ih, keep_body ih⟩

end Keep
end Ruschm.Xform

/-! ## from tail position in the data to tail position in the transformed expressions -/

namespace Ruschm.Xform
open Keep Macro

theorem XM.pure_run {α} (a : α) (s : SynEnv) : (pure a : XM α) s = (.ok a, s) := rfl

theorem elems_of_isList {d : Datum} {es : List Datum} (h : IsList d es) : d.elems = es := by
  simp only [Datum.elems, IsList] at *; rw [h]

theorem isList_cons_inv {d : Datum} {x : Datum} {xs : List Datum} (h : IsList d (x :: xs)) :
    ∃ dd l, d = .pair x dd l ∧ IsList dd xs := by
  cases d with
  | pair a dd l =>
    simp only [IsList, Datum.spine] at h
    generalize hs : dd.spine = sp at h
    obtain ⟨ys, t⟩ := sp
    simp only [Prod.mk.injEq, List.cons.injEq] at h
    obtain ⟨⟨rfl, rfl⟩, rfl⟩ := h
    exact ⟨dd, l, rfl, hs⟩
  | _ => simp [IsList, Datum.spine] at h

theorem isSym_inv {s : String} {d : Datum} (h : isSym s d = true) : ∃ l, d = .sym s l := by
  cases d <;> simp [isSym] at h
  exact ⟨_, by rw [h]⟩

theorem toExpr_ok_inv {n d env e env'} (h : toExpr n d env = (.ok e, env')) :
    ∃ m, n = m + 1 ∧ toStatement m d env = (.ok (.expr e), env') := by
  cases n with
  | zero => rw [toExpr] at h; cases h
  | succ m =>
    refine ⟨m, rfl, ?_⟩
    rw [toExpr] at h
    obtain ⟨s, env₁, h₁, h₂⟩ := bind_ok h
    cases s <;> first | (cases h₂; exact h₁) | cases h₂

/-- `(if t c [a])` -/
theorem toStatement_if_inv {n d i t c rest env e env'} (hd : IsList d (i :: t :: c :: rest)) (hi : isSym "if" i = true)
    (h : toStatement n d env = (.ok (.expr e), env')) :
    ∃ m te ce alt l, n = m + 1 ∧ toExpr m t env = (.ok te, env) ∧ toExpr m c env = (.ok ce, env) ∧ e = .cond te ce alt l ∧
      (∀ a rest', rest = a :: rest' → ∃ ae, alt = some ae ∧ toExpr m a env = (.ok ae, env)) := by
  obtain ⟨dd, l, rfl, hdd⟩ := isList_cons_inv hd
  obtain ⟨dd', l', rfl, hdd'⟩ := isList_cons_inv hdd
  obtain ⟨li, rfl⟩ := isSym_inv hi
  cases n with
  | zero => rw [toStatement] at h; cases h
  | succ m =>
    refine ⟨m, ?_⟩
    rw [toStatement] at h
    simp (config := {decide := true}) only [bind_run, lift, Macro.popProper, if_true, if_false, Datum.loc,
      elems_of_isList hdd] at h
    simp only [List.head?_cons, List.drop_succ_cons, List.drop_zero, need, XM.pure_run] at h
    generalize ht : toExpr m t env = x at h
    obtain ⟨r, s₁⟩ := x
    cases r with
    | error er => cases h
    | ok te =>
      have := ((keepAll m).expr t).keep env te s₁ ht trivial
      subst this
      simp only at h
      generalize hc : toExpr m c s₁ = y at h
      obtain ⟨r, s₂⟩ := y
      cases r with
      | error er => cases h
      | ok ce =>
        have := ((keepAll m).expr c).keep s₁ ce s₂ hc trivial
        subst this
        simp only at h
        cases rest with
        | nil =>
          simp only [List.head?_nil, bind_run, XM.pure_run] at h
          simp only [Prod.mk.injEq, Except.ok.injEq, Statement.expr.injEq] at h
          exact ⟨te, ce, none, l, rfl, rfl, rfl, h.1.symm, fun a r' h' => by cases h'⟩
        | cons a rest' =>
          simp only [List.head?_cons, bind_run, XM.pure_run] at h
          generalize ha : toExpr m a s₂ = z at h
          obtain ⟨r, s₃⟩ := z
          cases r with
          | error er => cases h
          | ok ae =>
            have := ((keepAll m).expr a).keep s₂ ae s₃ ha trivial
            subst this
            simp only [Prod.mk.injEq, Except.ok.injEq, Statement.expr.injEq] at h
            exact ⟨te, ce, some ae, l, rfl, rfl, rfl, h.1.symm, fun a' r' h' => by
              cases h'; exact ⟨ae, rfl, ha⟩⟩


/-- the last form of a procedure body is an expression, transformed in the body's environment, and
it is the last of the body's expressions -/
theorem toBody_last_inv {last : Datum} {env : SynEnv} : ∀ (pre : List Datum) {m defs0 exprs0 D E env'},
    toBody m (pre ++ [last]) defs0 exprs0 env = (.ok (D, E), env') →
    ∃ elast Epre m', m' < m ∧ E = Epre ++ [elast] ∧ toStatement m' last env = (.ok (.expr elast), env)
  | [], m, defs0, exprs0, D, E, env', h => by
    cases m with
    | zero => rw [toBody] at h; cases h
    | succ m =>
      simp only [List.nil_append] at h
      rw [toBody] at h
      obtain ⟨s, env₁, h₁, h₂⟩ := bind_ok h
      cases s with
      | expr e =>
        have := ((keepAll m).stmt last).keep env _ env₁ h₁ trivial
        subst this
        simp only at h₂
        cases m with
        | zero => rw [toBody] at h₂; cases h₂
        | succ m' =>
          rw [toBody] at h₂
          simp only [List.isEmpty_cons, Bool.false_eq_true, if_false] at h₂
          cases h₂
          exact ⟨e, exprs0.reverse, m' + 1, by omega, by simp, h₁⟩
      | definition df =>
        simp only at h₂
        split at h₂
        · rename_i hemp
          cases m with
          | zero => rw [toBody] at h₂; cases h₂
          | succ m' =>
            rw [toBody] at h₂
            simp only [hemp, if_true] at h₂
            cases h₂
        · obtain ⟨_, _, _⟩ := df; cases h₂
      | _ => cases h₂
  | d :: pre, m, defs0, exprs0, D, E, env', h => by
    cases m with
    | zero => rw [toBody] at h; cases h
    | succ m =>
      simp only [List.cons_append] at h
      rw [toBody] at h
      obtain ⟨s, env₁, h₁, h₂⟩ := bind_ok h
      cases s with
      | expr e =>
        have := ((keepAll m).stmt d).keep env _ env₁ h₁ trivial
        subst this
        simp only at h₂
        obtain ⟨elast, Epre, m', hm', hE, hl⟩ := toBody_last_inv pre h₂
        exact ⟨elast, Epre, m', by omega, hE, hl⟩
      | definition df =>
        have := ((keepAll m).stmt d).keep env _ env₁ h₁ trivial
        subst this
        simp only at h₂
        split at h₂
        · obtain ⟨elast, Epre, m', hm', hE, hl⟩ := toBody_last_inv pre h₂
          exact ⟨elast, Epre, m', by omega, hE, hl⟩
        · obtain ⟨_, _, _⟩ := df; cases h₂
      | _ => cases h₂


theorem toCall_ok_inv {n f args loc env e env'} (h : toCall n f args loc env = (.ok e, env')) :
    ∃ m fe as, n = m + 1 ∧ toExpr m f env = (.ok fe, env) ∧ e = .call fe as loc := by
  cases n with
  | zero => rw [toCall] at h; cases h
  | succ m =>
    rw [toCall] at h
    obtain ⟨fe, env₁, h₁, h₂⟩ := bind_ok h
    have := ((keepAll m).expr f).keep env fe env₁ h₁ trivial
    subst this
    obtain ⟨as, env₂, _, h₃⟩ := bind_ok h₂
    cases h₃
    exact ⟨m, fe, as, rfl, h₁, rfl⟩

/-- `(lambda formals body… last)` -/
theorem toStatement_lambda_inv {n lam k formals pre last env e env'}
    (hl : IsList lam (k :: formals :: (pre ++ [last]))) (hk : isSym "lambda" k = true)
    (h : toStatement n lam env = (.ok (.expr e), env')) :
    ∃ F defs Epre elast loc m, e = .lambda (.mk F defs (Epre ++ [elast])) loc ∧ m < n ∧
      toStatement m last ([] :: env) = (.ok (.expr elast), [] :: env) := by
  obtain ⟨dd, l, rfl, hdd⟩ := isList_cons_inv hl
  obtain ⟨dd', l', rfl, hdd'⟩ := isList_cons_inv hdd
  obtain ⟨lk, rfl⟩ := isSym_inv hk
  cases n with
  | zero => rw [toStatement] at h; cases h
  | succ m =>
    rw [toStatement] at h
    simp (config := {decide := true}) only [bind_run, lift, Macro.popProper, if_true, if_false, Datum.loc,
      elems_of_isList hdd] at h
    generalize hlam : toLambda m (formals :: (pre ++ [last])) env = x at h
    obtain ⟨r, s₁⟩ := x
    cases r with
    | error er => cases h
    | ok lamv =>
      simp only [XM.pure_run, Prod.mk.injEq, Except.ok.injEq, Statement.expr.injEq] at h
      cases m with
      | zero => rw [toLambda] at hlam; cases hlam
      | succ m' =>
        rw [toLambda] at hlam
        simp only [List.head?_cons, List.drop_succ_cons, List.drop_zero, need] at hlam
        obtain ⟨_, e₀, h₀, hlam₁⟩ := bind_ok hlam
        cases h₀
        clear hlam
        obtain ⟨F, env₁, hF, hlam₂⟩ := bind_ok hlam₁
        clear hlam₁
        have := (KeepIf.toFormals (Q' := Tt) formals).keep _ _ _ hF trivial
        subst this
        obtain ⟨bx, env₂, hb, hlam₃⟩ := bind_ok hlam₂
        cases hlam₃
        obtain ⟨defs, body⟩ := bx
        -- the body runs in a child scope
        simp only [inChild] at hb
        generalize hbody : toBody m' (pre ++ [last]) [] [] ([] :: env₁) = y at hb
        obtain ⟨rb, sb⟩ := y
        have hrb : rb = .ok (defs, body) := by
          cases sb <;> simp only [Prod.mk.injEq] at hb <;> exact hb.1
        subst hrb
        obtain ⟨elast, Epre, m'', hm'', hE, hlast⟩ := toBody_last_inv pre hbody
        exact ⟨F, defs, Epre, elast, l, m'', by rw [← h.1, hE], by omega, hlast⟩


theorem size_withLoc (d : Datum) (l : Loc) : (d.withLoc l).size = d.size := by
  cases d <;> simp [Datum.withLoc, Datum.size]

/-- a use of a bundled derived form: one expansion step, then the expansion is transformed -/
theorem toStatement_macro_inv {n kw l₁ rest l env rules s env'} (hkw : kw ∈ C05.keywords)
    (henv : env.get? kw = some rules)
    (h : toStatement n (.pair (.sym kw l₁) rest l) env = (.ok s, env')) :
    ∃ m expanded, n = m + 1 ∧
      Macro.transform (Macro.matchFuel (.pair (.sym kw l₁) rest l) + m) rules (rest.withLoc l) = .ok expanded ∧
      toStatement m expanded env = (.ok s, env') := by
  cases n with
  | zero => rw [toStatement] at h; cases h
  | succ m =>
    refine ⟨m, ?_⟩
    have hne : kw ≠ "define" ∧ kw ≠ "define-library" ∧ kw ≠ "lambda" ∧ kw ≠ "if" ∧ kw ≠ "import" ∧
        kw ≠ "quote" ∧ kw ≠ "set!" ∧ kw ≠ "define-syntax" := by
      simp only [C05.keywords, List.mem_cons, List.mem_nil_iff, or_false] at hkw
      rcases hkw with rfl | rfl | rfl | rfl | rfl | rfl | rfl | rfl | rfl <;> decide
    obtain ⟨h1, h2, h3, h4, h5, h6, h7, h8⟩ := hne
    rw [toStatement] at h
    cases rest with
    | pair x y lr =>
      simp only [bind_run, lift, Macro.popProper, h1, h2, h3, h4, h5, h6, h7, h8, if_false, getEnv, henv] at h
      generalize ht : Macro.transform _ rules _ = t at h
      cases t with
      | error er => cases h
      | ok expanded => exact ⟨expanded, rfl, ht, h⟩
    | nil lr =>
      simp only [bind_run, lift, Macro.popProper, h1, h2, h3, h4, h5, h6, h7, h8, if_false, getEnv, henv] at h
      generalize ht : Macro.transform _ rules _ = t at h
      cases t with
      | error er => cases h
      | ok expanded => exact ⟨expanded, rfl, ht, h⟩
    | prim p lr => simp only [bind_run, lift, Macro.popProper] at h; cases h
    | sym p lr => simp only [bind_run, lift, Macro.popProper] at h; cases h
    | vec p lr => simp only [bind_run, lift, Macro.popProper] at h; cases h

/-- the syntax environment resolves the nine bundled keywords to the bundled rules -/
def StdEnv (env : SynEnv) : Prop := ∀ kw ∈ C05.keywords, env.get? kw = Macro.grammarRules kw

theorem StdEnv.child {env : SynEnv} (h : StdEnv env) : StdEnv ([] :: env) := fun kw hkw => by
  rw [← h kw hkw]; rfl

/-- FROM DATA TO EXPRESSIONS: if `sub` is in tail position of the datum `d` (`DTail`) and `d` transforms,
in an environment with the bundled forms, to the expression `e`, then `sub` transforms (in such an
environment, left unchanged) to an expression that is in tail position of `e` (`InTail`) -/
theorem dtail_intail {sub d : Datum} (h : DTail sub d) : ∀ {n env e env'}, StdEnv env →
    toStatement n d env = (.ok (.expr e), env') →
    ∃ m envs esub, StdEnv envs ∧ toStatement m sub envs = (.ok (.expr esub), envs) ∧ Eval.InTail esub e := by
  induction h with
  | here =>
    intro n env e env' hstd hx
    have := ((keepAll n).stmt _).keep env _ env' hx trivial
    subst this
    exact ⟨n, _, e, hstd, hx, .here e⟩
  | if_then hd hi _ ih =>
    intro n env e env' hstd hx
    obtain ⟨m, te, ce, alt, l, rfl, _, hc, rfl, _⟩ := toStatement_if_inv hd hi hx
    obtain ⟨m', rfl, hc'⟩ := toExpr_ok_inv hc
    obtain ⟨k, envs, esub, hs, hsub, hin⟩ := ih hstd hc'
    exact ⟨k, envs, esub, hs, hsub, .cond_then hin⟩
  | if_else hd hi _ ih =>
    intro n env e env' hstd hx
    obtain ⟨m, te, ce, alt, l, rfl, _, _, rfl, ha⟩ := toStatement_if_inv hd hi hx
    obtain ⟨ae, rfl, ha'⟩ := ha _ _ rfl
    obtain ⟨m', rfl, ha''⟩ := toExpr_ok_inv ha'
    obtain ⟨k, envs, esub, hs, hsub, hin⟩ := ih hstd ha''
    exact ⟨k, envs, esub, hs, hsub, .cond_else hin⟩
  | @lam_call d lam args k formals pre last hd hl hk _ ih =>
    intro n env e env' hstd hx
    obtain ⟨dd, l, rfl, hdd⟩ := isList_cons_inv hd
    -- `lam` is a list, not a symbol: the form is a procedure call
    obtain ⟨ldd, ll, rfl, _⟩ := isList_cons_inv hl
    cases n with
    | zero => rw [toStatement] at hx; cases hx
    | succ n =>
      rw [toStatement] at hx
      have hcall : toCall n (.pair k ldd ll) dd.elems l env = (.ok e, env') ∨ False := by
        cases dd with
        | pair x y lr =>
          simp only [bind_run, lift, Macro.popProper, Datum.loc] at hx
          generalize hc : toCall n _ _ _ env = t at hx
          obtain ⟨r, s₁⟩ := t
          cases r with
          | error er => cases hx
          | ok c => simp only [XM.pure_run, Prod.mk.injEq, Except.ok.injEq, Statement.expr.injEq] at hx
                    obtain ⟨rfl, rfl⟩ := hx; exact .inl rfl
        | nil lr =>
          simp only [bind_run, lift, Macro.popProper, Datum.loc] at hx
          generalize hc : toCall n _ _ _ env = t at hx
          obtain ⟨r, s₁⟩ := t
          cases r with
          | error er => cases hx
          | ok c => simp only [XM.pure_run, Prod.mk.injEq, Except.ok.injEq, Statement.expr.injEq] at hx
                    obtain ⟨rfl, rfl⟩ := hx; exact .inl rfl
        | prim p lr => simp [IsList, Datum.spine] at hdd
        | sym p lr => simp [IsList, Datum.spine] at hdd
        | vec p lr => simp [IsList, Datum.spine] at hdd
      rcases hcall with hcall | hf
      · obtain ⟨m, fe, as, rfl, hfe, rfl⟩ := toCall_ok_inv hcall
        obtain ⟨m', rfl, hfe'⟩ := toExpr_ok_inv hfe
        obtain ⟨F, defs, Epre, elast, loc, j, rfl, _, hlast⟩ := toStatement_lambda_inv hl hk hfe'
        obtain ⟨k', envs, esub, hs, hsub, hin⟩ := ih hstd.child hlast
        exact ⟨k', envs, esub, hs, hsub, .lam_call hin⟩
      · exact hf.elim
  | @expand kw l₁ rest l d' hkw hxp _ ih =>
    intro n env e env' hstd hx
    have hget := hstd kw hkw
    cases hr : Macro.grammarRules kw with
    | none =>
      have := hxp (Macro.matchFuel (rest.withLoc l)) (Nat.le_refl _)
      simp only [Macro.expand1, hr] at this
      cases this
    | some rules =>
      rw [hr] at hget
      obtain ⟨m, expanded, rfl, ht, hx'⟩ := toStatement_macro_inv hkw hget hx
      have hfuel : Macro.matchFuel (rest.withLoc l) ≤ Macro.matchFuel (.pair (.sym kw l₁) rest l) + m := by
        simp only [Macro.matchFuel, size_withLoc, Datum.size]; omega
      have := hxp _ hfuel
      simp only [Macro.expand1, hr] at this
      rw [ht] at this
      cases this
      exact ih hstd hx'

set_option maxRecDepth 100000 in
theorem stdEnv_default : StdEnv [[], Interp.grammarScope] := by
  intro kw hkw
  simp only [C05.keywords, List.mem_cons, List.mem_nil_iff, or_false] at hkw
  rcases hkw with rfl | rfl | rfl | rfl | rfl | rfl | rfl | rfl | rfl <;> rfl
end Ruschm.Xform

#!/bin/sh
# Build everything the checks need, offline, from files on disk.
set -e
cd "$(dirname "$0")"
exec python3 ./check --setup

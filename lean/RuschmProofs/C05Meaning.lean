/-
Property C05 — derived forms behave as R7RS specifies: the MEANING of each bundled derived form.

`C05Shapes.lean` says what each bundled rule of `grammar.sld` expands to (about the generated constant
`Gen.grammarData`). Here the expansion is followed through the parser's transformer (`Xform`) and the
evaluator: each theorem takes a derived form `(kw . rest)` = `.pair (.sym kw l₁) rest l` that the
transformer turned into the expression `e` (`XE env form e`) in a syntax environment with the bundled
forms (`StdSyn env`), names the expressions its sub-forms were turned into, and gives the evaluation
rules of `e` in terms of the evaluation of those: which are evaluated, in which order, in which frame,
and what the value is.

Vocabulary (`MeaningLemmas.lean`):
* `XE env d e` — the transformer turns datum `d` into expression `e` (leaving `env` unchanged).
  Body forms of the lambdas the templates build are transformed in a child scope, `[] :: env`.
* `Means σ ρ e v τ` — the MODEL (`evalExpr`, some fuel) evaluates `e` in store `σ`, frame `ρ`, to the
  value `v`; `τ` is the final store with the activation counters erased (`Store.erase`: `depth` and
  `maxDepth` are instrumentation). It is functional (`Means.unique`) and, by `C01.model_iff_ref_value`,
  the value judgement of the reference semantics. A rule "premises → `Means σ ρ e v τ`" therefore
  fixes the value and the final store whenever the premises hold; sub-expressions that do not occur in
  the premises are NOT evaluated (an evaluation of them could fail or change the store).
* `MeansSeq ρ σ es v τ` — the expressions `es` in order, the value of the last;
  `MeansList ρ σ es vs τ` — operands left to right; `MeansApply σ p args v τ` — procedure application.
* `σ.pushFrame ρ D` — `σ` with one more frame (number `σ.frames.size`), child of frame `ρ`, with the
  bindings `D`.
* `NoDefs env body` — no form of `body` is a definition (the templates put the body forms into a
  `lambda` body, where a leading definition would be an internal definition).
The templates are not hygienic: `temp`, `x`, `atom-key` are bound in a child frame in which the
user's remaining sub-forms are evaluated; the rules say so explicitly.
-/
import RuschmProofs.MeaningLemmas

namespace Ruschm.C05Meaning
open Ruschm Ruschm.Eval Ruschm.Xform Ruschm.Macro Ruschm.Meaning Ruschm.C05

/-! ## begin -/

/-- `(begin form₁ … formₙ)`: the forms are evaluated in order, in a fresh empty frame that is a child of
the current one, and the value is the value of the last. -/
theorem begin_meaning {env l₁ rest l body e} (hstd : StdSyn env) (hu : IsList rest body) (hne : body ≠ [])
    (hnd : NoDefs ([] :: env) body) (hx : XE env (.pair (.sym "begin" l₁) rest l) e) :
    ∃ bes, All2 (XE ([] :: env)) body bes ∧
      ∀ σ ρ v τ, MeansSeq σ.frames.size (σ.pushFrame ρ []) bes v τ → Means σ ρ e v τ := by
  have h₁ := hx.expand_inv hstd.std (by decide) (fun fuel hf => at_loc (begin_shape (isList_withLoc l hu) hne hf))
  obtain ⟨F, bes, aes, la, lb, hF, hbes, haes, rfl⟩ :=
    h₁.lambda_call_inv (isList_ofList _ _) (isList_ofList _ _) rfl hnd
  cases haes
  have := toFormals_list hF (isList_ofList l [])
  subst this
  exact ⟨bes, hbes, fun σ ρ v τ hb => Means.lambda_call (names := []) .nil hb.to_erase rfl⟩

open Ruschm.Macro.Ex in
set_option maxRecDepth 100000 in
/-- `(begin 1 2)` in the interpreter's syntax environment evaluates to `2` -/
example : ∃ e, XE [[], Interp.grammarScope] (lst [sy "begin", num 1, num 2]) e ∧ ∃ τ, Means {} 0 e (.num (.int 2)) τ := by
  have hx : ∃ e, XE [[], Interp.grammarScope] (lst [sy "begin", num 1, num 2]) e := ⟨_, 300, rfl⟩
  obtain ⟨e, hx⟩ := hx
  obtain ⟨bes, hb, rule⟩ := begin_meaning stdSyn_default (l₁ := none) (l := none) (rest := lst [num 1, num 2])
    (body := [num 1, num 2]) rfl (by simp) (by
      intro b hb
      simp only [List.mem_cons, List.mem_nil_iff, or_false] at hb
      rcases hb with rfl | rfl <;> exact not_def_prim) hx
  cases hb with
  | cons h₁ t =>
    cases t with
    | cons h₂ t₂ =>
      cases t₂
      have e₁ := h₁.prim_inv; have e₂ := h₂.prim_inv
      subst e₁ e₂
      exact ⟨e, hx, _, rule {} 0 _ _ (.cons (Means.prim rfl) (.one (Means.prim rfl)))⟩

/-! ## when, unless -/

/-- `(when test form₁ … formₙ)`: the test is evaluated once; if its value is not `#f` the forms are
evaluated in order (in a fresh empty child frame) and the value is the value of the last; if it is `#f`
NO form is evaluated — the store is the one the test left — and the model's value is `Void`. -/
theorem when_meaning {env l₁ rest l test body e} (hstd : StdSyn env) (hu : IsList rest (test :: body))
    (hne : body ≠ []) (hnd : NoDefs ([] :: env) body) (hx : XE env (.pair (.sym "when" l₁) rest l) e) :
    ∃ te bes, XE env test te ∧ All2 (XE ([] :: env)) body bes ∧
      ∀ σ ρ tv σ₁, Means σ ρ te tv σ₁ →
        (tv.truthy = true → ∀ v τ, MeansSeq σ₁.frames.size (σ₁.pushFrame ρ []) bes v τ → Means σ ρ e v τ) ∧
        (tv.truthy = false → Means σ ρ e .void σ₁) := by
  have h₁ := hx.expand_inv hstd.std (by decide) (fun fuel hf => at_loc (when_shape (isList_withLoc l hu) hne hf))
  obtain ⟨te, ce, lc, hte, hce, hcase⟩ := h₁.if_inv (isList_ofList _ _) rfl
  rcases hcase with ⟨_, rfl⟩ | ⟨a, r', ae, hr, _⟩
  · rw [built_eq] at hce
    obtain ⟨bes, hbes, rule⟩ := begin_meaning hstd (isList_ofList none body) hne hnd hce
    exact ⟨te, bes, hte, hbes, fun σ ρ tv σ₁ ht =>
      ⟨fun htv v τ hb => Means.cond_true ht htv (rule σ₁ ρ v τ hb), fun htv => Means.cond_void ht htv⟩⟩
  · cases hr

/-- `(unless test form₁ … formₙ)` (with `not` the native procedure): the test is evaluated once; if its
value is `#f` the forms are evaluated in order and the value is the value of the last; otherwise NO form
is evaluated and the model's value is `Void`. -/
theorem unless_meaning {env l₁ rest l test body e} (hstd : StdSyn env) (hu : IsList rest (test :: body))
    (hne : body ≠ []) (hnd : NoDefs ([] :: env) body) (hx : XE env (.pair (.sym "unless" l₁) rest l) e) :
    ∃ te bes, XE env test te ∧ All2 (XE ([] :: env)) body bes ∧
      ∀ σ ρ tv σ₁, σ.lookup ρ "not" = some (.builtin .not) → Means σ ρ te tv σ₁ →
        (tv.truthy = false → ∀ v τ, MeansSeq σ₁.frames.size (σ₁.pushFrame ρ []) bes v τ → Means σ ρ e v τ) ∧
        (tv.truthy = true → Means σ ρ e .void σ₁) := by
  have h₁ := hx.expand_inv hstd.std (by decide) (fun fuel hf => at_loc (unless_shape (isList_withLoc l hu) hne hf))
  obtain ⟨tne, ce, lc, htne, hce, hcase⟩ := h₁.if_inv (isList_ofList _ _) rfl
  rcases hcase with ⟨_, rfl⟩ | ⟨a, r', ae, hr, _⟩
  · obtain ⟨fe, aes, ln, hfe, haes, rfl⟩ := htne.call_inv (isList_ofList _ _)
      (by intro s l' hs; cases hs; exact ⟨by decide, hstd.not_⟩)
    have := hfe.sym_inv; subst this
    cases haes with
    | cons hte t =>
      cases t
      rename_i te
      rw [built_eq] at hce
      obtain ⟨bes, hbes, rule⟩ := begin_meaning hstd (isList_ofList none body) hne hnd hce
      refine ⟨te, bes, hte, hbes, fun σ ρ tv σ₁ hnot ht => ⟨fun htv v τ hb => ?_, fun htv => ?_⟩⟩
      · exact Means.cond_true (Means.not_call hnot ht) (by rw [htv]; rfl) (rule σ₁ ρ v τ hb)
      · exact Means.cond_void (Means.not_call hnot ht) (by rw [htv]; rfl)
  · cases hr

end Ruschm.C05Meaning

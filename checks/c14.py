"""C14 — library loading terminates, and its outcome depends only on the library graph.
Theorems: lean/RuschmProofs/C14.lean (an abstract loader with the control structure of
eval_import_set/get_library/eval_library_definition: terminates on every graph, restores the
in-progress set after ANY outcome, cache sound, ok iff all reachable healthy and acyclic, cyclic
iff the DFS meets an in-progress node before any other fault, diamonds are not cycles, HISTORY
INDEPENDENCE; bridged to the model by model_in_progress_restored and libPath_relative).
Tie: every configuration of 1-3 library files (each healthy or faulting with any subset of
dependencies, or missing / wrong name / broken syntax / not UTF-8) x histories of import attempts,
as files under a program directory different from the working directory and as registered
sources, real interpreter vs model. Oracle on the implementation alone: a Python DFS over the
graph predicts each attempt's outcome, which must not depend on the earlier attempts."""
import itertools, random
from . import common as C, progrun as R

PROP = "C14"
MODULES = ["RuschmProofs.C14", "RuschmProofs.C14Model", "RuschmProofs.C14Dir"]
LEAF_KINDS = ["missing", "wrongname", "broken", "unreadable"]


def node_choices(n):
    ch = []
    for kind in ("healthy", "faulty"):
        for k in range(n + 1):
            for deps in itertools.permutations(range(n), k) if n <= 2 else itertools.combinations(range(n), k):
                ch.append((kind, tuple(deps)))
    # `alias`: the file exists but defines ANOTHER node's library (with a different body) - not found under its own name, and
    # it must not stand in for that other node, whatever is imported first
    return ch + [(k, ()) for k in LEAF_KINDS] + ([("alias", (j,)) for j in range(n)] if n >= 2 else [])


def well_formed(g):
    return all(not (node[0] == "alias" and node[1][0] == i) for i, node in enumerate(g))


# how a dependency is written: an import set of any kind names the same library (the loader's bookkeeping - in-progress marks,
# instance cache - must not depend on the kind)
EDGE_STYLES = ["plain", "only", "prefix", "rename", "except", "mixed"]


def edge(style, i, d, k):
    if style == "mixed":
        style = EDGE_STYLES[(i * 7 + d * 3 + k) % 5]
    if style == "only": return "(only (l%d))" % d
    if style == "prefix": return "(prefix (l%d) p%d-)" % (d, d)
    if style == "rename": return "(rename (l%d) (v%d w%d-%d))" % (d, d, d, i)
    if style == "except": return "(except (l%d) v%d)" % (d, d)
    return "(l%d)" % d


def lib_text(i, node, style="plain"):
    kind, deps = node
    imports = " ".join(edge(style, i, d, k) for k, d in enumerate(deps))
    if kind == "healthy":
        return "(define-library (l%d) (import (scheme base) %s) (export v%d) (begin (define v%d %d)))" % (i, imports, i, i, i)
    if kind == "faulty":
        return "(define-library (l%d) (import (scheme base) %s) (export v%d) (begin (define v%d (car '()))))" % (i, imports, i, i)
    if kind == "wrongname":
        return "(define-library (other%d) (export))" % i
    if kind == "alias":
        j = deps[0]
        return "(define-library (l%d) (import (scheme base)) (export v%d) (begin (define v%d %d)))" % (j, j, j, 90 + j)
    if kind == "broken":
        return "(define-library (l%d) (export" % i
    return None


def expect(graph, root):
    """reference loader: DFS in dependency order; outcome kind"""
    cache = set()
    def load(x, inprog):
        if x in cache:
            return "ok"
        if x in inprog:
            return "cyclic"
        kind, deps = graph[x]
        if kind == "missing": return "libNotFound"
        if kind in ("wrongname", "alias"): return "libNotFound"
        if kind == "broken": return "syntax"
        if kind == "unreadable": return "io"
        for d in deps:
            r = load(d, inprog | {x})
            if r != "ok":
                return r
        if kind == "faulty":
            return "type"
        cache.add(x)
        return "ok"
    return load(root, frozenset())


def fields_for(graph, as_files, style="plain"):
    out = []
    for i, node in enumerate(graph):
        kind = node[0]
        if kind == "missing":
            if as_files:
                # a healthy file of that name in the WORKING directory (not the program's): it must not be found
                out.append("Wl%d.sld=(define-library (l%d) (import (scheme base)) (export v%d) (begin (define v%d %d)))" % (i, i, i, i, 70 + i))
            continue
        if kind == "unreadable":
            if as_files:
                out.append("Fl%d.sld=\x00UNREADABLE" % i)
            continue
        t = lib_text(i, node, style)
        out.append(("Fl%d.sld=" % i if as_files else "Rl%d=" % i) + t)
    return out


def run(rep, tier, rng):
    configs = []
    for n in (1, 2):
        for g in itertools.product(node_choices(n), repeat=n):
            if well_formed(g):
                configs.append(list(g))
    c3 = [g for g in itertools.product(node_choices(3), repeat=3) if well_formed(g)]
    rng.shuffle(c3)
    configs += [list(g) for g in c3[:(1200 if tier == "quick" else len(c3))]]
    cases, meta = [], {}
    k = 0
    for g in configs:
        n = len(g)
        hist_len = 3 if n <= 2 else 2
        hists = list(itertools.product(range(n), repeat=hist_len))
        if n == 3 and tier == "quick":
            hists = rng.sample(hists, 2)
        for as_files in (True, False):
            if not as_files and any(x[0] in ("unreadable", "broken", "wrongname", "alias") for x in g):
                continue   # registered sources cannot be unreadable; a broken/wrong-name source fails at registration
            if not as_files and rng.random() < (0.7 if tier == "quick" else 0.0):
                continue
            style = rng.choice(EDGE_STYLES) if any(x[1] for x in g) else "plain"
            for h in hists:
                cid = "g%d" % k; k += 1
                # after an import that must succeed, the library's own value is probed (it is v<i> = i, never another file's)
                # (import declarations must precede every other form, so the probes come last)
                forms, probes = [], []
                for x in h:
                    forms.append(">(import (l%d))" % x); probes.append(None)
                for x in sorted(set(h)):
                    if expect(g, x) == "ok":
                        forms.append(">v%d" % x); probes.append("V i:%d" % x)
                cases.append((cid, "libs", ["nostd"] + fields_for(g, as_files, style) + forms))
                meta[cid] = (g, h, as_files, probes)
    # the file system may CHANGE between attempts: a library (or a dependency) that was missing appears, a broken one is
    # repaired; every attempt's outcome is that of the graph as it is at that moment
    late = []
    healthy = lambda i, deps: "(define-library (l%d) (import (scheme base) %s) (export v%d) (begin (define v%d %d)))" % (
        i, " ".join("(l%d)" % d for d in deps), i, i, i)
    late.append(([], [(">(import (l0))", "libNotFound"), ("F", 0), (">(import (l0))", "ok"), (">v0", "V i:0")]))
    late.append((["Fl0.sld=" + healthy(0, [1])], [(">(import (l0))", "libNotFound"), ("F", 1), (">(import (l0))", "ok"), (">(import (l1))", "ok"), (">v1", "V i:1")]))
    late.append((["Fl0.sld=(define-library (l0) (export"], [(">(import (l0))", "syntax"), ("F", 0), (">(import (l0))", "ok"), (">v0", "V i:0")]))
    late.append((["Fl1.sld=" + healthy(1, [])], [(">(import (l0))", "libNotFound"), (">(import (l1))", "ok"), ("F", 0), (">(import (l0))", "ok"), (">v0", "V i:0")]))
    late.append((["Fl0.sld=" + healthy(0, [1]), "Fl1.sld=" + healthy(1, [2])],
                 [(">(import (l0))", "libNotFound"), (">(import (l1))", "libNotFound"), ("F", 2), (">(import (l1))", "ok"), (">(import (l0))", "ok")]))
    # library names whose elements contain DOTS: the file is <element>.sld with the element's whole text (found by a prover reading
    # `with_extension`, a genuine defect repaired in /repo); a file named after the text before the dot is NOT that library
    dotlib = lambda nm, v: "(define-library (%s) (import (scheme base)) (export v0) (begin (define v0 %d)))" % (nm, v)
    late.append((["Fa.b.sld=" + dotlib("a.b", 0), "Fa.sld=" + dotlib("a.c", 9)], [(">(import (scheme base) (a.b))", "ok"), (">v0", "V i:0")]))
    late.append((["Fa.sld=" + dotlib("a.b", 9)], [(">(import (a.b))", "libNotFound")]))
    late.append((["Fd/v1.2.sld=" + dotlib("d v1.2", 0), "Fd/v1.sld=" + dotlib("d v1.5", 5)], [(">(import (scheme base) (d v1.2))", "ok"), (">v0", "V i:0")]))
    # what one library FILE defined at parse time (a library-level macro) is gone when the next file is parsed: a later library that
    # uses that identifier as its own procedure - or not at all bound - is loaded as if it were the first; whether the earlier import
    # succeeded or failed
    hmac = "(define-library (h) (import (scheme base)) (export hv) (begin (define-syntax twice (syntax-rules () ((twice e) (* 2 e)))) (define hv (twice 5))%s))"
    usr = "(define-library (u) (import (scheme base)) (export v0) (begin (define (twice e) (+ e 1)) (define v0 (twice 20))))"
    usr2 = "(define-library (w) (import (scheme base)) (export v1) (begin (define v1 (twice 20))))"
    late.append((["Fh.sld=" + hmac % "", "Fu.sld=" + usr, "Fw.sld=" + usr2],
                 [(">(import (scheme base) (h))", "ok"), (">(import (u))", "ok"), (">(import (w))", "unbound"), (">v0", "V i:21")]))
    late.append((["Fh.sld=" + hmac % " (car 5)", "Fu.sld=" + usr, "Fw.sld=" + usr2],
                 [(">(import (scheme base) (h))", "type"), (">(import (scheme base) (u))", "ok"), (">(import (w))", "unbound"), (">v0", "V i:21")]))
    late.append((["Fh.sld=" + hmac % "", "Fu.sld=" + usr], [(">(import (scheme base) (u) (h))", "ok"), (">v0", "V i:21"), (">hv", "V i:10")]))
    for j, (pre, script) in enumerate(late):
        fields, wants = ["nostd"] + pre, []
        for item, w in script:
            if item == "F":
                fields.append("Fl%d.sld=%s" % (w, healthy(w, [])))
            else:
                fields.append(item); wants.append(w)
        cid = "late%d" % j
        r = C.run_hx([(cid, "libs", fields)]).get(cid, [])
        m = C.run_driver([(cid, "libs", fields)]).get(cid, [])
        rep.count()
        rep.nontrivial(("late", tuple(fields)))
        got = ["ok" if x == "N" else (x.split(" ")[1] if x.startswith("E ") else x) for x in r]
        if got != wants:
            rep.violation({"what": "an import does not have the outcome the library files determine at that moment (a file appeared or was repaired, a name with "
                                   "a dot, a macro of another library file)",
                           "fields": fields, "expected": wants, "implementation": r})
        elif [R.norm_result(x) for x in r] != [R.norm_result(x) for x in m]:
            rep.violation({"broken": "correspondence Interp (file lookup over time) <-> interpreter.rs", "fields": fields,
                           "implementation": r, "model": m}, no_input=True)
    # the PROGRAM DIRECTORY may be recorded late, or change: lookups made before it is known (they fail: the working directory
    # holds nothing), then the directory is recorded (field D) - or a program FILE is run (field E), then another one from another
    # directory: every lookup uses the directory of the program being run at that moment, whatever was looked up before
    # (the model follows: State.dir, Interp.evalFile; driver fields W, D, E)
    valdef = lambda nm, v, deps=(): "(define-library (%s) (import (scheme base) %s) (export %s-val) (begin (define %s-val %d)))" % (
        nm, " ".join("(%s)" % d for d in deps), nm, nm, v)
    dcases, dwant = [], {}
    for j in range(40 if tier == "quick" else 600):
        names = rng.sample(["one", "two", "lib3", "util", "q"], 3)
        vals = {nm: rng.randrange(1, 90) for nm in names}
        fields, want = ["nostd"], []
        if rng.random() < 0.5:
            # lookups before the directory is known, of names that do / do not exist under it
            present = names[:2]
            for nm in present:
                fields.append("F%s.sld=%s" % (nm, valdef(nm, vals[nm])))
            decoy = None
            if rng.random() < 0.4:
                # a file of that name in the WORKING directory: while no program directory is recorded, that is where lookups go
                decoy = names[2]
                fields.append("W%s.sld=%s" % (decoy, valdef(decoy, 99)))
            for _ in range(rng.randrange(1, 4)):
                nm = rng.choice([x for x in names if x != decoy] + ["missing-zz"])
                fields.append(">(import (%s))" % nm); want.append("E libNotFound")
            fields.append("D")
            for nm in rng.sample(names, 3):
                fields.append(">(import (scheme base) (%s))" % nm)
                want.append("N" if nm in present else "E libNotFound")
            for nm in present:
                fields.append(">%s-val" % nm); want.append("V i:%d" % vals[nm])
        else:
            # two or three program files in different directories, each importing the libraries next to it; a library that lies
            # only next to ANOTHER program is not found
            dirs = ["p1", "p2", "sub/p3"][:rng.randrange(2, 4)]
            owner = {}
            for k, d in enumerate(dirs):
                nm = names[k]
                owner[nm] = d
                fields.append("F%s/%s.sld=%s" % (d, nm, valdef(nm, vals[nm])))
                fields.append("F%s/prog.scm=(import (scheme base) (%s))" % (d, nm))
                other = names[(k + 1) % len(dirs)]
                fields.append("F%s/other.scm=(import (%s))" % (d, other))
            order = list(range(len(dirs)))
            rng.shuffle(order)
            loaded = set()
            for k in order:
                d = dirs[k]
                if rng.random() < 0.25:
                    # a program file that does not exist, in yet another directory: an io error - and what follows is still looked
                    # up next to the program run THEN
                    fields.append("Enowhere%d/none.scm" % k); want.append("E io")
                if rng.random() < 0.4:
                    other = names[(k + 1) % len(dirs)]
                    fields.append("E%s/other.scm" % d)
                    want.append("N" if other in loaded else "E libNotFound")      # found only if already instantiated
                fields.append("E%s/prog.scm" % d); want.append("N"); loaded.add(names[k])
            for nm in loaded:
                fields.append(">%s-val" % nm); want.append("V i:%d" % vals[nm])
        cid = "dir%d" % j
        dcases.append((cid, "libs", fields)); dwant[cid] = want
    dres, dmod = C.run_hx(dcases), C.run_driver(dcases)
    for cid, _, fields in dcases:
        r = dres.get(cid, [])
        rep.count()
        rep.nontrivial(("dir", tuple(fields)))
        got = [x if not x.startswith("E ") else "E " + x.split(" ")[1] for x in r]
        if got != dwant[cid]:
            rep.violation({"what": "a library is not looked up next to the program being run (the program directory was recorded late, or another "
                                   "program was run before)", "fields": fields, "expected": dwant[cid], "implementation": r})
        elif [R.norm_result(x) for x in dmod.get(cid, [])] != [R.norm_result(x) for x in r]:
            rep.violation({"broken": "correspondence Interp.evalFile / State.dir <-> eval_file / program_directory", "fields": fields,
                           "implementation": r, "model": dmod.get(cid)}, no_input=True)
    impl = C.run_hx(cases)
    model = C.run_driver(cases)
    kinds = {}
    for cid, _, f in cases:
        g, h, as_files, probes = meta[cid]
        a, b = impl.get(cid, []), model.get(cid, [])
        if a and a[0].startswith("X not-run"):
            rep.extra["cases_not_run_after_repeated_process_deaths"] = rep.extra.get("cases_not_run_after_repeated_process_deaths", 0) + 1
            continue
        rep.count()
        rep.nontrivial((tuple(g), h, as_files))
        if a and a[0].startswith(("P process-died", "T timeout")):
            rep.violation({"what": "loading these libraries does not terminate normally: the interpreter process died (stack overflow / abort) or hung",
                           "graph": g, "as_files": as_files, "attempts": h, "files": [x for x in f if x[:1] in "FRW"], "implementation": a})
            continue
        if len(rep.cov["samples"]) < 4 and len(g) == 3 and as_files:
            rep.sample({"graph": g, "attempts": h, "files": f[1:1 + len(g)], "implementation": a})
        bad = False
        attempts = iter(h)
        for j, pr in enumerate(probes):
            got = a[j] if j < len(a) else "?"
            if pr is not None:
                if got != pr:
                    rep.violation({"what": "an imported library does not have the contents of its own file", "graph": g,
                                   "attempts": h, "form": f[1 + len([x for x in f[1:] if not x.startswith(">")]) + j],
                                   "expected": pr, "implementation": a})
                    bad = True
                    break
                continue
            x = next(attempts)
            want = expect(g, x)
            gk = "ok" if got == "N" else (got.split(" ")[1] if got.startswith("E ") else got)
            kinds[want] = kinds.get(want, 0) + 1
            if gk != want:
                rep.violation({"what": "the outcome of an import is not what the library graph determines "
                                       "(or depends on earlier attempts)", "graph": g, "as_files": as_files, "attempts": h,
                               "attempt_index": j, "expected": want, "implementation": a})
                bad = True
                break
        if not bad and [R.norm_result(x) for x in a] != [R.norm_result(x) for x in b]:
            rep.violation({"broken": "correspondence Interp.getLibrary/evalImportSet <-> get_library/eval_import_set",
                           "graph": g, "attempts": h, "implementation": a, "model": b}, no_input=True)
    rep.extra["expected_outcomes"] = kinds


def library_soup(rep, tier, rng):
    """LIBRARY SOUP (checks/pylib.py): a DAG of two to four stateful libraries importing one another through every kind of import
    set, a program that imports some of them and calls what it sees - judged by an independent reference module system in Python"""
    from . import pylib
    pylib.soup_phase(rep, rng, 100 if tier == "quick" else 2000, C, R, as_files=True)


def main(tier, seed):
    rep = C.Report(PROP, tier, seed)
    rng = random.Random(seed)
    rep.cov["rule"] = ("library graphs on 1-3 nodes, each node healthy or with a faulting body and any subset (ordered for n<=2) of "
                       "dependencies (each written as a plain, only, prefix, rename or except import set, one style per configuration or mixed), or missing (with a decoy of that name in the process's working directory) / defining another name (an unused one, or ANOTHER NODE's name with a different body) / syntactically broken / not UTF-8; all 1- and 2-node "
                       "configurations x all histories of 3 attempts, 1200 sampled (thorough: all) 3-node configurations x "
                       "histories of 2 attempts; as files under a program directory that is not the working directory, and as "
                       "registered sources; distinct = (graph, history, variant)")
    ok = C.standard_proof_phase(rep, MODULES, directed_search=lambda r: (run(r, tier, rng), library_soup(r, tier, rng)))
    if ok:
        run(rep, tier, rng)
        library_soup(rep, tier, rng)
    return rep.finish("cd lean && lake build RuschmProofs.C14 && lake env lean <#print axioms of every theorem in RuschmProofs/C14.lean>")

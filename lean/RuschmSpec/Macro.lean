/-
Specification vocabulary for the macro properties C04 (`syntax-rules` expansion) and C05 (shape
of the bundled derived forms).

Everything here is *spec side*:

* `Supported` / `SupportedTmpl` / `SupportedRule`: the decidable class of rules the refinement
  theorem is claimed for;
* `specMatch`: the R7RS-style declarative matcher (structural recursion on the pattern; an
  ellipsis stands for ONE OR MORE items, the documented limit of this expander), producing
  `Bindings` = variable ↦ sequence of matched items;
* `specInst`: template instantiation (every variable replaced by what it matched, every ellipsis
  sub-template repeated once per matched item, in order);
* `specTransform`: first matching rule, in textual order, or a syntax error;
* `grammarRules` / `expand1`: the rules of a bundled derived form, built by the model's
  `toRules` from the GENERATED `Gen.grammarData`.

The model of the Rust code is `RuschmModel/Macro.lean`; the theorems relating the two are in
`RuschmProofs/C04.lean` and `RuschmProofs/C05Shapes.lean`.
-/
import RuschmModel.Macro
import RuschmGen.Grammar

namespace Ruschm.Macro

/-- what a successful match yields: pattern variable ↦ the sequence of items it matched (one item
for a variable outside every ellipsis, one or more for a variable under an ellipsis), in the
order in which the variables occur in the pattern -/
abbrev Bindings := List (String × List Datum)

/-! ## Pattern vocabulary -/

def Pat.isEllipsis : Pat → Bool
  | .ellipsis => true
  | _ => false

/-- the rest of a list pattern is exactly `... )` -/
def Pat.isEllTail : Pat → Bool
  | .pair .ellipsis .nil => true
  | _ => false

/-- the rest of a vector pattern is exactly `... )` -/
def Pat.isEllOnly : List Pat → Bool
  | [.ellipsis] => true
  | _ => false

/-- a literal identifier (an identifier listed in the literals of the `syntax-rules`) -/
def Pat.isLit (lits : List String) : Pat → Bool
  | .ident v => lits.contains v
  | _ => false

mutual
/-- number of nodes -/
def Pat.size : Pat → Nat
  | .pair a d => a.size + d.size + 1
  | .vec xs => Pat.sizeList xs + 1
  | _ => 1
def Pat.sizeList : List Pat → Nat
  | [] => 0
  | x :: xs => x.size + Pat.sizeList xs
end

mutual
/-- the pattern variables, left to right: identifiers that are not literals -/
def Pat.vars (lits : List String) : Pat → List String
  | .ident v => if lits.contains v then [] else [v]
  | .pair a d => a.vars lits ++ d.vars lits
  | .vec xs => Pat.varsList lits xs
  | _ => []
def Pat.varsList (lits : List String) : List Pat → List String
  | [] => []
  | x :: xs => x.vars lits ++ Pat.varsList lits xs
end

mutual
/-- no ellipsis anywhere inside -/
def Pat.ellFree : Pat → Bool
  | .ellipsis => false
  | .pair a d => a.ellFree && d.ellFree
  | .vec xs => Pat.ellFreeList xs
  | _ => true
def Pat.ellFreeList : List Pat → Bool
  | [] => true
  | x :: xs => x.ellFree && Pat.ellFreeList xs
end

/-! ## The supported class of patterns

Proper-list and vector patterns nested to any depth; at most one ellipsis per (sub)list or
vector, in FINAL position and preceded by a sub-pattern; that sub-pattern contains no further
ellipsis (depth 1) and is not a literal identifier (the expander raises a syntax error at *match*
time for `(lit ...)`); no improper (dotted) pattern; no stray ellipsis. -/

mutual
/-- a pattern in element position -/
def Pat.ok (lits : List String) : Pat → Bool
  | .underscore => true
  | .ident _ => true
  | .prim _ => true
  | .nil => true
  | .ellipsis => false
  | .pair a rest =>
    if rest.isEllTail then a.ok lits && a.ellFree && !a.isLit lits
    else a.ok lits && rest.okTail lits
  | .vec xs => Pat.okList lits xs
/-- a pattern in tail position of a list pattern: the rest of a PROPER list -/
def Pat.okTail (lits : List String) : Pat → Bool
  | .nil => true
  | .pair a rest =>
    if rest.isEllTail then a.ok lits && a.ellFree && !a.isLit lits
    else a.ok lits && rest.okTail lits
  | _ => false
/-- the elements of a vector pattern -/
def Pat.okList (lits : List String) : List Pat → Bool
  | [] => true
  | p :: ps =>
    if Pat.isEllOnly ps then p.ok lits && p.ellFree && !p.isLit lits
    else p.ok lits && Pat.okList lits ps
end

/-- **the supported class of patterns**: shape as above and pattern variables pairwise distinct -/
def Supported (lits : List String) (p : Pat) : Bool :=
  p.ok lits && decide (p.vars lits).Nodup

/-! ## The declarative matcher -/

/-- the elements of a proper list; `none` for an improper list or an atom -/
def properElems : Datum → Option (List Datum)
  | .pair a d _ => (properElems d).map (a :: ·)
  | .nil _ => some []
  | _ => none

/-- the elements of a vector; `none` for any other datum -/
def vecElems : Datum → Option (List Datum)
  | .vec ds _ => some ds
  | _ => none

/-- `f` on every element; `none` as soon as one element has no image -/
def mapOpt {α β : Type} (f : α → Option β) : List α → Option (List β)
  | [] => some []
  | x :: xs =>
    match f x, mapOpt f xs with
    | some y, some ys => some (y :: ys)
    | _, _ => none

/-- append, variable by variable, the items of `β'` after those of `β` -/
def zipB (β β' : Bindings) : Bindings :=
  β.map fun (v, ms) => (v, ms ++ (β'.lookup v).getD [])

/-- the bindings of a run of items under an ellipsis: each variable of the sub-pattern is bound to
the sequence of its matches, in order. There is no binding for an empty run: an ellipsis stands
for one or more items. -/
def combine : List Bindings → Option Bindings
  | [] => none
  | β :: βs => some (βs.foldl zipB β)

/-- `(p ...)` against the items `ds` (`none`: not a proper list): every item matches `p` -/
def specRun (m : Datum → Option Bindings) (items : Option (List Datum)) : Option Bindings :=
  match items with
  | some ds => (mapOpt m ds).bind combine
  | none => none

mutual
/-- **the declarative matcher**: `_` and variables match anything, a literal identifier matches
the same symbol, a literal datum an equal datum, lists and vectors match element-wise, and a
final `p ...` matches a run of one or more items each of which matches `p`. -/
def specMatch (lits : List String) : Pat → Datum → Option Bindings
  | .underscore, _ => some []
  | .ellipsis, _ => none
  | .ident v, d =>
    if lits.contains v then
      match d with
      | .sym s _ => if s = v then some [] else none
      | _ => none
    else some [(v, [d])]
  | .prim a, d =>
    match d with
    | .prim b _ => if a = b then some [] else none
    | _ => none
  | .nil, d =>
    match d with
    | .nil _ => some []
    | _ => none
  | .pair a rest, d =>
    if rest.isEllTail then specRun (specMatch lits a) (properElems d)
    else
      match d with
      | .pair x y _ =>
        match specMatch lits a x, specMatch lits rest y with
        | some β₁, some β₂ => some (β₁ ++ β₂)
        | _, _ => none
      | _ => none
  | .vec ps, d =>
    match d with
    | .vec ds _ => specMatchList lits ps ds
    | _ => none
/-- the elements of a vector pattern (or of a proper-list pattern) against a sequence of data -/
def specMatchList (lits : List String) : List Pat → List Datum → Option Bindings
  | [], ds =>
    match ds with
    | [] => some []
    | _ :: _ => none
  | p :: ps, ds =>
    if Pat.isEllOnly ps then specRun (specMatch lits p) (some ds)
    else
      match ds with
      | d :: ds' =>
        match specMatch lits p d, specMatchList lits ps ds' with
        | some β₁, some β₂ => some (β₁ ++ β₂)
        | _, _ => none
      | [] => none
end

/-- element-wise matching of `n` patterns against `n` data (no ellipsis): the bindings of the
elements, concatenated -/
def elementwise (m : Pat → Datum → Option Bindings) : List Pat → List Datum → Option Bindings
  | [], [] => some []
  | p :: ps, d :: ds =>
    match m p d, elementwise m ps ds with
    | some β₁, some β₂ => some (β₁ ++ β₂)
    | _, _ => none
  | _, _ => none

/-- a list pattern with the given elements -/
def Pat.ofList : List Pat → Pat
  | [] => .nil
  | p :: ps => .pair p (Pat.ofList ps)

/-! ## Substitution tables and bindings -/

/-- the bindings a substitution table represents: `var ↦ (first, further)` is the item sequence
`first :: further` -/
def Subst.toBindings (σ : Subst) : Bindings :=
  σ.map fun (v, f, more) => (v, f :: more)

/-- the table that represents bindings (all of whose sequences are non-empty) -/
def Bindings.toSubst (β : Bindings) : Subst :=
  β.map fun (v, ms) => (v, ms.headD (.nil none), ms.tail)

def Subst.keys (σ : Subst) : List String := σ.map (·.1)

/-! ## Templates -/

mutual
/-- the identifiers of a template, left to right -/
def Tmpl.vars : Tmpl → List String
  | .ident v => [v]
  | .prim _ => []
  | .list es => Tmpl.varsElems es
  | .vec es => Tmpl.varsElems es
def Tmpl.varsElems : List (Tmpl × Bool) → List String
  | [] => []
  | (t, _) :: rest => t.vars ++ Tmpl.varsElems rest
end

mutual
/-- no element followed by an ellipsis anywhere inside -/
def Tmpl.flagFree : Tmpl → Bool
  | .ident _ => true
  | .prim _ => true
  | .list es => Tmpl.flagFreeElems es
  | .vec es => Tmpl.flagFreeElems es
def Tmpl.flagFreeElems : List (Tmpl × Bool) → Bool
  | [] => true
  | (t, b) :: rest => !b && t.flagFree && Tmpl.flagFreeElems rest
end

/-- least element; `0` for the empty list -/
def minLen : List Nat → Nat
  | [] => 0
  | [x] => x
  | x :: xs => min x (minLen xs)

/-- the lengths of the item sequences of the bound variables of a template -/
def seqLens (β : Bindings) (t : Tmpl) : List Nat :=
  t.vars.filterMap fun v => (β.lookup v).map List.length

/-- how many copies an ellipsis sub-template yields: the number of items its variables matched.
(In the supported class all variables of the sub-template belong to the same ellipsis of the
pattern, so their sequences have one common length; in general it is the least length, and `0` if
the sub-template mentions no bound variable.) -/
def copies (β : Bindings) (t : Tmpl) : Nat := minLen (seqLens β t)

mutual
/-- the template with every variable replaced by the `i`-th item it matched (identifiers that
are not pattern variables stay, located at the macro use) -/
def specInstAt (β : Bindings) (loc : Loc) (i : Nat) : Tmpl → Datum
  | .ident v =>
    match β.lookup v with
    | some ms => ms.getD i (.sym v loc)
    | none => .sym v loc
  | .prim p => .prim p loc
  | .list es => Datum.ofList loc (specElemsAt β loc i es)
  | .vec es => .vec (specElemsAt β loc i es) loc
/-- the elements: a plain element yields one datum, an element followed by an ellipsis one copy
per matched item, in order -/
def specElemsAt (β : Bindings) (loc : Loc) (i : Nat) : List (Tmpl × Bool) → List Datum
  | [] => []
  | (t, false) :: rest => specInstAt β loc i t :: specElemsAt β loc i rest
  | (t, true) :: rest =>
    (List.range (copies β t)).map (fun j => specInstAt β loc j t) ++ specElemsAt β loc i rest
end

/-- **template instantiation**: every pattern variable replaced by what it matched, every
ellipsis sub-template repeated once per matched item, in order; `loc` is the location of the
macro use, given to every node built from the template -/
def specInst (t : Tmpl) (β : Bindings) (loc : Loc) : Datum := specInstAt β loc 0 t

/-! ## The supported class of templates and rules -/

mutual
/-- the variable groups of a pattern: one group per ellipsis, the variables under it -/
def Pat.ellGroups (lits : List String) : Pat → List (List String)
  | .pair a rest =>
    if rest.isEllTail then [a.vars lits] else a.ellGroups lits ++ rest.ellGroups lits
  | .vec xs => Pat.ellGroupsList lits xs
  | _ => []
def Pat.ellGroupsList (lits : List String) : List Pat → List (List String)
  | [] => []
  | p :: ps =>
    if Pat.isEllOnly ps then [p.vars lits] else p.ellGroups lits ++ Pat.ellGroupsList lits ps
end

/-- the pattern variables a template mentions -/
def Tmpl.boundVars (pv : List String) (t : Tmpl) : List String := t.vars.filter pv.contains

/-- an ellipsis sub-template: no nested ellipsis, at least one pattern variable, and all its
pattern variables are variables of ONE ellipsis of the pattern -/
def Tmpl.ellOk (pv : List String) (groups : List (List String)) (t : Tmpl) : Bool :=
  t.flagFree && !(t.boundVars pv).isEmpty &&
    groups.any fun g => (t.boundVars pv).all g.contains

mutual
/-- a template outside every ellipsis: mentions no ellipsis variable except inside its ellipsis
sub-templates -/
def Tmpl.ok (pv : List String) (groups : List (List String)) : Tmpl → Bool
  | .ident v => !(groups.any fun g => g.contains v)
  | .prim _ => true
  | .list es => Tmpl.okElems pv groups es
  | .vec es => Tmpl.okElems pv groups es
def Tmpl.okElems (pv : List String) (groups : List (List String)) : List (Tmpl × Bool) → Bool
  | [] => true
  | (t, false) :: rest => t.ok pv groups && Tmpl.okElems pv groups rest
  | (t, true) :: rest => t.ellOk pv groups && Tmpl.okElems pv groups rest
end

/-- **the supported class of templates**, relative to the pattern of the rule -/
def SupportedTmpl (lits : List String) (p : Pat) (t : Tmpl) : Bool :=
  t.ok (p.vars lits) (p.ellGroups lits)

/-- **the supported class of rules** -/
def SupportedRule (lits : List String) (r : Pat × Tmpl) : Bool :=
  Supported lits r.1 && SupportedTmpl lits r.1 r.2

def SupportedRules (r : Rules) : Bool := r.rules.all (SupportedRule r.literals)

/-! ## The declarative expander -/

/-- the first rule, in textual order, whose pattern matches the use fills its template; a use
that matches no rule is a syntax error -/
def specTransform (lits : List String) : List (Pat × Tmpl) → Datum → Except SErr Datum
  | [], _ => .error (.syntax, none)
  | (p, t) :: rest, use =>
    match specMatch lits p use with
    | some β => .ok (specInst t β use.loc)
    | none => specTransform lits rest use

/-! ## The bundled derived forms (C05) -/

/-- `(define-syntax kw spec)` -/
def defineSyntaxOf (d : Datum) : Option (String × Datum) :=
  match d.elems with
  | [.sym "define-syntax" _, .sym kw _, spec] => some (kw, spec)
  | _ => none

/-- the rules of a bundled derived form: the first `(define-syntax kw …)` of the generated
`Gen.grammarData`, built by the model of `transform_transformer` -/
def grammarRules (kw : String) : Option Rules :=
  Gen.grammarData.findSome? fun d =>
    match defineSyntaxOf d with
    | some (k, spec) => if k = kw then (toRules kw spec).toOption else none
    | none => none

/-- one expansion step of a derived form; `use` is the form WITHOUT its keyword, located at the
macro use (what `Transformer::transform` receives) -/
def expand1 (fuel : Nat) (kw : String) (use : Datum) : Except SErr Datum :=
  match grammarRules kw with
  | some r => transform fuel r use
  | none => .error (.syntax, none)

/-- `u` is a proper list with elements `es` (whatever the locations on its spine) -/
def IsList (u : Datum) (es : List Datum) : Prop := u.spine = (es, none)

/-- each datum of `bs` is a two-element proper list `(x y)`; `xys` lists the pairs `(x, y)` -/
inductive IsPairs : List Datum → List (Datum × Datum) → Prop
  | nil : IsPairs [] []
  | cons {b bs xy xys} : IsList b [xy.1, xy.2] → IsPairs bs xys → IsPairs (b :: bs) (xy :: xys)

end Ruschm.Macro

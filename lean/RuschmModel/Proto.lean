/-
Line protocol shared with the Rust harness: field (un)escaping and canonical text.
-/
import RuschmModel.Num
namespace Ruschm.Proto

def hexDigit? (c : Char) : Option Nat :=
  if '0' ≤ c ∧ c ≤ '9' then some (c.toNat - '0'.toNat)
  else if 'a' ≤ c ∧ c ≤ 'f' then some (c.toNat - 'a'.toNat + 10)
  else if 'A' ≤ c ∧ c ≤ 'F' then some (c.toNat - 'A'.toNat + 10)
  else none

def hexVal (cs : List Char) : Option Nat :=
  cs.foldl (fun acc c => match acc, hexDigit? c with
    | some a, some d => some (a * 16 + d)
    | _, _ => none) (some 0)

/-- inverse of the harness's field escaping: `\n \t \r \\ \u{hex}` -/
partial def unescapeAux : List Char → List Char → List Char
  | [], acc => acc.reverse
  | '\\' :: 'n' :: r, acc => unescapeAux r ('\n' :: acc)
  | '\\' :: 't' :: r, acc => unescapeAux r ('\t' :: acc)
  | '\\' :: 'r' :: r, acc => unescapeAux r ('\r' :: acc)
  | '\\' :: '\\' :: r, acc => unescapeAux r ('\\' :: acc)
  | '\\' :: 'u' :: '{' :: r, acc =>
    let hex := r.takeWhile (· ≠ '}')
    let rest := (r.dropWhile (· ≠ '}')).drop 1
    match hexVal hex with
    | some n => unescapeAux rest (Char.ofNat n :: acc)
    | none => unescapeAux rest acc
  | '\\' :: c :: r, acc => unescapeAux r (c :: acc)
  | c :: r, acc => unescapeAux r (c :: acc)

def unescape (s : String) : List Char := unescapeAux s.toList []

def hexStr (n : Nat) : String := String.ofList (Nat.toDigits 16 n)

/-- printable ASCII except backslash, double quote, parentheses and blank stay; rest `\u{hex}` -/
def escChar (c : Char) : String :=
  if c = '\\' ∨ c = '"' ∨ c = '(' ∨ c = ')' ∨ c = ' ' then "\\u{" ++ hexStr c.toNat ++ "}"
  else if '!' ≤ c ∧ c ≤ '~' then c.toString
  else "\\u{" ++ hexStr c.toNat ++ "}"

def esc (s : String) : String := s.toList.foldl (fun acc c => acc ++ escChar c) ""

/-- output fields may not contain tabs or newlines -/
def outField (s : String) : String := (s.replace "\t" "\\t").replace "\n" "\\n"

def parseInt? (s : String) : Option Int := s.toInt?

/-- `i:<n>`, `q:<n>/<d>`, `r:<bits>` -/
def parseNum? (s : String) : Option Num :=
  match s.splitOn ":" with
  | ["i", n] => (parseInt? n).map Num.int
  | ["r", "nan"] => some (Num.real (Float32.ofBits 0x7FC00000))
  | ["r", b] => b.toNat?.map (fun n => Num.real (Float32.ofBits n.toUInt32))
  | ["q", q] => match q.splitOn "/" with
    | [n, d] => match parseInt? n, parseInt? d with
      | some n, some d => some (Num.rat n d)
      | _, _ => none
    | _ => none
  | _ => none

def resNum : Except Err Num → String
  | .ok n => "V " ++ n.canon
  | .error e => "E " ++ toString e

def resBool : Bool → String
  | true => "V #t"
  | false => "V #f"

end Ruschm.Proto

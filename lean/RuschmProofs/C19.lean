/-
Property C19 — "Two interpreter instances in one process share nothing a program can observe:
definitions, assignments, macro definitions, imports and failed operations performed through one
instance never change the result of anything evaluated through another, and creating a new
instance always succeeds whatever earlier instances have evaluated."

The model of a process with several instances is `Front.World` (a list of `Interp.State`s) with
`Front.worldStep` (evaluate a text through instance `i`) and `Front.worldNew`
(`Interpreter::new_with_stdlib()`). An instance's state holds its store (frames, vectors), its
root frame, its syntax scopes, its library factories and instance cache, its in-progress set — i.e.
everything `Interp.evalText` reads or writes. The only thing instances have in common is the
table of bundled derived forms, which in the model is the CONSTANT `Interp.grammarScope` at the
bottom of every instance's `syn` (in the Rust code after the repair: an immutable parent scope
that `define-syntax` never writes to — `syn_base_unchanged` below is the model-level content of
that repair). Only property theorems live here; helpers are in `RuschmProofs/FrontLemmas.lean`.
-/
import RuschmProofs.FrontLemmas

namespace Ruschm.C19
open Ruschm Ruschm.Interp Ruschm.Front Ruschm.FrontSpec

/-- A step through instance `i` leaves every other instance exactly as it was, and the number of
instances unchanged — whether the text succeeded or failed, whatever it defined, assigned,
imported or bound as a macro. -/
theorem step_frames_others (fuel : Nat) (w : World) (i : Nat) (text : List Char) :
    (worldStep fuel w i text).2.length = w.length ∧
    ∀ j, j ≠ i → (worldStep fuel w i text).2[j]? = w[j]? :=
  ⟨worldStep_length fuel w i text, fun j h => worldStep_other fuel w i j text h⟩

/-- Registering a library source on instance `i` (`register_library_factory`) leaves every other instance exactly as
it was — in particular a library of the same name registered or loaded through another instance keeps its own
definition. -/
theorem register_frames_others (w : World) (i : Nat) (lib : LibName) (fac : Interp.Factory) :
    (worldRegister w i lib fac).length = w.length ∧
    ∀ j, j ≠ i → (worldRegister w i lib fac)[j]? = w[j]? := by
  unfold worldRegister
  split
  · exact ⟨rfl, fun _ _ => rfl⟩
  · refine ⟨by simp, fun j h => ?_⟩
    simp [Ne.symm h]

example : (worldRegister [default, default] 0 [.ident "shlib"] (.native [])).length = 2 := by
  simp [worldRegister]

/-- … and the step itself is the library interface on that instance's own state: its result and
the instance's new state are those of `evalText` on the old state of instance `i` alone. -/
theorem step_is_own_eval (fuel : Nat) (w : World) (i : Nat) (text : List Char) (st : State)
    (h : w[i]? = some st) :
    (worldStep fuel w i text).1 = some (evalText fuel st text).1 ∧
    (worldStep fuel w i text).2[i]? = some (evalText fuel st text).2 :=
  worldStep_self fuel w i text st h

/-- NON-INTERFERENCE. For any history of steps on any instances (an arbitrary interleaving), the
results of the steps on instance `j` — values and errors, in order — are the results of
submitting `j`'s texts alone, one after another, to `j`'s initial state; and `j` ends in the state
it would have reached alone. What the other instances evaluated in between is irrelevant. -/
theorem noninterference (fuel : Nat) (w : World) (steps : Steps) (j : Nat) (st : State)
    (h : w[j]? = some st) :
    ((runSteps fuel w steps).1.filter (fun r => r.1 = j)).map (·.2)
        = (runAlone fuel st (textsFor j steps)).1.map some ∧
      (runSteps fuel w steps).2[j]? = some (runAlone fuel st (textsFor j steps)).2 :=
  runSteps_noninterference fuel j steps w st h

/-- the two-instance reading of the property: two histories that agree on the texts sent to `j`
(and differ arbitrarily in what they send to other instances, e.g. to `i`) give the same results
on `j`, from worlds that agree on `j`. -/
theorem noninterference_two (fuel : Nat) (w₁ w₂ : World) (s₁ s₂ : Steps) (j : Nat) (st : State)
    (h₁ : w₁[j]? = some st) (h₂ : w₂[j]? = some st) (ht : textsFor j s₁ = textsFor j s₂) :
    ((runSteps fuel w₁ s₁).1.filter (fun r => r.1 = j)).map (·.2)
        = ((runSteps fuel w₂ s₂).1.filter (fun r => r.1 = j)).map (·.2) ∧
      (runSteps fuel w₁ s₁).2[j]? = (runSteps fuel w₂ s₂).2[j]? := by
  obtain ⟨a1, a2⟩ := noninterference fuel w₁ s₁ j st h₁
  obtain ⟨b1, b2⟩ := noninterference fuel w₂ s₂ j st h₂
  rw [a1, a2, b1, b2, ht]
  exact ⟨rfl, rfl⟩

/-- Creating an instance is total: the world is one longer, every old instance is unchanged, and
the new instance is `new_with_stdlib()`'s state — a value that does not mention `w`. -/
theorem new_instance_total (fuel : Nat) (w : World) :
    (worldNew fuel w).length = w.length + 1 ∧
    (∀ j, j < w.length → (worldNew fuel w)[j]? = w[j]?) ∧
    (worldNew fuel w)[w.length]? = some (withStdlib fuel false) := by
  unfold worldNew
  refine ⟨by simp, fun j hj => ?_, by simp⟩
  rw [List.getElem?_append_left hj]

/-- An instance created after any history is the instance created first: same state, hence the
same result and the same new state for any text evaluated through it. This holds by definition
of `worldNew`, and that is the point where the model relies on the immutability of the
bundled-forms table: `withStdlib` starts from `default_`, whose syntax scopes are
`[[], grammarScope]` with `grammarScope` a constant — no instance can have changed it
(`syn_base_unchanged`). -/
theorem fresh_instance_same (fuel : Nat) (w : World) (steps : Steps) (text : List Char) :
    let w' := (runSteps fuel w steps).2
    (worldNew fuel w')[w'.length]? = (worldNew fuel [])[0]? ∧
    (worldStep fuel (worldNew fuel w') w'.length text).1 = (worldStep fuel (worldNew fuel []) 0 text).1 ∧
    (worldStep fuel (worldNew fuel w') w'.length text).2[w'.length]?
      = (worldStep fuel (worldNew fuel []) 0 text).2[0]? := by
  intro w'
  have h1 := (new_instance_total fuel w').2.2
  have h0 : (worldNew fuel [])[0]? = some (withStdlib fuel false) := (new_instance_total fuel []).2.2
  obtain ⟨a1, a2⟩ := worldStep_self fuel _ _ text _ h1
  obtain ⟨b1, b2⟩ := worldStep_self fuel _ _ text _ h0
  exact ⟨h1.trans h0.symm, a1.trans b1.symm, a2.trans b2.symm⟩

/-- THE BUNDLED FORMS ARE NEVER WRITTEN TO. Evaluating a text — `define-syntax` forms, failing
forms, macro uses and lambda bodies (which open and close child scopes) included — changes at
most the FIRST scope of the interpreter's syntax environment: every scope below it is returned
unchanged. (`Xform.SynEnv.define` inserts into the innermost scope; `Xform.inChild` drops the
scope it pushed; `eval_ast` does not touch `syn` at all.) This is the model-level content of the
repaired defect: before the repair `define-syntax` wrote into a table shared by all instances. -/
theorem syn_base_unchanged (fuel : Nat) (st : State) (text : List Char)
    (own : List (String × Macro.Rules)) (base : Xform.SynEnv) (h : st.syn = own :: base) :
    ∃ own', (evalText fuel st text).2.syn = own' :: base :=
  evalText_syn fuel st text own base h

/-- hence every instance made by `new_with_stdlib()` (or `default()`), after any texts, still has
the constant `grammarScope` as its bottom scope, under one scope of its own -/
theorem bundled_forms_constant (fuel : Nat) (texts : List (List Char)) :
    (withStdlib fuel false).syn = [[], grammarScope] ∧
    ∃ own, (runAlone fuel (withStdlib fuel false) texts).2.syn = [own, grammarScope] :=
  ⟨withStdlib_syn fuel false, runAlone_syn fuel texts _ [] [grammarScope] (withStdlib_syn fuel false)⟩

section Example
/- non-vacuity on concrete input: instance 0 defines `x` and a macro `m`, then fails; instance 1
evaluates `x` — unbound there, before and after -/
private def t0 : List Char := "(define x 1) (define-syntax m (syntax-rules () ((_) 7))) (car 5)".toList
private def t1 : List Char := "x".toList

example : textsFor 1 [(0, t0), (1, t1), (0, t1)] = [t1] := by decide

example (fuel : Nat) :
    ((runSteps fuel (worldNew fuel (worldNew fuel [])) [(0, t0), (1, t1), (0, t1)]).1.filter
        (fun r => r.1 = 1)).map (·.2)
      = [some (evalText fuel (withStdlib fuel false) t1).1] := by
  have := (noninterference fuel (worldNew fuel (worldNew fuel [])) [(0, t0), (1, t1), (0, t1)] 1
    (withStdlib fuel false) (by simp [worldNew])).1
  simpa [textsFor, runAlone] using this
end Example

end Ruschm.C19

/-
Helper lemmas for C07 (2): the native procedures.
* the panic sites of the numeric tower and of `Prim.applyPure` (`applyPure_sites`: once the arity
  check has passed none of the `base.rs` `unwrap` sites is reachable);
* on safe, allocated arguments `applyPure` does not panic at all, returns a safe value and keeps the
  stored values safe (`applyPure_rok`, `applyPure_valsSafe`).
-/
import RuschmSpec.Safe
import RuschmProofs.C09
import RuschmProofs.StoreLemmas

namespace Ruschm
open Ruschm

/-! ## panic sites -/

namespace Num

/-- the only panic sites of the numeric tower -/
def numSites : List String :=
  ["exact_ratio: zero denominator", "floor: zero denominator", "ceiling: zero denominator"]

/-- an error of a numeric operation: if it is a panic, it is one of the three numeric sites -/
def SiteOK (e : Err) : Prop := ∀ s, e = .panic s → s ∈ numSites

def ErrsOK {α} (x : Except Err α) : Prop := ∀ e, x = .error e → SiteOK e

theorem errsOK_ok {α} (a : α) : ErrsOK (.ok a : Except Err α) := by intro e h; cases h
theorem siteOK_divZero : SiteOK .divZero := by intro s h; cases h
theorem siteOK_type : SiteOK .type := by intro s h; cases h

theorem exactRatio_errs (n d : Int) : ErrsOK (exactRatio n d) := by
  intro e h
  unfold exactRatio at h
  simp only at h
  repeat' split at h
  all_goals first | (cases h; done) | skip
  cases h; intro s hs; cases hs; simp [numSites]

theorem add_errs (a b : Num) : ErrsOK (add a b) := by
  unfold add; split <;> first | exact exactRatio_errs _ _ | exact errsOK_ok _
theorem sub_errs (a b : Num) : ErrsOK (sub a b) := by
  unfold sub; split <;> first | exact exactRatio_errs _ _ | exact errsOK_ok _
theorem mul_errs (a b : Num) : ErrsOK (mul a b) := by
  unfold mul; split <;> first | exact exactRatio_errs _ _ | exact errsOK_ok _
theorem div_errs (a b : Num) : ErrsOK (div a b) := by
  unfold div
  repeat' split
  all_goals first | exact exactRatio_errs _ _ | exact errsOK_ok _ | (intro e h; cases h; exact siteOK_divZero)
theorem abs_errs (a : Num) : ErrsOK (abs a) := by
  unfold abs; split <;> first | exact exactRatio_errs _ _ | exact errsOK_ok _
theorem floor_errs (a : Num) : ErrsOK (floor a) := by
  unfold floor
  repeat' split
  all_goals first | exact exactRatio_errs _ _ | exact errsOK_ok _ | (intro e h; cases h; intro s hs; cases hs; simp [numSites])
theorem ceiling_errs (a : Num) : ErrsOK (ceiling a) := by
  unfold ceiling
  repeat' split
  all_goals first | exact exactRatio_errs _ _ | exact errsOK_ok _ | (intro e h; cases h; intro s hs; cases hs; simp [numSites])
theorem exact_errs (a : Num) : ErrsOK (exact a) := by
  unfold exact
  repeat' split
  all_goals first | exact errsOK_ok _ | (intro e h; cases h; intro s hs; cases hs)

theorem errsOK_bind {α β} {x : Except Err α} {f : α → Except Err β} (hx : ErrsOK x) (hf : ∀ a, ErrsOK (f a)) :
    ErrsOK (x >>= f) := by
  cases x with
  | error e => intro e' h; cases h; exact hx _ rfl
  | ok a => exact hf a

theorem floorQuotient_errs (a b : Num) : ErrsOK (floorQuotient a b) :=
  errsOK_bind (div_errs a b) fun _ => floor_errs _
theorem floorRemainder_errs (a b : Num) : ErrsOK (floorRemainder a b) :=
  errsOK_bind (floorQuotient_errs a b) fun _ => errsOK_bind (mul_errs _ _) fun _ => sub_errs _ _

end Num

namespace Prim
open Num

theorem expectNumber_errs (v : Value) : ErrsOK (expectNumber v) := by
  intro e h
  cases v <;> simp [expectNumber] at h <;> (subst h; exact siteOK_type)

theorem foldNum_errs {f : Num → Num → Except Err Num} (hf : ∀ a b, ErrsOK (f a b)) :
    ∀ (args : List Value) (init : Num), ErrsOK (foldNum f init args)
  | [], init => by simp only [foldNum, List.foldlM_nil]; exact errsOK_ok _
  | v :: rest, init => by
    simp only [foldNum, List.foldlM_cons]
    exact errsOK_bind (errsOK_bind (expectNumber_errs v) fun _ => hf _ _) fun r => foldNum_errs hf rest r

theorem subDiv_errs {f : Num → Num → Except Err Num} (hf : ∀ a b, ErrsOK (f a b)) (unit : Num)
    {args : List Value} (hl : 1 ≤ args.length) : ErrsOK (subDiv f unit args) := by
  unfold subDiv
  cases args with
  | nil => simp at hl
  | cons x rest =>
    simp only
    refine errsOK_bind (expectNumber_errs x) fun first => ?_
    cases rest with
    | nil => exact hf _ _
    | cons y more =>
      exact errsOK_bind (expectNumber_errs y) fun _ => errsOK_bind (hf _ _) fun _ => foldNum_errs hf _ _

/-- `/`: the check for an exact zero divisor among exact operands answers `divZero`, otherwise it is `subDiv` -/
theorem divArgs_cases (args : List Value) :
    divArgs args = .error .divZero ∨ divArgs args = subDiv Num.div (.int 1) args := by
  unfold divArgs
  simp only
  split <;> split <;> first | exact .inl rfl | exact .inr rfl

theorem divArgs_errs {args : List Value} (hl : 1 ≤ args.length) : ErrsOK (divArgs args) := by
  rcases divArgs_cases args with h | h <;> rw [h]
  · intro e he; cases he; exact siteOK_divZero
  · exact subDiv_errs div_errs _ hl

theorem extremum_errs (step : Num → Num → Num) {args : List Value} (hl : 1 ≤ args.length) :
    ErrsOK (extremum step args) := by
  unfold extremum
  cases args with
  | nil => simp at hl
  | cons x rest =>
    simp only
    refine errsOK_bind (expectNumber_errs x) fun init => ?_
    clear hl
    induction rest generalizing init with
    | nil => simp only [List.foldlM_nil]; exact errsOK_ok _
    | cons v vs ih =>
      simp only [List.foldlM_cons]
      exact errsOK_bind (errsOK_bind (expectNumber_errs v) fun _ => errsOK_ok _) fun r => ih r

theorem cmpNum_errs (op : Num → Num → Bool) (args : List Value) : ErrsOK (cmpNum op args) := by
  unfold cmpNum
  cases args with
  | nil => exact errsOK_ok _
  | cons x rest =>
    simp only
    refine errsOK_bind (expectNumber_errs x) fun first => ?_
    generalize true = acc
    induction rest generalizing first acc with
    | nil => simp only [cmpNum.go]; exact errsOK_ok _
    | cons v vs ih =>
      simp only [cmpNum.go]
      exact errsOK_bind (expectNumber_errs v) fun cur => ih cur _

theorem cmpBool_errs (args : List Value) : ErrsOK (cmpBool args) := by
  unfold cmpBool
  cases args with
  | nil => exact errsOK_ok _
  | cons x rest =>
    cases x <;> simp only <;> try (intro e h; cases h; exact siteOK_type)
    rename_i first
    generalize true = acc
    induction rest generalizing first acc with
    | nil => simp only [cmpBool.go]; exact errsOK_ok _
    | cons v vs ih =>
      cases v <;> simp only [cmpBool.go] <;> try (intro e h; cases h; exact siteOK_type)
      exact ih _ _

/-- the panic sites a native procedure can still reach once the arity check has passed -/
def pureSites : List String :=
  ["applyPure: apply", "dangling vector"] ++ numSites

/-- every panic of the result is at one of `pureSites` -/
def RSites (r : Res Value) : Prop := ∀ s l, r.1 = .error (.panic s, l) → s ∈ pureSites

theorem rsites_ok {σ : Store} {v : Value} : RSites (ok v σ) := by intro s l h; cases h
theorem rsites_err {σ : Store} {e : Err} (h : ∀ s, e = .panic s → s ∈ pureSites) : RSites (err e σ : Res Value) := by
  intro s l h'; cases h'; exact h s rfl
theorem siteOK_pure {e : Err} (h : SiteOK e) : ∀ s, e = .panic s → s ∈ pureSites := by
  intro s hs; have := h s hs; simp [pureSites]; right; right; exact this

theorem rsites_lift {α} {σ : Store} {r : Except Err α} {k : α → Value} (h : ErrsOK r) : RSites (lift σ r k) := by
  cases r with
  | ok a => exact rsites_ok
  | error e => exact rsites_err (siteOK_pure (h e rfl))

theorem rsites_num1 {σ : Store} {args : List Value} {b : Builtin} {f : Num → Except Err Num}
    (hf : ∀ a, ErrsOK (f a)) (hl : 1 ≤ args.length) : RSites (num1 σ args b f) := by
  unfold num1
  cases args with
  | nil => simp at hl
  | cons x rest =>
    simp only
    repeat' split
    all_goals first | exact rsites_ok | skip
    · rename_i e he; exact rsites_err (siteOK_pure (expectNumber_errs _ _ he))
    · rename_i e he; exact rsites_err (siteOK_pure (hf _ _ he))

theorem rsites_num2 {σ : Store} {args : List Value} {b : Builtin} {f : Num → Num → Except Err Num}
    (hf : ∀ a b, ErrsOK (f a b)) (hl : 2 ≤ args.length) : RSites (num2 σ args b f) := by
  unfold num2
  match args, hl with
  | x :: y :: rest, _ =>
    simp only
    repeat' split
    all_goals first | exact rsites_ok | skip
    · rename_i e he; exact rsites_err (siteOK_pure (expectNumber_errs _ _ he))
    · rename_i e he; exact rsites_err (siteOK_pure (expectNumber_errs _ _ he))
    · rename_i e he; exact rsites_err (siteOK_pure (hf _ _ _ he))


theorem arityOk_iff (f : Nat) (v : Bool) (n : Nat) :
    Eval.arityOk f v n = true ↔ f ≤ n ∧ (n ≤ f ∨ v = true) := by
  unfold Eval.arityOk
  cases v <;> simp <;> omega

theorem len_ge_two {α} {l : List α} (h : 2 ≤ l.length) : ∃ x y t, l = x :: y :: t := by
  match l, h with
  | x :: y :: t, _ => exact ⟨x, y, t, rfl⟩
theorem len_ge_three {α} {l : List α} (h : 3 ≤ l.length) : ∃ x y z t, l = x :: y :: z :: t := by
  match l, h with
  | x :: y :: z :: t, _ => exact ⟨x, y, z, t, rfl⟩

open Eval in
/-- once the arity check of `apply_procedure` has passed, the only panics a native procedure can
still reach are `pureSites`: none of the `iter.next().unwrap()` sites of `base.rs` -/
theorem applyPure_sites {σ : Store} {b : Builtin} {args : List Value}
    (har : arityOk b.arity.1 b.arity.2 args.length = true) : RSites (applyPure σ b args) := by
  cases b <;> simp only [Builtin.arity, arityOk_iff] at har <;> simp only [applyPure]
  case apply => exact rsites_err (by intro s h; cases h; simp [pureSites])
  case add => exact rsites_lift (foldNum_errs add_errs _ _)
  case mul => exact rsites_lift (foldNum_errs mul_errs _ _)
  case sub => exact rsites_lift (subDiv_errs sub_errs _ har.1)
  case div => exact rsites_lift (divArgs_errs har.1)
  case max => exact rsites_lift (extremum_errs _ har.1)
  case min => exact rsites_lift (extremum_errs _ har.1)
  case numEq => exact rsites_lift (cmpNum_errs _ _)
  case lt => exact rsites_lift (cmpNum_errs _ _)
  case le => exact rsites_lift (cmpNum_errs _ _)
  case gt => exact rsites_lift (cmpNum_errs _ _)
  case ge => exact rsites_lift (cmpNum_errs _ _)
  case booleanEq => exact rsites_lift (cmpBool_errs _)
  case abs => exact rsites_num1 abs_errs (by omega)
  case floor => exact rsites_num1 floor_errs (by omega)
  case ceiling => exact rsites_num1 ceiling_errs (by omega)
  case exact => exact rsites_num1 exact_errs (by omega)
  case floorQuotient => exact rsites_num2 floorQuotient_errs (by omega)
  case floorRemainder => exact rsites_num2 floorRemainder_errs (by omega)
  case sqrt => exact rsites_num1 (fun _ => errsOK_ok _) (by omega)
  case exp => exact rsites_num1 (fun _ => errsOK_ok _) (by omega)
  case ln => exact rsites_num1 (fun _ => errsOK_ok _) (by omega)
  case sin => exact rsites_num1 (fun _ => errsOK_ok _) (by omega)
  case cos => exact rsites_num1 (fun _ => errsOK_ok _) (by omega)
  case tan => exact rsites_num1 (fun _ => errsOK_ok _) (by omega)
  case asin => exact rsites_num1 (fun _ => errsOK_ok _) (by omega)
  case acos => exact rsites_num1 (fun _ => errsOK_ok _) (by omega)
  case atan => exact rsites_num1 (fun _ => errsOK_ok _) (by omega)
  case log => exact rsites_num2 (fun _ _ => errsOK_ok _) (by omega)
  case atan2 => exact rsites_num2 (fun _ _ => errsOK_ok _) (by omega)
  all_goals (repeat' split)
  all_goals first
    | exact rsites_ok
    | (refine rsites_err ?_; intro s h; cases h; done)
    | (refine rsites_err ?_; intro s h; cases h; simp [pureSites]; done)
    | (exfalso; simp at har; done)
    | (exfalso; simp at har; omega)
    | (exfalso; obtain ⟨x, y, t, e⟩ := len_ge_two har.1; rename_i hx; exact hx x y t e)
    | (exfalso; obtain ⟨x, y, z, t, e⟩ := len_ge_three har.1; rename_i hx; exact hx x y z t e)
    | skip

end Prim

/-! ## safe operands -/

namespace Num

theorem noPanicE_of_isOk {x : Except Err Num} (h : IsOk x) : NoPanicE x := by
  obtain ⟨r, rfl⟩ := h; intro s h; cases h

theorem noPanicE_of_isOk_or {x : Except Err Num} (h : IsOk x ∨ x = .error .divZero) : NoPanicE x := by
  rcases h with h | h
  · exact noPanicE_of_isOk h
  · subst h; intro s h; cases h

/-- a binary operation that is safe on operands with positive denominators -/
def SafeOp2 (f : Num → Num → Except Err Num) : Prop :=
  ∀ a b, a.PosDen → b.PosDen → NoPanicE (f a b) ∧ ∀ r, f a b = .ok r → r.PosDen

def SafeOp1 (f : Num → Except Err Num) : Prop :=
  ∀ a, a.PosDen → NoPanicE (f a) ∧ ∀ r, f a = .ok r → r.PosDen

theorem safe_add : SafeOp2 add := fun _ _ pa pb =>
  ⟨noPanicE_of_isOk (C09.ops_no_panic pa pb).1, fun _ h => (C09.ops_wf.1 h).posDen⟩
theorem safe_sub : SafeOp2 sub := fun _ _ pa pb =>
  ⟨noPanicE_of_isOk (C09.ops_no_panic pa pb).2.1, fun _ h => (C09.ops_wf.2.1 h).posDen⟩
theorem safe_mul : SafeOp2 mul := fun _ _ pa pb =>
  ⟨noPanicE_of_isOk (C09.ops_no_panic pa pb).2.2.1, fun _ h => (C09.ops_wf.2.2.1 h).posDen⟩
theorem safe_div : SafeOp2 div := fun a b pa pb =>
  ⟨noPanicE_of_isOk_or (C09.ops_no_panic pa pb).2.2.2.2.2.2.1, fun _ h => ((C09.ops_wf (a := a) (b := b)).2.2.2.1 h).posDen⟩
theorem safe_floorQuotient : SafeOp2 floorQuotient := fun a b pa pb =>
  ⟨noPanicE_of_isOk_or (C09.ops_no_panic pa pb).2.2.2.2.2.2.2.1,
   fun _ h => ((C09.ops_wf (a := a) (b := b)).2.2.2.2.2.2.2.1 h).posDen⟩
theorem safe_floorRemainder : SafeOp2 floorRemainder := fun a b pa pb =>
  ⟨noPanicE_of_isOk_or (C09.ops_no_panic pa pb).2.2.2.2.2.2.2.2,
   fun _ h => ((C09.ops_wf (a := a) (b := b)).2.2.2.2.2.2.2.2 h).posDen⟩
theorem safe_abs : SafeOp1 abs := fun a pa =>
  ⟨noPanicE_of_isOk (C09.ops_no_panic (b := a) pa pa).2.2.2.1, fun _ h => ((C09.ops_wf (a := a) (b := a)).2.2.2.2.1 h).posDen⟩
theorem safe_floor : SafeOp1 floor := fun a pa => by
  refine ⟨noPanicE_of_isOk (C09.ops_no_panic (b := a) pa pa).2.2.2.2.1, fun r h => ?_⟩
  cases a with
  | int i => simp [floor] at h; subst h; trivial
  | real x => simp [floor] at h; subst h; trivial
  | rat n d =>
    simp only [floor] at h
    split at h
    · cases h
    · exact (C09.exactRatio_wf h).posDen
theorem safe_ceiling : SafeOp1 ceiling := fun a pa => by
  refine ⟨noPanicE_of_isOk (C09.ops_no_panic (b := a) pa pa).2.2.2.2.2.1, fun r h => ?_⟩
  cases a with
  | int i => simp [ceiling] at h; subst h; trivial
  | real x => simp [ceiling] at h; subst h; trivial
  | rat n d =>
    simp only [ceiling] at h
    split at h
    · cases h
    · exact (C09.exactRatio_wf h).posDen
theorem safe_exact : SafeOp1 exact := fun a pa => by
  cases a with
  | real x =>
    simp only [exact]
    split
    · exact ⟨fun s h => (by cases h), fun r h => (by cases h; trivial)⟩
    · exact ⟨fun s h => (by cases h), fun r h => (by cases h)⟩
  | int i => exact ⟨fun s h => (by cases h), fun r h => (by cases h; trivial)⟩
  | rat n d => exact ⟨fun s h => (by cases h), fun r h => (by cases h; exact pa)⟩

theorem posDen_maxStep {a b : Num} (pa : a.PosDen) (pb : b.PosDen) : (maxStep a b).PosDen := by
  unfold maxStep; repeat' split
  all_goals trivial
theorem posDen_minStep {a b : Num} (pa : a.PosDen) (pb : b.PosDen) : (minStep a b).PosDen := by
  unfold minStep; repeat' split
  all_goals trivial

end Num

/-! ## values -/

namespace Value

@[simp] theorem safe_num {n : Num} : (Value.num n).Safe ↔ n.PosDen := Iff.rfl
@[simp] theorem safe_pair {a d : Value} : (Value.pair a d).Safe ↔ a.Safe ∧ d.Safe := Iff.rfl
@[simp] theorem safe_closure {l : Lambda} {ρ : Nat} : (Value.closure l ρ).Safe ↔ l.ok = true := Iff.rfl
@[simp] theorem safe_bool {b : Bool} : (Value.bool b).Safe := trivial
@[simp] theorem safe_void : Value.void.Safe := trivial
@[simp] theorem safe_nil : Value.nil.Safe := trivial
@[simp] theorem safe_vec {i : Nat} : (Value.vec i).Safe := trivial
@[simp] theorem safe_builtin {b : Builtin} : (Value.builtin b).Safe := trivial
@[simp] theorem safe_sym {s : String} : (Value.sym s).Safe := trivial
@[simp] theorem safe_str {s : String} : (Value.str s).Safe := trivial
@[simp] theorem safe_char {c : Char} : (Value.char c).Safe := trivial
@[simp] theorem safe_transformer {r : Macro.Rules} : (Value.transformer r).Safe := trivial

theorem safe_ofList : ∀ {vs : List Value}, (∀ v ∈ vs, v.Safe) → (Value.ofList vs).Safe
  | [], _ => trivial
  | v :: vs, h => ⟨h v (by simp), safe_ofList fun x hx => h x (by simp [hx])⟩

theorem safe_elems : ∀ {v : Value}, v.Safe → ∀ x ∈ v.elems, x.Safe
  | .pair a d, h, x, hx => by
    simp only [elems, List.mem_cons] at hx
    rcases hx with rfl | hx
    · exact h.1
    · exact safe_elems h.2 x hx
  | .nil, _, x, hx => by simp [elems] at hx
  | .num _, h, x, hx => by simp [elems] at hx; subst hx; exact h
  | .bool _, h, x, hx => by simp [elems] at hx; subst hx; exact h
  | .char _, h, x, hx => by simp [elems] at hx; subst hx; exact h
  | .str _, h, x, hx => by simp [elems] at hx; subst hx; exact h
  | .sym _, h, x, hx => by simp [elems] at hx; subst hx; exact h
  | .closure _ _, h, x, hx => by simp [elems] at hx; subst hx; exact h
  | .builtin _, h, x, hx => by simp [elems] at hx; subst hx; exact h
  | .vec _, h, x, hx => by simp [elems] at hx; subst hx; exact h
  | .transformer _, h, x, hx => by simp [elems] at hx; subst hx; exact h
  | .void, h, x, hx => by simp [elems] at hx; subst hx; exact h

end Value

/-- all values of a list are safe -/
def SafeAll (vs : List Value) : Prop := ∀ v ∈ vs, v.Safe

theorem safeAll_nil : SafeAll [] := by simp [SafeAll]
theorem safeAll_cons {v vs} : SafeAll (v :: vs) ↔ v.Safe ∧ SafeAll vs := by simp [SafeAll]

namespace Prim

/-- the outcome of a native procedure: not a panic, a safe value, safe stored values -/
structure ROK (r : Res Value) : Prop where
  np : NoPanic r.1
  val : ∀ v, r.1 = .ok v → v.Safe

theorem rok_ok {σ : Store} {v : Value} (h : v.Safe) : ROK (ok v σ) :=
  ⟨fun _ _ h' => (by cases h'), fun _ e => (by cases e; exact h)⟩
theorem rok_err {σ : Store} {e : Err} (h : ∀ s, e ≠ .panic s) : ROK (err e σ : Res Value) :=
  ⟨fun s l h' => (by cases h'; exact h s rfl), fun _ e => (by cases e)⟩

theorem rok_lift_num {σ : Store} {r : Except Err Num} (hn : NoPanicE r) (hv : ∀ n, r = .ok n → n.PosDen) :
    ROK (lift σ r .num) := by
  cases r with
  | ok a => exact rok_ok (hv a rfl)
  | error e => exact rok_err (fun s h => hn s (by rw [h]))

theorem rok_lift_bool {σ : Store} {r : Except Err Bool} (hn : NoPanicE r) : ROK (lift σ r .bool) := by
  cases r with
  | ok a => exact rok_ok trivial
  | error e => exact rok_err (fun s h => hn s (by rw [h]))

theorem expectNumber_ok {v : Value} {n : Num} (h : expectNumber v = .ok n) : v = .num n := by
  cases v <;> simp [expectNumber] at h <;> (subst h; rfl)

theorem expectNumber_err {v : Value} {e : Err} (h : expectNumber v = .error e) : e = .type := by
  cases v <;> simp [expectNumber] at h <;> exact h.symm

theorem rok_num1 {σ : Store} {args : List Value} {b : Builtin} {f : Num → Except Err Num}
    (hf : Num.SafeOp1 f) (ha : SafeAll args) (hl : 1 ≤ args.length) : ROK (num1 σ args b f) := by
  unfold num1
  cases args with
  | nil => simp at hl
  | cons x rest =>
    simp only
    split
    · rename_i e he; exact rok_err (by rw [expectNumber_err he]; intro s h; cases h)
    · rename_i n hn
      have hx : n.PosDen := by
        have := ha x (by simp); rw [expectNumber_ok hn] at this; exact this
      obtain ⟨h1, h2⟩ := hf n hx
      split
      · rename_i r hr; exact rok_ok (h2 r hr)
      · rename_i e he; exact rok_err (fun s h => h1 s (by rw [he, h]))

theorem rok_num2 {σ : Store} {args : List Value} {b : Builtin} {f : Num → Num → Except Err Num}
    (hf : Num.SafeOp2 f) (ha : SafeAll args) (hl : 2 ≤ args.length) : ROK (num2 σ args b f) := by
  unfold num2
  match args, hl with
  | x :: y :: rest, _ =>
    simp only
    split
    · rename_i e he; exact rok_err (by rw [expectNumber_err he]; intro s h; cases h)
    · rename_i n hn
      have hx : n.PosDen := by
        have := ha x (by simp); rw [expectNumber_ok hn] at this; exact this
      split
      · rename_i e he; exact rok_err (by rw [expectNumber_err he]; intro s h; cases h)
      · rename_i m hm
        have hy : m.PosDen := by
          have := ha y (by simp); rw [expectNumber_ok hm] at this; exact this
        obtain ⟨h1, h2⟩ := hf n m hx hy
        split
        · rename_i r hr; exact rok_ok (h2 r hr)
        · rename_i e he; exact rok_err (fun s h => h1 s (by rw [he, h]))

theorem safeOp1_real (g : Num → Float32) : Num.SafeOp1 (fun n => .ok (.real (g n))) :=
  fun _ _ => ⟨fun s h => (by cases h), fun r h => (by cases h; trivial)⟩
theorem safeOp2_real (g : Num → Num → Float32) : Num.SafeOp2 (fun n m => .ok (.real (g n m))) :=
  fun _ _ _ _ => ⟨fun s h => (by cases h), fun r h => (by cases h; trivial)⟩

theorem foldNum_safe {f : Num → Num → Except Err Num} (hf : Num.SafeOp2 f) :
    ∀ (args : List Value) (init : Num), init.PosDen → SafeAll args →
      NoPanicE (foldNum f init args) ∧ ∀ r, foldNum f init args = .ok r → r.PosDen
  | [], init, hi, _ => by
    simp only [foldNum, List.foldlM_nil]
    exact ⟨fun s h => (by cases h), fun r h => (by cases h; exact hi)⟩
  | v :: rest, init, hi, ha => by
    simp only [foldNum, List.foldlM_cons]
    cases hv : expectNumber v with
    | error e =>
      rw [expectNumber_err hv]
      exact ⟨fun s h => (by cases h), fun r h => (by cases h)⟩
    | ok n =>
      have hn : n.PosDen := by
        have := ha v (by simp); rw [expectNumber_ok hv] at this; exact this
      obtain ⟨h1, h2⟩ := hf init n hi hn
      simp only [bind, Except.bind]
      cases hr : f init n with
      | error e => exact ⟨fun s h => h1 s (by rw [hr]; cases h; rfl), fun r h => (by cases h)⟩
      | ok r0 => exact foldNum_safe hf rest r0 (h2 r0 hr) (fun x hx => ha x (by simp [hx]))


theorem subDiv_safe {f : Num → Num → Except Err Num} (hf : Num.SafeOp2 f) {unit : Num} (hu : unit.PosDen)
    {args : List Value} (ha : SafeAll args) (hl : 1 ≤ args.length) :
    NoPanicE (subDiv f unit args) ∧ ∀ r, subDiv f unit args = .ok r → r.PosDen := by
  unfold subDiv
  cases args with
  | nil => simp at hl
  | cons x rest =>
    simp only [bind, Except.bind]
    cases hx : expectNumber x with
    | error e =>
      rw [expectNumber_err hx]
      exact ⟨fun s h => (by cases h), fun r h => (by cases h)⟩
    | ok n =>
      have hn : n.PosDen := by
        have := ha x (by simp); rw [expectNumber_ok hx] at this; exact this
      simp only
      cases rest with
      | nil =>
        obtain ⟨h1, h2⟩ := hf unit n hu hn
        exact ⟨h1, h2⟩
      | cons y more =>
        simp only
        cases hy : expectNumber y with
        | error e =>
          rw [expectNumber_err hy]
          exact ⟨fun s h => (by cases h), fun r h => (by cases h)⟩
        | ok m =>
          have hm : m.PosDen := by
            have := ha y (by simp); rw [expectNumber_ok hy] at this; exact this
          obtain ⟨h1, h2⟩ := hf n m hn hm
          simp only
          cases hr : f n m with
          | error e => exact ⟨fun s h => h1 s (by rw [hr]; cases h; rfl), fun r h => (by cases h)⟩
          | ok r0 => exact foldNum_safe hf more r0 (h2 r0 hr) (fun v hv => ha v (by simp [hv]))

theorem divArgs_safe {args : List Value} (ha : SafeAll args) (hl : 1 ≤ args.length) :
    NoPanicE (divArgs args) ∧ ∀ r, divArgs args = .ok r → r.PosDen := by
  rcases divArgs_cases args with h | h <;> rw [h]
  · exact ⟨fun s h => (by cases h), fun r h => (by cases h)⟩
  · exact subDiv_safe Num.safe_div (unit := .int 1) trivial ha hl

theorem extremum_fold_safe {step : Num → Num → Num} (hs : ∀ a b, a.PosDen → b.PosDen → (step a b).PosDen) :
    ∀ (rest : List Value) (init : Num), init.PosDen → SafeAll rest →
      NoPanicE (rest.foldlM (fun a v => do let b ← expectNumber v; pure (step a b)) init) ∧
      ∀ r, rest.foldlM (fun a v => do let b ← expectNumber v; pure (step a b)) init = .ok r → r.PosDen
  | [], init, hi, _ => by
    simp only [List.foldlM_nil]
    exact ⟨fun s h => (by cases h), fun r h => (by cases h; exact hi)⟩
  | v :: rest, init, hi, ha => by
    simp only [List.foldlM_cons, bind, Except.bind]
    cases hv : expectNumber v with
    | error e =>
      rw [expectNumber_err hv]
      exact ⟨fun s h => (by cases h), fun r h => (by cases h)⟩
    | ok n =>
      have hn : n.PosDen := by
        have := ha v (by simp); rw [expectNumber_ok hv] at this; exact this
      exact extremum_fold_safe hs rest _ (hs _ _ hi hn) (fun x hx => ha x (by simp [hx]))

theorem extremum_safe {step : Num → Num → Num} (hs : ∀ a b, a.PosDen → b.PosDen → (step a b).PosDen)
    {args : List Value} (ha : SafeAll args) (hl : 1 ≤ args.length) :
    NoPanicE (extremum step args) ∧ ∀ r, extremum step args = .ok r → r.PosDen := by
  unfold extremum
  cases args with
  | nil => simp at hl
  | cons x rest =>
    simp only [bind, Except.bind]
    cases hx : expectNumber x with
    | error e =>
      rw [expectNumber_err hx]
      exact ⟨fun s h => (by cases h), fun r h => (by cases h)⟩
    | ok n =>
      have hn : n.PosDen := by
        have := ha x (by simp); rw [expectNumber_ok hx] at this; exact this
      exact extremum_fold_safe hs rest n hn (fun v hv => ha v (by simp [hv]))

theorem cmpNum_go_np (op : Num → Num → Bool) : ∀ (vs : List Value) (last : Num) (acc : Bool),
    NoPanicE (cmpNum.go op last acc vs)
  | [], last, acc => by simp only [cmpNum.go]; intro s h; cases h
  | v :: vs, last, acc => by
    simp only [cmpNum.go, bind, Except.bind]
    cases hv : expectNumber v with
    | error e => rw [expectNumber_err hv]; intro s h; cases h
    | ok n =>
      simp only
      exact cmpNum_go_np op vs n _

theorem cmpNum_np (op : Num → Num → Bool) (args : List Value) : NoPanicE (cmpNum op args) := by
  unfold cmpNum
  cases args with
  | nil => intro s h; cases h
  | cons x rest =>
    simp only [bind, Except.bind]
    cases hx : expectNumber x with
    | error e => rw [expectNumber_err hx]; intro s h; cases h
    | ok n => exact cmpNum_go_np op rest n true

theorem cmpBool_go_np : ∀ (vs : List Value) (last : Bool) (acc : Bool), NoPanicE (cmpBool.go last acc vs)
  | [], last, acc => by simp only [cmpBool.go]; intro s h; cases h
  | v :: vs, last, acc => by
    cases v <;> simp only [cmpBool.go] <;> try (intro s h; cases h; done)
    exact cmpBool_go_np vs _ _

theorem cmpBool_np (args : List Value) : NoPanicE (cmpBool args) := by
  unfold cmpBool
  cases args with
  | nil => intro s h; cases h
  | cons x rest =>
    cases x <;> simp only <;> try (intro s h; cases h; done)
    exact cmpBool_go_np rest _ _


theorem vec_alloc_some {σ : Store} {id : Nat} (h : σ.AllocIn (.vec id)) : σ.vecs[id]? ≠ none := by
  have : id < σ.vecs.size := h.2 id (by simp [Value.vecIds])
  simp [this]

open Eval in
theorem applyPure_rok {σ : Store} {b : Builtin} {args : List Value} (hb : b ≠ .apply)
    (har : arityOk b.arity.1 b.arity.2 args.length = true) (ha : SafeAll args)
    (hal : ∀ a ∈ args, σ.AllocIn a) (hv : σ.ValsSafe) : ROK (applyPure σ b args) := by
  have hnp : ∀ {e : Err}, (∀ s, e ≠ .panic s) → ROK (err e σ : Res Value) := rok_err
  cases b <;> simp only [Builtin.arity, arityOk_iff] at har <;> simp only [applyPure]
  case apply => exact absurd rfl hb
  case add => have h := foldNum_safe Num.safe_add args (.int 0) trivial ha; exact rok_lift_num h.1 h.2
  case mul => have h := foldNum_safe Num.safe_mul args (.int 1) trivial ha; exact rok_lift_num h.1 h.2
  case sub => have h := subDiv_safe Num.safe_sub (unit := .int 0) trivial ha har.1; exact rok_lift_num h.1 h.2
  case div => have h := divArgs_safe ha har.1; exact rok_lift_num h.1 h.2
  case max => exact rok_lift_num (extremum_safe (fun _ _ => Num.posDen_maxStep) ha har.1).1 (extremum_safe (fun _ _ => Num.posDen_maxStep) ha har.1).2
  case min => exact rok_lift_num (extremum_safe (fun _ _ => Num.posDen_minStep) ha har.1).1 (extremum_safe (fun _ _ => Num.posDen_minStep) ha har.1).2
  case numEq => exact rok_lift_bool (cmpNum_np _ _)
  case lt => exact rok_lift_bool (cmpNum_np _ _)
  case le => exact rok_lift_bool (cmpNum_np _ _)
  case gt => exact rok_lift_bool (cmpNum_np _ _)
  case ge => exact rok_lift_bool (cmpNum_np _ _)
  case booleanEq => exact rok_lift_bool (cmpBool_np _)
  case abs => exact rok_num1 Num.safe_abs ha (by omega)
  case floor => exact rok_num1 Num.safe_floor ha (by omega)
  case ceiling => exact rok_num1 Num.safe_ceiling ha (by omega)
  case exact => exact rok_num1 Num.safe_exact ha (by omega)
  case floorQuotient => exact rok_num2 Num.safe_floorQuotient ha (by omega)
  case floorRemainder => exact rok_num2 Num.safe_floorRemainder ha (by omega)
  case sqrt => exact rok_num1 (safeOp1_real _) ha (by omega)
  case exp => exact rok_num1 (safeOp1_real _) ha (by omega)
  case ln => exact rok_num1 (safeOp1_real _) ha (by omega)
  case sin => exact rok_num1 (safeOp1_real _) ha (by omega)
  case cos => exact rok_num1 (safeOp1_real _) ha (by omega)
  case tan => exact rok_num1 (safeOp1_real _) ha (by omega)
  case asin => exact rok_num1 (safeOp1_real _) ha (by omega)
  case acos => exact rok_num1 (safeOp1_real _) ha (by omega)
  case atan => exact rok_num1 (safeOp1_real _) ha (by omega)
  case log => exact rok_num2 (safeOp2_real _) ha (by omega)
  case atan2 => exact rok_num2 (safeOp2_real _) ha (by omega)
  all_goals (repeat' split)
  all_goals first
    | (refine rok_err ?_; intro s h; cases h; done)
    | (exfalso; simp at har; done)
    | (exfalso; simp at har; omega)
    | (exact rok_ok trivial)
    | (refine rok_ok ?_; simp_all [SafeAll]; done)
    | (exfalso; obtain ⟨x, y, t, e⟩ := len_ge_two har.1; rename_i hx; exact hx x y t e)
    | (exfalso; obtain ⟨x, y, z, t, e⟩ := len_ge_three har.1; rename_i hx; exact hx x y z t e)
    | (exfalso; rename_i hn; exact vec_alloc_some (hal _ (by simp)) hn)
    | (rename_i cell hc _ _ x hx; exact rok_ok (hv.vec_vals _ cell hc x (List.mem_of_getElem? hx)))
    | skip


theorem valsSafe_of_eq {σ σ' : Store} (h : σ.ValsSafe) (hf : σ'.frames = σ.frames) (hv : σ'.vecs = σ.vecs) :
    σ'.ValsSafe :=
  ⟨by rw [hf]; exact h.frame_vals, by rw [hv]; exact h.vec_vals⟩

theorem valsSafe_allocVec {σ : Store} (h : σ.ValsSafe) (m : Bool) {items : List Value} (hi : SafeAll items) :
    (σ.allocVec m items).2.ValsSafe := by
  refine ⟨h.frame_vals, fun i c hc v hv => ?_⟩
  simp only [Store.allocVec, Array.getElem?_push] at hc
  split at hc
  · cases hc; exact hi v hv
  · exact h.vec_vals i c hc v hv

theorem valsSafe_vsetStore {σ : Store} (h : σ.ValsSafe) {id : Nat} {cell : VecCell} (hc : σ.vecs[id]? = some cell)
    (n : Nat) {obj : Value} (ho : obj.Safe) : (vsetStore σ id cell n obj).ValsSafe := by
  refine ⟨h.frame_vals, fun i c hi v hv => ?_⟩
  rw [vsetStore_vecs_getElem?] at hi
  by_cases hid : id = i
  · subst hid
    simp only [if_true, Store.getElem?_some_lt hc, Option.some.injEq] at hi
    subst hi
    rcases List.mem_or_eq_of_mem_set hv with hv | rfl
    · exact h.vec_vals _ cell hc v hv
    · exact ho
  · simp only [hid, if_false] at hi
    exact h.vec_vals i c hi v hv

theorem applyPure_valsSafe {σ : Store} (h : σ.ValsSafe) (b : Builtin) {args : List Value}
    (ha : SafeAll args) : (applyPure σ b args).2.ValsSafe := by
  by_cases h1 : b = .vector
  · subst h1; exact valsSafe_allocVec h true ha
  by_cases h2 : b = .makeVector
  · subst h2
    rcases applyPure_makeVector_shape (σ := σ) (args := args) (r := (applyPure σ .makeVector args).1) (σ' := (applyPure σ .makeVector args).2) rfl with
      ⟨h', _⟩ | ⟨n, fill, rest, hargs, _, _, h'⟩
    · rw [h']; exact h
    · rw [h']
      refine valsSafe_allocVec h true fun v hv => ?_
      rw [List.eq_of_mem_replicate hv]
      exact ha _ (by simp [hargs])
  by_cases h3 : b = .vectorSet
  · subst h3
    rcases applyPure_vectorSet_shape (σ := σ) (args := args) (r := (applyPure σ .vectorSet args).1) (σ' := (applyPure σ .vectorSet args).2) rfl with
      ⟨h', _⟩ | ⟨id, n, obj, rest, cell, hargs, hc, _, _, _, _, h'⟩
    · rw [h']; exact h
    · rw [h']; exact valsSafe_vsetStore h hc _ (ha _ (by simp [hargs]))
  exact valsSafe_of_eq h (applyPure_frames σ b args) (applyPure_vecs σ b args h1 h2 h3)

end Prim
end Ruschm

/-
Helper lemmas for the library properties C12, C13, C14 (`RuschmProofs/C12.lean` …).
Vocabulary: `RuschmSpec/Lib.lean`.
-/
import RuschmSpec.Lib

namespace Ruschm
namespace Interp
open Ruschm

/-! ## association lists keyed by library name -/

theorem libLookup_libInsert_self {α} (l : List (LibName × α)) (k : LibName) (v : α) :
    libLookup (libInsert l k v) k = some v := by
  induction l with
  | nil => simp [libInsert, libLookup]
  | cons p rest ih =>
    obtain ⟨k', v'⟩ := p
    by_cases h : k' = k
    · simp [libInsert, libLookup, h]
    · simp [libInsert, libLookup, h, ih]

theorem libLookup_libInsert_ne {α} (l : List (LibName × α)) {k k' : LibName} (v : α) (hne : k' ≠ k) :
    libLookup (libInsert l k v) k' = libLookup l k' := by
  induction l with
  | nil => simp [libInsert, libLookup, Ne.symm hne]
  | cons p rest ih =>
    obtain ⟨k'', v''⟩ := p
    by_cases h : k'' = k
    · subst h; simp [libInsert, libLookup, Ne.symm hne]
    · by_cases h2 : k'' = k'
      · subst h2; simp [libInsert, libLookup, h]
      · simp [libInsert, libLookup, h, h2, ih]

/-- inserting never disturbs an entry that is already there, unless it is for the same key -/
theorem libLookup_libInsert_of_some {α} (l : List (LibName × α)) {k n : LibName} {v d : α}
    (hk : libLookup l k = none) (hn : libLookup l n = some d) :
    libLookup (libInsert l k v) n = some d := by
  have : n ≠ k := by rintro rfl; simp [hk] at hn
  rw [libLookup_libInsert_ne _ _ this, hn]

/-! ## C12: import sets over libraries that need no evaluation -/

theorem direct_cached {fuel : Nat} {st : State} {name : LibName} {loc : Loc} {defs : S.Bindings}
    (hip : name ∉ st.inProgress) (hc : libLookup st.instances name = some defs) :
    evalImportSet (fuel + 2) st (.direct name loc) = (.ok defs, st) := by
  rw [evalImportSet]
  have : st.inProgress.contains name = false := by simpa using hip
  simp only [this]
  rw [getLibrary]
  simp [hc]

theorem direct_native {fuel : Nat} {st : State} {name : LibName} {loc : Loc} {defs : S.Bindings}
    (hip : name ∉ st.inProgress) (hc : libLookup st.instances name = none)
    (hf : libLookup st.factories name = some (.native defs)) :
    evalImportSet (fuel + 2) st (.direct name loc) =
      (.ok defs, { st with instances := libInsert st.instances name defs }) := by
  rw [evalImportSet]
  have : st.inProgress.contains name = false := by simpa using hip
  simp only [this]
  rw [getLibrary]
  simp [hc, hf]

theorem exportsOf_cache_native {st : State} {name : LibName} {defs : S.Bindings}
    (hc : libLookup st.instances name = none)
    (hf : libLookup st.factories name = some (.native defs)) (n : LibName) :
    exportsOf { st with instances := libInsert st.instances name defs } n = exportsOf st n := by
  unfold exportsOf
  by_cases h : n = name
  · subst h; simp [libLookup_libInsert_self, hc, hf]
  · simp [libLookup_libInsert_ne _ _ h]

/-- the conclusion of `importSet_eq_spec` -/
structure ImportSetSpec (fuel : Nat) (st : State) (s : ImportSet) (bs : S.Bindings) (st' : State) : Prop where
  eval : evalImportSet fuel st s = (.ok bs, st')
  same : SameButInstances st st'
  exports : ∀ n, exportsOf st' n = exportsOf st n
  cached : (libLookup st.instances (S.leaf s)).isSome → st' = st
  grow : ∀ n d, libLookup st.instances n = some d → libLookup st'.instances n = some d

theorem importSet_spec (s : ImportSet) : ∀ (fuel : Nat) (st : State) (bs : S.Bindings),
    S.fuelNeeded s ≤ fuel → S.leaf s ∉ st.inProgress → S.denote s (exportsOf st) = some bs →
    ∃ st', ImportSetSpec fuel st s bs st' := by
  induction s with
  | direct name loc =>
    intro fuel st bs hf hip hd
    obtain ⟨fuel, rfl⟩ : ∃ k, fuel = k + 2 := ⟨fuel - 2, by simp [S.fuelNeeded] at hf; omega⟩
    simp only [S.denote, exportsOf] at hd
    simp only [S.leaf] at hip
    cases hc : libLookup st.instances name with
    | some d =>
      simp [hc] at hd; subst hd
      exact ⟨st, direct_cached hip hc, rfl, fun _ => rfl, fun _ => rfl, fun _ _ h => h⟩
    | none =>
      simp only [hc] at hd
      cases hfac : libLookup st.factories name with
      | none => simp [hfac] at hd
      | some f =>
        cases f with
        | ast _ => simp [hfac] at hd
        | native d =>
          simp [hfac] at hd; subst hd
          refine ⟨_, direct_native hip hc hfac, rfl, exportsOf_cache_native hc hfac, ?_, ?_⟩
          · simp [S.leaf, hc]
          · intro n d' h; exact libLookup_libInsert_of_some _ hc h
  | only sub ids ih =>
    intro fuel st bs hf hip hd
    obtain ⟨fuel, rfl⟩ : ∃ k, fuel = k + 1 := ⟨fuel - 1, by simp [S.fuelNeeded] at hf; omega⟩
    simp only [S.denote, Option.map_eq_some_iff] at hd
    obtain ⟨bs0, hd0, rfl⟩ := hd
    obtain ⟨st', h⟩ := ih fuel st bs0 (by simp [S.fuelNeeded] at hf; omega) hip hd0
    exact ⟨st', by rw [evalImportSet, h.eval], h.same, h.exports, h.cached, h.grow⟩
  | except sub ids ih =>
    intro fuel st bs hf hip hd
    obtain ⟨fuel, rfl⟩ : ∃ k, fuel = k + 1 := ⟨fuel - 1, by simp [S.fuelNeeded] at hf; omega⟩
    simp only [S.denote, Option.map_eq_some_iff] at hd
    obtain ⟨bs0, hd0, rfl⟩ := hd
    obtain ⟨st', h⟩ := ih fuel st bs0 (by simp [S.fuelNeeded] at hf; omega) hip hd0
    exact ⟨st', by rw [evalImportSet, h.eval], h.same, h.exports, h.cached, h.grow⟩
  | «prefix» sub p ih =>
    intro fuel st bs hf hip hd
    obtain ⟨fuel, rfl⟩ : ∃ k, fuel = k + 1 := ⟨fuel - 1, by simp [S.fuelNeeded] at hf; omega⟩
    simp only [S.denote, Option.map_eq_some_iff] at hd
    obtain ⟨bs0, hd0, rfl⟩ := hd
    obtain ⟨st', h⟩ := ih fuel st bs0 (by simp [S.fuelNeeded] at hf; omega) hip hd0
    exact ⟨st', by rw [evalImportSet, h.eval], h.same, h.exports, h.cached, h.grow⟩
  | rename sub pairs ih =>
    intro fuel st bs hf hip hd
    obtain ⟨fuel, rfl⟩ : ∃ k, fuel = k + 1 := ⟨fuel - 1, by simp [S.fuelNeeded] at hf; omega⟩
    simp only [S.denote, Option.map_eq_some_iff] at hd
    obtain ⟨bs0, hd0, rfl⟩ := hd
    obtain ⟨st', h⟩ := ih fuel st bs0 (by simp [S.fuelNeeded] at hf; omega) hip hd0
    refine ⟨st', ?_, h.same, h.exports, h.cached, h.grow⟩
    rw [evalImportSet, h.eval]
    simp only [S.renameTarget]
    congr 2
    apply List.map_congr_left
    intro b _
    cases pairs.reverse.lookup b.1 <;> rfl

end Interp
end Ruschm

/-
Model of the numeric tower: `src/values.rs` (`Number`, `upcast_oprands`, `exact_ratio`, the
arithmetic traits, `abs floor ceiling floor_quotient floor_remainder exact`, `exact_eqv`,
`PartialEq`/`PartialOrd`) and the numeric builtins of `src/interpreter/library/native/base.rs`
(`add sub mul div`, comparison chains, `max`/`min`).

`Float32` is Lean's opaque binary32 type: every theorem about it holds for whatever the host's
IEEE arithmetic does, exactly the status the Rust code gives `f32`.
-/
import RuschmModel.Basic
namespace Ruschm

/-- `Number<f32>`: `Integer(i32) | Real(f32) | Rational(i32, i32)`. Components are unbounded
`Int`s here; the `i32` range is enforced by `exactRatio`, the only constructor of exact results. -/
inductive Num where
  | int (i : Int)
  | real (r : Float32)
  | rat (n d : Int)
  deriving Inhabited

namespace Num

/-- `R::from(n).unwrap() / R::from(d).unwrap()` -/
def ratToReal (n d : Int) : Float32 := Float32.ofInt n / Float32.ofInt d

/-- `Number::exact_ratio(numerator, denominator)`.
Rust divides by `gcd * signum(denominator)`, which is 0 exactly when the denominator is 0: that
division panics, so the model reports `panic`. -/
def exactRatio (n d : Int) : Except Err Num :=
  let divisor : Int := (Int.gcd n d : Int) * d.sign
  if divisor = 0 then .error (.panic "exact_ratio: zero denominator") else
  let n' := n.tdiv divisor
  let d' := d.tdiv divisor
  if fitsI32 n' && fitsI32 d' then
    if d' = 1 then .ok (.int n') else .ok (.rat n' d')
  else .ok (.real (ratToReal n' d'))

/-- `NumberBinaryOperand` -/
inductive Pair where
  | int (a b : Int)
  | real (a b : Float32)
  | rat (a1 a2 b1 b2 : Int)

/-- `upcast_oprands`: Integer ⇒ Rational ⇒ Real -/
def upcast : Num → Num → Pair
  | .rat n d, .real b => .real (ratToReal n d) b
  | .real a, .rat n d => .real a (ratToReal n d)
  | .int a, .real b => .real (Float32.ofInt a) b
  | .real a, .int b => .real a (Float32.ofInt b)
  | .rat n d, .int b => .rat n d b 1
  | .int a, .rat n d => .rat a 1 n d
  | .int a, .int b => .int a b
  | .real a, .real b => .real a b
  | .rat a1 a2, .rat b1 b2 => .rat a1 a2 b1 b2

def Pair.lhs : Pair → Num
  | .int a _ => .int a | .real a _ => .real a | .rat a1 a2 _ _ => .rat a1 a2
def Pair.rhs : Pair → Num
  | .int _ b => .int b | .real _ b => .real b | .rat _ _ b1 b2 => .rat b1 b2

def add (x y : Num) : Except Err Num :=
  match upcast x y with
  | .int a b => exactRatio (a + b) 1
  | .real a b => .ok (.real (a + b))
  | .rat a1 a2 b1 b2 => exactRatio (a1 * b2 + a2 * b1) (a2 * b2)

def sub (x y : Num) : Except Err Num :=
  match upcast x y with
  | .int a b => exactRatio (a - b) 1
  | .real a b => .ok (.real (a - b))
  | .rat a1 a2 b1 b2 => exactRatio (a1 * b2 - a2 * b1) (a2 * b2)

def mul (x y : Num) : Except Err Num :=
  match upcast x y with
  | .int a b => exactRatio (a * b) 1
  | .real a b => .ok (.real (a * b))
  | .rat a1 a2 b1 b2 => exactRatio (a1 * b1) (a2 * b2)

def div (x y : Num) : Except Err Num :=
  match upcast x y with
  | .int a b => if b = 0 then .error .divZero else exactRatio a b
  | .real a b => .ok (.real (a / b))
  | .rat a1 a2 b1 b2 =>
    if b1 = 0 then .error .divZero else
    if a2 = 0 then .error .divZero else
    if b2 = 0 then .error .divZero else
    exactRatio (a1 * b2) (a2 * b1)

def abs : Num → Except Err Num
  | .int i => exactRatio i.natAbs 1
  | .real r => .ok (.real r.abs)
  | .rat n d => exactRatio n.natAbs d.natAbs

/-- Sign-normalised numerator and denominator used by `floor`/`ceiling`:
`(a * signum(b), |b|)`. -/
def signNorm (a b : Int) : Int × Int := (a * b.sign, (b.natAbs : Int))

/-- `div_euclid` of `i64`; a zero divisor panics in Rust. -/
def floor : Num → Except Err Num
  | .int i => .ok (.int i)
  | .real r => .ok (.real r.floor)
  | .rat a b =>
    let (a', b') := signNorm a b
    if b' = 0 then .error (.panic "floor: zero denominator") else exactRatio (a' / b') 1

def ceiling : Num → Except Err Num
  | .int i => .ok (.int i)
  | .real r => .ok (.real r.ceil)
  | .rat a b =>
    let (a', b') := signNorm a b
    if b' = 0 then .error (.panic "ceiling: zero denominator") else exactRatio (-((-a') / b')) 1

def floorQuotient (x y : Num) : Except Err Num := do
  let q ← div x y
  floor q

def floorRemainder (x y : Num) : Except Err Num := do
  let q ← floorQuotient x y
  let p ← mul q y
  sub x p

/-- `num.round().to_i32()`: `None` for NaN and for values outside the `i32` range. -/
def realToI32? (r : Float32) : Option Int :=
  let x := r.round
  if x.isNaN then none
  else if x < Float32.ofInt (-2147483648) then none
  else if x ≥ Float32.ofInt 2147483648 then none
  else some x.toInt32.toInt

def exact : Num → Except Err Num
  | .real r => match realToI32? r with
    | some i => .ok (.int i)
    | none => .error .inexactConversion
  | x => .ok x

/-- `exact_eqv` (used by `eqv?`) -/
def exactEqv : Num → Num → Bool
  | .int a, .int b => a == b
  | .rat a1 b1, .rat a2 b2 => a1 * b2 == b1 * a2
  | .real a, .real b => a == b
  | _, _ => false

/-- `PartialEq for Number` (`=`) -/
def eq (x y : Num) : Bool :=
  match upcast x y with
  | .int a b => a == b
  | .rat a1 a2 b1 b2 => a1 * b2 == b1 * a2
  | .real a b => a == b

/-- `PartialOrd::lt` via `partial_cmp` -/
def lt (x y : Num) : Bool :=
  match upcast x y with
  | .int a b => decide (a < b)
  | .rat a1 a2 b1 b2 => decide (a1 * b2 < b1 * a2)
  | .real a b => a < b

def gt (x y : Num) : Bool :=
  match upcast x y with
  | .int a b => decide (a > b)
  | .rat a1 a2 b1 b2 => decide (a1 * b2 > b1 * a2)
  | .real a b => a > b

def le (x y : Num) : Bool :=
  match upcast x y with
  | .int a b => decide (a ≤ b)
  | .rat a1 a2 b1 b2 => decide (a1 * b2 ≤ b1 * a2)
  | .real a b => a ≤ b

def ge (x y : Num) : Bool :=
  match upcast x y with
  | .int a b => decide (a ≥ b)
  | .rat a1 a2 b1 b2 => decide (a1 * b2 ≥ b1 * a2)
  | .real a b => a ≥ b

/-- one step of `first_of_order!(max, >)`: the kept operand is re-promoted (`lhs()`/`rhs()` of the
upcast pair) only when the pair is inexact; otherwise it is the argument itself. -/
def maxStep (a b : Num) : Num :=
  match upcast a b with
  | .real x y => if gt a b then .real x else .real y
  | _ => if gt a b then a else b

def minStep (a b : Num) : Num :=
  match upcast a b with
  | .real x y => if lt a b then .real x else .real y
  | _ => if lt a b then a else b

/-! ### n-ary builtins of `base.rs`, on argument lists that are already numbers
(the interleaved `expect_number` type checks are in `RuschmModel/Prim.lean`). -/

/-- `add`: `try_fold(Integer(0), +)` -/
def addAll (xs : List Num) : Except Err Num := xs.foldlM add (.int 0)
/-- `mul`: `try_fold(Integer(1), *)` -/
def mulAll (xs : List Num) : Except Err Num := xs.foldlM mul (.int 1)
/-- `sub`: one argument negates; the arity check guarantees at least one argument, an empty
list is the `unwrap` panic. -/
def subAll : List Num → Except Err Num
  | [] => .error (.panic "sub: no argument")
  | [x] => sub (.int 0) x
  | x :: y :: rest => do let i ← sub x y; rest.foldlM sub i
/-- the plain left fold of `div` -/
def divFold : List Num → Except Err Num
  | [] => .error (.panic "div: no argument")
  | [x] => div (.int 1) x
  | x :: y :: rest => do let i ← div x y; rest.foldlM div i

/-- `!matches!(x, Number::Real(_))` -/
def notReal : Num → Bool
  | .real _ => false
  | _ => true

/-- an exact zero as a divisor: `Number::Integer(0) | Number::Rational(0, _)` -/
def isExactZero : Num → Bool
  | .int 0 => true
  | .rat 0 _ => true
  | _ => false

/-- the divisors `div` meets while every operand so far is exact (`exact_so_far`): of the longest prefix of exact
operands, all but the first - or the single operand of the one-argument form -/
def exactDivisors (xs : List Num) : List Num :=
  match xs with
  | [x] => if x.notReal then [x] else []
  | _ => (xs.takeWhile notReal).drop 1

/-- `div`: the left fold of `/`; while every operand so far is exact, an exact zero divisor is an error even when the
running quotient has left the exact range and is carried on as a real (an error met earlier in that prefix is a
division by zero as well, so the outcome is the same error) -/
def divAll (xs : List Num) : Except Err Num :=
  if (exactDivisors xs).any isExactZero then .error .divZero else divFold xs

/-- `typed_comparision!`: true for no or one argument, otherwise false at the first adjacent pair
that fails. -/
def cmpChain (op : Num → Num → Bool) : List Num → Bool
  | [] => true
  | [_] => true
  | a :: b :: rest => if op a b then cmpChain op (b :: rest) else false

def maxAll : List Num → Except Err Num
  | [] => .error (.panic "max: no argument")
  | x :: rest => .ok (rest.foldl maxStep x)
def minAll : List Num → Except Err Num
  | [] => .error (.panic "min: no argument")
  | x :: rest => .ok (rest.foldl minStep x)

/-- canonical text used by the line protocol: `i:<n>`, `q:<n>/<d>`, `r:<bits>` -/
def canon : Num → String
  | .int i => "i:" ++ toString i
  | .rat n d => "q:" ++ toString n ++ "/" ++ toString d
  | .real r => if r.isNaN then "r:nan" else "r:" ++ toString r.toBits.toNat

end Num
end Ruschm

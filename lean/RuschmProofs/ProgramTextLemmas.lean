/-
Helper definitions and lemmas for `RuschmProofs/C17More.lean` (end-to-end glue C06 → C01More/C12More →
C17 → C01): a whole program TEXT, read and transformed form by form by `Interp.evalText`, is the run
of its STATEMENTS.

Spec-side vocabulary defined here:
* `runStmts`   — statements evaluated one after another by `eval_ast`, stopping at the first error;
* `AllOk`      — every statement of the list succeeds, each from the state its predecessor left;
* `printStmt`  — the printed form of a program statement: a core expression / definition
                 (`CoreSyntax.renderStmt`) or an import declaration (`ImportSyntax.renderImport`);
* `okStmt`     — the side condition under which the printed form is read back as the statement;
* `programToks`/`programText` — the tokens of the printed forms, and the text under a layout;
* `ReadsAs`    — a list of data is transformed, datum by datum, into a list of statements (up to
                 locations) without changing the syntax environment.
-/
import RuschmProofs.C17
import RuschmProofs.C01More
import RuschmProofs.C12More
import RuschmProofs.LibMoreLemmas

set_option linter.unusedSimpArgs false
set_option linter.unusedVariables false

namespace Ruschm.ProgramText
open Ruschm Ruschm.Interp Ruschm.Front Ruschm.FrontSpec Ruschm.Xform Ruschm.CoreSyntax Ruschm.Text
open Ruschm.Eval (NotFuel)

/-! ## vocabulary -/

/-- The statements one after another, each evaluated by `eval_ast` from the state its predecessor
left; the FIRST error ends the run (nothing after it is evaluated) and is returned with the state
reached; otherwise the value of the last statement (`last` if there is none). -/
def runStmts (fuel : Nat) : State → List Statement → Option Value → Except SErr (Option Value) × State
  | st, [], last => (.ok last, st)
  | st, s :: ss, _ =>
    match evalAst fuel st s with
    | (.error e, st') => (.error e, st')
    | (.ok v, st') => runStmts fuel st' ss v

/-- every statement succeeds, each from the state its predecessor left -/
def AllOk (fuel : Nat) : State → List Statement → Prop
  | _, [] => True
  | st, s :: ss => ∃ v st', evalAst fuel st s = (.ok v, st') ∧ AllOk fuel st' ss

/-- the printed form of a program statement: `(import set …)` for an import declaration, the
printed core form (`CoreSyntax.renderStmt`) for an expression or a definition -/
def printStmt : Statement → Datum
  | .importDecl sets _ => ImportSyntax.renderImport sets
  | .expr e => renderStmt (.expr e)
  | .definition d => renderStmt (.definition d)
  | _ => .nil none

/-- the side condition: a core expression or definition in which no operator is a variable spelled
like a special-form keyword or a macro keyword (`CoreSyntax.coreStmt`), or an import declaration
whose import sets can be written (`ImportSyntax.WF`: the library name starts with an identifier other
than `only`/`except`/`prefix`/`rename`) -/
def okStmt (isMacro : String → Bool) : Statement → Prop
  | .importDecl sets _ => ∀ t ∈ sets, ImportSyntax.WF t
  | .expr e => coreStmt isMacro (.expr e) = true
  | .definition d => coreStmt isMacro (.definition d) = true
  | _ => False

/-- the text of a sequence of data: their canonical written forms (`Syn.ofDatum`), one after the
other, under a layout (blanks, line ends and comments before, between and after the tokens) -/
def formsToks (ps : List Datum) : List Token := Syn.toksL (ps.map Syn.ofDatum)

def formsText (ps : List Datum) (layout : List (List Char)) : List Char :=
  interleave (formsToks ps) layout

/-- the tokens that write the printed forms of the statements down, one form after the other -/
def programToks (sts : List Statement) : List Token := formsToks (sts.map printStmt)

/-- the program text: the tokens of the printed forms under a layout (blanks, line ends and
comments before, between and after the tokens) -/
def programText (sts : List Statement) (layout : List (List Char)) : List Char :=
  formsText (sts.map printStmt) layout

/-- `PrintsAs syn ps sts`: the data `ps` are a way of WRITING the statements `sts` in the syntax
environment `syn`: they carry no locations, and the transformer (with the fuel the interpreter uses)
turns each of them into the corresponding statement (location-free), leaving `syn` as it was. -/
def PrintsAs (syn : SynEnv) : List Datum → List Statement → Prop
  | [], [] => True
  | p :: ps, s :: ss =>
    (p.strip = p ∧ toStatement (xformFuel p) p syn = (.ok s.unloc, syn)) ∧ PrintsAs syn ps ss
  | _, _ => False

/-- `ReadsAs syn ds sts`: datum by datum, the transformer (with the fuel the interpreter uses) run
in the syntax environment `syn` turns `ds` into statements that are `sts` up to locations, and
leaves `syn` as it was. -/
def ReadsAs (syn : SynEnv) : List Datum → List Statement → Prop
  | [], [] => True
  | d :: ds, s :: ss =>
    (∃ s', toStatement (xformFuel d) d syn = (.ok s', syn) ∧ s'.unloc = s.unloc) ∧ ReadsAs syn ds ss
  | _, _ => False

/-! ## a core statement is a program statement -/

theorem okStmt_of_core {M : String → Bool} {s : Statement} (h : coreStmt M s = true) : okStmt M s := by
  cases s <;> first | exact h | simp [coreStmt] at h

theorem printStmt_of_core {M : String → Bool} {s : Statement} (h : coreStmt M s = true) :
    printStmt s = renderStmt s := by
  cases s <;> first | rfl | simp [coreStmt] at h

/-! ## the printed forms carry no location, and are read back -/

theorem strip_renderSet (t : ImportSet) (h : ImportSyntax.WF t) :
    (ImportSyntax.renderSet t).strip = ImportSyntax.renderSet t := by
  have := ImportSyntax.strip_of_accepts_strict (ImportSyntax.accepts_render t h)
  rw [ImportSyntax.renderSet_unloc, ImportSyntax.renderSet_unloc] at this
  exact this

theorem strip_renderImport (sets : List ImportSet) (h : ∀ t ∈ sets, ImportSyntax.WF t) :
    (ImportSyntax.renderImport sets).strip = ImportSyntax.renderImport sets := by
  unfold ImportSyntax.renderImport ImportSyntax.lst
  rw [Datum.strip_ofList]
  congr 1
  simp only [List.map_cons, List.map_map]
  congr 1
  apply List.map_congr_left
  intro t ht
  exact strip_renderSet t (h t ht)

theorem strip_printStmt {M : String → Bool} (s : Statement) (h : okStmt M s) :
    (printStmt s).strip = printStmt s := by
  cases s with
  | importDecl sets l => exact strip_renderImport sets h
  | expr e => exact C01More.render_location_free (.expr e)
  | definition d => exact C01More.render_location_free (.definition d)
  | syntaxDef _ _ _ => exact h.elim
  | libraryDef _ _ _ => exact h.elim

/-- a located datum whose location-free form is transformed into `s0` (environment unchanged) is
transformed into a statement that is `s0` up to locations (environment unchanged) -/
theorem located_of_stripped {d d0 : Datum} {syn : SynEnv} {s0 : Statement} (hd : d.strip = d0)
    (h : toStatement (xformFuel d0) d0 syn = (.ok s0, syn)) :
    ∃ s', toStatement (xformFuel d) d syn = (.ok s', syn) ∧ s'.unloc = s0 := by
  have h1 := toStatement_strip (xformFuel d) d syn
  rw [hd] at h1
  have hf : xformFuel d = xformFuel d0 := by rw [← hd, xformFuel_strip]
  rw [hf] at h1 ⊢
  rw [h] at h1
  generalize toStatement (xformFuel d0) d syn = x at h1
  obtain ⟨r, s'⟩ := x
  simp only [Prod.mk.injEq] at h1
  obtain ⟨h2, rfl⟩ := h1
  cases r with
  | error er => simp at h2
  | ok st' => exact ⟨st', rfl, by simpa using h2.symm⟩

/-- the printed form of a program statement is a way of writing it -/
theorem printed_prints (syn : SynEnv) (s : Statement) (hok : okStmt (C01More.macroOf syn) s) :
    (printStmt s).strip = printStmt s ∧
      toStatement (xformFuel (printStmt s)) (printStmt s) syn = (.ok s.unloc, syn) := by
  refine ⟨strip_printStmt s hok, ?_⟩
  cases s with
  | importDecl sets l => exact C12More.importDecl_roundtrip_top sets hok syn
  | expr e => exact C01More.transform_render_fuel _ syn hok
  | definition df => exact C01More.transform_render_fuel _ syn hok
  | syntaxDef _ _ _ => exact hok.elim
  | libraryDef _ _ _ => exact hok.elim

theorem printsAs_printStmt (syn : SynEnv) : ∀ (sts : List Statement),
    (∀ s ∈ sts, okStmt (C01More.macroOf syn) s) → PrintsAs syn (sts.map printStmt) sts
  | [], _ => trivial
  | s :: ss, hok =>
    ⟨printed_prints syn s (hok s (by simp)), printsAs_printStmt syn ss (fun s' hs' => hok s' (by simp [hs']))⟩

theorem printsAs_strip (syn : SynEnv) : ∀ (ps : List Datum) (sts : List Statement),
    PrintsAs syn ps sts → ps.map Datum.strip = ps
  | [], [], _ => rfl
  | p :: ps, s :: ss, h => by
    simp only [List.map_cons, h.1.1, printsAs_strip syn ps ss h.2]
  | [], _ :: _, h => h.elim
  | _ :: _, [], h => h.elim

theorem printsAs_length (syn : SynEnv) : ∀ (ps : List Datum) (sts : List Statement),
    PrintsAs syn ps sts → ps.length = sts.length
  | [], [], _ => rfl
  | p :: ps, s :: ss, h => by simp [printsAs_length syn ps ss h.2]
  | [], _ :: _, h => h.elim
  | _ :: _, [], h => h.elim

/-- data that are, up to locations, a way of writing `sts` are transformed into `sts` up to locations -/
theorem readsAs_of_printsAs (syn : SynEnv) : ∀ (ds ps : List Datum) (sts : List Statement),
    ds.map Datum.strip = ps → PrintsAs syn ps sts → ReadsAs syn ds sts
  | [], [], [], _, _ => trivial
  | d :: ds, p :: ps, s :: ss, hd, h => by
    simp only [List.map_cons, List.cons.injEq] at hd
    exact ⟨located_of_stripped hd.1 h.1.2, readsAs_of_printsAs syn ds ps ss hd.2 h.2⟩
  | [], _ :: _, _, hd, _ => by simp at hd
  | _ :: _, [], _, hd, _ => by simp at hd
  | [], [], _ :: _, _, h => h.elim
  | _ :: _, _ :: _, [], _, h => h.elim

/-! ## the text of a sequence of location-free data is read as these data -/

theorem supportedL_ofDatums : ∀ (ds : List Datum), (∀ d ∈ ds, SupportedD d) →
    Syn.SupportedL (ds.map Syn.ofDatum)
  | [], _ => trivial
  | d :: ds, h => ⟨ofDatum_supported d (h d (by simp)), supportedL_ofDatums ds (fun d' hd' => h d' (by simp [hd']))⟩

/-- C06 on the text of a sequence of data: under any valid layout the reader finds exactly these
data, up to locations, and no error -/
theorem forms_of_formsText (ps : List Datum) (layout : List (List Char))
    (hsup : ∀ p ∈ ps, SupportedD p) (hl : ValidLayout (formsToks ps) layout) :
    (formsOf (formsText ps layout)).1.map Datum.strip = ps.map Datum.strip ∧
      (formsOf (formsText ps layout)).2 = none := by
  obtain ⟨h1, h2⟩ := C06.read_render_many _ (supportedL_ofDatums ps hsup) layout hl
  refine ⟨?_, h2⟩
  unfold formsOf formsText formsToks
  rw [h1, List.map_map]
  apply List.map_congr_left
  intro s hs
  simp only [Function.comp]
  rw [ofDatum_denote]

/-! ## forms that read as statements run as these statements -/

theorem evalForm_of_reads {fuel : Nat} {st : State} {d : Datum} {s' : Statement}
    (h : toStatement (xformFuel d) d st.syn = (.ok s', st.syn)) :
    evalForm fuel st d = evalAst fuel st s' := by
  unfold evalForm
  rw [h]

theorem unlocList_cons (x : Statement) (xs : List Statement) :
    Statement.unlocList (x :: xs) = x.unloc :: Statement.unlocList xs := by
  simp [Statement.unlocList]

/-- PARSING-LEVEL COMPOSITION: forms that read as `sts` are run as a list of statements `sts'` equal
to `sts` up to locations (`sts'` are the statements the transformer returns along the loop) -/
theorem runForms_readsAs (fuel : Nat) : ∀ (ds : List Datum) (sts : List Statement) (st : State)
    (last : Option Value), ReadsAs st.syn ds sts →
    ∃ sts', Statement.unlocList sts' = Statement.unlocList sts ∧
      runForms fuel st ds last = runStmts fuel st sts' last
  | [], [], st, last, _ => ⟨[], rfl, rfl⟩
  | d :: ds, s :: ss, st, last, h => by
    obtain ⟨⟨s', h1, h2⟩, hrest⟩ := h
    have hf : evalForm fuel st d = evalAst fuel st s' := evalForm_of_reads h1
    cases hx : evalAst fuel st s' with
    | mk r st' =>
      cases r with
      | error e =>
        refine ⟨s' :: ss, by rw [unlocList_cons, unlocList_cons, h2], ?_⟩
        simp only [runForms, runStmts, hf, hx]
      | ok v =>
        have hsyn : st'.syn = st.syn := (evalAst_out hx).2.1
        obtain ⟨sts'', h3, h4⟩ := runForms_readsAs fuel ds ss st' v (hsyn ▸ hrest)
        refine ⟨s' :: sts'', by rw [unlocList_cons, unlocList_cons, h2, h3], ?_⟩
        simp only [runForms, runStmts, hf, hx, h4]
  | [], _ :: _, _, _, h => h.elim
  | _ :: _, [], _, _, h => h.elim

/-! ## statements equal up to locations run alike up to locations -/

theorem IU_eq_cases {α} {g : α → α} {x y : IRes α} (h : IU g x = IU g y) :
    (∃ e₁ e₂ s₁ s₂, x = (.error e₁, s₁) ∧ y = (.error e₂, s₂) ∧ e₁.unloc = e₂.unloc ∧ s₁.unloc = s₂.unloc) ∨
    (∃ a b s₁ s₂, x = (.ok a, s₁) ∧ y = (.ok b, s₂) ∧ g a = g b ∧ s₁.unloc = s₂.unloc) := by
  obtain ⟨rx, sx⟩ := x
  obtain ⟨ry, sy⟩ := y
  simp only [IU, Prod.mk.injEq] at h
  obtain ⟨h1, h2⟩ := h
  cases rx with
  | error e₁ =>
    cases ry with
    | error e₂ => exact .inl ⟨e₁, e₂, sx, sy, rfl, rfl, by simpa using h1, h2⟩
    | ok b => cases h1
  | ok a =>
    cases ry with
    | error e₂ => cases h1
    | ok b => exact .inr ⟨a, b, sx, sy, rfl, rfl, by simpa using h1, h2⟩

/-- one statement: same statement and same state up to locations, same outcome up to locations -/
theorem evalAst_unloc_congr (fuel : Nat) {st₁ st₂ : State} {a b : Statement}
    (hs : a.unloc = b.unloc) (hst : st₁.unloc = st₂.unloc) :
    IU (Option.map Value.unloc) (evalAst fuel st₁ a) = IU (Option.map Value.unloc) (evalAst fuel st₂ b) := by
  rw [← evalAst_unloc fuel st₁ a, ← evalAst_unloc fuel st₂ b, hs, hst]

theorem runStmts_unloc (fuel : Nat) : ∀ (as bs : List Statement) (st₁ st₂ : State) (l₁ l₂ : Option Value),
    Statement.unlocList as = Statement.unlocList bs → st₁.unloc = st₂.unloc →
    l₁.map Value.unloc = l₂.map Value.unloc →
    IU (Option.map Value.unloc) (runStmts fuel st₁ as l₁) = IU (Option.map Value.unloc) (runStmts fuel st₂ bs l₂)
  | [], [], st₁, st₂, l₁, l₂, _, hst, hl => by simp only [runStmts, IU_ok, hst, hl]
  | a :: as, b :: bs, st₁, st₂, l₁, l₂, h, hst, hl => by
    rw [unlocList_cons, unlocList_cons] at h
    simp only [List.cons.injEq] at h
    rcases IU_eq_cases (evalAst_unloc_congr fuel h.1 hst) with
      ⟨e₁, e₂, s₁, s₂, h1, h2, h3, h4⟩ | ⟨v₁, v₂, s₁, s₂, h1, h2, h3, h4⟩
    · simp only [runStmts, h1, h2, IU_error, h3, h4]
    · simp only [runStmts, h1, h2]
      exact runStmts_unloc fuel as bs s₁ s₂ v₁ v₂ h.2 h4 h3
  | [], _ :: _, _, _, _, _, h, _, _ => by simp [Statement.unlocList] at h
  | _ :: _, [], _, _, _, _, h, _, _ => by simp [Statement.unlocList] at h

/-! ## facts about `runStmts` -/

theorem runStmts_append (fuel : Nat) (pre rest : List Statement) : ∀ (st : State) (last : Option Value),
    runStmts fuel st (pre ++ rest) last =
      match runStmts fuel st pre last with
      | (.error e, st') => (.error e, st')
      | (.ok v, st') => runStmts fuel st' rest v := by
  induction pre with
  | nil => intro st last; rfl
  | cons s ss ih =>
    intro st last
    simp only [List.cons_append, runStmts]
    generalize evalAst fuel st s = y
    obtain ⟨r, st'⟩ := y
    cases r with
    | error e => rfl
    | ok v => exact ih st' v

theorem runStmts_ok_iff_allOk (fuel : Nat) : ∀ (sts : List Statement) (st : State) (last : Option Value),
    (∃ v, (runStmts fuel st sts last).1 = .ok v) ↔ AllOk fuel st sts
  | [], st, last => ⟨fun _ => trivial, fun _ => ⟨last, rfl⟩⟩
  | s :: ss, st, last => by
    simp only [runStmts, AllOk]
    cases hx : evalAst fuel st s with
    | mk r st' =>
      cases r with
      | error e =>
        constructor
        · rintro ⟨v, h⟩; cases h
        · rintro ⟨v, st'', h, _⟩; cases h
      | ok v =>
        simp only
        rw [runStmts_ok_iff_allOk fuel ss st' v]
        constructor
        · intro h; exact ⟨v, st', rfl, h⟩
        · rintro ⟨v', st'', h, h'⟩
          cases h
          exact h'

theorem runStmts_out (fuel : Nat) (sts : List Statement) : ∀ (st : State) (last : Option Value),
    OutExt st.store (runStmts fuel st sts last).2.store := by
  induction sts with
  | nil => intro st last; exact ⟨[], rfl⟩
  | cons s ss ih =>
    intro st last
    rw [runStmts]
    cases hx : evalAst fuel st s with
    | mk r st' =>
      have h := (evalAst_out hx).1
      cases r with
      | error e => exact h
      | ok v =>
        obtain ⟨m1, h1⟩ := h
        obtain ⟨m2, h2⟩ := ih st' v
        exact ⟨m2 ++ m1, by simp only [h2, h1, List.append_assoc]⟩

/-! ## fuel -/

/-- the part of `eval_ast` that takes fuel -/
def astInner (fuel : Nat) (st : State) (s : Statement) : Except SErr (Option Value) × State :=
  if !st.importEnd then
    match s with
    | .importDecl sets _ =>
      match evalImport fuel st sets st.env with
      | (.ok (), st) => (.ok none, st)
      | (.error e, st) => (.error e, st)
    | .libraryDef _ _ loc => (.error (.syntax, loc), st)
    | other => evalExprOrDef fuel { st with importEnd := true } other st.env
  else evalExprOrDef fuel st s st.env

def astPost (s : Statement) (x : Except SErr (Option Value) × State) : Except SErr (Option Value) × State :=
  match x.1 with
  | .ok v => (.ok v, x.2)
  | .error (e, loc) => (.error (e, loc.orElse (fun _ => s.loc)), x.2)

theorem evalAst_eq (fuel : Nat) (st : State) (s : Statement) :
    evalAst fuel st s = astPost s (astInner fuel st s) := by
  unfold evalAst astPost astInner
  rfl

theorem astPost_notFuel {s : Statement} {x : Except SErr (Option Value) × State} :
    NotFuel (astPost s x).1 ↔ NotFuel x.1 := by
  obtain ⟨r, st⟩ := x
  cases r with
  | ok v => exact Iff.rfl
  | error e =>
    obtain ⟨k, l⟩ := e
    cases k <;> simp [astPost, NotFuel, Eval.isFuel]

theorem astInner_mono {n : Nat} {st : State} {s : Statement} {r st'}
    (h : astInner n st s = (r, st')) (hr : NotFuel r) : astInner (n + 1) st s = (r, st') := by
  unfold astInner at h ⊢
  by_cases hi : st.importEnd = true
  · simp only [hi, Bool.not_true, Bool.false_eq_true, if_false] at h ⊢
    exact evalExprOrDef_mono h hr
  · simp only [hi, Bool.not_false, if_true] at h ⊢
    cases s with
    | importDecl sets l =>
      simp only at h ⊢
      cases hx : evalImport n st sets st.env with
      | mk r0 st0 =>
        rw [hx] at h
        cases r0 with
        | ok u =>
          rw [evalImport_mono_le hx (by simp) (Nat.le_succ n)]
          exact h
        | error e =>
          simp only at h
          cases h
          rw [evalImport_mono_le hx (notFuel_err_cast hr) (Nat.le_succ n)]
    | libraryDef _ _ _ => exact h
    | expr e => exact evalExprOrDef_mono h hr
    | definition d => exact evalExprOrDef_mono h hr
    | syntaxDef _ _ _ => exact evalExprOrDef_mono h hr

/-- FUEL MONOTONICITY of `eval_ast`: an outcome that is not the fuel error is kept with more fuel -/
theorem evalAst_mono {n : Nat} {st : State} {s : Statement} {r st'}
    (h : evalAst n st s = (r, st')) (hr : NotFuel r) : evalAst (n + 1) st s = (r, st') := by
  rw [evalAst_eq] at h ⊢
  have hr' : NotFuel (astInner n st s).1 := by
    rw [← astPost_notFuel (s := s), h]; exact hr
  rw [astInner_mono (r := (astInner n st s).1) (st' := (astInner n st s).2) rfl hr']
  exact h

theorem evalAst_mono_le {n m : Nat} {st : State} {s : Statement} {r st'}
    (h : evalAst n st s = (r, st')) (hr : NotFuel r) (hnm : n ≤ m) : evalAst m st s = (r, st') :=
  mono_le_state (f := fun n => evalAst n st s) (fun n _ _ h hr => evalAst_mono h hr) h hr hnm

theorem runStmts_mono_le {n m : Nat} (hnm : n ≤ m) : ∀ (sts : List Statement) (st : State) (last : Option Value)
    {r : Except SErr (Option Value)} {st' : State},
    runStmts n st sts last = (r, st') → NotFuel r → runStmts m st sts last = (r, st')
  | [], st, last, r, st', h, _ => h
  | s :: ss, st, last, r, st', h, hr => by
    rw [runStmts] at h ⊢
    cases hx : evalAst n st s with
    | mk r0 st0 =>
      rw [hx] at h
      cases r0 with
      | error e =>
        simp only at h
        cases h
        rw [evalAst_mono_le hx (notFuel_err_cast hr) hnm]
      | ok v =>
        rw [evalAst_mono_le hx (by simp) hnm]
        exact runStmts_mono_le hnm ss st0 v h hr

/-! ## a whole text -/

/-- a text whose forms read as `sts` (and which the reader reads to its end) is run as a list of
statements equal to `sts` up to locations -/
theorem evalText_readsAs (fuel : Nat) (st : State) (text : List Char) (sts : List Statement)
    (herr : (formsOf text).2 = none) (hr : ReadsAs st.syn (formsOf text).1 sts) :
    ∃ sts', Statement.unlocList sts' = Statement.unlocList sts ∧
      evalText fuel st text = runStmts fuel st sts' none := by
  obtain ⟨sts', h1, h2⟩ := runForms_readsAs fuel _ sts st none hr
  refine ⟨sts', h1, ?_⟩
  rw [evalText_eq_runText]
  unfold runText
  rw [herr, h2]
  generalize runStmts fuel st sts' none = y
  obtain ⟨r, st'⟩ := y
  cases r <;> rfl

theorem evalText_readsAs_unloc (fuel : Nat) (st : State) (text : List Char) (sts : List Statement)
    (herr : (formsOf text).2 = none) (hr : ReadsAs st.syn (formsOf text).1 sts) :
    IU (Option.map Value.unloc) (evalText fuel st text) =
      IU (Option.map Value.unloc) (runStmts fuel st sts none) := by
  obtain ⟨sts', h1, h2⟩ := evalText_readsAs fuel st text sts herr hr
  rw [h2]
  exact runStmts_unloc fuel sts' sts st st none none h1 rfl rfl

/-- what equality up to locations means, spelled out -/
theorem IU_unpack {x y : IRes (Option Value)}
    (h : IU (Option.map Value.unloc) x = IU (Option.map Value.unloc) y) :
    outcomeUnloc x.1 = outcomeUnloc y.1 ∧ x.2.unloc = y.2.unloc ∧ x.2.store.out = y.2.store.out := by
  obtain ⟨h1, h2⟩ := IU_eq h
  exact ⟨outcomeUnloc_eq h1, h2, unloc_out_eq h2⟩

/-- the text of a way of writing `sts` reads as `sts` -/
theorem formsText_readsAs (syn : SynEnv) (ps : List Datum) (sts : List Statement) (layout : List (List Char))
    (hp : PrintsAs syn ps sts) (hsup : ∀ p ∈ ps, SupportedD p) (hl : ValidLayout (formsToks ps) layout) :
    (formsOf (formsText ps layout)).2 = none ∧ ReadsAs syn (formsOf (formsText ps layout)).1 sts := by
  obtain ⟨h1, h2⟩ := forms_of_formsText ps layout hsup hl
  rw [printsAs_strip syn ps sts hp] at h1
  exact ⟨h2, readsAs_of_printsAs syn _ ps sts h1 hp⟩

theorem outcomeUnloc_ok_iff {x y : Except SErr (Option Value)} (h : outcomeUnloc x = outcomeUnloc y) :
    (∃ v, x = .ok v) ↔ (∃ v, y = .ok v) := by
  cases x with
  | ok a => cases y with
    | ok b => exact ⟨fun _ => ⟨b, rfl⟩, fun _ => ⟨a, rfl⟩⟩
    | error e => obtain ⟨k, l⟩ := e; simp [outcomeUnloc] at h
  | error e =>
    obtain ⟨k, l⟩ := e
    cases y with
    | ok b => simp [outcomeUnloc] at h
    | error e' => exact ⟨fun ⟨_, h⟩ => (by cases h), fun ⟨_, h⟩ => (by cases h)⟩

theorem outcomeUnloc_error {x y : Except SErr (Option Value)} (h : outcomeUnloc x = outcomeUnloc y)
    {e : Err} {loc : Loc} (hy : y = .error (e, loc)) : ∃ loc', x = .error (e, loc') := by
  subst hy
  cases x with
  | ok a => simp [outcomeUnloc] at h
  | error e' =>
    obtain ⟨k, l⟩ := e'
    simp only [outcomeUnloc, Except.error.injEq] at h
    subst h
    exact ⟨l, rfl⟩

/-! ## composition with the reference semantics (C01) -/

/-- a top-level expression or definition -/
def CoreShape : Statement → Prop
  | .expr _ => True
  | .definition _ => True
  | _ => False

/-- THE REFERENCE RUN OF A PROGRAM of top-level expressions and definitions in the frame `ρ`
(R7RS 5.1: the forms are evaluated in order; an error ends the program): each statement is given the
outcome the reference semantics `Ref.evalTop` (written from the R7RS rules, `RuschmSpec/Ref.lean`)
assigns to it with SOME fuel, from the store its predecessor left.  The outcome is the value of the
last statement, or the KIND of the first error. -/
inductive RefRuns (ρ : Nat) : Store → List Statement → Option Value → Except Err (Option Value) → Store → Prop
  | done (σ : Store) (last : Option Value) : RefRuns ρ σ [] last (.ok last) σ
  | fail {σ σ' : Store} {s : Statement} {ss : List Statement} {last : Option Value} {m : Nat} {k : Err} {loc : Loc} :
      Ref.evalTop m σ ρ s = (.error (k, loc), σ') → RefRuns ρ σ (s :: ss) last (.error k) σ'
  | step {σ σ' σ'' : Store} {s : Statement} {ss : List Statement} {last v : Option Value} {m : Nat}
      {r : Except Err (Option Value)} :
      Ref.evalTop m σ ρ s = (.ok v, σ') → RefRuns ρ σ' ss v r σ'' → RefRuns ρ σ (s :: ss) last r σ''

/-- how an outcome of the interpreter and an outcome of the reference run are compared: the same
value; the same error kind — or the reference reports a non-procedure operator where the interpreter
reports an operand's error first (R7RS leaves the order of these checks open, `Ref.AgreeErr`) -/
def AgreeKind : Except SErr (Option Value) → Except Err (Option Value) → Prop
  | .ok a, .ok b => a = b
  | .error (k, _), .error k' => k = k' ∨ k' = .nonProcedure
  | _, _ => False

theorem coreShape_of_core {M : String → Bool} {s : Statement} (h : coreStmt M s = true) : CoreShape s := by
  cases s <;> first | trivial | simp [coreStmt] at h

theorem coreShape_of_unloc {a b : Statement} (h : a.unloc = b.unloc) (hb : CoreShape b) : CoreShape a := by
  cases b <;> first | exact hb.elim | (cases a <;> first | trivial | simp [Statement.unloc] at h)

theorem coreShape_of_unlocList : ∀ (as bs : List Statement), Statement.unlocList as = Statement.unlocList bs →
    (∀ s ∈ bs, CoreShape s) → ∀ s ∈ as, CoreShape s
  | [], _, _, _ => fun _ h => by simp at h
  | a :: as, b :: bs, h, hb => by
    rw [unlocList_cons, unlocList_cons] at h
    simp only [List.cons.injEq] at h
    intro s hs
    rcases List.mem_cons.1 hs with rfl | hs
    · exact coreShape_of_unloc h.1 (hb b (by simp))
    · exact coreShape_of_unlocList as bs h.2 (fun s' hs' => hb s' (by simp [hs'])) s hs
  | _ :: _, [], h, _ => by simp [Statement.unlocList] at h

theorem astInner_core (fuel : Nat) (st : State) (s : Statement) (hs : CoreShape s) :
    ∃ st0 : State, st0.store = st.store ∧ astInner fuel st s = evalExprOrDef fuel st0 s st.env := by
  unfold astInner
  by_cases hi : st.importEnd = true
  · simp only [hi, Bool.not_true, Bool.false_eq_true, if_false]
    exact ⟨st, rfl, rfl⟩
  · simp only [hi, Bool.not_false, if_true]
    cases s with
    | expr e => exact ⟨{ st with importEnd := true }, rfl, rfl⟩
    | definition d => exact ⟨{ st with importEnd := true }, rfl, rfl⟩
    | importDecl _ _ => exact hs.elim
    | syntaxDef _ _ _ => exact hs.elim
    | libraryDef _ _ _ => exact hs.elim

/-- one top-level expression or definition through `eval_ast` refines the reference -/
theorem evalAst_refines_ref {fuel : Nat} {st st' : State} {s : Statement} {r : Except SErr (Option Value)}
    (hs : CoreShape s) (h : evalAst fuel st s = (r, st')) (hr : NotFuel r) :
    ∃ m r', Ref.evalTop m st.store.erase st.env s = (r', st'.store.erase) ∧ Ref.Agree (astInner fuel st s).1 r' ∧
      r = (astPost s (astInner fuel st s)).1 := by
  rw [evalAst_eq] at h
  obtain ⟨st0, hst0, hin⟩ := astInner_core fuel st s hs
  have hr' : NotFuel (astInner fuel st s).1 := by
    rw [← astPost_notFuel (s := s), h]; exact hr
  have hshape : (∃ e, s = .expr e) ∨ (∃ d, s = .definition d) := by
    cases s <;> first | exact hs.elim | exact .inl ⟨_, rfl⟩ | exact .inr ⟨_, rfl⟩
  have hx : evalExprOrDef fuel st0 s st.env = ((astInner fuel st s).1, (astInner fuel st s).2) := by rw [← hin]
  obtain ⟨m, r', h1, h2, _⟩ := C01.toplevel_refines_ref hshape hx hr'
  rw [hst0] at h1
  have hst' : st' = (astInner fuel st s).2 := by
    have := congrArg Prod.snd h
    generalize astInner fuel st s = x at this
    obtain ⟨rx, sx⟩ := x
    cases rx with
    | ok v => exact this.symm
    | error e => obtain ⟨k, l⟩ := e; exact this.symm
  rw [hst']
  exact ⟨m, r', h1, h2, by rw [h]⟩

theorem runStmts_refines_ref (fuel : Nat) : ∀ (sts : List Statement) (st st' : State) (last : Option Value)
    (r : Except SErr (Option Value)), (∀ s ∈ sts, CoreShape s) → runStmts fuel st sts last = (r, st') → NotFuel r →
    ∃ r', RefRuns st.env st.store.erase sts last r' st'.store.erase ∧ AgreeKind r r'
  | [], st, st', last, r, _, h, _ => by
    cases h
    exact ⟨.ok last, .done _ _, rfl⟩
  | s :: ss, st, st', last, r, hs, h, hr => by
    rw [runStmts] at h
    cases hx : evalAst fuel st s with
    | mk r1 st1 =>
      rw [hx] at h
      cases r1 with
      | error e =>
        simp only at h
        cases h
        obtain ⟨m, r', h1, h2, h3⟩ := evalAst_refines_ref (hs s (by simp)) hx hr
        generalize astInner fuel st s = x at h2 h3
        obtain ⟨rx, sx⟩ := x
        cases rx with
        | ok v => simp [astPost] at h3
        | error e0 =>
          obtain ⟨k0, l0⟩ := e0
          simp only [astPost, Except.error.injEq] at h3
          subst h3
          obtain ⟨e', rfl, hag⟩ := Ref.Agree.error_iff.mp h2
          obtain ⟨k', l'⟩ := e'
          refine ⟨.error k', .fail h1, ?_⟩
          rcases hag with hag | ⟨l, hag⟩
          · cases hag; exact .inl rfl
          · cases hag; exact .inr rfl
      | ok v =>
        simp only at h
        obtain ⟨m, r', h1, h2, h3⟩ := evalAst_refines_ref (hs s (by simp)) hx (by simp)
        have henv : st1.env = st.env := (evalAst_out hx).2.2
        generalize astInner fuel st s = x at h2 h3
        obtain ⟨rx, sx⟩ := x
        cases rx with
        | error e0 => obtain ⟨k0, l0⟩ := e0; simp [astPost] at h3
        | ok v0 =>
          simp only [astPost, Except.ok.injEq] at h3
          subst h3
          rw [Ref.Agree.ok_iff.mp h2] at h1
          obtain ⟨r'', h4, h5⟩ := runStmts_refines_ref fuel ss st1 st' v r
            (fun s' hs' => hs s' (by simp [hs'])) h hr
          rw [henv] at h4
          exact ⟨r'', .step h1 h4, h5⟩

end Ruschm.ProgramText

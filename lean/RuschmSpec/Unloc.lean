/-
Location erasure (`unloc`): every source location stored in tokens, data, code, values, stores,
interpreter states and errors replaced by `none`. Used to state that the interpreter's behaviour
does not depend on where in the text a token stood, except in the location an error reports
(C17 `file_text_layout`, C18 `repl_split_invariance`). Data already have `Datum.strip`.
Theorems: `RuschmProofs/UnlocLemmas.lean`.
-/
import RuschmModel.Front
namespace Ruschm

def LToken.unloc (t : LToken) : LToken := { t with loc := none }

/-- an error without its location -/
def SErr.unloc (e : SErr) : SErr := (e.1, none)

/-- the reader state without locations; a pending lexer error keeps being one, its position is
replaced by a fixed one -/
def Read.PState.unloc (s : Read.PState) : Read.PState :=
  { toks := s.toks.map LToken.unloc, lexErr := s.lexErr.map (fun _ => (0, 0)),
    cur := s.cur.map LToken.unloc, loc := none }

mutual
def Expr.unloc : Expr → Expr
  | .sym s _ => .sym s none
  | .prim p _ => .prim p none
  | .assign n e _ => .assign n e.unloc none
  | .lambda l _ => .lambda l.unloc none
  | .call f as _ => .call f.unloc (Expr.unlocList as) none
  | .cond t c a _ =>
    .cond t.unloc c.unloc (Expr.unlocOpt a) none
  | .quote d _ => .quote d.strip none
  | .datum d _ => .datum d.strip none
def Expr.unlocOpt : Option Expr → Option Expr
  | none => none
  | some x => some x.unloc
def Expr.unlocList : List Expr → List Expr
  | [] => []
  | x :: xs => x.unloc :: Expr.unlocList xs
def Lambda.unloc : Lambda → Lambda
  | .mk f ds b => .mk f (Def.unlocList ds) (Expr.unlocList b)
def Def.unloc : Def → Def
  | .mk n e _ => .mk n e.unloc none
def Def.unlocList : List Def → List Def
  | [] => []
  | x :: xs => x.unloc :: Def.unlocList xs
end

def ImportSet.unloc : ImportSet → ImportSet
  | .direct n _ => .direct n none
  | .only s ids => .only s.unloc ids
  | .except s ids => .except s.unloc ids
  | .prefix s p => .prefix s.unloc p
  | .rename s ps => .rename s.unloc ps

def ExportSpec.unloc : ExportSpec → ExportSpec
  | .direct n _ => .direct n none
  | .rename a b _ => .rename a b none

mutual
def Statement.unloc : Statement → Statement
  | .importDecl sets _ => .importDecl (sets.map ImportSet.unloc) none
  | .definition d => .definition d.unloc
  | .syntaxDef n r _ => .syntaxDef n r none
  | .expr e => .expr e.unloc
  | .libraryDef n decls _ => .libraryDef n (LibDecl.unlocList decls) none
def Statement.unlocList : List Statement → List Statement
  | [] => []
  | x :: xs => x.unloc :: Statement.unlocList xs
def LibDecl.unloc : LibDecl → LibDecl
  | .importDecl sets => .importDecl (sets.map ImportSet.unloc)
  | .export specs => .export (specs.map ExportSpec.unloc)
  | .begin_ body => .begin_ (Statement.unlocList body)
def LibDecl.unlocList : List LibDecl → List LibDecl
  | [] => []
  | x :: xs => x.unloc :: LibDecl.unlocList xs
end

/-- a value without locations: they occur in the code of closures only -/
def Value.unloc : Value → Value
  | .closure lam env => .closure lam.unloc env
  | .pair a d => .pair a.unloc d.unloc
  | v => v

def Frame.unloc (f : Frame) : Frame := { f with defs := f.defs.map (fun p => (p.1, p.2.unloc)) }
def VecCell.unloc (c : VecCell) : VecCell := { c with items := c.items.map Value.unloc }

def Store.unloc (σ : Store) : Store :=
  { σ with frames := σ.frames.map Frame.unloc, vecs := σ.vecs.map VecCell.unloc }

def Eval.TailRes.unloc : Eval.TailRes → Eval.TailRes
  | .value v => .value v.unloc
  | .tailCall f args env => .tailCall f.unloc (Expr.unlocList args) env

namespace Interp

def Factory.unloc : Factory → Factory
  | .native defs => .native (defs.map (fun p => (p.1, p.2.unloc)))
  | .ast decls => .ast (LibDecl.unlocList decls)

def State.unloc (st : State) : State :=
  { st with store := st.store.unloc,
            factories := st.factories.map (fun p => (p.1, p.2.unloc)),
            instances := st.instances.map (fun p => (p.1, p.2.map (fun q => (q.1, q.2.unloc)))) }

end Interp

/-- an outcome and a store without locations -/
def Res.unloc {α} (f : α → α) (r : Res α) : Res α :=
  (match r.1 with | .ok a => .ok (f a) | .error e => .error e.unloc, r.2.unloc)

/-- an outcome without locations: the value without the locations in its code, or the error kind -/
def outcomeUnloc : Except SErr (Option Value) → Except Err (Option Value)
  | .ok v => .ok (v.map Value.unloc)
  | .error (e, _) => .error e

end Ruschm

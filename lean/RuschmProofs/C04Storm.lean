/-
Property C04 — "a use that matches no rule is a syntax error, never a silent mis-expansion":
REJECTED USES LEAVE NOTHING BEHIND, however many of them there are.

`C04Program.macro_use_no_match_no_effect` and `C04Program.define_syntax_malformed_no_effect` say that
ONE rejected form returns its syntax error together with the interpreter state it was given. This
file draws the consequence for a whole history on one interpreter (a REPL session, or the "macro
storm" of the differential check: hundreds of rejected uses between two runs of the same good
uses): by induction over the list, after ANY number of rejected forms the state is the state before
them, so every later form evaluates exactly as it would have without them.

(A seeded change that kept a thread-local count of open macro uses and did not restore it when a use
was rejected — after about 200 rejected uses every use failed — was at first not noticed by the
check; in the model there is no such place: `Rejected` forms return the state itself.)

`storm` is the session: every form is evaluated by `FrontSpec.evalForm` from the state its
predecessor left, AN ERROR DOES NOT END THE SESSION (this is what distinguishes it from
`FrontSpec.runForms`, one text); it returns the outcomes in order and the final state.
-/
import RuschmProofs.C04Program

set_option linter.unusedSimpArgs false
set_option linter.unusedVariables false

namespace Ruschm.C04Storm
open Ruschm Ruschm.Xform Ruschm.Macro Ruschm.Macro.Ex Ruschm.MacroProgram
open Ruschm.Interp Ruschm.FrontSpec Ruschm.ProgramText
open Ruschm.Meaning (coreKeywords)

/-- the form `d` is REJECTED in state `st`: its outcome is an error and the state returned with the
error is `st` itself — store, syntax scopes, libraries, import phase, everything -/
def Rejected (fuel : Nat) (st : State) (d : Datum) : Prop :=
  (evalForm fuel st d).2 = st ∧ ∃ e, (evalForm fuel st d).1 = .error e

/-- a session on one interpreter: the forms one after another, each from the state the previous
one left, going on after an error; the outcomes in order, and the final state -/
def storm (fuel : Nat) : State → List Datum → List (Except SErr (Option Value)) × State
  | st, [] => ([], st)
  | st, d :: ds =>
    ((evalForm fuel st d).1 :: (storm fuel (evalForm fuel st d).2 ds).1,
     (storm fuel (evalForm fuel st d).2 ds).2)

/-- a session is run piecewise: the second part starts from the state the first part left -/
private theorem storm_append (fuel : Nat) (ds₂ : List Datum) : ∀ (ds₁ : List Datum) (st : State),
    storm fuel st (ds₁ ++ ds₂) =
      ((storm fuel st ds₁).1 ++ (storm fuel (storm fuel st ds₁).2 ds₂).1,
       (storm fuel (storm fuel st ds₁).2 ds₂).2)
  | [], st => rfl
  | d :: ds₁, st => by
    simp only [List.cons_append, storm, storm_append fuel ds₂ ds₁ (evalForm fuel st d).2]

/-! ## 1. any number of rejected forms: the state is the state before them -/

/-- **A STORM OF REJECTED FORMS LEAVES NOTHING BEHIND.** If every form of `ds` is rejected in state
`st` (judged one by one, each alone, in `st`), then the session that runs ALL of them one after
another from `st` ends in `st` itself; its outcomes are, in order, the errors the forms give alone;
every outcome is an error. For every list `ds`, of any length (induction), and every fuel. -/
theorem rejected_storm_leaves_nothing (fuel : Nat) (st : State) : ∀ (ds : List Datum),
    (∀ d ∈ ds, Rejected fuel st d) →
    (storm fuel st ds).2 = st ∧
    (storm fuel st ds).1 = ds.map (fun d => (evalForm fuel st d).1) ∧
    ∀ r ∈ (storm fuel st ds).1, ∃ e, r = .error e
  | [], _ => ⟨rfl, rfl, fun r hr => by cases hr⟩
  | d :: ds, h => by
    obtain ⟨hst, e, he⟩ := h d (List.mem_cons_self ..)
    obtain ⟨ih1, ih2, ih3⟩ := rejected_storm_leaves_nothing fuel st ds
      (fun d' hd' => h d' (List.mem_cons_of_mem _ hd'))
    simp only [storm, hst, List.map_cons]
    refine ⟨ih1, by rw [ih2], fun r hr => ?_⟩
    rcases List.mem_cons.1 hr with rfl | hr
    · exact ⟨e, he⟩
    · exact ih3 r hr

/-- **A FORM AFTER THE STORM EVALUATES AS BEFORE IT**: outcome and resulting state of any form `d`
(a good use, a definition, anything) evaluated after the rejected forms `ds` are those of `d`
evaluated instead of them. -/
theorem form_after_storm (fuel : Nat) (st : State) (ds : List Datum)
    (h : ∀ d ∈ ds, Rejected fuel st d) (d : Datum) :
    evalForm fuel (storm fuel st ds).2 d = evalForm fuel st d := by
  rw [(rejected_storm_leaves_nothing fuel st ds h).1]

/-- … and so does a whole continuation `more` of the session: the session `ds ++ more` gives the
errors of `ds`, then exactly the outcomes of the session `more` alone, and ends in the state `more`
alone ends in. (The check's storm: good uses, hundreds of rejected ones, the same good uses.) -/
theorem session_after_storm (fuel : Nat) (st : State) (ds more : List Datum)
    (h : ∀ d ∈ ds, Rejected fuel st d) :
    storm fuel st (ds ++ more) =
      (ds.map (fun d => (evalForm fuel st d).1) ++ (storm fuel st more).1, (storm fuel st more).2) := by
  obtain ⟨h1, h2, -⟩ := rejected_storm_leaves_nothing fuel st ds h
  rw [storm_append, h1, h2]

/-- rejected forms may also be REPEATED: `n` rounds of the same rejected forms change nothing -/
theorem repeated_storm_leaves_nothing (fuel : Nat) (st : State) (ds : List Datum)
    (h : ∀ d ∈ ds, Rejected fuel st d) (n : Nat) (d : Datum) :
    (storm fuel st (List.replicate n ds).flatten).2 = st ∧
    evalForm fuel (storm fuel st (List.replicate n ds).flatten).2 d = evalForm fuel st d := by
  have hall : ∀ d ∈ (List.replicate n ds).flatten, Rejected fuel st d := by
    intro d' hd'
    obtain ⟨l, hl, hd'⟩ := List.mem_flatten.1 hd'
    exact h d' ((List.eq_of_mem_replicate hl) ▸ hd')
  exact ⟨(rejected_storm_leaves_nothing fuel st _ hall).1, form_after_storm fuel st _ hall d⟩

/-! ## 2. the forms the interpreter rejects this way -/

/-- `d` is a use `(kw . rest)` of a keyword that the syntax environment `syn` binds to a supported
rule set none of whose patterns matches the use -/
def NoMatchUse (syn : SynEnv) (d : Datum) : Prop :=
  ∃ kw l₁ l rest rs, d = .pair (.sym kw l₁) rest l ∧ kw ∉ coreKeywords ∧ rest.isListy = true ∧
    syn.get? kw = some rs ∧ SupportedRules rs = true ∧
    ∀ q ∈ rs.rules, specMatch rs.literals q.1 (rest.withLoc l) = none

/-- a use that matches no rule is `Rejected` (`C04Program.macro_use_no_match_no_effect`), in every
state with these syntax scopes, whatever its store -/
theorem no_match_use_rejected (fuel : Nat) (st : State) {d : Datum} (h : NoMatchUse st.syn d) :
    evalForm fuel st d = (.error (.syntax, none), st) ∧ Rejected fuel st d := by
  obtain ⟨kw, l₁, l, rest, rs, rfl, hkw, hrest, henv, hs, hnone⟩ := h
  have := C04Program.macro_use_no_match_no_effect (l₁ := l₁) fuel st hkw hrest henv hs hnone
  exact ⟨this, by rw [Rejected, this]; exact ⟨rfl, _, rfl⟩⟩

/-- a `define-syntax` form whose transformer spec is malformed is `Rejected`
(`C04Program.define_syntax_malformed_no_effect`) -/
theorem malformed_define_syntax_rejected {l₁ lm l : Loc} {rest spec : Datum} {more : List Datum}
    {m : String} {e : SErr} (fuel : Nat) (st : State)
    (hrest : IsList rest (.sym m lm :: spec :: more)) (hr : toRules m spec = .error e) :
    Rejected fuel st (.pair (.sym "define-syntax" l₁) rest l) := by
  have := C04Program.define_syntax_malformed_no_effect (l₁ := l₁) (l := l) fuel st hrest hr
  rw [Rejected, this]; exact ⟨rfl, _, rfl⟩

example : IsList (lst [sy "m", lst [sy "syntax-rules", lst [num 1]]])
      [.sym "m" none, lst [sy "syntax-rules", lst [num 1]]] ∧
    toRules "m" (lst [sy "syntax-rules", lst [num 1]]) = .error (.syntax, none) := ⟨rfl, rfl⟩

/-- **THE MACRO STORM**: a session of uses each of which matches no rule of its keyword (in the
syntax scopes of `st`), followed by any forms `more`: every use is answered with the syntax error,
and `more` runs exactly as it runs from `st` without the storm. -/
theorem no_match_storm (fuel : Nat) (st : State) (ds more : List Datum)
    (h : ∀ d ∈ ds, NoMatchUse st.syn d) :
    storm fuel st (ds ++ more) =
      (ds.map (fun _ => .error (.syntax, none)) ++ (storm fuel st more).1, (storm fuel st more).2) := by
  rw [session_after_storm fuel st ds more (fun d hd => (no_match_use_rejected fuel st (h d hd)).2)]
  congr 2
  exact List.map_congr_left fun d hd => by rw [(no_match_use_rejected fuel st (h d hd)).1]

/-! ## 3. the storm of the check, closed -/

/-- `(syntax-rules (k) ((pick k a) '(first a)) ((pick a) '(second a)))` -/
def pickSpec : Datum :=
  lst [sy "syntax-rules", lst [sy "k"],
    lst [lst [sy "pick", sy "k", sy "a"], lst [sy "quote", lst [sy "first", sy "a"]]],
    lst [lst [sy "pick", sy "a"], lst [sy "quote", lst [sy "second", sy "a"]]]]

def pickRules : Rules :=
  ⟨["k"],
   [(plist [.ident "k", .ident "a"],
     .list [(.ident "quote", false), (.list [(.ident "first", false), (.ident "a", false)], false)]),
    (plist [.ident "a"],
     .list [(.ident "quote", false), (.list [(.ident "second", false), (.ident "a", false)], false)])]⟩

example : toRules "pick" pickSpec = .ok pickRules ∧ SupportedRules pickRules = true := ⟨rfl, rfl⟩

/-- the syntax scopes of an interpreter after `(define-syntax pick …)`: its own scope over the
bundled forms -/
def pickSyn : SynEnv := [[("pick", pickRules)], Interp.grammarScope]

/-- the three rejected shapes: `(pick 1 2)` (the first rule wants the literal `k`, the second one
operand), `(pick)`, and `(cond)` — a bundled form without a clause -/
def badUses : List Datum := [lst [sy "pick", num 1, num 2], lst [sy "pick"], lst [sy "cond"]]

set_option maxRecDepth 100000 in
/-- in these scopes `cond` is the bundled form (its seven rules, `Macro.condRules`) -/
private theorem pickSyn_cond : pickSyn.get? "cond" = some condRules := by rfl

/-- each of the three shapes matches no rule of its keyword -/
theorem bad_uses_no_match : ∀ d ∈ badUses, NoMatchUse pickSyn d := by
  intro d hd
  simp only [badUses, List.mem_cons, List.not_mem_nil, or_false] at hd
  rcases hd with rfl | rfl | rfl
  · exact ⟨"pick", none, none, lst [num 1, num 2], pickRules, rfl, by decide, rfl, rfl, rfl, by decide⟩
  · exact ⟨"pick", none, none, lst [], pickRules, rfl, by decide, rfl, rfl, rfl, by decide⟩
  · exact ⟨"cond", none, none, lst [], condRules, rfl, by decide, rfl, pickSyn_cond, by decide, by decide⟩

/-- the hypotheses of section 1 (`∀ d ∈ ds, Rejected fuel st d`) and of `no_match_storm` are met: on
the default interpreter with `pick` defined, each of the three uses is rejected, for every fuel -/
example (fuel : Nat) : (∀ d ∈ badUses, NoMatchUse ({ (default_ false) with syn := pickSyn } : State).syn d) ∧
    ∀ d ∈ badUses, Rejected fuel { (default_ false) with syn := pickSyn } d :=
  ⟨bad_uses_no_match, fun d hd => (no_match_use_rejected fuel _ (bad_uses_no_match d hd)).2⟩

/-- **THE CHECK'S STORM, FOR EVERY LENGTH.** On an interpreter in ANY state whose syntax scopes are
those after `(define-syntax pick …)` (its store, libraries, … arbitrary), `n` rounds of
`(pick 1 2) (pick) (cond)` — `3·n` rejected uses, for every `n` — are all answered with the syntax
error, leave the state exactly as it was, and any form `d` evaluated afterwards (outcome and state)
is what it is without the storm. -/
theorem pick_storm (fuel : Nat) (st : State) (hsyn : st.syn = pickSyn) (n : Nat) :
    (storm fuel st (List.replicate n badUses).flatten).1 = List.replicate (3 * n) (.error (.syntax, none)) ∧
    (storm fuel st (List.replicate n badUses).flatten).2 = st ∧
    ∀ d, evalForm fuel (storm fuel st (List.replicate n badUses).flatten).2 d = evalForm fuel st d := by
  have hall : ∀ d ∈ (List.replicate n badUses).flatten, NoMatchUse st.syn d := by
    intro d hd
    obtain ⟨l, hl, hd⟩ := List.mem_flatten.1 hd
    rw [hsyn]
    exact bad_uses_no_match d ((List.eq_of_mem_replicate hl) ▸ hd)
  have h := no_match_storm fuel st _ [] hall
  simp only [List.append_nil, storm] at h
  have hlen : ((List.replicate n badUses).flatten).length = 3 * n := by
    simp [badUses, Nat.mul_comm]
  refine ⟨?_, by rw [h], fun d => by rw [h]⟩
  rw [h]
  simp only [List.map_const', hlen]

/-- the hypothesis is met by the interpreter after the definition: `Interpreter::default()` has the
scopes `[[], grammarScope]`, and the accepted `(define-syntax pick …)` records the rules in the
innermost one (`C04Program.define_syntax_records_rules`) -/
example : (default_ false).syn = [[], Interp.grammarScope] ∧
    SynEnv.define [[], Interp.grammarScope] "pick" pickRules = pickSyn ∧
    ({ (default_ false) with syn := pickSyn } : State).syn = pickSyn := ⟨rfl, rfl, rfl⟩

/-- and a good use after the storm: `(pick 7)` still selects the second rule, `(pick k 1)` the
first — as transformed in the scopes the storm left (which are the scopes before it) -/
example (fuel : Nat) (st : State) (hsyn : st.syn = pickSyn) :
    (storm fuel st (List.replicate 1000 badUses).flatten).2.syn = pickSyn ∧
    toStatement 100 (lst [sy "pick", num 7]) pickSyn =
      (.ok (.expr (.quote (lst [sy "second", num 7]) none)), pickSyn) ∧
    toStatement 100 (lst [sy "pick", sy "k", num 1]) pickSyn =
      (.ok (.expr (.quote (lst [sy "first", num 1]) none)), pickSyn) :=
  ⟨by rw [(pick_storm fuel st hsyn 1000).2.1, hsyn], by rfl, by rfl⟩

end Ruschm.C04Storm

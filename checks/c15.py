"""C15 — reported error locations point into the form that failed.
Theorems: lean/RuschmProofs/C15.lean (token locations are cursors inside the text; data take their
locations from the tokens consumed for them; data built by a macro expansion are located at the
macro use; the evaluator locates only unbound variables (at the identifier) and non-procedures (at
the operator); library code carries no locations; the location of every run-time error of a
top-level form lies in that form or in an earlier form of the same text). Tie: the fault programs of
C08 rendered over several lines with random indentation and preceding material, evaluated as ONE
text, real interpreter vs model (kind and line:column). Oracle on the implementation alone (the
extent of every form and of the offending token is known from the renderer): every run-time error
carries a location; unbound/non-procedure faults point into the offending identifier/operator
token; any other fault anywhere inside the failing top-level form; never outside the text."""
import random, re
from . import common as C, proggen as P, progrun as R
from .c18 import TOKEN

PROP = "C15"
MODULES = ["RuschmProofs.C15", "RuschmProofs.C15More"]


def render(rng, forms):
    """-> text, per form: (start (l,c), end (l,c)) and for every token of every form its extent"""
    out, line, col = [], 1, 1
    extents = []
    def emit(s):
        nonlocal line, col
        for ch in s:
            out.append(ch)
            if ch == "\n":
                line, col = line + 1, 1
            else:
                col += 1
    for fi, f in enumerate(forms):
        emit(rng.choice(["", "\n", "  ", "; a comment (\n", "\n\n   "]))
        toks = TOKEN.findall(f)
        tok_ext = []
        start = None
        for i, t in enumerate(toks):
            s = (line, col)
            if start is None:
                start = s
            emit(t)
            tok_ext.append((t, s, (line, col)))     # cursor after the token
            if i + 1 < len(toks):
                nxt = toks[i + 1]
                if rng.random() < 0.25:
                    emit("\n" + " " * rng.randrange(0, 6))
                elif t in ("(", "'", "#(") or nxt == ")":
                    emit(rng.choice(["", "", " "]))
                else:
                    emit(" ")
        extents.append((start, (line, col), tok_ext))
        emit(rng.choice(["\n", "\n", " ", "\n\n"]))
    return "".join(out), extents


# material that may stand BEFORE the failing form: tokens that span several lines (raw line breaks inside string literals and
# |identifiers|), so that the line counter must be kept right through them
MULTILINE = ['(define ml%d "first line\nsecond line")', '(define ml%d "x\n\ny\\n\nz")', '"a\nb"', "(quote |p\nq|)",
             '(define ml%d (list "(\n" 1 "\n)"))', '(define ml%d "tab\\t\nline")']

# faults raised at an identifier that a MACRO TEMPLATE introduced (not written in the failing form): the position reported
# is that of the macro use. (definitions placed before, failing form, expected kind, the macro use inside the failing form)
MACRO_FAULTS = [
    ([], "((lambda (memv) (case 1 ((1) 2) (else 3))) 5)", "nonProcedure", "(case 1 ((1) 2) (else 3))"),
    ([], "((lambda (not) (unless #f 1)) 5)", "nonProcedure", "(unless #f 1)"),
    ([], "(let ((not 5)) (unless #f 1))", "nonProcedure", "(unless #f 1)"),
    (["(define-syntax rf-zz (syntax-rules () ((rf-zz e) (report-failure-zz e 1))))"], "(rf-zz 1)", "unbound", "(rf-zz 1)"),
    (["(define-syntax ap-zz (syntax-rules () ((ap-zz e) (e 1))))"], "(ap-zz 5)", "nonProcedure", "(ap-zz 5)"),
    (["(define-syntax sw-zz (syntax-rules () ((sw-zz a b) (b a))))"], "(sw-zz 1 undefined-var-zz)", "unbound", "(sw-zz 1 undefined-var-zz)"),
    (["(define-syntax two-zz (syntax-rules () ((two-zz a ...) (begin (helper-zz a) ...))))"], "(two-zz 1 2)", "unbound", "(two-zz 1 2)"),
]
WRAPS = ["%s", "(let ((t 1)) %s)", "(if #t %s 0)", "(begin 0 %s)", "(list 1 %s)", "((lambda (q) %s) 1)"]


def within(loc, a, b):
    return a <= loc <= b


def find_fault_tokens(tok_ext, fault_toks):
    n = len(fault_toks)
    for i in range(len(tok_ext) - n + 1):
        if [t for t, _, _ in tok_ext[i:i + n]] == fault_toks:
            return tok_ext[i:i + n]
    return None


def run(rep, tier, rng):
    n = 400 if tier == "quick" else 10000
    cases, meta = [], {}
    for i in range(n):
        g = P.Gen(rng, ticks=False)
        base = g.toplevel(rng.randrange(2, 7))
        use = None
        if rng.random() < 0.2:
            defs, form, kind, use = rng.choice(MACRO_FAULTS)
            at = rng.randrange(0, len(base) + 1)
            faulty = base[:at] + defs + [rng.choice(WRAPS) % form] + base[at:]
            pos, ctx = at + len(defs), "macro-introduced identifier"
        else:
            faulty, pos, kind, ctx = P.inject_fault(rng, g, base, helper_ok=True)
        if rng.random() < 0.3:
            # the failing form's TWIN, character for character, earlier in the text, inside a procedure that is never called: the error
            # of the later form is reported in the later form (nothing remembered from reading the first one may stand in for it)
            twin = "(define (never-zz%d) %s 0)" % (i, faulty[pos])
            at = pos if use is not None else rng.randrange(0, pos + 1)      # a macro use: after the macro's definition
            faulty = faulty[:at] + [twin] + faulty[at:]
            pos += 1
        for _ in range(rng.choice([0, 0, 1, 2])):
            at = rng.randrange(0, pos + 1)
            faulty = faulty[:at] + [rng.choice(MULTILINE).replace("%d", str(rng.randrange(1000)))] + faulty[at:]
            pos += 1
        text, extents = render(rng, faulty)
        cases.append(("e%d" % i, "prog", ["std", text]))
        meta["e%d" % i] = (faulty, pos, kind, ctx, text, extents, use)
    impl = C.run_hx(cases)
    model = C.run_driver(cases)
    dist = {}
    for cid, _, f in cases:
        faulty, pos, kind, ctx, text, extents, use = meta[cid]
        a = impl.get(cid, ["?"])[0]
        b = model.get(cid, ["?"])[0]
        rep.count()
        rep.nontrivial(text)
        if not a.startswith("E "):
            rep.violation({"what": "the program with an injected fault did not fail", "text": text, "implementation": a}); continue
        parts = a.split(" ")
        k, loc = parts[1], parts[2]
        dist[k] = dist.get(k, 0) + 1
        if len(rep.cov["samples"]) < 4:
            rep.sample({"text": text[:300], "fault": faulty[pos], "reported": a})
        if k == "syntax":
            rep.violation({"what": "a syntactically valid program (one run-time fault injected) is rejected with a syntax error",
                           "text": text, "implementation": a, "model": b}); continue
        if loc == "-":
            rep.violation({"what": "a run-time error carries no source location", "text": text, "implementation": a}); continue
        l, c = map(int, loc.split(":"))
        start, end, tok_ext = extents[pos]
        lines = text.split("\n")
        if l > len(lines) + 1:
            rep.violation({"what": "the reported location is beyond the end of the text", "text": text, "implementation": a}); continue
        problem = None
        if ctx == "earlier-helper" and k in ("unbound", "nonProcedure") and kind == k:
            # the value-less name stands in the procedure the EARLIER form defined: reported there, at that identifier / operator
            import re as _re
            hname = _re.search(r"hlp-zz\d+", faulty[pos]).group(0)
            hidx = max(i for i in range(pos) if faulty[i].startswith("(define") and hname in faulty[i] and "never-zz" not in faulty[i])
            hstart, hend, _ = extents[hidx]
            if not (within((l, c), hstart, hend) or within((l, c), start, end)):
                problem = "the reported location %d:%d is neither in the failing form nor in the helper it calls (%s - %s)" % (l, c, hstart, hend)
            if problem:
                rep.violation({"what": problem, "text": text, "failing_form": faulty[pos], "fault_kind": kind, "context": ctx,
                               "implementation": a, "model": b})
                continue
            if R.norm_result(a) != R.norm_result(b):
                rep.violation({"broken": "correspondence of error locations model <-> implementation", "text": text,
                               "implementation": a, "model": b}, no_input=True)
            continue
        if not within((l, c), start, end):
            problem = "the reported location %d:%d is outside the failing form (which spans %s - %s)" % (l, c, start, end)
        elif use is not None:
            if k != kind:
                problem = "expected an error of kind %s, got %s" % (kind, k)
            else:
                ft = find_fault_tokens(tok_ext, TOKEN.findall(use))
                if ft and not within((l, c), ft[0][1], ft[-1][2]):
                    problem = "the reported location %d:%d is not at the macro use that introduced the offending identifier (%s - %s)" % (
                        l, c, ft[0][1], ft[-1][2])
        elif k in ("unbound", "nonProcedure") and kind == k:
            # the offending identifier / operator token(s)
            form = faulty[pos]
            if k == "unbound":
                cand = [e for e in tok_ext if e[0] in ("undefined-var-zz", "undefined-fn-zz")]
            else:
                cand = None
                for pat in (["(", "5", "1", ")"], ["(", "'", "sym", "1", "2", ")"], ["(", "(", "car", "'", "(", "1", ")", ")", "2", ")"]):
                    ft = find_fault_tokens(tok_ext, pat)
                    if ft:
                        # operator = tokens between the call's "(" and its operands
                        op_len = {4: 1, 6: 2, 10: 7}[len(pat)]
                        cand = [("op", ft[1][1], ft[op_len][2])]
                        break
            if cand:
                if not any(within((l, c), e[1], e[2]) for e in cand):
                    problem = "the reported location %d:%d is not at the offending %s (%s)" % (
                        l, c, "identifier" if k == "unbound" else "operator", [(e[1], e[2]) for e in cand])
        if problem:
            rep.violation({"what": problem, "text": text, "failing_form": faulty[pos], "fault_kind": kind, "context": ctx,
                           "implementation": a, "model": b})
            continue
        if R.norm_result(a) != R.norm_result(b):
            rep.violation({"broken": "correspondence of error locations model <-> implementation", "text": text,
                           "implementation": a, "model": b}, no_input=True)
    rep.extra["reported_kinds"] = dist


def main(tier, seed):
    rep = C.Report(PROP, tier, seed)
    rng = random.Random(seed)
    rep.cov["rule"] = ("random programs of 3-7 forms with one injected faulty form (8 fault kinds x 6 calling contexts, or a fault at an identifier introduced "
                       "by a bundled / user macro template), multi-line string and |identifier| tokens among the preceding forms, rendered as one "
                       "text with random line breaks inside forms, indentation, comments and blank lines between forms; the extent of "
                       "every form and token is recorded by the renderer; distinct = distinct texts")
    ok = C.standard_proof_phase(rep, MODULES, directed_search=lambda r: run(r, tier, rng))
    if ok:
        run(rep, tier, rng)
    return rep.finish("cd lean && lake build RuschmProofs.C15 && lake env lean <#print axioms of every theorem in RuschmProofs/C15.lean>")

/-
Property C03 (addition) — a vector stored INTO ITSELF is the same object.

`(vector-set! v i v)` does not copy `v`: the element is the reference `.vec id` itself, so reading it
back gives an alias of `v` (`eqv?` true), a write through `(vector-ref v i)` is a write to `v`, and no
cell is allocated. The same for a cycle of length two (an inner vector that contains the outer one).
Composes `C03.vector_set_outcome`, `vector_set_one_cell`, `vector_ref_reads_cell`, `vec_alias`,
`eqv_vector_identity`; motivated by a seeded change (deep copy on store) that the differential
checks had missed at first.
-/
import RuschmProofs.C03

namespace Ruschm.C03Self
open Ruschm Ruschm.Eval Ruschm.C03


/-- `(vector-set! v i v)` for a mutable vector `v = .vec id` of length `> i`: it succeeds; the new
store differs from the old one only in item `i` of cell `id` (every other cell, every frame, the
output … unchanged), and NO CELL IS ALLOCATED (`vecs.size` unchanged); the new item is the
reference `.vec id` itself: `(vector-ref v i)` returns `.vec id`, which is `eqv?`/`eq?` to `v`; the
other items read as before. -/
theorem self_store {σ : Store} {id : Nat} {cell : VecCell} (hc : σ.vecs[id]? = some cell)
    (hm : cell.mutable = true) {i : Nat} (hi : i < cell.items.length) :
    ∃ σ', Prim.applyPure σ .vectorSet [.vec id, .num (.int i), .vec id] = (.ok .void, σ') ∧
      Store.SameExceptCell σ σ' id ∧ σ'.vecs.size = σ.vecs.size ∧
      σ'.vecs[id]? = some { cell with items := cell.items.set i (.vec id) } ∧
      Prim.applyPure σ' .vectorRef [.vec id, .num (.int i)] = (.ok (.vec id), σ') ∧
      (∀ x, (Prim.applyPure σ' .vectorRef [.vec id, .num (.int i)]).1 = .ok x →
        Prim.applyPure σ' .eqv [x, .vec id] = (.ok (.bool true), σ') ∧
        Prim.applyPure σ' .eq [x, .vec id] = (.ok (.bool true), σ')) ∧
      (∀ m : Int, m ≠ i → (Prim.applyPure σ' .vectorRef [.vec id, .num (.int m)]).1 =
        (Prim.applyPure σ .vectorRef [.vec id, .num (.int m)]).1) := by
  obtain ⟨σ', hset, hsame, hnew⟩ :=
    (vector_set_outcome hc (i : Int) (.vec id)).2.2 hm (Int.natCast_nonneg i) (by simpa using hi)
  have hal := vec_alias hset
  refine ⟨σ', hset, hsame, hsame.vecs_size, by simpa using hnew, hal.1, fun x hx => ?_, hal.2.1⟩
  rw [hal.1] at hx
  cases hx
  have := eqv_vector_identity.2.2.2.2 σ' id id
  simpa using this

/-- … and a later `(vector-set! (vector-ref v i) j obj)` — a write through the ELEMENT — is a write
to cell `id`, seen through `v`: whatever value `elt` the `vector-ref` returned, the write through
it succeeds for every `j` in range, changes only cell `id` (of the store after the first write),
allocates nothing, and `(vector-ref v j)` then returns `obj`. -/
theorem self_store_write_through {σ σ' : Store} {id : Nat} {cell : VecCell} (hc : σ.vecs[id]? = some cell)
    (hm : cell.mutable = true) {i : Nat} (hi : i < cell.items.length)
    (hset : Prim.applyPure σ .vectorSet [.vec id, .num (.int i), .vec id] = (.ok .void, σ'))
    {elt : Value} (helt : (Prim.applyPure σ' .vectorRef [.vec id, .num (.int i)]).1 = .ok elt)
    {j : Nat} (hj : j < cell.items.length) (obj : Value) :
    ∃ σ'', Prim.applyPure σ' .vectorSet [elt, .num (.int j), obj] = (.ok .void, σ'') ∧
      Store.SameExceptCell σ' σ'' id ∧ σ''.vecs.size = σ.vecs.size ∧
      σ''.vecs[id]? = some { cell with items := (cell.items.set i (.vec id)).set j obj } ∧
      Prim.applyPure σ'' .vectorRef [.vec id, .num (.int j)] = (.ok obj, σ'') := by
  obtain ⟨σ₁, hset₁, hsame, hsz, hnew, href, -, -⟩ := self_store hc hm hi
  rw [hset] at hset₁
  cases hset₁
  rw [href] at helt
  cases helt
  obtain ⟨σ'', hset₂, hsame₂, hnew₂⟩ :=
    (vector_set_outcome hnew (j : Int) obj).2.2 hm (Int.natCast_nonneg j) (by simpa using hj)
  exact ⟨σ'', hset₂, hsame₂, by rw [hsame₂.vecs_size, hsz], by simpa using hnew₂, (vec_alias hset₂).1⟩

/-- TWO LEVELS. The inner vector `.vec b` holds the outer one `.vec a` at index `j`; storing the
inner one into the outer one at index `i` (`(vector-set! outer i inner)`) closes a cycle of
length two without copying anything: no cell is allocated, only cell `a` changes, `(vector-ref
outer i)` is the inner vector (`eqv?`), `(vector-ref (vector-ref outer i) j)` is still THE outer
vector (`eqv?` to it), and a write through that path is seen through `outer`. -/
theorem two_level_store {σ : Store} {a b : Nat} {ca cb : VecCell} (hab : a ≠ b)
    (ha : σ.vecs[a]? = some ca) (hb : σ.vecs[b]? = some cb) (hm : ca.mutable = true)
    {i j : Nat} (hi : i < ca.items.length) (hj : cb.items[j]? = some (.vec a)) :
    ∃ σ', Prim.applyPure σ .vectorSet [.vec a, .num (.int i), .vec b] = (.ok .void, σ') ∧
      Store.SameExceptCell σ σ' a ∧ σ'.vecs.size = σ.vecs.size ∧ σ'.vecs[b]? = some cb ∧
      Prim.applyPure σ' .vectorRef [.vec a, .num (.int i)] = (.ok (.vec b), σ') ∧
      Prim.applyPure σ' .vectorRef [.vec b, .num (.int j)] = (.ok (.vec a), σ') ∧
      Prim.applyPure σ' .eqv [.vec a, .vec a] = (.ok (.bool true), σ') ∧
      Prim.applyPure σ' .eqv [.vec a, .vec b] = (.ok (.bool false), σ') ∧
      (∀ (k : Nat) (obj : Value), k < ca.items.length →
        ∃ σ'', Prim.applyPure σ' .vectorSet [.vec a, .num (.int k), obj] = (.ok .void, σ'') ∧
          σ''.vecs.size = σ.vecs.size ∧
          Prim.applyPure σ'' .vectorRef [.vec a, .num (.int k)] = (.ok obj, σ'')) := by
  obtain ⟨σ', hset, hsame, hnew⟩ :=
    (vector_set_outcome ha (i : Int) (.vec b)).2.2 hm (Int.natCast_nonneg i) (by simpa using hi)
  have hb' : σ'.vecs[b]? = some cb := by rw [hsame.other_cells b (Ne.symm hab), hb]
  refine ⟨σ', hset, hsame, hsame.vecs_size, hb', (vec_alias hset).1, ?_, ?_, ?_, fun k obj hk => ?_⟩
  · rw [vector_ref_reads_cell hb' (j : Int)]
    have : ¬ ((j : Int) < 0) := by omega
    simp [this, hj]
  · simpa using (eqv_vector_identity.2.2.2.2 σ' a a).1
  · have hne : (a == b) = false := by simpa using hab
    rw [(eqv_vector_identity.2.2.2.2 σ' a b).1, hne]
  · obtain ⟨σ'', hset₂, hsame₂, -⟩ :=
      (vector_set_outcome hnew (k : Int) obj).2.2 hm (Int.natCast_nonneg k) (by simpa using hk)
    exact ⟨σ'', hset₂, by rw [hsame₂.vecs_size, hsame.vecs_size], (vec_alias hset₂).1⟩

/-! ## closed examples: the three-element vector `#(1 2 3)`, cell 0 -/

/-- a store with the mutable vector `#(1 2 3)` (cell 0) and the mutable vector `#(#0 5)` (cell 1,
whose item 0 is the first vector) -/
def σ3 : Store :=
  { vecs := #[{ mutable := true, items := [.num (.int 1), .num (.int 2), .num (.int 3)] },
              { mutable := true, items := [.vec 0, .num (.int 5)] }] }

/-- the hypotheses of `self_store` hold of cell 0 of `σ3` at index 1 -/
example : ∃ σ', Prim.applyPure σ3 .vectorSet [.vec 0, .num (.int (1 : Nat)), .vec 0] = (.ok .void, σ') ∧
    σ'.vecs.size = σ3.vecs.size :=
  let ⟨σ', h, _, hs, _⟩ := self_store (σ := σ3) (id := 0) (i := 1) rfl rfl (by decide)
  ⟨σ', h, hs⟩

/-- … computed: `(vector-set! v 1 v)`, then `(vector-ref v 1)` is `v`, `(eqv? (vector-ref v 1) v)`
is `#t`, `(vector-set! (vector-ref v 1) 2 'new)` is seen by `(vector-ref v 2)`, two cells throughout -/
example :
    let σ' := (Prim.applyPure σ3 .vectorSet [.vec 0, .num (.int 1), .vec 0]).2
    let σ'' := (Prim.applyPure σ' .vectorSet [.vec 0, .num (.int 2), .sym "new"]).2
    (Prim.applyPure σ3 .vectorSet [.vec 0, .num (.int 1), .vec 0]).1 = .ok .void ∧
    (Prim.applyPure σ' .vectorRef [.vec 0, .num (.int 1)]).1 = .ok (.vec 0) ∧
    (Prim.applyPure σ' .eqv [.vec 0, .vec 0]).1 = .ok (.bool true) ∧
    (Prim.applyPure σ'' .vectorRef [.vec 0, .num (.int 2)]).1 = .ok (.sym "new") ∧
    (Prim.applyPure σ'' .vectorRef [.vec 0, .num (.int 0)]).1 = .ok (.num (.int 1)) ∧
    σ'.vecs.size = 2 ∧ σ''.vecs.size = 2 :=
  ⟨rfl, rfl, rfl, rfl, rfl, rfl, rfl⟩

/-- the hypotheses of `self_store_write_through` hold there -/
example : ∃ σ'', Prim.applyPure (Prim.applyPure σ3 .vectorSet [.vec 0, .num (.int (1 : Nat)), .vec 0]).2
      .vectorSet [.vec 0, .num (.int (2 : Nat)), .sym "new"] = (.ok .void, σ'') ∧ σ''.vecs.size = σ3.vecs.size :=
  let ⟨σ'', h, _, hs, _⟩ := self_store_write_through (σ := σ3) (id := 0) (i := 1) (j := 2) (elt := .vec 0)
    rfl rfl (by decide) rfl rfl (by decide) (.sym "new")
  ⟨σ'', h, hs⟩

/-- two levels: cell 1 holds cell 0 at index 0; `(vector-set! v0 2 v1)` closes the cycle -/
example : ∃ σ', Prim.applyPure σ3 .vectorSet [.vec 0, .num (.int (2 : Nat)), .vec 1] = (.ok .void, σ') ∧
    Prim.applyPure σ' .vectorRef [.vec 0, .num (.int (2 : Nat))] = (.ok (.vec 1), σ') ∧
    Prim.applyPure σ' .vectorRef [.vec 1, .num (.int (0 : Nat))] = (.ok (.vec 0), σ') ∧
    σ'.vecs.size = 2 :=
  let ⟨σ', h, _, hs, _, h₁, h₂, _⟩ :=
    two_level_store (σ := σ3) (a := 0) (b := 1) (i := 2) (j := 0) (by decide) rfl rfl rfl (by decide) rfl
  ⟨σ', h, h₁, h₂, hs⟩

end Ruschm.C03Self

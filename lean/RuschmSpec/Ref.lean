/-
Reference semantics for property C01 (under construction): a direct-style evaluator with no
trampoline.  See `RuschmProofs/C01.lean`.
-/
import RuschmModel.Eval
namespace Ruschm.Ref

end Ruschm.Ref

/-
Helper lemmas for C07 (6): the interpreter around the evaluator. `Interp.Safe` is preserved by
every function of the interpreter's mutual block (imports, library instantiation from registered
factories and from library files, library bodies), by `evalAst` and by `evalText`, none of which
panics; library factories made from ANY file text hold `ok` declarations; the initial states
`default_` and `withStdlib` are safe.
-/
import RuschmProofs.SafeEval
import RuschmProofs.SafeExpand
import RuschmProofs.LibLemmas
open Ruschm
namespace Ruschm
namespace Interp
open Store Eval

theorem BindingsSafe.grows {σ σ' : Store} {defs} (h : BindingsSafe σ defs) (g : Grows σ σ') :
    BindingsSafe σ' defs := fun kv hkv => ⟨(h kv hkv).1, (h kv hkv).2.grows g⟩

theorem Factory.Safe.grows {σ σ' : Store} {f : Factory} (h : f.Safe σ) (g : Grows σ σ') : f.Safe σ' := by
  cases f with
  | native defs => exact BindingsSafe.grows h g
  | ast decls => exact h

/-- replacing the store by a safe store that grows it keeps the interpreter invariant -/
theorem Safe.withStore {st : State} (h : Interp.Safe st) {σ' : Store} (hs : σ'.Safe) (hg : Grows st.store σ') :
    Interp.Safe { st with store := σ' } :=
  ⟨hs, lt_grows h.env hg, fun nd hnd => (h.instances nd hnd).grows hg,
    fun nf hnf => (h.factories nf hnf).grows hg, h.syn⟩

theorem libLookup_mem {α} {l : List (LibName × α)} {k : LibName} {v : α} (h : libLookup l k = some v) :
    (k, v) ∈ l := by
  induction l with
  | nil => simp [libLookup] at h
  | cons p rest ih =>
    obtain ⟨k', v'⟩ := p
    simp only [libLookup] at h
    split at h
    · rename_i hk; cases h; subst hk; simp
    · exact List.mem_cons_of_mem _ (ih h)

theorem mem_libInsert {α} {l : List (LibName × α)} {k : LibName} {v : α} {x} (h : x ∈ libInsert l k v) :
    x = (k, v) ∨ x ∈ l := by
  induction l with
  | nil => simp [libInsert] at h; exact .inl h
  | cons p rest ih =>
    obtain ⟨k', v'⟩ := p
    simp only [libInsert] at h
    split at h
    · rcases List.mem_cons.1 h with h | h
      · exact .inl h
      · exact .inr (List.mem_cons_of_mem _ h)
    · rcases List.mem_cons.1 h with h | h
      · exact .inr (by simp [h])
      · rcases ih h with h | h
        · exact .inl h
        · exact .inr (List.mem_cons_of_mem _ h)

theorem mem_assocInsert {α} {l : List (String × α)} {k : String} {v : α} {x} (h : x ∈ assocInsert l k v) :
    x = (k, v) ∨ x ∈ l := by
  induction l with
  | nil => simp [assocInsert] at h; exact .inl h
  | cons p rest ih =>
    obtain ⟨k', v'⟩ := p
    simp only [assocInsert] at h
    split at h
    · rcases List.mem_cons.1 h with h | h
      · exact .inl h
      · exact .inr (List.mem_cons_of_mem _ h)
    · rcases List.mem_cons.1 h with h | h
      · exact .inr (by simp [h])
      · rcases ih h with h | h
        · exact .inl h
        · exact .inr (List.mem_cons_of_mem _ h)

theorem bindingsSafe_assocInsert {σ : Store} {acc : List (String × Value)} {k : String} {v : Value}
    (ha : BindingsSafe σ acc) (hv : VGood σ v) : BindingsSafe σ (assocInsert acc k v) := by
  intro kv hkv
  rcases mem_assocInsert hkv with rfl | h
  · exact hv
  · exact ha kv h

theorem bindingsSafe_nil {σ : Store} : BindingsSafe σ [] := by intro kv h; cases h

/-- outcome of an interpreter step -/
structure IPost {α} (st' : State) (r : Except SErr α) (Q : α → Prop) : Prop where
  safe : Interp.Safe st'
  np : ∀ er, r = .error er → er.NP
  val : ∀ a, r = .ok a → Q a

theorem vgood_transformer {σ : Store} {r : Macro.Rules} : VGood σ (.transformer r) :=
  ⟨trivial, by simp [Store.AllocIn, Value.Below, Value.frameIds, Value.vecIds]⟩

theorem evalExprOrDef_post {fuel : Nat} {st : State} {s : Statement} {ρ : Nat} {r st'}
    (h : evalExprOrDef fuel st s ρ = (r, st')) (hst : Interp.Safe st) (hρ : ρ < st.store.frames.size)
    (hs : s.ok = true) : IPost st' r (fun _ => True) := by
  unfold evalExprOrDef at h
  split at h
  · rename_i e
    have hp := evalExpr_post (fuel := fuel) hst.store hρ (by simpa [Statement.ok] using hs)
    have hg := evalExpr_grows fuel st.store ρ e
    split at h <;> rename_i he <;> cases h <;> rw [he] at hp hg
    · exact ⟨hst.withStore hp.store hg, fun er h => (by cases h), fun _ _ => trivial⟩
    · exact ⟨hst.withStore hp.store hg, fun er h => (by cases h; exact hp.np _ rfl), fun _ h => (by cases h)⟩
  · rename_i name e l
    have hp := evalExpr_post (fuel := fuel) hst.store hρ (by simpa [Statement.ok, Def.ok] using hs)
    have hg := evalExpr_grows fuel st.store ρ e
    split at h <;> rename_i he <;> cases h <;> rw [he] at hp hg
    · exact ⟨hst.withStore (safe_define hp.store _ _ (hp.val _ rfl)) (hg.trans (grows_define _ _ _ _)),
        fun er h => (by cases h), fun _ _ => trivial⟩
    · exact ⟨hst.withStore hp.store hg, fun er h => (by cases h; exact hp.np _ rfl), fun _ h => (by cases h)⟩
  · cases h
    exact ⟨hst.withStore (safe_define hst.store _ _ vgood_transformer) (grows_define _ _ _ _),
      fun er h => (by cases h), fun _ _ => trivial⟩
  · cases h
    exact ⟨hst, fun er h => (by cases h; simp), fun _ h => (by cases h)⟩


/-! ### library factories -/

end Interp

mutual
theorem Datum.strip_ratOk : ∀ (d : Datum), d.strip.ratOk = d.ratOk
  | .prim _ _ => by simp [Datum.strip, Datum.ratOk]
  | .sym _ _ => by simp [Datum.strip, Datum.ratOk]
  | .pair a d _ => by simp [Datum.strip, Datum.ratOk, Datum.strip_ratOk a, Datum.strip_ratOk d]
  | .nil _ => by simp [Datum.strip, Datum.ratOk]
  | .vec xs _ => by simp [Datum.strip, Datum.ratOk, Datum.stripList_ratOk xs]
theorem Datum.stripList_ratOk : ∀ (ds : List Datum), Datum.ratOkList (Datum.stripList ds) = Datum.ratOkList ds
  | [] => by simp [Datum.stripList, Datum.ratOkList]
  | x :: xs => by simp [Datum.stripList, Datum.ratOkList, Datum.strip_ratOk x, Datum.stripList_ratOk xs]
end

namespace Interp
open Store Eval

theorem grammarData_ratOk : Datum.ratOkList Gen.grammarData = true := by decide

theorem grammarScope_ratOK : ∀ kr ∈ grammarScope, kr.2.RatOK := by
  have key : ∀ (ds : List Datum) (env : Xform.SynEnv), (∀ d ∈ ds, d.ratOk = true) → Xform.SynEnv.RatOK env →
      Xform.SynEnv.RatOK (ds.foldl (fun (env : Xform.SynEnv) (d : Datum) =>
        (Xform.toStatement (Xform.xformFuel d) d env).2) env) := by
    intro ds
    induction ds with
    | nil => intro env _ h; exact h
    | cons d ds ih =>
      intro env hd he
      simp only [List.foldl_cons]
      exact ih _ (fun x hx => hd x (by simp [hx])) (Xform.toStatement_ok (hd d (by simp)) he).1
  have h0 : Xform.SynEnv.RatOK [[]] := by
    intro sc hsc; simp at hsc; subst hsc; simp
  have := key Gen.grammarData [[]] (Datum.ratOkList_iff.1 grammarData_ratOk) h0
  unfold grammarScope
  simp only
  generalize List.foldl _ [[]] Gen.grammarData = env at this
  cases env with
  | nil => simp
  | cons sc rest => exact this sc (by simp)

theorem libEnv_ratOK : Xform.SynEnv.RatOK [[], grammarScope] := by
  intro sc hsc
  simp only [List.mem_cons, List.not_mem_nil, or_false] at hsc
  rcases hsc with rfl | rfl
  · simp
  · exact grammarScope_ratOK

theorem factoryOfText_go_post (name : LibName) : ∀ (fuel : Nat) (s : Read.PState) (env : Xform.SynEnv),
    s.RatOK → Xform.SynEnv.RatOK env →
    (∀ e, factoryOfText.go name fuel s env = .error e → e.NP) ∧
    ∀ f, factoryOfText.go name fuel s env = .ok f → ∃ decls, f = .ast decls ∧ LibDecl.okList decls = true
  | 0, s, env, _, _ => by
    rw [factoryOfText.go]; exact ⟨fun e h => (by cases h; simp), fun f h => (by cases h)⟩
  | fuel + 1, s, env, hs, he => by
    rw [factoryOfText.go]
    split
    · rename_i e hn
      exact ⟨fun e' h => (by cases h; exact Read.nextDatum_np hn), fun f h => (by cases h)⟩
    · exact ⟨fun e' h => (by cases h; intro s hs; cases hs), fun f h => (by cases h)⟩
    · rename_i d s' hn
      have hr := Read.nextDatum_ratOk hn hs
      have hd : d.strip.ratOk = true := by rw [Datum.strip_ratOk]; exact hr.2 d rfl
      have hx := Xform.toStatement_ok (fuel := Xform.xformFuel d.strip) hd he
      simp only
      split
      · rename_i e env' hx'
        refine ⟨fun e' h => (by cases h; exact Xform.toStatement_np _ _ _ (by rw [hx'])), fun f h => (by cases h)⟩
      · rename_i n decls l env' hx'
        rw [hx'] at hx
        split
        · refine ⟨fun e' h => (by cases h), fun f h => ?_⟩
          cases h
          exact ⟨decls, rfl, by simpa [Statement.ok] using hx.2 _ rfl⟩
        · exact factoryOfText_go_post name fuel s' env' hr.1 hx.1
      · rename_i st env' _ hx'
        rw [hx'] at hx
        exact factoryOfText_go_post name fuel s' env' hr.1 hx.1

theorem factoryOfText_post (name : LibName) (text : String) :
    (∀ e, factoryOfText name text = .error e → e.NP) ∧
    ∀ f, factoryOfText name text = .ok f → ∃ decls, f = .ast decls ∧ LibDecl.okList decls = true := by
  unfold factoryOfText
  apply factoryOfText_go_post
  · have := Read.ofText_ratOK text.toList
    exact ⟨fun t ht => by
        simp only [List.mem_map] at ht
        obtain ⟨t0, ht0, rfl⟩ := ht
        exact this.toks t0 ht0,
      fun t ht => this.cur t ht⟩
  · exact libEnv_ratOK


/-! ### the interpreter's mutual block: induction on fuel -/

structure IAt (fuel : Nat) : Prop where
  importSet : ∀ {st s r st'}, evalImportSet fuel st s = (r, st') → Interp.Safe st →
    IPost st' r (BindingsSafe st'.store)
  getLibrary : ∀ {st name loc r st'}, getLibrary fuel st name loc = (r, st') → Interp.Safe st →
    IPost st' r (BindingsSafe st'.store)
  import_ : ∀ {st sets ρ r st'}, evalImport fuel st sets ρ = (r, st') → Interp.Safe st →
    IPost st' r (fun _ => True)
  importSets : ∀ {st sets acc r st'}, evalImportSets fuel st sets acc = (r, st') → Interp.Safe st →
    BindingsSafe st.store acc → IPost st' r (BindingsSafe st'.store)
  libraryDef : ∀ {st decls r st'}, evalLibraryDef fuel st decls = (r, st') → Interp.Safe st →
    LibDecl.okList decls = true → IPost st' r (BindingsSafe st'.store)
  libDecls : ∀ {st ρ decls acc r st'}, evalLibDecls fuel st ρ decls acc = (r, st') → Interp.Safe st →
    ρ < st.store.frames.size → LibDecl.okList decls = true → IPost st' r (fun _ => True)
  statements : ∀ {st ρ ss r st'}, evalStatements fuel st ρ ss = (r, st') → Interp.Safe st →
    ρ < st.store.frames.size → Statement.okList ss = true → IPost st' r (fun _ => True)

theorem ipost_fuel {α} {Q : α → Prop} {st : State} (h : Interp.Safe st) {l : Loc} :
    IPost st (.error (.fuel, l) : Except SErr α) Q :=
  ⟨h, fun er he => (by cases he; simp), fun a he => (by cases he)⟩

theorem ipost_err {α} {Q : α → Prop} {st : State} (h : Interp.Safe st) {e : SErr} (he : e.NP) :
    IPost st (.error e : Except SErr α) Q :=
  ⟨h, fun er h' => (by cases h'; exact he), fun a h' => (by cases h')⟩

theorem ipost_ok {α} {Q : α → Prop} {st : State} (h : Interp.Safe st) {a : α} (ha : Q a) :
    IPost st (.ok a : Except SErr α) Q :=
  ⟨h, fun er h' => (by cases h'), fun a' h' => (by cases h'; exact ha)⟩

theorem iAt_zero : IAt 0 := by
  constructor
  · intro st s r st' h hs; rw [evalImportSet] at h; cases h; exact ipost_fuel hs
  · intro st n l r st' h hs; rw [Interp.getLibrary] at h; cases h; exact ipost_fuel hs
  · intro st ss ρ r st' h hs; rw [evalImport] at h; cases h; exact ipost_fuel hs
  · intro st ss acc r st' h hs _; rw [evalImportSets] at h; cases h; exact ipost_fuel hs
  · intro st ds r st' h hs _; rw [evalLibraryDef] at h; cases h; exact ipost_fuel hs
  · intro st ρ ds acc r st' h hs _ _; rw [evalLibDecls] at h; cases h; exact ipost_fuel hs
  · intro st ρ ss r st' h hs _ _; rw [evalStatements] at h; cases h; exact ipost_fuel hs

theorem safe_inProgress {st : State} (h : Interp.Safe st) (ip : List LibName) :
    Interp.Safe { st with inProgress := ip } :=
  ⟨h.store, h.env, h.instances, h.factories, h.syn⟩

theorem foldl_define_safe (ρ : Nat) : ∀ (defs : List (String × Value)) (σ : Store), σ.Safe →
    BindingsSafe σ defs →
    (defs.foldl (fun σ p => σ.define ρ p.1 p.2) σ).Safe ∧ Grows σ (defs.foldl (fun σ p => σ.define ρ p.1 p.2) σ)
  | [], σ, hσ, _ => ⟨hσ, Grows.refl σ⟩
  | p :: rest, σ, hσ, hd => by
    simp only [List.foldl_cons]
    have h1 := safe_define hσ ρ p.1 (hd p (by simp))
    have g1 := grows_define σ ρ p.1 p.2
    have := foldl_define_safe ρ rest _ h1 (BindingsSafe.grows (fun kv hkv => hd kv (by simp [hkv])) g1)
    exact ⟨this.1, g1.trans this.2⟩

theorem mergeFold_safe {σ σd : Store} : ∀ (defs acc acc' : List (String × Value)),
    defs.foldlM (fun (a : List (String × Value)) p =>
      match a.lookup p.1 with
      | some prev => if Prim.derivedEq σd 100000 prev p.2 then Except.ok (assocInsert a p.1 p.2)
                     else Except.error ((Err.other, none) : SErr)
      | none => Except.ok (assocInsert a p.1 p.2)) acc = .ok acc' →
    BindingsSafe σ defs → BindingsSafe σ acc → BindingsSafe σ acc'
  | [], acc, acc', h, _, ha => by
    simp only [List.foldlM_nil, pure, Except.pure] at h; cases h; exact ha
  | p :: rest, acc, acc', h, hd, ha => by
    simp only [List.foldlM_cons, bind, Except.bind] at h
    have hp : VGood σ p.2 := hd p (by simp)
    have hr : BindingsSafe σ rest := fun kv hkv => hd kv (by simp [hkv])
    split at h
    · cases h
    · rename_i a1 h1
      have : BindingsSafe σ a1 := by
        split at h1
        · split at h1
          · cases h1; exact bindingsSafe_assocInsert ha hp
          · cases h1
        · cases h1; exact bindingsSafe_assocInsert ha hp
      exact mergeFold_safe rest a1 acc' h hr this

theorem mergeFold_np {σd : Store} : ∀ (defs acc : List (String × Value)) (e : SErr),
    defs.foldlM (fun (a : List (String × Value)) p =>
      match a.lookup p.1 with
      | some prev => if Prim.derivedEq σd 100000 prev p.2 then Except.ok (assocInsert a p.1 p.2)
                     else Except.error ((Err.other, none) : SErr)
      | none => Except.ok (assocInsert a p.1 p.2)) acc = .error e → e.NP
  | [], acc, e, h => by simp only [List.foldlM_nil, pure, Except.pure] at h; cases h
  | p :: rest, acc, e, h => by
    simp only [List.foldlM_cons, bind, Except.bind] at h
    split at h
    · rename_i e1 h1
      cases h
      split at h1
      · split at h1
        · cases h1
        · cases h1; intro s hs; cases hs
      · cases h1
    · exact mergeFold_np rest _ e h

theorem exportFold_safe {σ : Store} (hσ : σ.Safe) (ρ : Nat) : ∀ (exports : List ExportSpec)
    (acc acc' : List (String × Value)),
    exports.foldlM (fun (acc : List (String × Value)) (ex : ExportSpec) =>
        let (from_, tgt, loc) := match ex with
          | .direct n l => (n, n, l)
          | .rename a b l => (a, b, l)
        match σ.lookup ρ from_ with
        | some v => Except.ok (assocInsert acc tgt v)
        | none => Except.error ((Err.unbound, loc) : SErr)) acc = .ok acc' →
    BindingsSafe σ acc → BindingsSafe σ acc'
  | [], acc, acc', h, ha => by simp only [List.foldlM_nil, pure, Except.pure] at h; cases h; exact ha
  | ex :: rest, acc, acc', h, ha => by
    simp only [List.foldlM_cons, bind, Except.bind] at h
    split at h
    · cases h
    · rename_i a1 h1
      have : BindingsSafe σ a1 := by
        split at h1
        · rename_i v hv; cases h1; exact bindingsSafe_assocInsert ha (safe_lookup hσ hv)
        · cases h1
      exact exportFold_safe hσ ρ rest a1 acc' h this

theorem exportFold_np {σ : Store} (ρ : Nat) : ∀ (exports : List ExportSpec)
    (acc : List (String × Value)) (e : SErr),
    exports.foldlM (fun (acc : List (String × Value)) (ex : ExportSpec) =>
        let (from_, tgt, loc) := match ex with
          | .direct n l => (n, n, l)
          | .rename a b l => (a, b, l)
        match σ.lookup ρ from_ with
        | some v => Except.ok (assocInsert acc tgt v)
        | none => Except.error ((Err.unbound, loc) : SErr)) acc = .error e → e.NP
  | [], acc, e, h => by simp only [List.foldlM_nil, pure, Except.pure] at h; cases h
  | ex :: rest, acc, e, h => by
    simp only [List.foldlM_cons, bind, Except.bind] at h
    split at h
    · rename_i e1 h1
      cases h
      split at h1
      · cases h1
      · cases h1; intro s hs; cases hs
    · exact exportFold_np ρ rest _ e h

section
variable {fuel : Nat} (ih : IAt fuel)
include ih

theorem i_importSet {st s r st'} (h : evalImportSet (fuel + 1) st s = (r, st')) (hs : Interp.Safe st) :
    IPost st' r (BindingsSafe st'.store) := by
  cases s with
  | direct name loc =>
    rw [evalImportSet] at h
    split at h
    · cases h; exact ipost_err hs (by simp [SErr.NP])
    · cases h
      have i := ih.getLibrary (st := { st with inProgress := name :: st.inProgress }) (name := name)
        (loc := loc) (r := _) (st' := _) rfl (safe_inProgress hs _)
      exact ⟨safe_inProgress i.safe _, i.np, i.val⟩
  | only sub ids =>
    rw [evalImportSet] at h
    split at h <;> rename_i he <;> cases h <;> have i := ih.importSet he hs
    · exact ⟨i.safe, fun er h => (by cases h), fun a h => (by
        cases h; exact fun kv hkv => i.val _ rfl kv (List.mem_of_mem_filter hkv))⟩
    · exact ⟨i.safe, fun er h => (by cases h; exact i.np _ rfl), fun a h => (by cases h)⟩
  | except sub ids =>
    rw [evalImportSet] at h
    split at h <;> rename_i he <;> cases h <;> have i := ih.importSet he hs
    · exact ⟨i.safe, fun er h => (by cases h), fun a h => (by
        cases h; exact fun kv hkv => i.val _ rfl kv (List.mem_of_mem_filter hkv))⟩
    · exact ⟨i.safe, fun er h => (by cases h; exact i.np _ rfl), fun a h => (by cases h)⟩
  | «prefix» sub p =>
    rw [evalImportSet] at h
    split at h <;> rename_i he <;> cases h <;> have i := ih.importSet he hs
    · refine ⟨i.safe, fun er h => (by cases h), fun a h => ?_⟩
      cases h
      intro kv hkv
      simp only [List.mem_map] at hkv
      obtain ⟨q, hq, rfl⟩ := hkv
      exact i.val _ rfl q hq
    · exact ⟨i.safe, fun er h => (by cases h; exact i.np _ rfl), fun a h => (by cases h)⟩
  | rename sub pairs =>
    rw [evalImportSet] at h
    split at h <;> rename_i he <;> cases h <;> have i := ih.importSet he hs
    · refine ⟨i.safe, fun er h => (by cases h), fun a h => ?_⟩
      cases h
      intro kv hkv
      simp only [List.mem_map] at hkv
      obtain ⟨q, hq, rfl⟩ := hkv
      exact i.val _ rfl q hq
    · exact ⟨i.safe, fun er h => (by cases h; exact i.np _ rfl), fun a h => (by cases h)⟩


theorem i_getLibrary {st name loc r st'} (h : Interp.getLibrary (fuel + 1) st name loc = (r, st'))
    (hs : Interp.Safe st) : IPost st' r (BindingsSafe st'.store) := by
  rw [getLibrary_succ_eq] at h
  split at h
  · rename_i defs hc
    cases h
    exact ipost_ok hs (hs.instances _ (libLookup_mem hc))
  · -- find the factory
    have hff : ∀ rf stf, findFactory st name loc = (rf, stf) →
        IPost stf rf (fun f => f.Safe stf.store) := by
      intro rf stf hf
      unfold findFactory at hf
      split at hf
      · rename_i f hl; cases hf; exact ipost_ok hs (hs.factories _ (libLookup_mem hl))
      · split at hf
        · cases hf; exact ipost_err hs (by simp [SErr.NP])
        · cases hf; exact ipost_err hs (by simp [SErr.NP])
        · rename_i t hfile
          have hp := factoryOfText_post name t
          split at hf
          · rename_i f hft
            cases hf
            obtain ⟨decls, rfl, hd⟩ := hp.2 f hft
            refine ipost_ok ?_ hd
            refine ⟨hs.store, hs.env, hs.instances, ?_, hs.syn⟩
            intro nf hnf
            rcases mem_libInsert hnf with rfl | hm
            · exact hd
            · exact hs.factories nf hm
          · rename_i e hft
            cases hf; exact ipost_err hs (hp.1 e hft)
    split at h
    · rename_i e st1 hf
      have := hff _ _ hf
      cases h
      exact ipost_err this.safe (this.np _ rfl)
    · rename_i f st1 hf
      have hf1 := hff _ _ hf
      have hfs : f.Safe st1.store := hf1.val f rfl
      -- instantiate
      unfold instantiate cacheInstance newLibrary at h
      cases f with
      | native defs =>
        simp only at h
        cases h
        refine ipost_ok ?_ hfs
        refine ⟨hf1.safe.store, hf1.safe.env, ?_, hf1.safe.factories, hf1.safe.syn⟩
        intro nd hnd
        rcases mem_libInsert hnd with rfl | hm
        · exact hfs
        · exact hf1.safe.instances nd hm
      | ast decls =>
        simp only at h
        have i := ih.libraryDef (st := st1) (decls := decls) (r := _) (st' := _) rfl hf1.safe hfs
        split at h
        · rename_i defs hr
          cases h
          refine ipost_ok ?_ (i.val defs hr)
          refine ⟨i.safe.store, i.safe.env, ?_, i.safe.factories, i.safe.syn⟩
          intro nd hnd
          rcases mem_libInsert hnd with rfl | hm
          · exact i.val defs hr
          · exact i.safe.instances nd hm
        · rename_i e hr
          cases h
          exact ipost_err i.safe (i.np e hr)

theorem i_import {st sets ρ r st'} (h : evalImport (fuel + 1) st sets ρ = (r, st')) (hs : Interp.Safe st) :
    IPost st' r (fun _ => True) := by
  rw [evalImport] at h
  have hacc : BindingsSafe st.store [] := bindingsSafe_nil
  split at h <;> rename_i he <;> cases h <;> have i := ih.importSets he hs hacc
  · exact ipost_err i.safe (i.np _ rfl)
  · have := foldl_define_safe ρ _ _ i.safe.store (i.val _ rfl)
    exact ipost_ok (i.safe.withStore this.1 this.2) trivial

theorem i_importSets {st sets acc r st'} (h : evalImportSets (fuel + 1) st sets acc = (r, st'))
    (hs : Interp.Safe st) (hacc : BindingsSafe st.store acc) : IPost st' r (BindingsSafe st'.store) := by
  cases sets with
  | nil => rw [evalImportSets] at h; cases h; exact ipost_ok hs hacc
  | cons s rest =>
    rw [evalImportSets] at h
    split at h <;> rename_i he
    · cases h; have i := ih.importSet he hs; exact ipost_err i.safe (i.np _ rfl)
    · rename_i defs st1
      have i := ih.importSet he hs
      have hg : Grows st.store st1.store := ((invAt storeRel_grows fuel).importSet he).store
      split at h
      · rename_i e hm; cases h; exact ipost_err i.safe (mergeFold_np _ _ e hm)
      · rename_i acc' hm
        exact ih.importSets h i.safe (mergeFold_safe _ _ _ hm (i.val _ rfl) (hacc.grows hg))

theorem i_libDecls {st ρ decls acc r st'} (h : evalLibDecls (fuel + 1) st ρ decls acc = (r, st'))
    (hs : Interp.Safe st) (hρ : ρ < st.store.frames.size) (hd : LibDecl.okList decls = true) :
    IPost st' r (fun _ => True) := by
  cases decls with
  | nil => rw [evalLibDecls] at h; cases h; exact ipost_ok hs trivial
  | cons d ds =>
    simp only [LibDecl.okList, Bool.and_eq_true] at hd
    cases d <;> rw [evalLibDecls] at h
    · split at h <;> rename_i he
      · cases h; have i := ih.import_ he hs; exact ipost_err i.safe (i.np _ rfl)
      · have i := ih.import_ he hs
        exact ih.libDecls h i.safe (lt_grows hρ ((invAt storeRel_grows fuel).import_ he).store) hd.2
    · exact ih.libDecls h hs hρ hd.2
    · split at h <;> rename_i he
      · cases h
        have i := ih.statements he hs hρ (by simpa [LibDecl.ok] using hd.1)
        exact ipost_err i.safe (i.np _ rfl)
      · have i := ih.statements he hs hρ (by simpa [LibDecl.ok] using hd.1)
        exact ih.libDecls h i.safe (lt_grows hρ ((invAt storeRel_grows fuel).statements he).store) hd.2

theorem i_statements {st ρ ss r st'} (h : evalStatements (fuel + 1) st ρ ss = (r, st'))
    (hs : Interp.Safe st) (hρ : ρ < st.store.frames.size) (hd : Statement.okList ss = true) :
    IPost st' r (fun _ => True) := by
  cases ss with
  | nil => rw [evalStatements] at h; cases h; exact ipost_ok hs trivial
  | cons s rest =>
    simp only [Statement.okList, Bool.and_eq_true] at hd
    rw [evalStatements] at h
    split at h <;> rename_i he
    · cases h
      have i := evalExprOrDef_post he hs hρ hd.1
      exact ipost_err i.safe (i.np _ rfl)
    · have i := evalExprOrDef_post he hs hρ hd.1
      exact ih.statements h i.safe (lt_grows hρ (evalExprOrDef_inv storeRel_grows he).store) hd.2

theorem i_libraryDef {st decls r st'} (h : evalLibraryDef (fuel + 1) st decls = (r, st'))
    (hs : Interp.Safe st) (hd : LibDecl.okList decls = true) : IPost st' r (BindingsSafe st'.store) := by
  rw [evalLibraryDef] at h
  obtain ⟨h1, h2, h3⟩ := safe_newFrame_none hs.store
  have hs1 : Interp.Safe { st with store := (st.store.newFrame none).2 } := hs.withStore h1 h2
  simp only at h
  split at h <;> rename_i he
  · cases h
    have i := ih.libDecls he hs1 h3 hd
    exact ipost_err i.safe (i.np _ rfl)
  · rename_i exports st2
    have i := ih.libDecls he hs1 h3 hd
    cases h
    refine ⟨i.safe, fun er h' => exportFold_np _ _ _ er h', fun a h' => ?_⟩
    exact exportFold_safe i.safe.store _ _ _ a h' bindingsSafe_nil
end

theorem iAt : ∀ fuel, IAt fuel
  | 0 => iAt_zero
  | fuel + 1 =>
    have ih := iAt fuel
    ⟨i_importSet ih, i_getLibrary ih, i_import ih, i_importSets ih, i_libraryDef ih, i_libDecls ih,
      i_statements ih⟩


/-! ### `evalAst`, `evalText`, the initial states -/

theorem evalAst_post {fuel : Nat} {st : State} {s : Statement} (hs : Interp.Safe st) (hok : s.ok = true) :
    IPost (evalAst fuel st s).2 (evalAst fuel st s).1 (fun _ => True) := by
  unfold evalAst
  generalize hres : (if (!st.importEnd) = true then _ else _ : Except SErr (Option Value) × State) = res
  have key : IPost res.2 res.1 (fun _ => True) := by
    subst hres
    split
    · split
      · rename_i sets l
        have i := (iAt fuel).import_ (st := st) (sets := sets) (ρ := st.env) (r := _) (st' := _) rfl hs
        split <;> rename_i he <;> rw [he] at i
        · exact ipost_ok i.safe trivial
        · exact ipost_err i.safe (i.np _ rfl)
      · exact ipost_err hs (by simp [SErr.NP])
      · have hs' : Interp.Safe { st with importEnd := true } :=
          ⟨hs.store, hs.env, hs.instances, hs.factories, hs.syn⟩
        have i := evalExprOrDef_post (fuel := fuel) (st := { st with importEnd := true }) (s := s) (ρ := st.env)
          (r := _) (st' := _) rfl hs' hs.env hok
        exact ⟨i.safe, i.np, fun _ _ => trivial⟩
    · have i := evalExprOrDef_post (fuel := fuel) (st := st) (s := s) (ρ := st.env)
        (r := _) (st' := _) rfl hs hs.env hok
      exact ⟨i.safe, i.np, fun _ _ => trivial⟩
  obtain ⟨r0, st0⟩ := res
  simp only at key ⊢
  split
  · exact ipost_ok key.safe trivial
  · rename_i e loc
    refine ipost_err key.safe ?_
    have := key.np _ rfl
    intro s hs
    exact this s hs

theorem safe_withSyn {st : State} (h : Interp.Safe st) {syn : Xform.SynEnv} (hsyn : Xform.SynEnv.RatOK syn) :
    Interp.Safe { st with syn := syn } :=
  ⟨h.store, h.env, h.instances, h.factories, hsyn⟩

theorem evalText_go_post (fuel : Nat) : ∀ (n : Nat) (s : Read.PState) (st : State) (last : Option Value),
    s.RatOK → Interp.Safe st →
    IPost (evalText.go fuel n s st last).2 (evalText.go fuel n s st last).1 (fun _ => True)
  | 0, s, st, last, _, hst => by rw [evalText.go]; exact ipost_fuel hst
  | n + 1, s, st, last, hs, hst => by
    rw [evalText.go]
    split
    · rename_i e hn; exact ipost_err hst (Read.nextDatum_np hn)
    · exact ipost_ok hst trivial
    · rename_i d s' hn
      have hr := Read.nextDatum_ratOk hn hs
      have hx := Xform.toStatement_ok (fuel := Xform.xformFuel d) (hr.2 d rfl) hst.syn
      split
      · rename_i e syn hx'
        rw [hx'] at hx
        exact ipost_err (safe_withSyn hst hx.1) (Xform.toStatement_np _ _ _ (by rw [hx']))
      · rename_i stmt syn hx'
        rw [hx'] at hx
        have i := evalAst_post (fuel := fuel) (s := stmt) (safe_withSyn hst hx.1) (hx.2 _ rfl)
        split
        · rename_i e st1 he; rw [he] at i; exact ipost_err i.safe (i.np _ rfl)
        · rename_i v st1 he; rw [he] at i
          exact evalText_go_post fuel n s' st1 v hr.1 i.safe

/-- `evalText` on ANY text, from a safe state: no panic, and the state stays safe -/
theorem evalText_post (fuel : Nat) (st : State) (text : List Char) (hst : Interp.Safe st) :
    IPost (evalText fuel st text).2 (evalText fuel st text).1 (fun _ => True) := by
  unfold evalText
  exact evalText_go_post fuel _ _ st none (Read.ofText_ratOK text) hst

theorem vgood_builtin {σ : Store} {b : Builtin} : VGood σ (.builtin b) :=
  ⟨trivial, by simp [Store.AllocIn, Value.Below, Value.frameIds, Value.vecIds]⟩

theorem root_safe : (({} : Store).newFrame none).2.Safe := by
  have : (({} : Store).newFrame none).2 = Store.root := rfl
  rw [this]
  refine ⟨Store.wf_root, ⟨fun i f h kv hkv => ?_, fun i c h => by simp [Store.root] at h⟩⟩
  simp only [Store.root] at h
  cases i with
  | zero => simp at h; subst h; simp at hkv
  | succ i => simp at h

theorem default_safe (b : Bool) : Interp.Safe (default_ b) := by
  have h1 := (factoryOfText_post libSchemeBase Gen.baseLibText).2
  have h2 := (factoryOfText_post libSchemeWrite Gen.writeLibText).2
  unfold default_
  dsimp only
  generalize factoryOfText libSchemeBase Gen.baseLibText = r1 at h1 ⊢
  generalize factoryOfText libSchemeWrite Gen.writeLibText = r2 at h2 ⊢
  refine ⟨root_safe, by simp [Store.newFrame], fun nd hnd => by simp at hnd, ?_, libEnv_ratOK⟩
  intro nf hnf
  simp only [List.mem_append, List.mem_cons, List.not_mem_nil, or_false] at hnf
  rcases hnf with (((rfl | rfl) | hnf) | hnf) | hnf
  · intro kv hkv
    simp only [nativeBase, List.mem_map] at hkv
    obtain ⟨b', _, rfl⟩ := hkv
    exact vgood_builtin
  · intro kv hkv
    simp only [nativeWrite, List.mem_cons, List.not_mem_nil, or_false] at hkv
    subst hkv; exact vgood_builtin
  · cases r1 with
    | error e => simp at hnf
    | ok f =>
      simp at hnf; subst hnf
      obtain ⟨decls, rfl, hd⟩ := h1 f rfl
      exact hd
  · cases r2 with
    | error e => simp at hnf
    | ok f =>
      simp at hnf; subst hnf
      obtain ⟨decls, rfl, hd⟩ := h2 f rfl
      exact hd
  · cases b
    · simp at hnf
    · simp at hnf; subst hnf
      intro kv hkv
      simp only [nativeHost, List.mem_cons, List.not_mem_nil, or_false] at hkv
      subst hkv; exact vgood_builtin

theorem withStdlib_safe (fuel : Nat) (b : Bool) : Interp.Safe (withStdlib fuel b) := by
  unfold withStdlib
  exact ((iAt fuel).import_ (r := _) (st' := _) rfl (default_safe b)).safe


/-- what `evalText` never touches: the in-progress set (restored after every import, failed or not),
the files, the root frame -/
theorem evalText_go_frame (fuel : Nat) : ∀ (n : Nat) (s : Read.PState) (st : State) (last : Option Value),
    (evalText.go fuel n s st last).2.inProgress = st.inProgress ∧
    (evalText.go fuel n s st last).2.files = st.files ∧ (evalText.go fuel n s st last).2.env = st.env
  | 0, s, st, last => by rw [evalText.go]; exact ⟨rfl, rfl, rfl⟩
  | n + 1, s, st, last => by
    rw [evalText.go]
    split
    · exact ⟨rfl, rfl, rfl⟩
    · exact ⟨rfl, rfl, rfl⟩
    · rename_i d s' hn
      split
      · exact ⟨rfl, rfl, rfl⟩
      · rename_i stmt syn hx
        have key : ∀ r st1, evalAst fuel { st with syn := syn } stmt = (r, st1) →
            st1.inProgress = st.inProgress ∧ st1.files = st.files ∧ st1.env = st.env := by
          intro r st1 he
          obtain ⟨st0, h0, i⟩ := evalAst_inv storeRel_true he
          rcases h0 with rfl | rfl
          · exact ⟨i.inProgress, i.files, i.env⟩
          · exact ⟨i.inProgress, i.files, i.env⟩
        split
        · rename_i e st1 he; exact key _ _ he
        · rename_i v st1 he
          have k := key _ _ he
          have := evalText_go_frame fuel n s' st1 v
          exact ⟨this.1.trans k.1, this.2.1.trans k.2.1, this.2.2.trans k.2.2⟩

theorem evalText_frame (fuel : Nat) (st : State) (text : List Char) :
    (evalText fuel st text).2.inProgress = st.inProgress ∧
    (evalText fuel st text).2.files = st.files ∧ (evalText fuel st text).2.env = st.env := by
  unfold evalText
  exact evalText_go_frame fuel _ _ st none

end Interp
end Ruschm

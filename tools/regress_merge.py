#!/usr/bin/env python3
"""merges /tmp/regr/results-*.json (tools/regress_parallel.sh) into seeded/RESULTS.json"""
import glob, json
out = {}
try:
    out = json.load(open("/verif/seeded/RESULTS.json"))
except Exception:
    pass
for f in sorted(glob.glob(__import__("os").environ.get("REGR_BASE", "/tmp/regr") + "/results-*.json")):
    out.update(json.load(open(f)))
json.dump(dict(sorted(out.items())), open("/verif/seeded/RESULTS.json", "w"), indent=1)
missed = [k for k, v in out.items() if v.get("exit") != 1]
print(len(out), "changes;", len(missed), "not detected:", missed)

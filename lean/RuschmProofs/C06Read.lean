/-
Property C06, reader half, CONVERSE direction: the reader accepts nothing but what the token
grammar `ReadSpec.Parses` (`RuschmSpec/ReadSpec.lean`) derives.

`C06.lean` proves RENDER → READ (the tokens of a syntax tree are read back as the datum it
denotes). Here:

1. SOUNDNESS      — whatever the model reader returns has a `Parses` derivation;
2. COMPLETENESS   — every `Parses` derivation is read (fuel bound `2 * ts.length`); hence
                    reader = grammar (`reader_iff_parses`);
3. DETERMINISM    — `Parses` is functional; `Syn.toks` is injective on well-formed trees;
4. ERRORS         — the reader fails exactly when no prefix of the input has a derivation, every
                    failure is a *syntax* error (never "out of fuel", never a panic), and the
                    named cases.

The grammar has three `quirk…` constructors (token sequences that R7RS 7.1.2 does not derive but
Ruschm reads); section 5 shows each of them at work, and section 6 lists what R7RS derives but
Ruschm rejects.

Only property theorems live here; helper lemmas are in `RuschmProofs/ReadSpecLemmas.lean`.
Data are compared after `Datum.strip` (source locations erased), as in `C06.read_tokens`.
-/
import RuschmProofs.ReadSpecLemmas

namespace Ruschm.C06Read
open Ruschm Ruschm.Read Ruschm.Text Ruschm.ReadSpec

/-- a token without a location (for examples) -/
private def mk (t : Token) : LToken := ⟨t, none⟩

/-- a parser state in front of the given tokens, no pending lexer error -/
private def st (ts : List Token) : PState := { toks := ts.map mk, lexErr := none }

private theorem mk_tok (ts : List Token) : (ts.map mk).map (·.tok) = ts := by
  induction ts with
  | nil => rfl
  | cons t ts ih => simp only [List.map_cons, ih]; rfl

/-- evaluates the model reader on a concrete token list (for the closed examples) -/
local macro "read_eval" : tactic =>
  `(tactic| simp [st, mk, nextDatum, advance, fuelFor, currentDatum, listOrPair, listLoop,
      advanceUnwrap, repeatDatum, datum, parseQuoted, peek, bind, Except.bind, pure, Except.pure,
      snoc, setTail, Datum.withLoc, Datum.strip, Datum.stripList, proper, improper, mkQuote,
      quoteForm, Except.map])

/-- the outcome of the reader with the locations of the datum erased and the state dropped -/
private def outcome (s : PState) : Except SErr (Option Datum) :=
  (nextDatum s).map (fun r => r.1.map Datum.strip)

/-! ### sample derivations (used by the `example`s below) -/

private theorem seq_a (rest : List Token) : ParsesSeq [.ident "a"] [.sym "a" none] rest := by
  simpa using ParsesSeq.cons (t := [.ident "a"]) (ts := []) (.ident "a" _) (.nil rest)

/-- `(a . b)` -/
private theorem der_pair (rest : List Token) :
    Parses [.lparen, .ident "a", .period, .ident "b", .rparen]
      (.pair (.sym "a" none) (.sym "b" none) none) rest := by
  simpa [improper] using Parses.dotted (seq_a _) (by simp) (.ident "b" (.rparen :: rest))

/-- `(a . )`, the first quirk -/
private theorem der_dotClose (rest : List Token) :
    Parses [.lparen, .ident "a", .period, .rparen] (proper [.sym "a" none]) rest := by
  simpa using Parses.quirkDotClose (seq_a (.period :: .rparen :: rest))

/-! ## 1. Soundness -/

/-- SOUNDNESS of `current_datum`, for every fuel and every parser state: if the reader, standing
on the token `lt0`, returns successfully, then it returns a datum (not "end of input"), it has
consumed a prefix `lpre` of the pending tokens, a pending lexer error stays pending, and the
consumed tokens `lt0 :: lpre` are — according to the grammar — exactly one written datum: the one
returned (locations erased), in front of the tokens that are left. -/
theorem current_datum_sound (fuel : Nat) (s : PState) (lt0 : LToken) (od : Option Datum)
    (s' : PState) (hc : s.cur = some lt0) (h : currentDatum fuel s = .ok (od, s')) :
    ∃ d lpre, od = some d ∧ s.toks = lpre ++ s'.toks ∧ s'.lexErr = s.lexErr ∧
      Parses (lt0.tok :: lpre.map (·.tok)) d.strip (s'.toks.map (·.tok)) :=
  (snd_all fuel).1 s lt0 od s' hc h

/-- SOUNDNESS of `datum`, the restricted reader used after a quote mark and inside vectors: the
same statement; so both readers accept the same language. -/
theorem datum_sound (fuel : Nat) (s : PState) (d : Datum) (s' : PState)
    (h : datum fuel s = .ok (d, s')) :
    ∃ lt0 lpre, s.cur = some lt0 ∧ s.toks = lpre ++ s'.toks ∧ s'.lexErr = s.lexErr ∧
      Parses (lt0.tok :: lpre.map (·.tok)) d.strip (s'.toks.map (·.tok)) :=
  (snd_all fuel).2.1 s d s' h

/-- SOUNDNESS of the reader's entry point (`Parser::parse` up to the datum: `advance`, then
`current_datum` with the fuel the model supplies): whenever it returns a datum `d`, it has
consumed a prefix `lpre` of the token stream, and `Parses` holds of that prefix, `d` (locations
erased) and the rest. The reader accepts nothing the grammar does not derive. -/
theorem reader_sound (s : PState) (d : Datum) (s' : PState)
    (h : nextDatum s = .ok (some d, s')) :
    ∃ lpre, s.toks = lpre ++ s'.toks ∧ s'.lexErr = s.lexErr ∧
      Parses (lpre.map (·.tok)) d.strip (s'.toks.map (·.tok)) := by
  cases hs : s.toks with
  | nil =>
    rw [nextDatum_nil hs] at h
    cases he : s.lexErr <;> rw [he] at h <;> simp at h
  | cons t rest0 =>
    rw [nextDatum_cons hs] at h
    obtain ⟨d', lpre, e, g1, g2, g3⟩ := current_datum_sound _ _ t _ _ rfl h
    simp only [Option.some.injEq] at e
    subst e
    exact ⟨t :: lpre, by simpa using g1, g2, by simpa using g3⟩

/-- the hypothesis is satisfiable: `(a . )` followed by `x` is read (as `(a)`), so it has a
derivation — by the quirk constructor `quirkDotClose`, the only one that fits -/
example : outcome (st [.lparen, .ident "a", .period, .rparen, .ident "x"])
    = .ok (some (proper [.sym "a" none])) := by
  unfold outcome; read_eval

/-! ## 2. Completeness -/

/-- COMPLETENESS of `current_datum` with the fuel bound: if the grammar derives `Parses ts d rest`
then, on any parser state whose current token and pending tokens spell `ts` followed by anything
(`lrest`: the frame does not matter), `current_datum` with any fuel `≥ 2 * ts.length` returns a
datum that is `d` up to locations and leaves exactly `lrest`; a pending lexer error stays
pending. -/
theorem current_datum_complete {ts : List Token} {d : Datum} {rest : List Token}
    (h : Parses ts d rest) (fuel : Nat) (s : PState) (lt0 : LToken) (lmore lrest : List LToken)
    (hfuel : 2 * ts.length ≤ fuel) (hl : (lt0 :: lmore).map (·.tok) = ts)
    (hc : s.cur = some lt0) (hs : s.toks = lmore ++ lrest) :
    ∃ d' s', currentDatum fuel s = .ok (some d', s') ∧ d'.strip = d ∧ s'.toks = lrest ∧
      s'.lexErr = s.lexErr :=
  curOK_of_parses h fuel s lt0 lmore lrest hfuel hl hc hs

/-- The same for `datum` (after a quote mark, inside vectors). -/
theorem datum_complete {ts : List Token} {d : Datum} {rest : List Token}
    (h : Parses ts d rest) (fuel : Nat) (s : PState) (lt0 : LToken) (lmore lrest : List LToken)
    (hfuel : 2 * ts.length ≤ fuel) (hl : (lt0 :: lmore).map (·.tok) = ts)
    (hc : s.cur = some lt0) (hs : s.toks = lmore ++ lrest) :
    ∃ d' s', datum fuel s = .ok (d', s') ∧ d'.strip = d ∧ s'.toks = lrest ∧
      s'.lexErr = s.lexErr :=
  datOK_of_curOK (curOK_of_parses h) fuel s lt0 lmore lrest hfuel hl hc hs

/-- COMPLETENESS of the reader's entry point: whenever `Parses ts d rest`, the reader on a token
stream that spells `ts` followed by `lrest` returns `d` (up to locations) leaving `lrest` — the
fuel `4 * (length + 2)` the model supplies is enough. -/
theorem reader_complete {ts : List Token} {d : Datum} {rest : List Token}
    (h : Parses ts d rest) (s : PState) (lts lrest : List LToken)
    (hl : lts.map (·.tok) = ts) (hs : s.toks = lts ++ lrest) :
    ∃ d' s', nextDatum s = .ok (some d', s') ∧ d'.strip = d ∧ s'.toks = lrest ∧
      s'.lexErr = s.lexErr := by
  obtain ⟨t0, more, rfl, -⟩ := parses_head h
  obtain ⟨lt0, lmore, rfl, h0, hmore⟩ := map_tok_cons hl
  have hs1 : s.toks = lt0 :: (lmore ++ lrest) := by simp [hs]
  rw [nextDatum_cons hs1]
  have hlen : (t0 :: more).length = lmore.length + 1 := by rw [← hmore]; simp
  exact current_datum_complete h _ _ lt0 lmore lrest
    (by rw [hlen]; simp only [List.length_append]; omega) (by simp [h0, hmore]) rfl rfl

example : ∃ d' s', nextDatum (st [.lparen, .ident "a", .period, .ident "b", .rparen, .rparen])
    = .ok (some d', s') ∧ d'.strip = .pair (.sym "a" none) (.sym "b" none) none ∧
      s'.toks = [mk .rparen] ∧ s'.lexErr = none :=
  reader_complete (der_pair [.rparen]) _ ([.lparen, .ident "a", .period, .ident "b", .rparen].map mk)
    [mk .rparen] (by decide) rfl

/-- READER = GRAMMAR. For a token stream split as `lpre ++ lrest`: the reader returns (a located
version of) `d` and stops exactly in front of `lrest` if and only if the grammar derives
`Parses lpre d lrest` (on the tokens, locations dropped). -/
theorem reader_iff_parses (s : PState) (lpre lrest : List LToken) (hs : s.toks = lpre ++ lrest)
    (d : Datum) :
    (∃ d' s', nextDatum s = .ok (some d', s') ∧ d'.strip = d ∧ s'.toks = lrest) ↔
      Parses (lpre.map (·.tok)) d (lrest.map (·.tok)) := by
  constructor
  · rintro ⟨d', s', h, rfl, rfl⟩
    obtain ⟨lpre', g1, -, g3⟩ := reader_sound s d' s' h
    have : lpre' = lpre := List.append_cancel_right (g1.symm.trans hs)
    rw [← this]; exact g3
  · intro h
    obtain ⟨d', s', g1, g2, g3, -⟩ := reader_complete h s lpre lrest rfl hs
    exact ⟨d', s', g1, g2, g3⟩

example : (∃ d' s', nextDatum (st [.lparen, .ident "a", .period, .rparen]) = .ok (some d', s') ∧
    d'.strip = proper [.sym "a" none] ∧ s'.toks = []) := by
  have h := der_dotClose []
  rw [← mk_tok [.lparen, .ident "a", .period, .rparen]] at h
  exact (reader_iff_parses (st [.lparen, .ident "a", .period, .rparen]) _ [] (by simp [st]) _).2 h

/-- What follows a datum never influences how it is read: a derivation in front of `rest` is a
derivation in front of any `rest'` (the reader has no lookahead beyond the closing token). -/
theorem parses_frame_independent {ts : List Token} {d : Datum} {rest : List Token}
    (h : Parses ts d rest) (rest' : List Token) : Parses ts d rest' :=
  parses_frame h rest'

example : Parses [.lparen, .ident "a", .period, .rparen] (proper [.sym "a" none]) [.quote] :=
  parses_frame_independent (der_dotClose []) _

/-! ## 3. Determinism and unique readability -/

/-- DETERMINISM: `Parses` is functional. A token list has at most one reading: if it splits in two
ways into a written datum and a remainder, the two splits, the two data and the two remainders
coincide. (Proof: both derivations are what the reader — a function — returns.) -/
theorem parses_functional {ts ts' : List Token} {d d' : Datum} {rest rest' : List Token}
    (h : Parses ts d rest) (h' : Parses ts' d' rest') (he : ts ++ rest = ts' ++ rest') :
    ts = ts' ∧ d = d' ∧ rest = rest' := by
  obtain ⟨d1, s1, g1, g2, g3, -⟩ := reader_complete h (st (ts ++ rest)) (ts.map mk) (rest.map mk)
    (mk_tok ts) (by simp [st])
  obtain ⟨d2, s2, k1, k2, k3, -⟩ := reader_complete h' (st (ts ++ rest)) (ts'.map mk)
    (rest'.map mk) (mk_tok ts') (by simp [st, he])
  rw [g1] at k1
  simp only [Except.ok.injEq, Prod.mk.injEq, Option.some.injEq] at k1
  obtain ⟨rfl, rfl⟩ := k1
  have hr : rest = rest' := by
    have := congrArg (List.map (·.tok)) (g3.symm.trans k3)
    rwa [mk_tok, mk_tok] at this
  subst hr
  exact ⟨List.append_cancel_right he, g2.symm.trans k2, rfl⟩

/-- In particular a token list denotes at most one datum. -/
theorem parses_deterministic {ts : List Token} {d d' : Datum} {rest : List Token}
    (h : Parses ts d rest) (h' : Parses ts d' rest) : d = d' :=
  (parses_functional h h' rfl).2.1

/-- `(a . )` denotes `(a)` and nothing else -/
example (d : Datum) (h : Parses [.lparen, .ident "a", .period, .rparen] d []) :
    d = proper [.sym "a" none] :=
  parses_deterministic h (der_dotClose [])

/-- … and no proper prefix or extension of a written datum is a written datum (prefix-freeness):
`(a . b)` cannot also be read as a shorter datum followed by more tokens. -/
example (ts : List Token) (d : Datum) (rest : List Token) (h : Parses ts d rest)
    (he : ts ++ rest = [.lparen, .ident "a", .period, .ident "b", .rparen] ++ [.quote]) :
    ts = [.lparen, .ident "a", .period, .ident "b", .rparen] ∧ rest = [.quote] := by
  have := parses_functional h (der_pair [.quote]) he
  exact ⟨this.1, this.2.2⟩

/-- QUIRK-FREE DERIVATIONS. Every well-formed syntax tree (`Text.Syn`: atoms, `( … )`,
`( …+ . tail)`, `#( … )`, `'x`) is a derivation that uses the R7RS productions only: its tokens
parse as the datum it denotes. -/
theorem syn_parses (x : Syn) (hx : WellFormed x) (rest : List Token) :
    Parses x.toks x.denote rest :=
  parses_of_syn x hx rest

example : Parses (Syn.toks (.dotted [.atom (.ident "a")] (.atom (.ident "b"))))
    (.pair (.sym "a" none) (.sym "b" none) none) [] :=
  syn_parses (.dotted [.atom (.ident "a")] (.atom (.ident "b")))
    ⟨by simp, ⟨rfl, trivial⟩, rfl⟩ []

/-- the trees covered by the RENDER → READ theorems of `C06.lean` are well-formed -/
theorem supported_wellFormed (x : Syn) (hx : x.Supported) : WellFormed x :=
  wf_of_supported x hx

/-- UNIQUE READABILITY. `Syn.toks` is injective on well-formed trees — even in front of
arbitrary further tokens: if the tokens of `x` followed by `r` are the tokens of `y` followed by
`r'`, then `x = y` and `r = r'`. The written form determines the tree (not only the datum:
`(a . (b))` and `(a b)` denote the same datum but are written differently). -/
theorem syn_toks_prefix_unique (x y : Syn) (hx : WellFormed x) (hy : WellFormed y)
    (r r' : List Token) (h : x.toks ++ r = y.toks ++ r') : x = y ∧ r = r' :=
  toks_unique x hx y hy r r' h

/-- `Syn.toks` is injective on well-formed trees (compare `C16.display_injective`). -/
theorem syn_toks_injective (x y : Syn) (hx : WellFormed x) (hy : WellFormed y)
    (h : x.toks = y.toks) : x = y :=
  (toks_unique x hx y hy [] [] (by rw [h])).1

/-- … in particular on the `Supported` trees of `C06.read_render`. -/
theorem supported_toks_injective (x y : Syn) (hx : x.Supported) (hy : y.Supported)
    (h : x.toks = y.toks) : x = y :=
  syn_toks_injective x y (wf_of_supported x hx) (wf_of_supported y hy) h

example (y : Syn) (hy : WellFormed y)
    (h : Syn.toks (.list [.atom (.ident "a")]) = y.toks) : Syn.list [.atom (.ident "a")] = y :=
  syn_toks_injective _ y ⟨rfl, trivial⟩ hy h

/-- well-formedness cannot be dropped: with parentheses abused as "atoms", two different trees
are written `( ( ) )` -/
example : Syn.toks (.list [.atom .lparen, .atom .rparen]) = Syn.toks (.list [.list []]) := rfl

/-! ## 4. Errors -/

/-- The reader's entry point has exactly three kinds of outcome, on every parser state: a SYNTAX
error (never the model's "out of fuel", never a panic, never any other error kind); the end of
the input (only when no token is pending and no lexer error either); or a datum that the grammar
derives from a prefix of the pending tokens. -/
theorem reader_outcomes (s : PState) :
    (∃ l, nextDatum s = .error (.syntax, l)) ∨
    (s.toks = [] ∧ s.lexErr = none ∧ ∃ s', nextDatum s = .ok (none, s')) ∨
    (∃ d s' lpre, nextDatum s = .ok (some d, s') ∧ s.toks = lpre ++ s'.toks ∧
      Parses (lpre.map (·.tok)) d.strip (s'.toks.map (·.tok))) := by
  cases hs : s.toks with
  | nil =>
    rw [nextDatum_nil hs]
    cases he : s.lexErr with
    | none => exact Or.inr (Or.inl ⟨rfl, rfl, _, rfl⟩)
    | some e => exact Or.inl ⟨_, rfl⟩
  | cons t rest0 =>
    have htot := (tot_all (4 * (rest0.length + 2))).1
      { s with toks := rest0, cur := some t, loc := t.loc } (fun _ => by simp only []; omega)
      (by omega)
    cases hn : nextDatum s with
    | error e =>
      rw [nextDatum_cons hs] at hn
      rw [hn] at htot
      obtain ⟨e1, l⟩ := e
      simp only [Good] at htot
      subst htot
      exact Or.inl ⟨l, rfl⟩
    | ok r =>
      obtain ⟨od, s'⟩ := r
      cases od with
      | none =>
        rw [nextDatum_cons hs] at hn
        obtain ⟨d, _, e, -⟩ := current_datum_sound _ _ t _ _ rfl hn
        cases e
      | some d =>
        obtain ⟨lpre, g1, -, g3⟩ := reader_sound s d s' hn
        exact Or.inr (Or.inr ⟨d, s', lpre, rfl, by rw [← hs]; exact g1, g3⟩)

/-- Every failure of the reader is a syntax error: the fuel the model supplies always suffices,
and there is no panic site in the reader. -/
theorem reader_error_is_syntax (s : PState) (e : SErr) (h : nextDatum s = .error e) :
    e.1 = .syntax := by
  rcases reader_outcomes s with ⟨l, hl⟩ | ⟨-, -, s', hl⟩ | ⟨d, s', -, hl, -⟩ <;> rw [hl] at h
  · cases h; rfl
  · cases h
  · cases h

example : nextDatum (st [.lparen, .ident "a"]) = .error (.syntax, none) := by read_eval

/-- ERRORS = NO DERIVATION. With at least one token pending, the reader fails if and only if no
prefix of the pending tokens is a written datum according to the grammar. -/
theorem reader_error_iff (s : PState) (hne : s.toks ≠ []) :
    (∃ e, nextDatum s = .error e) ↔
      ¬ ∃ lpre lrest d, s.toks = lpre ++ lrest ∧ Parses (lpre.map (·.tok)) d (lrest.map (·.tok)) := by
  constructor
  · rintro ⟨e, he⟩ ⟨lpre, lrest, d, hs, hp⟩
    obtain ⟨d', s', g1, -⟩ := reader_complete hp s lpre lrest rfl hs
    rw [g1] at he; cases he
  · intro hno
    rcases reader_outcomes s with ⟨l, hl⟩ | ⟨h0, -⟩ | ⟨d, s', lpre, -, g1, g2⟩
    · exact ⟨_, hl⟩
    · exact absurd h0 hne
    · exact absurd ⟨lpre, s'.toks, d.strip, g1, g2⟩ hno

/-- hence: no derivation starts at the head of `( a` (end of input inside a list) -/
example : ¬ ∃ lpre lrest d, [mk .lparen, mk (.ident "a")] = lpre ++ lrest ∧
    Parses (lpre.map (·.tok)) d (lrest.map (·.tok)) :=
  (reader_error_iff (st [.lparen, .ident "a"]) (by simp [st])).1 ⟨(.syntax, none), by read_eval⟩

/-- The direction asked for explicitly: a reader error means that no complete datum stands at
the head of the token stream. -/
theorem reader_error_no_derivation (s : PState) (e : SErr) (h : nextDatum s = .error e)
    (lpre lrest : List LToken) (d : Datum) (hs : s.toks = lpre ++ lrest) :
    ¬ Parses (lpre.map (·.tok)) d (lrest.map (·.tok)) := by
  intro hp
  obtain ⟨d', s', g1, -⟩ := reader_complete hp s lpre lrest rfl hs
  rw [g1] at h; cases h

/-- A written datum starts with a primitive, an identifier, `(`, `#(` or `'`. -/
theorem parses_starts {ts : List Token} {d : Datum} {rest : List Token} (h : Parses ts d rest) :
    ∃ t more, ts = t :: more ∧ Syn.isStartTok t = true :=
  parses_head h

/-- NAMED CASE: unexpected `)`, a lone `.` at top level, and the tokens of the R7RS forms Ruschm
does not read — `` ` `` `,` `,@` `#u8(` — are rejected at once, with a syntax error located at
that token. -/
theorem reject_unsupported_head (s : PState) (t : LToken) (rest0 : List LToken)
    (hs : s.toks = t :: rest0) (ht : Syn.isStartTok t.tok = false) :
    nextDatum s = .error (.syntax, t.loc) := by
  rw [nextDatum_cons hs]
  rw [show 4 * (rest0.length + 2) = (4 * rest0.length + 7) + 1 by omega,
    cur_succ _ _ t rfl]
  cases htok : t.tok <;> simp_all [Syn.isStartTok]

theorem unexpected_rparen (s : PState) (t : LToken) (rest0 : List LToken)
    (hs : s.toks = t :: rest0) (ht : t.tok = .rparen) :
    nextDatum s = .error (.syntax, t.loc) :=
  reject_unsupported_head s t rest0 hs (by rw [ht]; rfl)

theorem lone_period (s : PState) (t : LToken) (rest0 : List LToken)
    (hs : s.toks = t :: rest0) (ht : t.tok = .period) :
    nextDatum s = .error (.syntax, t.loc) :=
  reject_unsupported_head s t rest0 hs (by rw [ht]; rfl)

example : nextDatum (st [.rparen, .ident "a"]) = .error (.syntax, none) :=
  unexpected_rparen _ (mk .rparen) [mk (.ident "a")] rfl rfl

example : nextDatum { toks := [⟨.period, some (3, 4)⟩], lexErr := none }
    = .error (.syntax, some (3, 4)) :=
  lone_period _ ⟨.period, some (3, 4)⟩ [] rfl rfl

example : nextDatum (st [.quasiquote, .ident "a"]) = .error (.syntax, none) :=
  reject_unsupported_head _ (mk .quasiquote) [mk (.ident "a")] rfl rfl

/-- NAMED CASE: the end of the input inside a list — `(`, any number of complete data, and then
nothing (or a pending lexer error) — is a syntax error. -/
theorem unexpected_end_in_list {ts : List Token} {ds : List Datum} {rest : List Token}
    (h : ParsesSeq ts ds rest) (s : PState) (lp : LToken) (lts : List LToken)
    (hp : lp.tok = .lparen) (hl : lts.map (·.tok) = ts) (hs : s.toks = lp :: lts) :
    ∃ l, nextDatum s = .error (.syntax, l) := by
  rw [nextDatum_cons hs]
  rw [show 4 * (lts.length + 2) = (4 * lts.length + 7) + 1 by omega, cur_succ _ _ lp rfl]
  simp only [hp]
  have hlen : ts.length = lts.length := by rw [← hl]; simp
  obtain ⟨fuel', acc', s2, g1, g2, -, g4, -⟩ := (loopOK_of_seq h).1 1 (4 * lts.length + 7)
    { s with toks := lts, cur := some lp, loc := lp.loc } lts [] lp.loc (.nil none) []
    (by omega) (by omega) hl (by simp) rfl
  obtain ⟨f', rfl⟩ : ∃ f', fuel' = f' + 1 := ⟨fuel' - 1, by omega⟩
  rw [g2, listLoop_succ]
  rcases advanceUnwrap_cases s2 with ⟨t, rest0, hs2, -⟩ | ⟨-, e, ha⟩
  · rw [g4] at hs2; cases hs2
  · rw [ha]; exact ⟨e, rfl⟩

example : ∃ l, nextDatum (st [.lparen, .ident "a"]) = .error (.syntax, l) :=
  unexpected_end_in_list (seq_a []) _ (mk .lparen) [mk (.ident "a")] rfl rfl rfl

/-- NAMED CASE: two dots in a list — `(`, any number of data, `.`, `.` — are a syntax error
located at the second dot. -/
theorem two_dots {ts : List Token} {ds : List Datum} {rest : List Token}
    (h : ParsesSeq ts ds rest) (s : PState) (lp d1 d2 : LToken) (lts lrest : List LToken)
    (hp : lp.tok = .lparen) (hl : lts.map (·.tok) = ts) (h1 : d1.tok = .period)
    (h2 : d2.tok = .period) (hs : s.toks = lp :: (lts ++ d1 :: d2 :: lrest)) :
    nextDatum s = .error (.syntax, d2.loc) := by
  rw [nextDatum_cons hs]
  rw [show 4 * ((lts ++ d1 :: d2 :: lrest).length + 2)
      = (4 * (lts ++ d1 :: d2 :: lrest).length + 7) + 1 by omega, cur_succ _ _ lp rfl]
  simp only [hp]
  have hlen : ts.length = lts.length := by rw [← hl]; simp
  obtain ⟨fuel', acc', s2, g1, g2, -, g4, -⟩ := (loopOK_of_seq h).1 2
    (4 * (lts ++ d1 :: d2 :: lrest).length + 7)
    { s with toks := lts ++ d1 :: d2 :: lrest, cur := some lp, loc := lp.loc } lts
    (d1 :: d2 :: lrest) lp.loc (.nil none) []
    (by omega) (by simp only [List.length_append, List.length_cons]; omega) hl rfl rfl
  obtain ⟨f', rfl⟩ : ∃ f', fuel' = f' + 2 := ⟨fuel' - 2, by omega⟩
  rw [g2, loop_period_step lp.loc acc' g4 h1, listLoop_succ, advanceUnwrap_cons rfl]
  simp [h2]

example : nextDatum ⟨[mk .lparen, mk (.ident "a"), mk .period, ⟨.period, some (1, 7)⟩,
      mk (.ident "b"), mk .rparen], none, none, none⟩ = .error (.syntax, some (1, 7)) :=
  two_dots (seq_a []) _ (mk .lparen) (mk .period) ⟨.period, some (1, 7)⟩ [mk (.ident "a")]
    [mk (.ident "b"), mk .rparen] rfl rfl rfl rfl rfl

/-- NAMED CASE: a dot directly after the opening parenthesis, followed by another dot, is an
error too (`( . . a)`), located at the second dot. -/
example : nextDatum ⟨[mk .lparen, mk .period, ⟨.period, some (1, 5)⟩, mk (.ident "a"),
      mk .rparen], none, none, none⟩ = .error (.syntax, some (1, 5)) :=
  two_dots (.nil []) _ (mk .lparen) (mk .period) ⟨.period, some (1, 5)⟩ [] _ rfl rfl rfl rfl rfl

/-- NAMED CASE: the quote mark must be followed by a datum: `'` before `)`, before `.`, before
an unsupported token, is a syntax error located at that token. -/
theorem quote_needs_datum (s : PState) (q t : LToken) (rest0 : List LToken)
    (hq : q.tok = .quote) (ht : Syn.isStartTok t.tok = false) (hs : s.toks = q :: t :: rest0) :
    nextDatum s = .error (.syntax, t.loc) := by
  rw [nextDatum_cons hs]
  obtain ⟨f, hf⟩ : ∃ f, 4 * ((t :: rest0).length + 2) = f + 3 :=
    ⟨4 * rest0.length + 9, by simp only [List.length_cons]; omega⟩
  rw [hf, cur_succ (f + 2) _ q rfl]
  simp only [hq, advance, parseQuoted_succ, datum]
  cases htok : t.tok <;> simp_all [Syn.isStartTok]

example : nextDatum (st [.lparen, .ident "a", .quote, .rparen]) = .error (.syntax, none) := by
  read_eval

example : nextDatum { toks := [mk .quote, ⟨.rparen, some (1, 3)⟩], lexErr := none }
    = .error (.syntax, some (1, 3)) :=
  quote_needs_datum _ (mk .quote) ⟨.rparen, some (1, 3)⟩ [] rfl rfl rfl

/-- … and so is the quote mark at the very end of the input. -/
theorem quote_at_end (s : PState) (q : LToken) (hq : q.tok = .quote) (hs : s.toks = [q]) :
    ∃ l, nextDatum s = .error (.syntax, l) := by
  rw [nextDatum_cons hs]
  rw [show 4 * (([] : List LToken).length + 2) = 5 + 1 + 1 + 1 by rfl, cur_succ _ _ q rfl]
  simp only [hq]
  cases he : s.lexErr with
  | none => exact ⟨none, by simp [advance, parseQuoted_succ, datum]⟩
  | some e => exact ⟨some e, by simp [advance]⟩

example : ∃ l, nextDatum (st [.quote]) = .error (.syntax, l) :=
  quote_at_end _ (mk .quote) rfl rfl

/-! ## 5. The quirks at work

Each `quirk…` constructor of `ReadSpec.Parses` is inhabited, i.e. the reader really accepts these
non-R7RS forms (Rust: `current_list_or_pair`, the `encounter_period` flag is only looked at when
an element arrives and the list is non-empty). -/

/-- QUIRK `(x … . )`: a dot directly before the closing parenthesis is ignored. -/
theorem quirk_dot_before_close {ts : List Token} {ds : List Datum} {rest : List Token}
    (h : ParsesSeq ts ds (.period :: .rparen :: rest)) (s : PState) (lts lrest : List LToken)
    (hl : lts.map (·.tok) = .lparen :: (ts ++ [.period, .rparen])) (hs : s.toks = lts ++ lrest) :
    ∃ d' s', nextDatum s = .ok (some d', s') ∧ d'.strip = proper ds ∧ s'.toks = lrest :=
  let ⟨d', s', g1, g2, g3, _⟩ := reader_complete (.quirkDotClose h) s lts lrest hl hs
  ⟨d', s', g1, g2, g3⟩

/-- `(a . )` reads as `(a)` … -/
example : outcome (st [.lparen, .ident "a", .period, .rparen])
    = .ok (some (.pair (.sym "a" none) (.nil none) none)) := by
  unfold outcome; read_eval
/-- … and `( . )` as `()` -/
example : outcome (st [.lparen, .period, .rparen])
    = .ok (some (.nil none)) := by
  unfold outcome; read_eval

/-- QUIRK `( . x)`: NOT an error — a leading dot followed by one datum is ignored. -/
theorem quirk_leading_dot {t1 : List Token} {d1 : Datum} {rest : List Token}
    (h : Parses t1 d1 (.rparen :: rest)) (s : PState) (lts lrest : List LToken)
    (hl : lts.map (·.tok) = .lparen :: .period :: (t1 ++ [.rparen])) (hs : s.toks = lts ++ lrest) :
    ∃ d' s', nextDatum s = .ok (some d', s') ∧ d'.strip = proper [d1] ∧ s'.toks = lrest :=
  let ⟨d', s', g1, g2, g3, _⟩ := reader_complete (.quirkLeadingDot h) s lts lrest hl hs
  ⟨d', s', g1, g2, g3⟩

/-- `( . a)` reads as `(a)` -/
example : outcome (st [.lparen, .period, .ident "a", .rparen])
    = .ok (some (.pair (.sym "a" none) (.nil none) none)) := by
  unfold outcome; read_eval

/-- QUIRK `( . x y)`: a leading dot followed by two data is read as if it stood between them. -/
theorem quirk_leading_dot_pair {t1 t2 : List Token} {d1 d2 : Datum} {rest : List Token}
    (h1 : Parses t1 d1 (t2 ++ .rparen :: rest)) (h2 : Parses t2 d2 (.rparen :: rest))
    (s : PState) (lts lrest : List LToken)
    (hl : lts.map (·.tok) = .lparen :: .period :: (t1 ++ (t2 ++ [.rparen])))
    (hs : s.toks = lts ++ lrest) :
    ∃ d' s', nextDatum s = .ok (some d', s') ∧ d'.strip = .pair d1 d2 none ∧ s'.toks = lrest :=
  let ⟨d', s', g1, g2, g3, _⟩ := reader_complete (.quirkLeadingDotPair h1 h2) s lts lrest hl hs
  ⟨d', s', g1, g2, g3⟩

/-- `( . a b)` reads as `(a . b)`; `( . a b c)` is an error -/
example : outcome (st [.lparen, .period, .ident "a", .ident "b", .rparen])
    = .ok (some (.pair (.sym "a" none) (.sym "b" none) none)) := by
  unfold outcome; read_eval
example : nextDatum (st [.lparen, .period, .ident "a", .ident "b", .ident "c", .rparen])
    = .error (.syntax, none) := by read_eval

/-- NOT a quirk: a dotted tail that is itself a list is the longer list — `(x … . (y …))` and
`(x … y …)` denote the same datum (R7RS 6.4), here by the standard constructor `dotted`. -/
theorem dotted_list_tail (ds es : List Datum) : improper ds (proper es) = proper (ds ++ es) := by
  induction ds with
  | nil => rfl
  | cons x ds ih => simp only [improper, proper, List.cons_append] at ih ⊢; rw [ih]

/-- `(a . (b c))` reads as `(a b c)` -/
example : outcome (st [.lparen, .ident "a", .period, .lparen, .ident "b", .ident "c",
      .rparen, .rparen])
    = .ok (some (proper [.sym "a" none, .sym "b" none, .sym "c" none])) := by
  unfold outcome; read_eval

/-- after a dotted tail only `)` may follow: `(a . b c)` and `(a . b . )` are errors -/
example : nextDatum (st [.lparen, .ident "a", .period, .ident "b", .ident "c", .rparen])
    = .error (.syntax, none) := by read_eval
example : nextDatum (st [.lparen, .ident "a", .period, .ident "b", .period, .rparen])
    = .error (.syntax, none) := by read_eval

/-- nested abbreviations are read (`datum()` has a `Quote` arm): `''a` is `(quote (quote a))` -/
example : outcome (st [.quote, .quote, .ident "a"])
    = .ok (some (quoteForm (quoteForm (.sym "a" none)))) := by
  unfold outcome; read_eval

/-! ## 6. Where the reader is narrower than R7RS 7.1.2

Stated as the `Prop` one would like to have and its refutation. -/

/-- FULL abbreviation coverage: `` `x ``, `,x`, `,@x` read as `(quasiquote x)`, `(unquote x)`,
`(unquote-splicing x)` (R7RS 7.1.2 `<abbrev prefix>`), and `#u8( … )` reads as a bytevector. -/
def reads_all_r7rs_prefixes_full : Prop :=
  ∀ t : Token, t = .quasiquote ∨ t = .unquote ∨ t = .unquoteSplicing ∨ t = .byteVecIntro →
    ∃ d s', nextDatum (st [t, .prim (.int 1), .rparen]) = .ok (some d, s')

/-- It fails: these four tokens are produced by the lexer and rejected by the reader
(`current_datum`, arm `other => UnexpectedToken`). -/
theorem reads_all_r7rs_prefixes_full_fails : ¬ reads_all_r7rs_prefixes_full := by
  intro h
  obtain ⟨d, s', hd⟩ := h .quasiquote (Or.inl rfl)
  rw [reject_unsupported_head _ (mk .quasiquote) _ rfl rfl] at hd
  cases hd

end Ruschm.C06Read

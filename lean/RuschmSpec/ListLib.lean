/-
Specification vocabulary for property C11 (the list library of `(scheme base)`).

Plain Lean functions on model values, written from R7RS §6.4 (and, for the folds, from the
minischeme definitions the library was taken from) — none of them mentions the evaluator.
Pairs are immutable data in this interpreter (`Value.pair`), so a "list" is a `Value` whose
spine of `pair`s ends in some non-pair value, the *tail*: `()` for a proper list.

* `carS`, `cdrS` and the twelve compositions: the selected component, or the error the native
  `car`/`cdr` reports (`TypeMisMatch`, unlocated) when the structure is too short;
* `spine`, `properList?`, `isProperList`, `withTail` (inverse of `spine`);
* `listTailS`, `listRefS`, `lastPairS`, `memS`, `equalS`, `makeListS`, `appendS`;
* the store-passing combinators for the higher-order procedures: `MapM` (one application per
  element, in list order, each in the store the previous one left), `FoldLM`, `FoldRM`.

The relation `Store.Ext σ σ'` is "σ' is σ with frames appended": the only effect a library
procedure has by itself.
-/
import RuschmModel.Eval
namespace Ruschm

namespace Store

/-- `σ'` is `σ` with frames appended: every existing frame is unchanged (parent and bindings),
the vectors, the output, the tick trace and the activation depth are the same; the recorded
maximal depth may have grown. -/
structure Ext (σ σ' : Store) : Prop where
  size : σ.frames.size ≤ σ'.frames.size
  frames : ∀ i, i < σ.frames.size → σ'.frames[i]? = σ.frames[i]?
  vecs : σ'.vecs = σ.vecs
  out : σ'.out = σ.out
  ticks : σ'.ticks = σ.ticks
  depth : σ'.depth = σ.depth
  maxDepth : σ.maxDepth ≤ σ'.maxDepth

/-- the frame part of `Ext` alone: existing frames are unchanged, frames may have been appended
(anything else may differ) -/
structure FramesExt (σ σ' : Store) : Prop where
  size : σ.frames.size ≤ σ'.frames.size
  frames : ∀ i, i < σ.frames.size → σ'.frames[i]? = σ.frames[i]?

/-- `Ext` up to the activation-depth instrumentation: frames appended, vectors, output and tick
trace unchanged (what the library does between two applications of a procedure argument, which
happen one activation deeper) -/
structure DExt (σ σ' : Store) : Prop where
  size : σ.frames.size ≤ σ'.frames.size
  frames : ∀ i, i < σ.frames.size → σ'.frames[i]? = σ.frames[i]?
  vecs : σ'.vecs = σ.vecs
  out : σ'.out = σ.out
  ticks : σ'.ticks = σ.ticks

/-- `σ'` keeps the frames a running library procedure relies on: the library frame `b` and every
frame numbered `N` or more (the frames allocated since the library procedure was entered);
frames may have been appended and anything else may have changed -/
structure Keeps (b N : Nat) (σ σ' : Store) : Prop where
  size : σ.frames.size ≤ σ'.frames.size
  frames : ∀ i, i < σ.frames.size → (i = b ∨ N ≤ i) → σ'.frames[i]? = σ.frames[i]?

end Store

namespace ListSpec

/-- the error of the native `car`/`cdr` on a non-pair (and of `apply` on a non-list last argument) -/
def typeErr : SErr := (.type, none)

/-! ## selectors -/

def carS : Value → Except SErr Value
  | .pair a _ => .ok a
  | _ => .error typeErr

def cdrS : Value → Except SErr Value
  | .pair _ d => .ok d
  | _ => .error typeErr

/-- `(cXYr x)` = `(cXr (cYr x))`: the rightmost letter is applied first -/
def caarS (x : Value) : Except SErr Value := carS x >>= carS
def cadrS (x : Value) : Except SErr Value := cdrS x >>= carS
def cdarS (x : Value) : Except SErr Value := carS x >>= cdrS
def cddrS (x : Value) : Except SErr Value := cdrS x >>= cdrS
def caaarS (x : Value) : Except SErr Value := carS x >>= carS >>= carS
def caadrS (x : Value) : Except SErr Value := cdrS x >>= carS >>= carS
def cadarS (x : Value) : Except SErr Value := carS x >>= cdrS >>= carS
def caddrS (x : Value) : Except SErr Value := cdrS x >>= cdrS >>= carS
def cdaarS (x : Value) : Except SErr Value := carS x >>= carS >>= cdrS
def cdadrS (x : Value) : Except SErr Value := cdrS x >>= carS >>= cdrS
def cddarS (x : Value) : Except SErr Value := carS x >>= cdrS >>= cdrS
def cdddrS (x : Value) : Except SErr Value := cdrS x >>= cdrS >>= cdrS

/-! ## lists as values -/

def isPair : Value → Bool
  | .pair _ _ => true
  | _ => false

def isNil : Value → Bool
  | .nil => true
  | _ => false

/-- the elements of a list value and its final tail (the first non-pair on the `cdr` chain) -/
def spine : Value → List Value × Value
  | .pair a d => ((spine d).1.cons a, (spine d).2)
  | t => ([], t)

/-- the same as an `Option` (a value always has a spine: pairs are finite data here) -/
def listOfValue? (v : Value) : Option (List Value × Value) := some (spine v)

/-- inverse of `spine`: the elements consed onto the tail -/
def withTail : List Value → Value → Value
  | [], t => t
  | x :: xs, t => .pair x (withTail xs t)

/-- the elements of a proper list; `none` for an improper one -/
def properList? (v : Value) : Option (List Value) :=
  match spine v with
  | (xs, .nil) => some xs
  | _ => none

/-- `list?` -/
def isProperList : Value → Bool
  | .nil => true
  | .pair _ d => isProperList d
  | _ => false

/-! ## first-order procedures -/

/-- `(list-tail x k)`: `k` times `cdr`; an error when the list is too short -/
def listTailS : Value → Nat → Except SErr Value
  | x, 0 => .ok x
  | x, k + 1 => cdrS x >>= fun d => listTailS d k

/-- `(list-ref x k)` = `(car (list-tail x k))` -/
def listRefS (x : Value) (k : Nat) : Except SErr Value := listTailS x k >>= carS

/-- `(last-pair x)`: the last pair of the spine of a non-empty list; an error on a non-pair -/
def lastPairS : Value → Except SErr Value
  | .pair a d =>
    match d with
    | .pair _ _ => lastPairS d
    | _ => .ok (.pair a d)
  | _ => .error typeErr

/-- `(memq obj lst)` / `(memv obj lst)` (`eq?` and `eqv?` are the same native predicate here):
the first sublist whose `car` is `eqv?` to `obj`, `#f` when the proper list has none, the `car`
error when an improper tail is reached first -/
def memS (obj : Value) : Value → Except SErr Value
  | .nil => .ok (.bool false)
  | .pair a d => if Prim.eqv obj a then .ok (.pair a d) else memS obj d
  | _ => .error typeErr

def isVec : Value → Bool
  | .vec _ => true
  | _ => false

/-- `vector-equal-from?` on the items still to compare: the first pair that is not `equal?`
decides; `cmp` compares two items (`none`: that comparison has no outcome) -/
def allEqS (cmp : Value → Value → Option Bool) : List Value → List Value → Option Bool
  | x :: xs, y :: ys =>
    match cmp x y with
    | some true => allEqS cmp xs ys
    | r => r
  | _, _ => some true

/-- `(equal? x y)` as the library defines it: structural equality on pairs AND vectors — two
vectors are `equal?` when their cells in the store `σ` have the same length and pairwise `equal?`
items (mutability is ignored; the same vector is still compared item by item) — and `eqv?` at all
other leaves (strings by content, as the native `eqv?` does).

Vectors are store cells and may be cyclic; the comparison then does not terminate. `equalS σ n x y`
is the comparison cut off at nesting depth `n` (pairs and vectors both count): `some r` — the
comparison is finite and its outcome is `r` — or `none`. `none` is also the answer for a dangling
vector reference (no such cell: the native `vector-length` panics). -/
def equalS (σ : Store) : Nat → Value → Value → Option Bool
  | 0, _, _ => none
  | n + 1, x, y =>
    match x with
    | .pair a d =>
      match y with
      | .pair a' d' =>
        match equalS σ n a a' with
        | some true => equalS σ n d d'
        | r => r
      | _ => some false
    | .vec i =>
      match y with
      | .vec j =>
        match σ.vecs[i]?, σ.vecs[j]? with
        | some c, some c' =>
          if c.items.length = c'.items.length then allEqS (equalS σ n) c.items c'.items else some false
        | _, _ => none
      | _ => some false
    | x => some (!isPair y && Prim.eqv x y)

/-- `(make-list k fill)` for an integer `k`: `k` copies, none when `k ≤ 0` -/
def makeListS (k : Int) (fill : Value) : Value := Value.ofList (List.replicate k.toNat fill)

/-- `(append l₁ … lₙ)`: the elements of all arguments but the last in front of the last argument
(which may be any value); `()` for no argument. An argument that is not a proper list is treated
through its elements only: see `appendS_improper`. -/
def appendS : List Value → Value
  | [] => .nil
  | [last] => last
  | l :: rest => withTail (spine l).1 (appendS rest)

/-- every argument but the last is a proper list -/
def appendDomain : List Value → Prop
  | [] => True
  | [_] => True
  | l :: rest => isProperList l = true ∧ appendDomain rest

/-- the elements of the list value `l` in front of `t`; the `car` error if `l` is improper -/
def prependS : Value → Except SErr Value → Except SErr Value
  | .nil, t => t
  | .pair a d, t => (prependS d t).map (.pair a)
  | _, _ => .error typeErr

/-- `append` on ALL argument lists: as `appendS` when every argument but the last is a proper
list (`appendE_eq`), else the error of taking the `car` of the improper tail -/
def appendE : List Value → Except SErr Value
  | [] => .ok .nil
  | [last] => .ok last
  | l :: rest => prependS l (appendE rest)

/-! ## the store-passing combinators of the higher-order procedures -/

section higher
/- `app σ args r σ'`: applying the procedure argument to `args` in store `σ` has outcome `r`
(a value or an error) and leaves `σ'`; `ext σ σ'`: what the library does itself between two
applications (appends frames). -/
variable (app : Store → List Value → Except SErr Value → Store → Prop) (ext : Store → Store → Prop)

/-- `map`: one application per element, in list order, each in the store the previous one left
(up to `ext`); the first error ends the traversal and is the outcome -/
inductive MapM : Store → List Value → Except SErr (List Value) → Store → Prop where
  | nil {σ σ'} : ext σ σ' → MapM σ [] (.ok []) σ'
  | cons_err {σ σ₁ σ₂ σ' x xs er} : ext σ σ₁ → app σ₁ [x] (.error er) σ₂ → ext σ₂ σ' →
      MapM σ (x :: xs) (.error er) σ'
  | cons {σ σ₁ σ₂ σ₃ σ' x xs v r} : ext σ σ₁ → app σ₁ [x] (.ok v) σ₂ → MapM σ₂ xs r σ₃ → ext σ₃ σ' →
      MapM σ (x :: xs) (r.map (v :: ·)) σ'

/-- `fold-left` as the library (minischeme) defines it: `(f elem acc)` for each element in list
order, the result being the next accumulator -/
inductive FoldLM : Store → Value → List Value → Except SErr Value → Store → Prop where
  | nil {σ σ' acc} : ext σ σ' → FoldLM σ acc [] (.ok acc) σ'
  | cons_err {σ σ₁ σ₂ σ' acc x xs er} : ext σ σ₁ → app σ₁ [x, acc] (.error er) σ₂ → ext σ₂ σ' →
      FoldLM σ acc (x :: xs) (.error er) σ'
  | cons {σ σ₁ σ₂ σ₃ σ' acc x xs v r} : ext σ σ₁ → app σ₁ [x, acc] (.ok v) σ₂ → FoldLM σ₂ v xs r σ₃ →
      ext σ₃ σ' → FoldLM σ acc (x :: xs) r σ'

/-- `fold-right`: `(f elem (fold-right f init rest))` — the applications happen on the way back,
last element first -/
inductive FoldRM : Store → Value → List Value → Except SErr Value → Store → Prop where
  | nil {σ σ' init} : ext σ σ' → FoldRM σ init [] (.ok init) σ'
  | cons_err {σ σ₁ σ₂ σ' init x xs er} : ext σ σ₁ → FoldRM σ₁ init xs (.error er) σ₂ → ext σ₂ σ' →
      FoldRM σ init (x :: xs) (.error er) σ'
  | cons {σ σ₁ σ₂ σ₃ σ' init x xs acc r} : ext σ σ₁ → FoldRM σ₁ init xs (.ok acc) σ₂ → ext σ₂ σ₃ →
      app σ₃ [x, acc] r σ' → FoldRM σ init (x :: xs) r σ'

end higher

/-! ## sanity of the vocabulary -/

theorem spine_withTail (v : Value) : withTail (spine v).1 (spine v).2 = v := by
  induction v <;> simp_all [spine, withTail]

theorem spine_tail_not_pair (v : Value) : isPair (spine v).2 = false := by
  induction v <;> simp_all [spine, isPair]

theorem withTail_nil (xs : List Value) : withTail xs .nil = Value.ofList xs := by
  induction xs <;> simp_all [withTail, Value.ofList]

theorem spine_ofList (xs : List Value) : spine (Value.ofList xs) = (xs, .nil) := by
  induction xs <;> simp_all [spine, Value.ofList]

theorem properList?_ofList (xs : List Value) : properList? (Value.ofList xs) = some xs := by
  simp [properList?, spine_ofList]

theorem isProperList_iff (v : Value) : isProperList v = true ↔ ∃ xs, v = Value.ofList xs := by
  constructor
  · intro h
    induction v with
    | nil => exact ⟨[], rfl⟩
    | pair a d _ ihd =>
      obtain ⟨xs, rfl⟩ := ihd (by simpa [isProperList] using h)
      exact ⟨a :: xs, rfl⟩
    | _ => simp [isProperList] at h
  · rintro ⟨xs, rfl⟩
    induction xs <;> simp_all [isProperList, Value.ofList]

/-- on a proper list, `list-tail` is `List.drop` when the index is within the list … -/
theorem listTailS_ofList (xs : List Value) (k : Nat) (h : k ≤ xs.length) :
    listTailS (Value.ofList xs) k = .ok (Value.ofList (xs.drop k)) := by
  induction k generalizing xs with
  | zero => rfl
  | succ k ih =>
    cases xs with
    | nil => simp at h
    | cons x xs =>
      simp only [listTailS, Value.ofList, cdrS, List.drop_succ_cons]
      exact ih xs (by simpa using h)

/-- … and the `cdr` error when the list is too short -/
theorem listTailS_short (xs : List Value) (k : Nat) (h : xs.length < k) :
    listTailS (Value.ofList xs) k = .error typeErr := by
  induction k generalizing xs with
  | zero => simp at h
  | succ k ih =>
    cases xs with
    | nil => rfl
    | cons x xs =>
      simp only [listTailS, Value.ofList, cdrS]
      exact ih xs (by simpa using h)

theorem listRefS_ofList (xs : List Value) (k : Nat) (h : k < xs.length) :
    listRefS (Value.ofList xs) k = .ok xs[k] := by
  unfold listRefS
  rw [listTailS_ofList xs k (Nat.le_of_lt h)]
  have : xs.drop k = xs[k] :: xs.drop (k + 1) := by simp
  rw [this]; rfl

/-- `list-ref` with the index just past the end (or further) is an error -/
theorem listRefS_short (xs : List Value) (k : Nat) (h : xs.length ≤ k) :
    listRefS (Value.ofList xs) k = .error typeErr := by
  unfold listRefS
  rcases Nat.lt_or_ge xs.length k with h' | h'
  · rw [listTailS_short xs k h']; rfl
  · have : k = xs.length := Nat.le_antisymm h' h
    subst this
    rw [listTailS_ofList xs _ (Nat.le_refl _)]
    simp [Value.ofList]; rfl

theorem lastPairS_ofList (xs : List Value) (x : Value) :
    lastPairS (Value.ofList (xs ++ [x])) = .ok (.pair x .nil) := by
  induction xs with
  | nil => rfl
  | cons y ys ih =>
    cases ys with
    | nil => rfl
    | cons z zs =>
      simp only [List.cons_append, Value.ofList] at ih ⊢
      rw [lastPairS]; exact ih

/-- `memv` on a proper list: the sublist starting at the first `eqv?` element, else `#f` -/
theorem memS_ofList (obj : Value) (xs : List Value) :
    memS obj (Value.ofList xs) =
      .ok (match xs.dropWhile (fun a => !Prim.eqv obj a) with
           | [] => .bool false
           | l => Value.ofList l) := by
  induction xs with
  | nil => rfl
  | cons a as ih =>
    simp only [Value.ofList, memS, List.dropWhile_cons]
    by_cases h : Prim.eqv obj a = true
    · simp [h, Value.ofList]
    · have h : Prim.eqv obj a = false := by simpa using h
      simp [h, ih]

theorem appendS_ofList (xs ys : List Value) :
    appendS [Value.ofList xs, Value.ofList ys] = Value.ofList (xs ++ ys) := by
  simp only [appendS, spine_ofList]
  induction xs <;> simp_all [withTail, Value.ofList]

theorem prependS_proper (l : Value) (h : isProperList l = true) (t : Value) :
    prependS l (.ok t) = .ok (withTail (spine l).1 t) := by
  induction l with
  | nil => rfl
  | pair a d _ ihd =>
    simp only [prependS, spine, withTail, ihd (by simpa [isProperList] using h)]; rfl
  | _ => simp [isProperList] at h

theorem appendE_eq : ∀ (args : List Value), appendDomain args → appendE args = .ok (appendS args)
  | [], _ => rfl
  | [_], _ => rfl
  | l :: r :: rest, h => by
    simp only [appendE, appendS]
    rw [appendE_eq (r :: rest) h.2, prependS_proper l h.1]

theorem makeListS_nonpos (k : Int) (fill : Value) (h : k ≤ 0) : makeListS k fill = .nil := by
  have : k.toNat = 0 := by omega
  simp [makeListS, this, Value.ofList]

end ListSpec
end Ruschm

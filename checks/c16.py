"""C16 — printed values read back as the same values.
Theorems: lean/RuschmProofs/C16.lean (the display text of a readable value is one of the token
renderings covered by C06's layout-invariance theorems; it reads back as one datum; readLiteral of
that datum is an equal value of the same exactness; distinct values print differently; list
format). Tie: random value trees (boundary integers, ratios of both signs incl. computed ones,
finite reals of every class, characters incl. delimiters and whitespace, plain and peculiar
symbols, proper and improper lists, mutable and literal vectors; depth <= 5), printed by the real
Display and fed back through the real evaluator as '(quote TEXT)': the round-trip oracle needs no
model. The model is compared on the text itself (reals excepted: their printing is not modelled)."""
import random
from . import common as C

PROP = "C16"
MODULES = ["RuschmProofs.C16"]
INTS = ["0", "1", "-1", "42", "-17", "32767", "-32768", "2147483647", "-2147483648", "(+ 2147483646 1)"]
RATS = ["1/2", "-1/2", "22/7", "-7/3", "(/ 1 -2)", "(/ 6 4)", "2147483647/2", "1/2147483647", "(- 1/3 1/2)"]
BOUNDARY_REALS = ["3.4028235e38", "-3.4028235e38", "3.4028233e38", "1.17549435e-38", "1.1754942e-38", "1e-45", "1.4e-45", "-1e-45",
                  "16777215.0", "8388608.5", "0.30000001", "0.1", "0.2", "(+ 0.1 0.2)", "9.999999e-5", "1e-5", "123456790.0", "1e38", "9.9999997e37"]
REALS = BOUNDARY_REALS + ["0.0", "-0.0", "1.5", "-2.5", "0.1", "1e10", "1e-10", "3.4e38", "1e-45", "16777216.0", "16777217.0", "2147483648.0",
         "(/ 1 3.0)", "(sqrt 2)", "1e21", "1e-7", "123456.789", "(+ 2147483647 1)", "(exact->inexact-missing)"]
CHARS = ["#\\a", "#\\Z", "#\\0", "#\\space", "#\\newline", "#\\tab", "#\\(", "#\\)", "#\;", "#\\\"", "#\\|", "#\\\\", "#\\x", "#\\#",
         "#\\x41", "#\\x3bb", "#\\'", "#\\.", "#\\x0"]
SYMS = ["'foo", "'list->vector", "'a1", "'+", "'-", "'...", "'<=?", "'x.y", "'lambda", "'if", "'else", "'quote", "'a-b", "'+a", "'-x1", "'+y2", "'->utf8", "'...1", "'--0", "'+-5", "'..a.b"]
BOOLS = ["#t", "#f"]


def gen(rng, d, reals):
    r = rng.random()
    if d <= 0 or r < 0.35:
        pools = [INTS, RATS, CHARS, SYMS, BOOLS, ["'()"]] + ([REALS[:-1], ["computed"]] if reals else [])
        c = rng.choice(rng.choice(pools))
        if c == "computed":
            # reals of arbitrary bit patterns, obtained by arithmetic (their text comes from the real Display)
            a, b = rng.randrange(-10**6, 10**6), rng.randrange(1, 10**6)
            return rng.choice(["(/ %d %d.0)" % (a, b), "(sqrt %d)" % abs(a), "(* %d 1e%d)" % (a, rng.randrange(-40, 33)),
                               "(/ %d.5 3)" % a, "(exp %d)" % rng.randrange(-80, 80), "(* 1.7014117e38 %d)" % rng.choice([2, -2]),
                               "(* 5.877472e-39 %d)" % rng.choice([2, -2, 1])])
        return c
    if r < 0.42:
        # data that LOOK like abbreviable forms: the symbol quote (quasiquote, unquote) at the head of a list of any shape -
        # two elements, more, fewer, with an improper tail
        head = rng.choice(["'quote", "'quote", "'quasiquote", "'unquote"])
        shape = rng.randrange(5)
        if shape == 0: return "(list %s %s)" % (head, gen(rng, d - 1, reals))
        if shape == 1: return "(cons %s (cons %s %s))" % (head, gen(rng, d - 1, reals), rng.choice(INTS + SYMS))
        if shape == 2: return "(list %s %s %s)" % (head, gen(rng, d - 1, reals), gen(rng, d - 1, reals))
        if shape == 3: return "(cons %s %s)" % (head, rng.choice(INTS + SYMS))
        return "(list %s)" % head
    if r < 0.6:
        return "(list %s)" % " ".join(gen(rng, d - 1, reals) for _ in range(rng.randrange(0, 5)))
    if r < 0.75:
        return "(cons %s %s)" % (gen(rng, d - 1, reals), gen(rng, d - 1, reals))
    if r < 0.9:
        return "(vector %s)" % " ".join(gen(rng, d - 1, reals) for _ in range(rng.randrange(0, 4)))
    return "'#(1 (2 . x) #(#t))" if rng.random() < 0.5 else "'(a (b #(c d)) . e)"


def norm(c):
    return c.replace("#m(", "#i(")


def run(rep, tier, rng):
    n = 1500 if tier == "quick" else 40000
    cases = []
    for i in range(n):
        reals = rng.random() < 0.35
        cases.append(("v%d" % i, "display", ["std", gen(rng, rng.randrange(0, 6), reals)]))
    for k, e in enumerate(INTS + RATS + REALS[:-1] + CHARS + SYMS + BOOLS):
        cases.append(("a%d" % k, "display", ["std", e]))
    # LARGE values: hundreds of dotted pairs / sublists / vectors in one printed text
    for k, e in enumerate(BIG_VALUES):
        cases.append(("b%d" % k, "display", ["std", e]))
    impl = C.run_hx(cases)
    model = C.run_driver(cases)
    texts = {}
    for cid, _, f in cases:
        a, b = impl.get(cid, []), model.get(cid, [])
        rep.count()
        if len(a) != 3:
            if cid.startswith("a"):
                rep.violation({"what": "an atom of the readable vocabulary (a literal that is the printed form of a value) does not evaluate",
                               "expression": f[1], "implementation": a})
            continue
        text, val, back = a[0][2:], a[1][2:], a[2]
        rep.nontrivial(val)
        if len(rep.cov["samples"]) < 5 and cid.endswith("3"):
            rep.sample({"expression": f[1], "printed": text, "value": val, "read_back": back})
        if back != "V " + norm(val) and norm(back) != "V " + norm(val):
            rep.violation({"what": "the printed text, quoted and read back, is not an equal value of the same exactness",
                           "expression": f[1], "printed": text, "value": val, "read_back": back})
            continue
        # distinct values print differently
        if text in texts and texts[text] != norm(val):
            rep.violation({"what": "two different values print the same text", "printed": text, "value_a": texts[text], "value_b": norm(val)})
            continue
        texts[text] = norm(val)
        if "r:" not in val:
            if len(b) != 3 or b[0] != a[0] or norm(b[1]) != norm(a[1]) or norm(b[2]) != norm(a[2]):
                rep.violation({"broken": "correspondence Prim.display / reader <-> Display impls / reader", "expression": f[1],
                               "implementation": a, "model": b}, no_input=True)


BIG_VALUES = [
    "((lambda (mk) (mk mk 0 '())) (lambda (self i acc) (if (= i 300) acc (self self (+ i 1) (cons (cons i (* i i)) acc)))))",
    "((lambda (mk) (mk mk 0 '())) (lambda (self i acc) (if (= i 300) acc (self self (+ i 1) (cons (list i (cons i i)) acc)))))",
    "((lambda (mk) (mk mk 0 '())) (lambda (self i acc) (if (= i 300) acc (self self (+ i 1) (cons (vector i (cons 'k i)) acc)))))",
    "((lambda (mk) (mk mk 0 'end)) (lambda (self i acc) (if (= i 400) acc (self self (+ i 1) (cons i acc)))))",
]


def main(tier, seed):
    rep = C.Report(PROP, tier, seed)
    rng = random.Random(seed)
    rep.cov["rule"] = ("random value-building expressions of depth <= 5 over boundary integers, literal and computed ratios, finite reals "
                       "(in a third of the cases), characters (letters, digits, whitespace, delimiters, hex), symbols (plain, peculiar, "
                       "keywords), booleans, (), proper and improper lists, constructed and literal vectors; plus every atom alone; "
                       "distinct = distinct canonical values")
    rep.assumptions = ["the printing of reals ({:?} of f32) is not modelled: for values containing reals only the round-trip oracle on "
                       "the real code applies"]
    ok = C.standard_proof_phase(rep, MODULES, directed_search=lambda r: run(r, tier, rng))
    if ok:
        run(rep, tier, rng)
    return rep.finish("cd lean && lake build RuschmProofs.C16 && lake env lean <#print axioms of every theorem in RuschmProofs/C16.lean>")

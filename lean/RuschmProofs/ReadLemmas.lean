/-
Helper lemmas for C06, reader part: reading the tokens of a written datum (`Syn.toks`) yields the
datum it denotes (`Syn.denote`) and leaves the rest of the token stream untouched.
-/
import RuschmSpec.Text
namespace Ruschm.Text
open Ruschm Ruschm.Read

/-! ## fuel needed to read a datum -/
namespace Syn
mutual
def need : Syn → Nat
  | atom _ => 1
  | list xs => needSum xs + 2
  | dotted xs t => needSum xs + need t + 3
  | vec xs => needSum xs + 2
  | quote x => need x + 2
def needSum : List Syn → Nat
  | [] => 0
  | x :: xs => 1 + need x + needSum xs
end

/-- tokens a datum may start with -/
def isStartTok : Token → Bool
  | .prim _ | .ident _ | .lparen | .vecIntro | .quote => true
  | _ => false

theorem toks_head : (x : Syn) → Supported x →
    ∃ t0 more, x.toks = t0 :: more ∧ isStartTok t0 = true
  | atom t, h => by
    refine ⟨t, [], rfl, ?_⟩
    have := h.1
    cases t <;> simp_all [isAtomTok, isStartTok]
  | list xs, _ => ⟨_, _, rfl, rfl⟩
  | dotted xs t, _ => ⟨_, _, rfl, rfl⟩
  | vec xs, _ => ⟨_, _, rfl, rfl⟩
  | quote x, _ => ⟨_, _, rfl, rfl⟩
end Syn

/-! ## the parser state -/

theorem advance_cons {s : PState} {t : LToken} {rest : List LToken} (h : s.toks = t :: rest) :
    advance s = .ok { s with toks := rest, cur := some t, loc := t.loc } := by
  simp [advance, h]

theorem advanceUnwrap_cons {s : PState} {t : LToken} {rest : List LToken}
    (h : s.toks = t :: rest) :
    advanceUnwrap s = .ok (t, { s with toks := rest, cur := some t, loc := t.loc }) := by
  simp [advanceUnwrap, advance_cons h, bind, Except.bind, pure, Except.pure]

theorem peek_cons {s : PState} {t : LToken} {rest : List LToken} (h : s.toks = t :: rest) :
    peek s = .ok (some t) := by
  simp [peek, h]

/-! ## stripping locations -/

theorem strip_withLoc (l : Loc) (d : Datum) : (d.withLoc l).strip = d.strip := by
  cases d <;> simp [Datum.withLoc, Datum.strip]

theorem strip_snoc : (acc e : Datum) → (snoc acc e).strip = snoc acc.strip e.strip
  | .pair a d l, e => by simp [snoc, Datum.strip, strip_snoc d e]
  | .prim _ _, e => by simp [snoc, Datum.strip]
  | .sym _ _, e => by simp [snoc, Datum.strip]
  | .nil _, e => by simp [snoc, Datum.strip]
  | .vec _ _, e => by simp [snoc, Datum.strip]

theorem strip_setTail : (acc e : Datum) → (setTail acc e).strip = setTail acc.strip e.strip
  | .pair a d l, e => by simp [setTail, Datum.strip, strip_setTail d e]
  | .prim _ _, e => by simp [setTail, Datum.strip]
  | .sym _ _, e => by simp [setTail, Datum.strip]
  | .nil _, e => by simp [setTail, Datum.strip]
  | .vec _ _, e => by simp [setTail, Datum.strip]

theorem snoc_denoteL (pre : List Syn) (e : Datum) :
    snoc (Syn.denoteL pre (.nil none)) e = Syn.denoteL pre (.pair e (.nil none) none) := by
  induction pre with
  | nil => simp [Syn.denoteL, snoc]
  | cons x pre ih => simp [Syn.denoteL, snoc, ih]

theorem setTail_denoteL (pre : List Syn) (e : Datum) :
    setTail (Syn.denoteL pre (.nil none)) e = Syn.denoteL pre e := by
  induction pre with
  | nil => simp [Syn.denoteL, setTail]
  | cons x pre ih => simp [Syn.denoteL, setTail, ih]

theorem denoteL_append (pre xs : List Syn) (tl : Datum) :
    Syn.denoteL (pre ++ xs) tl = Syn.denoteL pre (Syn.denoteL xs tl) := by
  induction pre with
  | nil => rfl
  | cons x pre ih => simp [Syn.denoteL, ih]

end Ruschm.Text

/-
Property C10 — numeric comparison is the mathematical order.

"=, <, >, <= and >= agree with the mathematical order of their arguments for all exact operands,
compare an exact with an inexact operand after converting the exact one to binary32, and an n-ary
comparison is the conjunction of its adjacent pairs. max and min return the numerically extreme
argument (inexact if any argument is inexact), and eqv? on two numbers is true exactly when they
have the same exactness and are numerically equal."

Only property theorems live here (each is audited with `#print axioms`); helper lemmas are in
`RuschmProofs/NumLemmas.lean`, vocabulary in `RuschmSpec/Num.lean`.

The order theorems need only positive denominators (`PosDen`); `eqv_iff` needs the full
representation invariant `WF` (lowest terms, denominator never 1), which every arithmetic result
has (C09 `ops_wf`).
-/
import RuschmProofs.NumLemmas

namespace Ruschm.C10
open Ruschm

/-! ## 1. the five predicates on exact operands -/

theorem lt_iff {a b : Num} {x y : Rat} (pa : a.PosDen) (pb : b.PosDen)
    (ha : a.val = some x) (hb : b.val = some y) : Num.lt a b = true ↔ x < y :=
  Num.lt_iff pa pb ha hb

example : (Num.rat (-1) 2).PosDen ∧ (Num.int 0).PosDen ∧ (Num.rat (-1) 2).val = some (-1 / 2) ∧
    (Num.int 0).val = some 0 ∧ Num.lt (.rat (-1) 2) (.int 0) = true :=
  ⟨by decide, by decide, by norm_num [Num.val], by norm_num [Num.val], rfl⟩

theorem gt_iff {a b : Num} {x y : Rat} (pa : a.PosDen) (pb : b.PosDen)
    (ha : a.val = some x) (hb : b.val = some y) : Num.gt a b = true ↔ x > y :=
  Num.gt_iff pa pb ha hb

example : (Num.rat 2 3).PosDen ∧ (Num.rat 1 2).PosDen ∧ Num.gt (.rat 2 3) (.rat 1 2) = true :=
  ⟨by decide, by decide, rfl⟩

theorem le_iff {a b : Num} {x y : Rat} (pa : a.PosDen) (pb : b.PosDen)
    (ha : a.val = some x) (hb : b.val = some y) : Num.le a b = true ↔ x ≤ y :=
  Num.le_iff pa pb ha hb

example : (Num.rat 1 2).PosDen ∧ Num.le (.rat 1 2) (.rat 1 2) = true ∧
    Num.le (.int 1) (.rat 1 2) = false := ⟨by decide, rfl, rfl⟩

theorem ge_iff {a b : Num} {x y : Rat} (pa : a.PosDen) (pb : b.PosDen)
    (ha : a.val = some x) (hb : b.val = some y) : Num.ge a b = true ↔ x ≥ y :=
  Num.ge_iff pa pb ha hb

example : (Num.int 1).PosDen ∧ (Num.rat 1 2).PosDen ∧ Num.ge (.int 1) (.rat 1 2) = true :=
  ⟨by decide, by decide, rfl⟩

/-- `=` on exact operands is equality of values (also for unreduced representations). -/
theorem eq_iff {a b : Num} {x y : Rat} (pa : a.PosDen) (pb : b.PosDen)
    (ha : a.val = some x) (hb : b.val = some y) : Num.eq a b = true ↔ x = y :=
  Num.eq_iff pa pb ha hb

example : (Num.rat 2 4).PosDen ∧ (Num.rat 1 2).PosDen ∧ Num.eq (.rat 2 4) (.rat 1 2) = true ∧
    Num.eq (.int 1) (.rat 1 2) = false := ⟨by decide, by decide, rfl, rfl⟩

/-- The cross products formed by the comparisons fit the `i64` the Rust code computes them in
(for `i32` components), so the unbounded-`Int` model is faithful there. -/
theorem cross_product_fits_i64 {a b : Int} (ha : fitsI32 a = true) (hb : fitsI32 b = true) :
    -9223372036854775808 ≤ a * b ∧ a * b ≤ 9223372036854775807 :=
  Num.cross_fits_i64 ha hb

example : fitsI32 (-2147483648) = true := by decide

/-! ## 2. comparisons with an inexact operand -/

/-- With an inexact operand every predicate is the binary32 comparison of the converted
operands. -/
theorem cmp_mixed {a b : Num} (h : a.isExact = false ∨ b.isExact = false) :
    Num.lt a b = decide (a.toReal < b.toReal) ∧
    Num.gt a b = decide (a.toReal > b.toReal) ∧
    Num.le a b = decide (a.toReal ≤ b.toReal) ∧
    Num.ge a b = decide (a.toReal ≥ b.toReal) ∧
    Num.eq a b = (a.toReal == b.toReal) :=
  ⟨Num.lt_real h, Num.gt_real h, Num.le_real h, Num.ge_real h, Num.eq_real h⟩

example : (Num.rat 1 2).isExact = false ∨ (Num.real 0.5).isExact = false := Or.inr rfl

/-! ## 3. n-ary comparison = conjunction over adjacent pairs -/

/-- `cmpChain op xs` holds iff every adjacent pair satisfies `op` (recursive and index form);
in particular it holds for no and for one argument. -/
theorem cmpChain_iff (op : Num → Num → Bool) (xs : List Num) :
    (Num.cmpChain op xs = true ↔ Num.Adjacent op xs) ∧
    (Num.cmpChain op xs = true ↔
      ∀ (i : Nat) (h : i + 1 < xs.length), op (xs[i]'(by omega)) (xs[i + 1]'h) = true) :=
  ⟨Num.cmpChain_iff op xs, (Num.cmpChain_iff op xs).trans (Num.adjacent_iff_index op xs)⟩

example : Num.cmpChain Num.lt [.int 1, .rat 3 2, .int 2] = true ∧
    Num.cmpChain Num.lt [.int 1, .int 3, .int 2] = false := ⟨rfl, rfl⟩

theorem cmpChain_nil_singleton (op : Num → Num → Bool) (x : Num) :
    Num.cmpChain op [] = true ∧ Num.cmpChain op [x] = true := ⟨rfl, rfl⟩

/-! ## 4. max / min -/

/-- `max` of a non-empty list of exact numbers with positive denominators: the result is (literally)
one of the arguments — hence exact, with that argument's value, and well-formed when the arguments
are — and its value is ≥ the value of every argument. -/
theorem maxAll_extreme {xs : List Num} (hne : xs ≠ [])
    (hxs : ∀ y ∈ xs, y.isExact = true ∧ y.PosDen) :
    ∃ r, Num.maxAll xs = .ok r ∧ r ∈ xs ∧ r.isExact = true ∧
      ((∀ y ∈ xs, y.WF) → r.WF) ∧ ∀ y ∈ xs, y.valD ≤ r.valD := by
  cases xs with
  | nil => exact absurd rfl hne
  | cons x rest =>
    obtain ⟨mem, dom⟩ := Num.foldl_maxStep_spec rest x hxs
    exact ⟨_, rfl, mem, (hxs _ mem).1, fun h => h _ mem, dom⟩

example : (∀ y ∈ [Num.int 0, .rat 1 2, .rat 1 3], y.isExact = true ∧ y.PosDen) ∧
    Num.maxAll [.int 0, .rat 1 2, .rat 1 3] = .ok (.rat 1 2) := ⟨by decide, rfl⟩

theorem minAll_extreme {xs : List Num} (hne : xs ≠ [])
    (hxs : ∀ y ∈ xs, y.isExact = true ∧ y.PosDen) :
    ∃ r, Num.minAll xs = .ok r ∧ r ∈ xs ∧ r.isExact = true ∧
      ((∀ y ∈ xs, y.WF) → r.WF) ∧ ∀ y ∈ xs, r.valD ≤ y.valD := by
  cases xs with
  | nil => exact absurd rfl hne
  | cons x rest =>
    obtain ⟨mem, dom⟩ := Num.foldl_minStep_spec rest x hxs
    exact ⟨_, rfl, mem, (hxs _ mem).1, fun h => h _ mem, dom⟩

example : (∀ y ∈ [Num.int 0, .rat 1 2, .rat (-1) 3], y.isExact = true ∧ y.PosDen) ∧
    Num.minAll [.int 0, .rat 1 2, .rat (-1) 3] = .ok (.rat (-1) 3) ∧
    Num.minAll [.int 0, .rat 1 2] = .ok (.int 0) := ⟨by decide, rfl, rfl⟩

/-- The result of `max` is inexact iff some argument is inexact (no hypothesis needed). -/
theorem max_contagion {xs : List Num} {r : Num} (h : Num.maxAll xs = .ok r) :
    r.isExact = false ↔ ∃ y ∈ xs, y.isExact = false := by
  cases xs with
  | nil => cases h
  | cons x rest =>
    have e : r = rest.foldl Num.maxStep x := by
      have h' : (Except.ok (rest.foldl Num.maxStep x) : Except Err Num) = .ok r := h
      injection h' with h'; exact h'.symm
    rw [e]; exact Num.foldl_maxStep_inexact_iff rest x

theorem min_contagion {xs : List Num} {r : Num} (h : Num.minAll xs = .ok r) :
    r.isExact = false ↔ ∃ y ∈ xs, y.isExact = false := by
  cases xs with
  | nil => cases h
  | cons x rest =>
    have e : r = rest.foldl Num.minStep x := by
      have h' : (Except.ok (rest.foldl Num.minStep x) : Except Err Num) = .ok r := h
      injection h' with h'; exact h'.symm
    rw [e]; exact Num.foldl_minStep_inexact_iff rest x

example : ∃ f, Num.maxAll [.int 3, .real 0.5, .rat 1 2] = .ok (.real f) := ⟨_, rfl⟩

/-- One `max`/`min` step with an inexact operand: the kept operand is the binary32 conversion of
the argument selected by the binary32 comparison. -/
theorem maxStep_minStep_mixed {a b : Num} (h : a.isExact = false ∨ b.isExact = false) :
    Num.maxStep a b = (if Num.gt a b = true then .real a.toReal else .real b.toReal) ∧
    Num.minStep a b = (if Num.lt a b = true then .real a.toReal else .real b.toReal) :=
  ⟨Num.maxStep_real h, Num.minStep_real h⟩

example : (Num.int 3).isExact = false ∨ (Num.real 0.5).isExact = false := Or.inr rfl

/-- `max`/`min` are left folds of the binary step from the first argument; no argument is the
`unwrap` panic (excluded by the arity check). -/
theorem maxAll_minAll_eq_fold (x : Num) (rest : List Num) :
    Num.maxAll (x :: rest) = .ok (rest.foldl Num.maxStep x) ∧
    Num.minAll (x :: rest) = .ok (rest.foldl Num.minStep x) := ⟨rfl, rfl⟩

/-! ## 5. eqv? -/

/-- `eqv?` on well-formed numbers: true exactly when both are exact with the same value, or both
are inexact and binary32-equal. -/
theorem eqv_iff {a b : Num} (ha : a.WF) (hb : b.WF) :
    Num.exactEqv a b = true ↔
      (∃ v, a.val = some v ∧ b.val = some v) ∨
      (∃ r s, a = .real r ∧ b = .real s ∧ (r == s) = true) :=
  Num.exactEqv_iff ha hb

example : (Num.rat 1 2).WF ∧ (Num.int 1).WF ∧ Num.exactEqv (.rat 1 2) (.rat 1 2) = true ∧
    Num.exactEqv (.int 1) (.rat 1 2) = false := ⟨by decide, by decide, rfl, rfl⟩

/-- In particular for well-formed exact numbers `eqv?` is equality of values, and an exact and an
inexact number are never `eqv?`. -/
theorem eqv_exact_iff {a b : Num} (ha : a.WF) (hb : b.WF) {x y : Rat}
    (va : a.val = some x) (vb : b.val = some y) : Num.exactEqv a b = true ↔ x = y := by
  rw [Num.exactEqv_iff ha hb]
  constructor
  · rintro (⟨v, h1, h2⟩ | ⟨r, s, h, _⟩)
    · rw [va] at h1; rw [vb] at h2
      exact (Option.some.inj h1).trans (Option.some.inj h2).symm
    · rw [h] at va; cases va
  · rintro rfl; exact Or.inl ⟨x, va, vb⟩

example : (Num.int 1).WF ∧ (Num.int 1).val = some 1 := ⟨by decide, by norm_num [Num.val]⟩

theorem eqv_mixed_false {a b : Num} (h : a.isExact ≠ b.isExact) : Num.exactEqv a b = false := by
  cases a <;> cases b <;> first | rfl | exact absurd rfl h

example : (Num.int 1).isExact ≠ (Num.real 1.0).isExact := by decide

/-- Without reducedness the statement fails — the invariant is needed: `2/2` and `1` have the same
value but are not `eqv?`. (Such a `2/2` is never produced: C09 `ops_wf`.) -/
theorem eqv_needs_wf :
    (Num.rat 2 2).val = (Num.int 1).val ∧ Num.exactEqv (.rat 2 2) (.int 1) = false ∧
      ¬ (Num.rat 2 2).WF :=
  ⟨by norm_num [Num.val], rfl, by decide⟩

end Ruschm.C10

import RuschmModel.Interp
import RuschmModel.DriverText
namespace Ruschm.Driver
open Proto

def evalFuel : Nat := 3000000

def showResult (st : Interp.State) (r : Except SErr (Option Value)) : String :=
  match r with
  | .ok (some v) => "V " ++ Prim.canon st.store 100000 v
  | .ok none => "N"
  | .error e => errStr e

def initState (mode : String) : Interp.State :=
  match mode with
  | "std" => Interp.withStdlib evalFuel false
  | "std+host" | "std+host+sum" => Interp.withStdlib evalFuel true
  | "nostd+host" | "nostd+host+sum" => Interp.default_ true
  | _ => Interp.default_ false

/-- run the submissions one after another on one interpreter -/
def runForms (st : Interp.State) (forms : List String) : List String × Interp.State :=
  forms.foldl (fun (acc : List String × Interp.State) f =>
    let (r, st) := Interp.evalText evalFuel acc.2 (unescape f)
    (acc.1 ++ [showResult st r], st)) ([], st)

/-- `prog`: fields = mode, then one field per submission (each an `Interpreter::eval` call) -/
def prog (fields : List String) : List String :=
  match fields with
  | mode :: forms => (runForms (initState mode) forms).1
  | [] => ["X bad-fields"]

/-- `progx`: like `prog`, followed by the tick trace (`T …`), the text written by
display/newline (`O …`) and the maximum nesting of `apply_procedure` activations (`D n`) -/
def progx (fields : List String) : List String :=
  match fields with
  | mode :: forms =>
    let (rs, st) := runForms (initState mode) forms
    let ticks := st.store.ticks.reverse
    let tline := if mode.endsWith "+sum" then
        "T n=" ++ toString ticks.length ++ " first=" ++ ticks.head?.getD "" ++ " last=" ++ ticks.getLast?.getD ""
      else "T " ++ " ".intercalate ticks
    rs ++ [tline,
           "O " ++ esc (String.join st.store.out.reverse),
           "D " ++ toString st.store.maxDepth]
  | [] => ["X bad-fields"]

/-- `imports`: one import declaration on a fresh `default()` interpreter with a native library
`(m)` exporting a b c d = 1 2 3 4; the bindings of the root frame afterwards, sorted by name -/
def imports (fields : List String) : List String :=
  match fields with
  | [decl] =>
    let st := Interp.default_ false
    let m : List (String × Value) := [("a", .num (.int 1)), ("b", .num (.int 2)), ("c", .num (.int 3)), ("d", .num (.int 4))]
    let st := { st with factories := st.factories ++ [([LibElem.ident "m"], Interp.Factory.native m)] }
    match Interp.evalText evalFuel st (unescape decl) with
    | (.error e, _) => [errStr e]
    | (.ok _, st) =>
      match st.store.frames[st.env]? with
      | none => []
      | some f =>
        let defs := f.defs.map (fun (k, v) => esc k ++ "=" ++ Prim.canon st.store 1000 v)
        (defs.toArray.qsort (· < ·)).toList
  | _ => ["X bad-fields"]

/-- `libs`: fields = mode, `F<path>=<content>` files relative to the program base directory,
`W<path>=<content>` files in the process's working directory (keys `cwd/<path>`),
`R<name/elements>=<text>` registered sources, `>` submissions, `E<relpath>` runs the program file
at that key through `evalFile`; a field `D` records the program directory only THEN: if there is
one, the interpreter starts without a program directory (lookups go to the working directory) -/
def libs (fields : List String) : List String :=
  match fields with
  | mode :: rest =>
    let step := fun (acc : List String × Interp.State) (f : String) =>
      let (out, st) := acc
      let cs := unescape f
      match cs with
      | 'F' :: body =>
        let path := String.ofList (body.takeWhile (· ≠ '='))
        let content := String.ofList ((body.dropWhile (· ≠ '=')).drop 1)
        let entry : Interp.FileEntry :=
          if content == "\x00UNREADABLE" || content == "\x00DIR" then .unreadable else .text content
        (out, { st with files := (path, entry) :: st.files })
      | 'W' :: body =>
        let path := String.ofList (body.takeWhile (· ≠ '='))
        let content := String.ofList ((body.dropWhile (· ≠ '=')).drop 1)
        (out, { st with files := ("cwd/" ++ path, .text content) :: st.files })
      | ['D'] => (out, { st with dir := "" })
      | 'E' :: rel =>
        let (r, st) := Interp.evalFile evalFuel st (String.ofList rel)
        (out ++ [showResult st r], st)
      | 'R' :: body =>
        let name := String.ofList (body.takeWhile (· ≠ '='))
        let text := String.ofList ((body.dropWhile (· ≠ '=')).drop 1)
        let lib : LibName := (name.splitOn "/").map LibElem.ident
        match Interp.factoryOfText lib text with
        | .ok fac => (out, { st with factories := Interp.libInsert st.factories lib fac,
                                     instances := st.instances.filter (fun p => p.1 ≠ lib) })
        | .error e => (out ++ ["R" ++ errStr e], st)
      | '>' :: form =>
        let (r, st) := Interp.evalText evalFuel st form
        (out ++ [showResult st r], st)
      | _ => (out, st)
    let late := rest.any (· == "D")
    (rest.foldl step ([], { initState mode with dir := if late then "cwd" else "" })).1
  | [] => ["X bad-fields"]

def hexBytes (s : String) : ByteArray :=
  let cs := s.toList
  let rec go : List Char → ByteArray → ByteArray
    | a :: b :: rest, acc =>
      match hexVal [a, b] with
      | some n => go rest (acc.push n.toUInt8)
      | none => go rest acc
    | _, acc => acc
  go cs ByteArray.empty

/-- `evalfile`: fields = mode, content as hex bytes (or `DIR` / `MISSING`): `eval_file` reads the
whole file as UTF-8 (anything else is an io error) and evaluates the text -/
def evalfile (fields : List String) : List String :=
  match fields with
  | [mode, content] =>
    if content == "DIR" || content == "MISSING" then ["E io -"] else
    match String.fromUTF8? (hexBytes content) with
    | none => ["E io -"]
    | some text =>
      let st := initState mode
      let (r, st) := Interp.evalText evalFuel st text.toList
      [showResult st r]
  | _ => ["X bad-fields"]

end Ruschm.Driver

/-
Helper definitions and lemmas for `RuschmProofs/C05Text.lean` (property C05 at the level of program TEXT):
the composition of `C05Nesting` (the transformer turns the printed form of every surface program into its
structural desugaring) with `C17More` (a program text evaluates as the statements it is a way of writing).

Vocabulary defined here:
* `Item`        — a top-level item of a surface program: an import declaration, a surface expression
                  `s : Desugar.Surf`, a definition `(define x s)`;
* `Item.print`  — the datum one writes for the item (`Desugar.print` for the expression);
* `Item.stmt`   — the statement the item STANDS FOR: the expression / definition of `Desugar.desugar s`;
* `Item.WF`     — the side condition (`Desugar.ok`; the data embedded in the program — quotations, vector
                  literals, `case` data — carry no source locations, `Desugar.print` being location-free then);
* `subst hole a c` — the surface CONTEXT `c`, a surface program in which the variable `hole` marks the
                  places (any number of them, at any expression position, under any binder) into which the
                  surface expression `a` is plugged;
* `Defn d d'`   — `d'` is the one-step R7RS definition (R7RS 7.3, as `grammar.sld` writes it) of the derived
                  form `d`;
* `sepLayout`   — the layout that puts the same separator before, between and after all tokens.
-/
import RuschmProofs.C05Nesting
import RuschmProofs.C17More

set_option linter.unusedSimpArgs false
set_option linter.unusedVariables false

namespace Ruschm.SurfaceText
open Ruschm Ruschm.Interp Ruschm.Xform Ruschm.Text Ruschm.Desugar Ruschm.ProgramText
open Ruschm.CoreSyntax (ident lst)

/-! ## top-level items of a surface program -/

/-- a top-level item of a surface program -/
inductive Item where
  /-- `(import set …)` -/
  | import_ (sets : List ImportSet)
  /-- a surface expression -/
  | expr (s : Surf)
  /-- `(define x s)` -/
  | define (x : String) (s : Surf)

/-- the datum one writes for the item -/
def Item.print : Item → Datum
  | .import_ sets => ImportSyntax.renderImport sets
  | .expr s => Desugar.print s
  | .define x s => lst [ident "define", ident x, Desugar.print s]

/-- the statement the item stands for: the DESUGARED expression / definition (all locations `none`) -/
def Item.stmt : Item → Statement
  | .import_ sets => .importDecl sets none
  | .expr s => .expr (desugar s)
  | .define x s => .definition (.mk x (desugar s) none)

/-- the side condition: the import sets can be written (`ImportSyntax.WF`); the surface expression is a
program of the grammar (`Desugar.ok`) and the data embedded in it carry no source locations (so that its
printed form carries none) -/
def Item.WF : Item → Prop
  | .import_ sets => ∀ t ∈ sets, ImportSyntax.WF t
  | .expr s => ok s = true ∧ (Desugar.print s).strip = Desugar.print s
  | .define _ s => ok s = true ∧ (Desugar.print s).strip = Desugar.print s

/-- the interpreter's own syntax environment -/
abbrev stdEnv : SynEnv := C05Nesting.stdEnv

/-! ## the desugaring carries no locations -/

theorem desugar_unloc (s : Surf) (hok : ok s = true) (hs : (Desugar.print s).strip = Desugar.print s) :
    (desugar s).unloc = desugar s := by
  have h := C05Nesting.nesting s hok (cost s) (Nat.le_refl _)
  rw [← hs] at h
  have := toStatement_stripped_unloc h
  simpa [Statement.unloc] using this

theorem strip_defineD (x : String) (p : Datum) (hp : p.strip = p) :
    (lst [ident "define", ident x, p]).strip = lst [ident "define", ident x, p] := by
  simp [lst, CoreSyntax.strip_ofList_none, ident, Datum.strip, hp]

theorem size_defineD (x : String) (p : Datum) : (lst [ident "define", ident x, p]).size = p.size + 6 := by
  rw [CoreSyntax.size_lst]
  simp [Datum.sizeList, ident, Datum.size]
  omega

/-- one item: its printed form is a way of writing its desugared statement -/
theorem item_prints (i : Item) (h : i.WF) :
    i.print.strip = i.print ∧ toStatement (xformFuel i.print) i.print stdEnv = (.ok i.stmt.unloc, stdEnv) := by
  cases i with
  | import_ sets => exact printed_prints stdEnv (.importDecl sets none) h
  | expr s =>
    obtain ⟨hok, hs⟩ := h
    refine ⟨hs, ?_⟩
    have : (Statement.expr (desugar s)).unloc = .expr (desugar s) := by
      simp [Statement.unloc, desugar_unloc s hok hs]
    show toStatement (xformFuel (Desugar.print s)) (Desugar.print s) stdEnv = (.ok (Statement.expr (desugar s)).unloc, stdEnv)
    rw [this]
    exact C05Nesting.nesting_interpreter_fuel s hok
  | define x s =>
    obtain ⟨hok, hs⟩ := h
    refine ⟨strip_defineD x _ hs, ?_⟩
    have : (Statement.definition (.mk x (desugar s) none)).unloc = .definition (.mk x (desugar s) none) := by
      simp [Statement.unloc, Def.unloc, desugar_unloc s hok hs]
    show toStatement (xformFuel (lst [ident "define", ident x, Desugar.print s])) _ stdEnv =
      (.ok (Statement.definition (.mk x (desugar s) none)).unloc, stdEnv)
    rw [this]
    exact C05Nesting.nesting_define x s hok _ (by
      have := cost_expr s
      simp only [xformFuel, size_defineD]
      omega)

theorem items_print : ∀ (items : List Item), (∀ i ∈ items, i.WF) →
    PrintsAs stdEnv (items.map Item.print) (items.map Item.stmt)
  | [], _ => trivial
  | i :: is, h => ⟨item_prints i (h i (by simp)), items_print is (fun j hj => h j (by simp [hj]))⟩

/-! ## surface contexts: plugging an expression into the places marked by a variable -/

mutual
/-- `subst hole a c`: the surface program `c` with `a` in place of every occurrence of the variable
`hole` as an expression.  (Purely syntactic, as plugging into a context is: an occurrence under a binder
of `hole` is replaced too; binding names, formals and quoted data are not expression positions.) -/
def subst (hole : String) (a : Surf) : Surf → Surf
  | .var x => if x = hole then a else .var x
  | .lit p => .lit p
  | .vec xs => .vec xs
  | .quote d => .quote d
  | .if2 t c => .if2 (subst hole a t) (subst hole a c)
  | .if3 t c e => .if3 (subst hole a t) (subst hole a c) (subst hole a e)
  | .lambda fixed rest body => .lambda fixed rest (substList hole a body)
  | .set x e => .set x (subst hole a e)
  | .call f args => .call (subst hole a f) (substList hole a args)
  | .begin_ body => .begin_ (substList hole a body)
  | .let_ bs body => .let_ (substBinds hole a bs) (substList hole a body)
  | .letstar bs body => .letstar (substBinds hole a bs) (substList hole a body)
  | .and_ es => .and_ (substList hole a es)
  | .or_ es => .or_ (substList hole a es)
  | .when_ t body => .when_ (subst hole a t) (substList hole a body)
  | .unless_ t body => .unless_ (subst hole a t) (substList hole a body)
  | .cond_ cs => .cond_ (substCond hole a cs)
  | .case_ k cs => .case_ (subst hole a k) (substCase hole a cs)
def substList (hole : String) (a : Surf) : List Surf → List Surf
  | [] => []
  | s :: ss => subst hole a s :: substList hole a ss
def substBinds (hole : String) (a : Surf) : List Bind → List Bind
  | [] => []
  | .mk x v :: bs => .mk x (subst hole a v) :: substBinds hole a bs
def substCond (hole : String) (a : Surf) : List CondClause → List CondClause
  | [] => []
  | .test t :: cs => .test (subst hole a t) :: substCond hole a cs
  | .arrow t r :: cs => .arrow (subst hole a t) (subst hole a r) :: substCond hole a cs
  | .normal t body :: cs => .normal (subst hole a t) (substList hole a body) :: substCond hole a cs
  | .else_ body :: cs => .else_ (substList hole a body) :: substCond hole a cs
def substCase (hole : String) (a : Surf) : List CaseClause → List CaseClause
  | [] => []
  | .normal atoms body :: cs => .normal atoms (substList hole a body) :: substCase hole a cs
  | .arrow atoms r :: cs => .arrow atoms (subst hole a r) :: substCase hole a cs
  | .else_ body :: cs => .else_ (substList hole a body) :: substCase hole a cs
  | .elseArrow r :: cs => .elseArrow (subst hole a r) :: substCase hole a cs
end

/-- plugging into a top-level item -/
def Item.subst (hole : String) (a : Surf) : Item → Item
  | .import_ sets => .import_ sets
  | .expr s => .expr (SurfaceText.subst hole a s)
  | .define x s => .define x (SurfaceText.subst hole a s)

theorem atomic_subst (hole : String) (a b : Surf) (hat : atomic a = atomic b) (c : Surf) :
    atomic (subst hole a c) = atomic (subst hole b c) := by
  cases c with
  | var x =>
    simp only [subst]
    by_cases hx : x = hole
    · simp only [hx, if_true]; exact hat
    · simp only [hx, if_false]
  | _ => simp only [subst, atomic]

theorem substCond_cons_ne (hole : String) (a : Surf) (c : CondClause) (cs : List CondClause) :
    ∃ c' cs', substCond hole a (c :: cs) = c' :: cs' := by
  cases c <;> exact ⟨_, _, by rw [substCond]⟩

theorem substCase_cons_ne (hole : String) (a : Surf) (c : CaseClause) (cs : List CaseClause) :
    ∃ c' cs', substCase hole a (c :: cs) = c' :: cs' := by
  cases c <;> exact ⟨_, _, by rw [substCase]⟩

/-! ## the desugaring is compositional -/

theorem desugarBinds_names_congr {bs bs' : List (String × Expr)} (h : bs = bs') :
    bs.map (·.1) = bs'.map (·.1) ∧ bs.map (·.2) = bs'.map (·.2) := by subst h; exact ⟨rfl, rfl⟩

mutual
/-- plugging two expressions with the same desugaring (both atomic `case` keys, or both not) into the
same context gives programs with the same desugaring -/
theorem desugar_subst (hole : String) (a b : Surf) (hd : desugar a = desugar b) (hat : atomic a = atomic b) :
    ∀ c : Surf, desugar (subst hole a c) = desugar (subst hole b c)
  | .var x => by
    simp only [subst]
    by_cases hx : x = hole
    · simp only [hx, if_true]; exact hd
    · simp only [hx, if_false]
  | .lit p => rfl
  | .vec xs => rfl
  | .quote d => rfl
  | .if2 t c => by
    simp only [subst, desugar, desugar_subst hole a b hd hat t, desugar_subst hole a b hd hat c]
  | .if3 t c e => by
    simp only [subst, desugar, desugar_subst hole a b hd hat t, desugar_subst hole a b hd hat c,
      desugar_subst hole a b hd hat e]
  | .lambda fixed rest body => by
    simp only [subst, desugar, desugarList_subst hole a b hd hat body]
  | .set x e => by
    simp only [subst, desugar, desugar_subst hole a b hd hat e]
  | .call f args => by
    simp only [subst, desugar, desugar_subst hole a b hd hat f, desugarList_subst hole a b hd hat args]
  | .begin_ body => by
    simp only [subst, desugar, desugarList_subst hole a b hd hat body]
  | .let_ bs body => by
    simp only [subst, desugar, desugarBinds_subst hole a b hd hat bs, desugarList_subst hole a b hd hat body]
  | .letstar bs body => by
    simp only [subst, desugar, desugarBinds_subst hole a b hd hat bs, desugarList_subst hole a b hd hat body]
  | .and_ es => by
    simp only [subst, desugar, desugarList_subst hole a b hd hat es]
  | .or_ es => by
    simp only [subst, desugar, desugarList_subst hole a b hd hat es]
  | .when_ t body => by
    simp only [subst, desugar, desugar_subst hole a b hd hat t, desugarList_subst hole a b hd hat body]
  | .unless_ t body => by
    simp only [subst, desugar, desugar_subst hole a b hd hat t, desugarList_subst hole a b hd hat body]
  | .cond_ cs => by
    simp only [subst, desugar, desugarCond_subst hole a b hd hat cs]
  | .case_ k cs => by
    simp only [subst, desugar, desugar_subst hole a b hd hat k, atomic_subst hole a b hat k,
      desugarCase_subst hole a b hd hat cs]
theorem desugarList_subst (hole : String) (a b : Surf) (hd : desugar a = desugar b) (hat : atomic a = atomic b) :
    ∀ cs : List Surf, desugarList (substList hole a cs) = desugarList (substList hole b cs)
  | [] => rfl
  | c :: cs => by
    simp only [substList, desugarList, desugar_subst hole a b hd hat c, desugarList_subst hole a b hd hat cs]
theorem desugarBinds_subst (hole : String) (a b : Surf) (hd : desugar a = desugar b) (hat : atomic a = atomic b) :
    ∀ bs : List Bind, desugarBinds (substBinds hole a bs) = desugarBinds (substBinds hole b bs)
  | [] => rfl
  | .mk x v :: bs => by
    simp only [substBinds, desugarBinds, desugar_subst hole a b hd hat v, desugarBinds_subst hole a b hd hat bs]
theorem desugarCond_subst (hole : String) (a b : Surf) (hd : desugar a = desugar b) (hat : atomic a = atomic b) :
    ∀ cs : List CondClause, desugarCond (substCond hole a cs) = desugarCond (substCond hole b cs)
  | [] => rfl
  | .else_ body :: cs => by
    simp only [substCond, desugarCond, desugarList_subst hole a b hd hat body]
  | .test t :: [] => by
    simp only [substCond, desugarCond, desugar_subst hole a b hd hat t]
  | .test t :: c :: cs => by
    have ih := desugarCond_subst hole a b hd hat (c :: cs)
    obtain ⟨c₁, cs₁, e₁⟩ := substCond_cons_ne hole a c cs
    obtain ⟨c₂, cs₂, e₂⟩ := substCond_cons_ne hole b c cs
    rw [e₁, e₂] at ih
    rw [substCond, substCond, e₁, e₂]
    simp only [desugarCond, desugar_subst hole a b hd hat t, ih]
  | .arrow t r :: [] => by
    simp only [substCond, desugarCond, desugar_subst hole a b hd hat t, desugar_subst hole a b hd hat r]
  | .arrow t r :: c :: cs => by
    have ih := desugarCond_subst hole a b hd hat (c :: cs)
    obtain ⟨c₁, cs₁, e₁⟩ := substCond_cons_ne hole a c cs
    obtain ⟨c₂, cs₂, e₂⟩ := substCond_cons_ne hole b c cs
    rw [e₁, e₂] at ih
    rw [substCond, substCond, e₁, e₂]
    simp only [desugarCond, desugar_subst hole a b hd hat t, desugar_subst hole a b hd hat r, ih]
  | .normal t body :: [] => by
    simp only [substCond, desugarCond, desugar_subst hole a b hd hat t, desugarList_subst hole a b hd hat body]
  | .normal t body :: c :: cs => by
    have ih := desugarCond_subst hole a b hd hat (c :: cs)
    obtain ⟨c₁, cs₁, e₁⟩ := substCond_cons_ne hole a c cs
    obtain ⟨c₂, cs₂, e₂⟩ := substCond_cons_ne hole b c cs
    rw [e₁, e₂] at ih
    rw [substCond, substCond, e₁, e₂]
    simp only [desugarCond, desugar_subst hole a b hd hat t, desugarList_subst hole a b hd hat body, ih]
theorem desugarCase_subst (hole : String) (a b : Surf) (hd : desugar a = desugar b) (hat : atomic a = atomic b) :
    ∀ (cs : List CaseClause) (key : Expr),
      desugarCase key (substCase hole a cs) = desugarCase key (substCase hole b cs)
  | [], _ => rfl
  | .elseArrow r :: cs, key => by
    simp only [substCase, desugarCase, desugar_subst hole a b hd hat r]
  | .else_ body :: cs, key => by
    simp only [substCase, desugarCase, desugarList_subst hole a b hd hat body]
  | .arrow atoms r :: [], key => by
    simp only [substCase, desugarCase, desugar_subst hole a b hd hat r]
  | .arrow atoms r :: c :: cs, key => by
    have ih := desugarCase_subst hole a b hd hat (c :: cs) key
    obtain ⟨c₁, cs₁, e₁⟩ := substCase_cons_ne hole a c cs
    obtain ⟨c₂, cs₂, e₂⟩ := substCase_cons_ne hole b c cs
    rw [e₁, e₂] at ih
    rw [substCase, substCase, e₁, e₂]
    simp only [desugarCase, desugar_subst hole a b hd hat r, ih]
  | .normal atoms body :: [], key => by
    simp only [substCase, desugarCase, desugarList_subst hole a b hd hat body]
  | .normal atoms body :: c :: cs, key => by
    have ih := desugarCase_subst hole a b hd hat (c :: cs) key
    obtain ⟨c₁, cs₁, e₁⟩ := substCase_cons_ne hole a c cs
    obtain ⟨c₂, cs₂, e₂⟩ := substCase_cons_ne hole b c cs
    rw [e₁, e₂] at ih
    rw [substCase, substCase, e₁, e₂]
    simp only [desugarCase, desugarList_subst hole a b hd hat body, ih]
end

/-- … for the statements of the items -/
theorem stmt_subst (hole : String) (a b : Surf) (hd : desugar a = desugar b) (hat : atomic a = atomic b)
    (ctx : List Item) : (ctx.map (Item.subst hole a)).map Item.stmt = (ctx.map (Item.subst hole b)).map Item.stmt := by
  simp only [List.map_map]
  apply List.map_congr_left
  intro i _
  cases i with
  | import_ sets => rfl
  | expr s => simp only [Function.comp, Item.subst, Item.stmt, desugar_subst hole a b hd hat s]
  | define x s => simp only [Function.comp, Item.subst, Item.stmt, desugar_subst hole a b hd hat s]

/-! ## the one-step definitions of the derived forms -/

/-- the names / the right-hand sides of the bindings of a `let` -/
def bindNames : List Bind → List String
  | [] => []
  | .mk x _ :: bs => x :: bindNames bs
def bindVals : List Bind → List Surf
  | [] => []
  | .mk _ v :: bs => v :: bindVals bs

theorem desugarBinds_names : ∀ bs : List Bind, (desugarBinds bs).map (·.1) = bindNames bs
  | [] => rfl
  | .mk x v :: bs => by simp only [desugarBinds, bindNames, List.map_cons, desugarBinds_names bs]

theorem desugarBinds_vals : ∀ bs : List Bind, (desugarBinds bs).map (·.2) = desugarList (bindVals bs)
  | [] => rfl
  | .mk x v :: bs => by simp only [desugarBinds, bindVals, desugarList, List.map_cons, desugarBinds_vals bs]

/-- `Defn d d'`: the surface expression `d'` is the ONE-STEP definition of the derived form `d`, as R7RS
7.3 / `grammar.sld` give it (the right-hand side is again surface syntax and may use derived forms).
`c`, `cs` stand for "one more clause and the remaining ones". -/
inductive Defn : Surf → Surf → Prop
  /-- `(begin e …)` = `((lambda () e …))` -/
  | begin_ (body : List Surf) : Defn (.begin_ body) (.call (.lambda [] none body) [])
  /-- `(when t e …)` = `(if t (begin e …))` -/
  | when_ (t : Surf) (body : List Surf) : Defn (.when_ t body) (.if2 t (.begin_ body))
  /-- `(unless t e …)` = `(if (not t) (begin e …))` -/
  | unless_ (t : Surf) (body : List Surf) :
      Defn (.unless_ t body) (.if2 (.call (.var "not") [t]) (.begin_ body))
  /-- `(let ((x v) …) b …)` = `((lambda (x …) b …) v …)` -/
  | let_ (bs : List Bind) (body : List Surf) :
      Defn (.let_ bs body) (.call (.lambda (bindNames bs) none body) (bindVals bs))
  /-- `(let* () b …)` = `(let () b …)` -/
  | letstar0 (body : List Surf) : Defn (.letstar [] body) (.let_ [] body)
  /-- `(let* ((x v)) b …)` = `(let ((x v)) b …)` -/
  | letstar1 (b : Bind) (body : List Surf) : Defn (.letstar [b] body) (.let_ [b] body)
  /-- `(let* ((x v) (y w) …) b …)` = `(let ((x v)) (let* ((y w) …) b …))` -/
  | letstar2 (b b' : Bind) (bs : List Bind) (body : List Surf) :
      Defn (.letstar (b :: b' :: bs) body) (.let_ [b] [.letstar (b' :: bs) body])
  /-- `(and)` = `#t` -/
  | and0 : Defn (.and_ []) (.lit (.bool true))
  /-- `(and a)` = `a` -/
  | and1 (a : Surf) : Defn (.and_ [a]) a
  /-- `(and a b …)` = `(if a (and b …) #f)` -/
  | and2 (a b : Surf) (r : List Surf) : Defn (.and_ (a :: b :: r)) (.if3 a (.and_ (b :: r)) (.lit (.bool false)))
  /-- `(or)` = `#f` -/
  | or0 : Defn (.or_ []) (.lit (.bool false))
  /-- `(or a)` = `a` -/
  | or1 (a : Surf) : Defn (.or_ [a]) a
  /-- `(or a b …)` = `(let ((x a)) (if x x (or b …)))` -/
  | or2 (a b : Surf) (r : List Surf) :
      Defn (.or_ (a :: b :: r)) (.let_ [.mk "x" a] [.if3 (.var "x") (.var "x") (.or_ (b :: r))])
  /-- `(cond (else e …))` = `(begin e …)` -/
  | condElse (body : List Surf) : Defn (.cond_ [.else_ body]) (.begin_ body)
  /-- `(cond (t))` = `t` -/
  | condTest1 (t : Surf) : Defn (.cond_ [.test t]) t
  /-- `(cond (t) c …)` = `(let ((temp t)) (if temp temp (cond c …)))` -/
  | condTest2 (t : Surf) (c : CondClause) (cs : List CondClause) :
      Defn (.cond_ (.test t :: c :: cs)) (.let_ [.mk "temp" t] [.if3 (.var "temp") (.var "temp") (.cond_ (c :: cs))])
  /-- `(cond (t => r))` = `(let ((temp t)) (if temp (r temp)))` -/
  | condArrow1 (t r : Surf) :
      Defn (.cond_ [.arrow t r]) (.let_ [.mk "temp" t] [.if2 (.var "temp") (.call r [.var "temp"])])
  /-- `(cond (t => r) c …)` = `(let ((temp t)) (if temp (r temp) (cond c …)))` -/
  | condArrow2 (t r : Surf) (c : CondClause) (cs : List CondClause) :
      Defn (.cond_ (.arrow t r :: c :: cs))
        (.let_ [.mk "temp" t] [.if3 (.var "temp") (.call r [.var "temp"]) (.cond_ (c :: cs))])
  /-- `(cond (t e …))` = `(if t (begin e …))` -/
  | condNormal1 (t : Surf) (body : List Surf) : Defn (.cond_ [.normal t body]) (.if2 t (.begin_ body))
  /-- `(cond (t e …) c …)` = `(if t (begin e …) (cond c …))` -/
  | condNormal2 (t : Surf) (body : List Surf) (c : CondClause) (cs : List CondClause) :
      Defn (.cond_ (.normal t body :: c :: cs)) (.if3 t (.begin_ body) (.cond_ (c :: cs)))
  /-- `(case (f a …) c …)` = `(let ((atom-key (f a …))) (case atom-key c …))`: a key that is not a
  variable or a literal -/
  | caseKey (k : Surf) (cs : List CaseClause) (hk : atomic k = false) :
      Defn (.case_ k cs) (.let_ [.mk "atom-key" k] [.case_ (.var "atom-key") cs])
  /-- `(case k (else e …))` = `(begin e …)`, `k` a variable or a literal -/
  | caseElse (k : Surf) (body : List Surf) (hk : atomic k = true) : Defn (.case_ k [.else_ body]) (.begin_ body)
  /-- `(case k (else => r))` = `(r k)` -/
  | caseElseArrow (k r : Surf) (hk : atomic k = true) : Defn (.case_ k [.elseArrow r]) (.call r [k])
  /-- `(case k ((d …) e …))` = `(if (memv k '(d …)) (begin e …))` -/
  | caseNormal1 (k : Surf) (atoms : List Datum) (body : List Surf) (hk : atomic k = true) :
      Defn (.case_ k [.normal atoms body]) (.if2 (.call (.var "memv") [k, .quote (lst atoms)]) (.begin_ body))
  /-- `(case k ((d …) e …) c …)` = `(if (memv k '(d …)) (begin e …) (case k c …))` -/
  | caseNormal2 (k : Surf) (atoms : List Datum) (body : List Surf) (c : CaseClause) (cs : List CaseClause)
      (hk : atomic k = true) :
      Defn (.case_ k (.normal atoms body :: c :: cs))
        (.if3 (.call (.var "memv") [k, .quote (lst atoms)]) (.begin_ body) (.case_ k (c :: cs)))
  /-- `(case k ((d …) => r))` = `(if (not (null? (memv k '(d …)))) (r k))` -/
  | caseArrow1 (k : Surf) (atoms : List Datum) (r : Surf) (hk : atomic k = true) :
      Defn (.case_ k [.arrow atoms r])
        (.if2 (.call (.var "not") [.call (.var "null?") [.call (.var "memv") [k, .quote (lst atoms)]]]) (.call r [k]))
  /-- `(case k ((d …) => r) c …)` = `(if (memv k '(d …)) (r k) (case k c …))` -/
  | caseArrow2 (k : Surf) (atoms : List Datum) (r : Surf) (c : CaseClause) (cs : List CaseClause)
      (hk : atomic k = true) :
      Defn (.case_ k (.arrow atoms r :: c :: cs))
        (.if3 (.call (.var "memv") [k, .quote (lst atoms)]) (.call r [k]) (.case_ k (c :: cs)))

/-- a derived form and its one-step definition have the same desugaring -/
theorem Defn.desugar_eq {d d' : Surf} (h : Defn d d') : desugar d = desugar d' := by
  cases h with
  | let_ bs body =>
    simp only [desugar, desugarBinds_names, desugarBinds_vals]
    rfl
  | caseKey k cs hk =>
    have h2 : atomic (.var "atom-key") = true := rfl
    simp only [desugar, desugarBinds, desugarList, hk, h2, List.map_cons, List.map_nil, if_true,
      Bool.false_eq_true, if_false]
  | letstar1 b body =>
    cases b
    simp only [desugar, desugarList, desugarBinds, letStarE, List.map_cons, List.map_nil]
  | letstar2 b b' bs body =>
    cases b
    cases b'
    simp only [desugar, desugarList, desugarBinds, letStarE, List.map_cons, List.map_nil]
  | caseElse k body hk => simp only [desugar, desugarCase, hk, if_true]
  | caseElseArrow k r hk => simp only [desugar, desugarCase, desugarList, hk, if_true]
  | caseNormal1 k atoms body hk => simp only [desugar, desugarCase, desugarList, hk, if_true, memvE, varE]
  | caseNormal2 k atoms body c cs hk => simp only [desugar, desugarCase, desugarList, hk, if_true, memvE, varE]
  | caseArrow1 k atoms r hk => simp only [desugar, desugarCase, desugarList, hk, if_true, memvE, varE]
  | caseArrow2 k atoms r c cs hk => simp only [desugar, desugarCase, desugarList, hk, if_true, memvE, varE]
  | _ =>
    simp only [desugar, desugarList, desugarBinds, desugarCond, andE, orE, letStarE, beginE, letE, boolE,
      List.map_cons, List.map_nil, varE, lamE, callE]

/-- the left-hand side of a definition is a derived form: not a variable or a literal -/
theorem Defn.atomic_left {d d' : Surf} (h : Defn d d') : atomic d = false := by
  cases h <;> rfl

/-! ## every supported program has valid layouts -/

/-- the layout that puts `sep` before, between and after all tokens -/
def sepLayout (sep : List Char) (ts : List Token) : List (List Char) := List.replicate (ts.length + 1) sep

theorem validGaps_sep (sep : List Char) (h1 : isAtmos false sep = true) (h2 : isTrail false sep = true)
    (hne : sep.isEmpty = false) : ∀ ts : List Token, ValidGaps ts (sepLayout sep ts)
  | [] => h2
  | t :: ts => by
    have ih := validGaps_sep sep h1 h2 hne ts
    have e : sepLayout sep (t :: ts) = sep :: sepLayout sep ts := by
      simp [sepLayout, List.replicate_succ]
    rw [e]
    refine ⟨h1, ?_, ih⟩
    have e2 : (sepLayout sep ts).headD [] = sep := by simp [sepLayout, List.replicate_succ]
    rw [e2]
    simp [gapOK, hne]

/-- a non-empty separator made of blanks, line ends and complete comments, put everywhere, is a valid
layout of the tokens of supported data -/
theorem validLayout_sep (sep : List Char) (h1 : isAtmos false sep = true) (h2 : isTrail false sep = true)
    (hne : sep.isEmpty = false) (ps : List Datum) (hsup : ∀ p ∈ ps, SupportedD p) :
    ValidLayout (formsToks ps) (sepLayout sep (formsToks ps)) :=
  validLayout_of_gaps _ _ (toksL_supported _ (supportedL_ofDatums ps hsup)) (validGaps_sep sep h1 h2 hne _)

/-! ## the text of a surface program -/

/-- the tokens that write the items down, one printed form after the other -/
def surfaceToks (items : List Item) : List Token := formsToks (items.map Item.print)

/-- the text of a surface program: the tokens of the printed forms of its items under a layout -/
def surfaceText (items : List Item) (layout : List (List Char)) : List Char :=
  formsText (items.map Item.print) layout

theorem sup_items {items : List Item} (hsup : ∀ i ∈ items, SupportedD i.print) :
    ∀ p ∈ items.map Item.print, SupportedD p := by
  intro p hp
  obtain ⟨i, hi, rfl⟩ := List.mem_map.1 hp
  exact hsup i hi

/-! ## a structural sufficient condition for `(print s).strip = print s` -/

mutual
/-- the datum carries no source location -/
def plainD : Datum → Bool
  | .prim _ l => l.isNone
  | .sym _ l => l.isNone
  | .nil l => l.isNone
  | .pair a d l => l.isNone && plainD a && plainD d
  | .vec xs l => l.isNone && plainDs xs
def plainDs : List Datum → Bool
  | [] => true
  | x :: xs => plainD x && plainDs xs
end

mutual
theorem strip_of_plainD : ∀ d : Datum, plainD d = true → d.strip = d
  | .prim _ l, h => by cases l <;> simp_all [plainD, Datum.strip]
  | .sym _ l, h => by cases l <;> simp_all [plainD, Datum.strip]
  | .nil l, h => by cases l <;> simp_all [plainD, Datum.strip]
  | .pair a d l, h => by
    simp only [plainD, Bool.and_eq_true] at h
    cases l with
    | none => simp only [Datum.strip, strip_of_plainD a h.1.2, strip_of_plainD d h.2]
    | some _ => simp at h
  | .vec xs l, h => by
    simp only [plainD, Bool.and_eq_true] at h
    cases l with
    | none => simp only [Datum.strip, stripList_of_plainDs xs h.2]
    | some _ => simp at h
theorem stripList_of_plainDs : ∀ xs : List Datum, plainDs xs = true → Datum.stripList xs = xs
  | [], _ => rfl
  | x :: xs, h => by
    simp only [plainDs, Bool.and_eq_true] at h
    simp only [Datum.stripList, strip_of_plainD x h.1, stripList_of_plainDs xs h.2]
end

theorem map_strip_of_plainDs (xs : List Datum) (h : plainDs xs = true) : xs.map Datum.strip = xs := by
  rw [← stripList_eq_map]; exact stripList_of_plainDs xs h

mutual
/-- the data embedded in the surface program — vector literals, quotations, the data of `case` clauses —
carry no source locations -/
def plain : Surf → Bool
  | .var _ | .lit _ => true
  | .vec xs => plainDs xs
  | .quote d => plainD d
  | .if2 t c => plain t && plain c
  | .if3 t c a => plain t && plain c && plain a
  | .lambda _ _ body => plainList body
  | .set _ e => plain e
  | .call f args => plain f && plainList args
  | .begin_ body => plainList body
  | .let_ bs body => plainBinds bs && plainList body
  | .letstar bs body => plainBinds bs && plainList body
  | .and_ es => plainList es
  | .or_ es => plainList es
  | .when_ t body => plain t && plainList body
  | .unless_ t body => plain t && plainList body
  | .cond_ cs => plainCond cs
  | .case_ k cs => plain k && plainCase cs
def plainList : List Surf → Bool
  | [] => true
  | s :: ss => plain s && plainList ss
def plainBinds : List Bind → Bool
  | [] => true
  | .mk _ v :: bs => plain v && plainBinds bs
def plainCond : List CondClause → Bool
  | [] => true
  | .test t :: cs => plain t && plainCond cs
  | .arrow t r :: cs => plain t && plain r && plainCond cs
  | .normal t body :: cs => plain t && plainList body && plainCond cs
  | .else_ body :: cs => plainList body && plainCond cs
def plainCase : List CaseClause → Bool
  | [] => true
  | .normal atoms body :: cs => plainDs atoms && plainList body && plainCase cs
  | .arrow atoms r :: cs => plainDs atoms && plain r && plainCase cs
  | .else_ body :: cs => plainList body && plainCase cs
  | .elseArrow r :: cs => plain r && plainCase cs
end

theorem strip_lst (xs : List Datum) : (lst xs).strip = lst (xs.map Datum.strip) := CoreSyntax.strip_ofList_none xs
theorem strip_ident (x : String) : (ident x).strip = ident x := rfl

mutual
/-- a surface program without locations in its embedded data is printed without locations -/
theorem strip_print : ∀ s : Surf, plain s = true → (Desugar.print s).strip = Desugar.print s
  | .var x, _ => rfl
  | .lit p, _ => rfl
  | .vec xs, h => by
    simp only [plain] at h
    simp only [Desugar.print, Datum.strip, stripList_of_plainDs xs h]
  | .quote d, h => by
    simp only [plain] at h
    simp only [Desugar.print, strip_lst, List.map_cons, List.map_nil, strip_ident, strip_of_plainD d h]
  | .if2 t c, h => by
    simp only [plain, Bool.and_eq_true] at h
    simp only [Desugar.print, strip_lst, List.map_cons, List.map_nil, strip_ident, strip_print t h.1, strip_print c h.2]
  | .if3 t c a, h => by
    simp only [plain, Bool.and_eq_true] at h
    simp only [Desugar.print, strip_lst, List.map_cons, List.map_nil, strip_ident, strip_print t h.1.1,
      strip_print c h.1.2, strip_print a h.2]
  | .lambda fixed rest body, h => by
    simp only [plain] at h
    simp only [Desugar.print, strip_lst, List.map_cons, strip_ident, CoreSyntax.strip_formalsD, strip_printList body h]
  | .set x e, h => by
    simp only [plain] at h
    simp only [Desugar.print, strip_lst, List.map_cons, List.map_nil, strip_ident, strip_print e h]
  | .call f args, h => by
    simp only [plain, Bool.and_eq_true] at h
    simp only [Desugar.print, strip_lst, List.map_cons, strip_print f h.1, strip_printList args h.2]
  | .begin_ body, h => by
    simp only [plain] at h
    simp only [Desugar.print, strip_lst, List.map_cons, strip_ident, strip_printList body h]
  | .let_ bs body, h => by
    simp only [plain, Bool.and_eq_true] at h
    simp only [Desugar.print, strip_lst, List.map_cons, strip_ident, strip_printBinds bs h.1, strip_printList body h.2]
  | .letstar bs body, h => by
    simp only [plain, Bool.and_eq_true] at h
    simp only [Desugar.print, strip_lst, List.map_cons, strip_ident, strip_printBinds bs h.1, strip_printList body h.2]
  | .and_ es, h => by
    simp only [plain] at h
    simp only [Desugar.print, strip_lst, List.map_cons, strip_ident, strip_printList es h]
  | .or_ es, h => by
    simp only [plain] at h
    simp only [Desugar.print, strip_lst, List.map_cons, strip_ident, strip_printList es h]
  | .when_ t body, h => by
    simp only [plain, Bool.and_eq_true] at h
    simp only [Desugar.print, strip_lst, List.map_cons, strip_ident, strip_print t h.1, strip_printList body h.2]
  | .unless_ t body, h => by
    simp only [plain, Bool.and_eq_true] at h
    simp only [Desugar.print, strip_lst, List.map_cons, strip_ident, strip_print t h.1, strip_printList body h.2]
  | .cond_ cs, h => by
    simp only [plain] at h
    simp only [Desugar.print, strip_lst, List.map_cons, strip_ident, strip_printCond cs h]
  | .case_ k cs, h => by
    simp only [plain, Bool.and_eq_true] at h
    simp only [Desugar.print, strip_lst, List.map_cons, strip_ident, strip_print k h.1, strip_printCase cs h.2]
theorem strip_printList : ∀ ss : List Surf, plainList ss = true → (printList ss).map Datum.strip = printList ss
  | [], _ => rfl
  | s :: ss, h => by
    simp only [plainList, Bool.and_eq_true] at h
    simp only [printList, List.map_cons, strip_print s h.1, strip_printList ss h.2]
theorem strip_printBinds : ∀ bs : List Bind, plainBinds bs = true → (printBinds bs).map Datum.strip = printBinds bs
  | [], _ => rfl
  | .mk x v :: bs, h => by
    simp only [plainBinds, Bool.and_eq_true] at h
    simp only [printBinds, printBind, List.map_cons, List.map_nil, strip_lst, strip_ident, strip_print v h.1,
      strip_printBinds bs h.2]
theorem strip_printCond : ∀ cs : List CondClause, plainCond cs = true →
    (printCondClauses cs).map Datum.strip = printCondClauses cs
  | [], _ => rfl
  | .test t :: cs, h => by
    simp only [plainCond, Bool.and_eq_true] at h
    simp only [printCondClauses, printCondClause, List.map_cons, List.map_nil, strip_lst, strip_print t h.1,
      strip_printCond cs h.2]
  | .arrow t r :: cs, h => by
    simp only [plainCond, Bool.and_eq_true] at h
    simp only [printCondClauses, printCondClause, List.map_cons, List.map_nil, strip_lst, strip_ident,
      strip_print t h.1.1, strip_print r h.1.2, strip_printCond cs h.2]
  | .normal t body :: cs, h => by
    simp only [plainCond, Bool.and_eq_true] at h
    simp only [printCondClauses, printCondClause, List.map_cons, strip_lst, strip_print t h.1.1,
      strip_printList body h.1.2, strip_printCond cs h.2]
  | .else_ body :: cs, h => by
    simp only [plainCond, Bool.and_eq_true] at h
    simp only [printCondClauses, printCondClause, List.map_cons, strip_lst, strip_ident,
      strip_printList body h.1, strip_printCond cs h.2]
theorem strip_printCase : ∀ cs : List CaseClause, plainCase cs = true →
    (printCaseClauses cs).map Datum.strip = printCaseClauses cs
  | [], _ => rfl
  | .normal atoms body :: cs, h => by
    simp only [plainCase, Bool.and_eq_true] at h
    simp only [printCaseClauses, printCaseClause, List.map_cons, strip_lst, map_strip_of_plainDs atoms h.1.1,
      strip_printList body h.1.2, strip_printCase cs h.2]
  | .arrow atoms r :: cs, h => by
    simp only [plainCase, Bool.and_eq_true] at h
    simp only [printCaseClauses, printCaseClause, List.map_cons, List.map_nil, strip_lst, strip_ident,
      map_strip_of_plainDs atoms h.1.1, strip_print r h.1.2, strip_printCase cs h.2]
  | .else_ body :: cs, h => by
    simp only [plainCase, Bool.and_eq_true] at h
    simp only [printCaseClauses, printCaseClause, List.map_cons, strip_lst, strip_ident,
      strip_printList body h.1, strip_printCase cs h.2]
  | .elseArrow r :: cs, h => by
    simp only [plainCase, Bool.and_eq_true] at h
    simp only [printCaseClauses, printCaseClause, List.map_cons, List.map_nil, strip_lst, strip_ident,
      strip_print r h.1, strip_printCase cs h.2]
end

end Ruschm.SurfaceText

/-
Shared basic types of the executable model of Ruschm.
Import-free (core Lean only) so that the driver links as an executable.
-/
namespace Ruschm

/-- Source location as the Rust code carries it: `Option<[line, column]>`. -/
abbrev Loc := Option (Nat × Nat)

/-- Error *kinds*: the canonical classification of `ErrorData` / `LogicError` / `SyntaxError`
used on both sides of the correspondence (message text is never compared).
`panic site` is the model's rendering of a Rust panic (`unwrap`, `todo!`, overflow, …). -/
inductive Err where
  | syntax            -- any `SyntaxError`
  | unbound           -- `LogicError::UnboundedSymbol`
  | nonProcedure      -- `TypeMisMatch(_, Type::Procedure)`
  | type              -- `TypeMisMatch(_, other type)`
  | arity             -- `ArgumentMissMatch`
  | divZero           -- `DivisionByZero`
  | vectorIndex       -- `VectorIndexOutOfBounds`
  | immutable         -- `RequiresMutable`
  | negativeLength    -- `NegativeLength`
  | inexactConversion -- `InExactConversion`
  | improperList      -- `InproperList`
  | unexpectedExpr    -- `UnexpectedExpression`
  | libNotFound       -- `LibraryNotFound`
  | cyclic            -- `LibraryImportCyclic`
  | io                -- `ErrorData::IO`
  | other             -- `Extension`, `MetaCircularSyntax`
  | panic (site : String)
  | fuel              -- the model ran out of fuel: not an outcome of the real code
  deriving DecidableEq, Repr, Inhabited

def Err.toString : Err → String
  | .syntax => "syntax" | .unbound => "unbound" | .nonProcedure => "nonProcedure"
  | .type => "type" | .arity => "arity" | .divZero => "divZero"
  | .vectorIndex => "vectorIndex" | .immutable => "immutable"
  | .negativeLength => "negativeLength" | .inexactConversion => "inexactConversion"
  | .improperList => "improperList" | .unexpectedExpr => "unexpectedExpr"
  | .libNotFound => "libNotFound" | .cyclic => "cyclic" | .io => "io" | .other => "other"
  | .panic s => "PANIC:" ++ s
  | .fuel => "FUEL"

instance : ToString Err := ⟨Err.toString⟩

/-- `i32` range test. The model computes in unbounded `Int` and tests the range exactly where
the Rust code narrows to `i32`. -/
def fitsI32 (x : Int) : Bool := decide (-2147483648 ≤ x) && decide (x ≤ 2147483647)

def fitsU32 (x : Int) : Bool := decide (0 ≤ x) && decide (x ≤ 4294967295)

end Ruschm

/-
Helper lemmas for `C05Nesting.lean`: the transformer (`RuschmModel/Xform.lean`) on the printed forms
of `RuschmSpec/Desugar.lean`, one derived form at a time: ONE expansion step (the shape theorems of
`C05Shapes.lean`, on data without locations) followed by the core steps of `CoreSyntaxLemmas.lean`.

`TrS c d e`: in every syntax environment that resolves identifiers as the interpreter's own one
does (`Std`), with any fuel `n ≥ c`, the transformer turns the datum `d` into the expression `e`
and leaves the environment unchanged.
-/
import RuschmSpec.Desugar
import RuschmProofs.C05Shapes
import RuschmProofs.C01More
import RuschmProofs.TailLemmas

set_option linter.unusedSimpArgs false
set_option linter.unusedVariables false

namespace Ruschm.Desugar
open Ruschm Ruschm.Xform Ruschm.CoreSyntax Ruschm.Macro Ruschm.C05

/-! ## the syntax environments -/

/-- `env` resolves every identifier as the interpreter's own syntax environment does -/
def Std (env : SynEnv) : Prop := ∀ k, env.get? k = SynEnv.get? [[], Interp.grammarScope] k

theorem Std.default : Std [[], Interp.grammarScope] := fun _ => rfl

theorem Std.child {env} (h : Std env) : Std ([] :: env) := fun k => by rw [← h k]; rfl

theorem Std.stdEnv {env} (h : Std env) : StdEnv env := fun kw hkw => by
  rw [h kw]; exact stdEnv_default kw hkw

theorem Std.noMacro {env} (h : Std env) {k : String} (hk : C01More.isStdMacro k = false) : env.get? k = none := by
  have := C01More.std_macros k
  rw [hk, C01More.macroOf] at this
  rw [h k]
  cases hg : SynEnv.get? [[], Interp.grammarScope] k with
  | none => rfl
  | some r => rw [hg] at this; cases this

/-- a head that is not a keyword of a special or derived form is a procedure call head -/
theorem Std.head {env} (h : Std env) {F : Datum}
    (hF : ∀ kw kl, F = .sym kw kl → (CoreSyntax.keywords.contains kw = false ∧ derivedKeywords.contains kw = false)) :
    ∀ kw kl, F = .sym kw kl → kw ∉ CoreSyntax.keywords ∧ env.get? kw = none := by
  intro kw kl e
  obtain ⟨h1, h2⟩ := hF kw kl e
  refine ⟨by simpa using h1, h.noMacro ?_⟩
  simpa [C01More.isStdMacro, C01More.stdMacros, derivedKeywords] using h2

/-! ## data without locations -/

theorem loc_lst (xs : List Datum) : (lst xs).loc = none := by cases xs <;> rfl
theorem withLoc_lst (xs : List Datum) : (lst xs).withLoc none = lst xs := by cases xs <;> rfl
theorem isList_lst (xs : List Datum) : IsList (lst xs) xs := isList_ofList none xs

/-- ONE EXPANSION STEP, forwards: a use of a bundled derived form (printed, no locations) is
transformed as its expansion is, with one unit of fuel less. -/
theorem step_macro {env : SynEnv} {kw : String} {args : List Datum} {d' : Datum} (k : Nat) (hstd : Std env)
    (hkw : kw ∈ C05.keywords)
    (hxp : ∀ fuel, matchFuel (lst args) ≤ fuel → expand1 fuel kw (lst args) = .ok d') :
    toStatement (k+1) (lst (ident kw :: args)) env = toStatement k d' env := by
  have hget := hstd.stdEnv kw hkw
  have hx := hxp (matchFuel (Datum.pair (ident kw) (lst args) none) + k) (by
    simp only [matchFuel, Datum.size]; omega)
  simp only [expand1] at hx
  cases hr : grammarRules kw with
  | none => rw [hr] at hx; cases hx
  | some rules =>
    rw [hr] at hx hget
    have e : Datum.withLoc none (Datum.ofList none args) = Datum.ofList none args := withLoc_lst args
    simp only [ident, lst] at hx
    simp only [lst_cons, ident]
    rw [toStatement_list]
    simp only [C05.keywords, List.mem_cons, List.mem_nil_iff, or_false] at hkw
    rcases hkw with rfl | rfl | rfl | rfl | rfl | rfl | rfl | rfl | rfl <;>
      simp (config := {decide := true}) only [if_false, XM.bind_def, getEnv, hget, lift, e, hx]


/-! ## the judgements -/

/-- in every standard environment, with fuel at least `c`, `d` is transformed into `e` -/
def TrS (c : Nat) (d : Datum) (e : Expr) : Prop :=
  ∀ env, Std env → ∀ n, c ≤ n → toStatement n d env = (.ok (.expr e), env)

/-- … the operands `ds` into `es` -/
def TrL (c : Nat) (ds : List Datum) (es : List Expr) : Prop :=
  ∀ env, Std env → ∀ n, c ≤ n → toExprs n ds env = (.ok es, env)

/-- … the non-empty body `ds` into the expressions `es` (no definitions) -/
def TrB (c : Nat) (ds : List Datum) (es : List Expr) : Prop :=
  ds ≠ [] ∧ ∀ env, Std env → ∀ n, c ≤ n → toBody n ds [] [] env = (.ok ([], es), env)

theorem TrS.mono {c c' d e} (h : TrS c d e) (hc : c ≤ c') : TrS c' d e :=
  fun env hs n hn => h env hs n (Nat.le_trans hc hn)

/-- item by item; every item adds its own cost and 15 -/
inductive TrAll : Nat → List Datum → List Expr → Prop
  | nil : TrAll 0 [] []
  | cons {c d e C ds es} : TrS c d e → TrAll C ds es → TrAll (c + C + 15) (d :: ds) (e :: es)

theorem TrAll.exprs {C ds es} (h : TrAll C ds es) : TrL (C + 1) ds es := by
  induction h with
  | nil =>
    intro env hs n hn
    obtain ⟨k, rfl⟩ : ∃ k, n = k + 1 := ⟨n - 1, by omega⟩
    rfl
  | @cons c d e C ds es hd _ ih =>
    intro env hs n hn
    obtain ⟨k, rfl⟩ : ∃ k, n = k + 2 := ⟨n - 2, by omega⟩
    simp only [toExprs, XM.bind_def, toExpr_of_stmt (hd env hs k (by omega)), ih env hs (k+1) (by omega), XM.pure_def]

theorem TrAll.bodyAcc {C ds es} (h : TrAll C ds es) : ∀ env, Std env → ∀ n accD accE, C + 1 ≤ n →
    (accE ≠ [] ∨ ds ≠ []) → toBody n ds accD accE env = (.ok (accD.reverse, accE.reverse ++ es), env) := by
  induction h with
  | nil =>
    intro env hs n accD accE hn hne
    obtain ⟨k, rfl⟩ : ∃ k, n = k + 1 := ⟨n - 1, by omega⟩
    have : accE ≠ [] := by rcases hne with h | h; exact h; exact absurd rfl h
    simp only [body_nil k accD accE env this, List.append_nil]
  | @cons c d e C ds es hd _ ih =>
    intro env hs n accD accE hn hne
    obtain ⟨k, rfl⟩ : ∃ k, n = k + 1 := ⟨n - 1, by omega⟩
    rw [body_expr (hd env hs k (by omega)), ih env hs k accD (e :: accE) (by omega) (.inl (by simp))]
    simp

theorem TrAll.body {C ds es} (h : TrAll C ds es) (hne : ds ≠ []) : TrB (C + 1) ds es :=
  ⟨hne, fun env hs n hn => by simpa using h.bodyAcc env hs n [] [] hn (.inr hne)⟩

theorem TrS.body1 {c d e} (h : TrS c d e) : TrB (c + 2) [d] [e] :=
  ⟨by simp, fun env hs n hn => by
    obtain ⟨k, rfl⟩ : ∃ k, n = k + 2 := ⟨n - 2, by omega⟩
    rw [body_expr (h env hs (k+1) (by omega)), body_nil k _ _ env (by simp)]
    rfl⟩

theorem TrS.exprs1 {c d e} (h : TrS c d e) : TrL (c + 3) [d] [e] := fun env hs n hn => by
  obtain ⟨k, rfl⟩ : ∃ k, n = k + 3 := ⟨n - 3, by omega⟩
  simp only [toExprs, XM.bind_def, toExpr_of_stmt (h env hs (k+1) (by omega)), XM.pure_def]

theorem TrL.nil : TrL 1 [] [] := fun env hs n hn => by
  obtain ⟨k, rfl⟩ : ∃ k, n = k + 1 := ⟨n - 1, by omega⟩
  rfl

theorem TrL.two {c₁ c₂ d₁ d₂ e₁ e₂ c} (h₁ : TrS c₁ d₁ e₁) (h₂ : TrS c₂ d₂ e₂) (hc₁ : c₁ + 2 ≤ c) (hc₂ : c₂ + 3 ≤ c) :
    TrL c [d₁, d₂] [e₁, e₂] := fun env hs n hn => by
  obtain ⟨k, rfl⟩ : ∃ k, n = k + 3 := ⟨n - 3, by omega⟩
  simp only [toExprs, XM.bind_def, toExpr_of_stmt (h₁ env hs (k+1) (by omega)),
    toExpr_of_stmt (h₂ env hs k (by omega)), XM.pure_def]

/-! ## the core forms -/

/-- an operator that is not a variable named like a special form or a derived form -/
def HeadOkD (F : Datum) : Prop :=
  ∀ kw kl, F = .sym kw kl → (CoreSyntax.keywords.contains kw = false ∧ derivedKeywords.contains kw = false)

theorem headOkD_lst (xs : List Datum) : HeadOkD (lst xs) := by
  intro kw kl h; cases xs <;> cases h

theorem headOkD_ident {x : String} (h1 : CoreSyntax.keywords.contains x = false) (h2 : derivedKeywords.contains x = false) :
    HeadOkD (ident x) := by
  intro kw kl h; cases h; exact ⟨h1, h2⟩

theorem trS_var (x : String) : TrS 1 (ident x) (varE x) := fun env hs n hn => by
  obtain ⟨k, rfl⟩ : ∃ k, n = k + 1 := ⟨n - 1, by omega⟩
  rfl

theorem trS_prim (p : Prim) : TrS 1 (.prim p none) (.prim p none) := fun env hs n hn => by
  obtain ⟨k, rfl⟩ : ∃ k, n = k + 1 := ⟨n - 1, by omega⟩
  rfl

theorem trS_vec (xs : List Datum) : TrS 1 (.vec xs none) (.datum (.vec xs none) none) := fun env hs n hn => by
  obtain ⟨k, rfl⟩ : ∃ k, n = k + 1 := ⟨n - 1, by omega⟩
  rfl

theorem trS_quote (d : Datum) : TrS 1 (lst [ident "quote", d]) (.quote d none) := fun env hs n hn => by
  obtain ⟨k, rfl⟩ : ∃ k, n = k + 1 := ⟨n - 1, by omega⟩
  simp only [ident, lst_cons, step_quote]

theorem trS_if2 {c₁ c₂ T C t c' c} (hT : TrS c₁ T t) (hC : TrS c₂ C c') (h₁ : c₁ + 2 ≤ c) (h₂ : c₂ + 2 ≤ c) :
    TrS c (lst [ident "if", T, C]) (if2E t c') := fun env hs n hn => by
  obtain ⟨k, rfl⟩ : ∃ k, n = k + 2 := ⟨n - 2, by omega⟩
  simp only [ident, lst_cons]
  rw [step_if (A := []) (a := none) none none none (hT env hs k (by omega)) (hC env hs k (by omega)) trivial]
  rfl

theorem trS_if3 {c₁ c₂ c₃ T C A t c' a c} (hT : TrS c₁ T t) (hC : TrS c₂ C c') (hA : TrS c₃ A a)
    (h₁ : c₁ + 2 ≤ c) (h₂ : c₂ + 2 ≤ c) (h₃ : c₃ + 2 ≤ c) :
    TrS c (lst [ident "if", T, C, A]) (if3E t c' a) := fun env hs n hn => by
  obtain ⟨k, rfl⟩ : ∃ k, n = k + 2 := ⟨n - 2, by omega⟩
  simp only [ident, lst_cons]
  rw [step_if (A := [A]) (a := some a) none none none (hT env hs k (by omega)) (hC env hs k (by omega))
    (hA env hs k (by omega))]
  rfl

theorem trS_set {c₁ V v c} (x : String) (hV : TrS c₁ V v) (h₁ : c₁ + 2 ≤ c) :
    TrS c (lst [ident "set!", ident x, V]) (.assign x v none) := fun env hs n hn => by
  obtain ⟨k, rfl⟩ : ∃ k, n = k + 2 := ⟨n - 2, by omega⟩
  simp only [ident, lst_cons]
  rw [step_set none none none none x [] (hV env hs k (by omega))]
  rfl

theorem trS_call {cf Ca F f args as c} (hh : HeadOkD F) (hF : TrS cf F f) (hA : TrL Ca args as)
    (h₁ : cf + 3 ≤ c) (h₂ : Ca + 2 ≤ c) : TrS c (lst (F :: args)) (callE f as) := fun env hs n hn => by
  obtain ⟨k, rfl⟩ : ∃ k, n = k + 3 := ⟨n - 3, by omega⟩
  simp only [lst_cons]
  rw [step_call none none (hs.head hh) (hF env hs k (by omega)) (hA env hs (k+1) (by omega))]
  rfl

theorem trS_lambda {Cb body es c} (fixed : List String) (rest : Option String) (hB : TrB Cb body es)
    (h₁ : Cb + 2 ≤ c) :
    TrS c (lst (ident "lambda" :: formalsD fixed rest :: body)) (.lambda (.mk ⟨fixed, rest⟩ [] es) none) :=
  fun env hs n hn => by
  obtain ⟨k, rfl⟩ : ∃ k, n = k + 2 := ⟨n - 2, by omega⟩
  simp only [ident, lst_cons]
  rw [step_lambda none none none fixed rest (hB.2 ([] :: env) hs.child k (by omega))]

/-- `((lambda (x …) b₁ …) v …)` -/
theorem trS_lamcall {Cb Ca body bes args aes c} (names : List String) (hB : TrB Cb body bes) (hA : TrL Ca args aes)
    (h₁ : Cb + 5 ≤ c) (h₂ : Ca + 2 ≤ c) :
    TrS c (lst (lst (ident "lambda" :: formalsD names none :: body) :: args)) (letE names aes bes) :=
  trS_call (headOkD_lst _) (trS_lambda names none hB (Nat.le_refl _)) hA (by omega) h₂

theorem formalsD_none (xs : List String) : formalsD xs none = lst (xs.map ident) := by
  induction xs with
  | nil => rfl
  | cons x xs ih => simp only [formalsD, ih, List.map_cons, lst_cons]; rfl

/-! ## begin, when, unless -/

theorem trS_begin {Cb body bes c} (hB : TrB Cb body bes) (h₁ : Cb + 6 ≤ c) :
    TrS c (lst (ident "begin" :: body)) (beginE bes) := fun env hs n hn => by
  obtain ⟨k, rfl⟩ : ∃ k, n = k + 1 := ⟨n - 1, by omega⟩
  rw [step_macro (d' := lst [lst (ident "lambda" :: formalsD [] none :: body)]) k hs (by decide) (fun fuel hf => by
    have := begin_shape (use := lst body) (isList_lst _) hB.1 hf
    rw [loc_lst] at this; exact this)]
  exact trS_lamcall [] hB TrL.nil (Nat.le_refl _) (by omega) env hs k (by omega)

theorem trS_when {ct Cb T t body bes c} (hT : TrS ct T t) (hB : TrB Cb body bes) (h₁ : ct + 3 ≤ c) (h₂ : Cb + 9 ≤ c) :
    TrS c (lst (ident "when" :: T :: body)) (if2E t (beginE bes)) := fun env hs n hn => by
  obtain ⟨k, rfl⟩ : ∃ k, n = k + 1 := ⟨n - 1, by omega⟩
  rw [step_macro (d' := lst [ident "if", T, lst (ident "begin" :: body)]) k hs (by decide) (fun fuel hf => by
    have := when_shape (use := lst (T :: body)) (isList_lst _) hB.1 hf
    rw [loc_lst] at this; exact this)]
  exact trS_if2 (c := k) hT (trS_begin hB (Nat.le_refl _)) (by omega) (by omega) env hs k (Nat.le_refl _)

theorem headOkD_not : HeadOkD (ident "not") := headOkD_ident (by decide) (by decide)
theorem headOkD_memv : HeadOkD (ident "memv") := headOkD_ident (by decide) (by decide)
theorem headOkD_null : HeadOkD (ident "null?") := headOkD_ident (by decide) (by decide)

theorem trS_unless {ct Cb T t body bes c} (hT : TrS ct T t) (hB : TrB Cb body bes) (h₁ : ct + 9 ≤ c) (h₂ : Cb + 9 ≤ c) :
    TrS c (lst (ident "unless" :: T :: body)) (if2E (callE (varE "not") [t]) (beginE bes)) := fun env hs n hn => by
  obtain ⟨k, rfl⟩ : ∃ k, n = k + 1 := ⟨n - 1, by omega⟩
  rw [step_macro (d' := lst [ident "if", lst [ident "not", T], lst (ident "begin" :: body)]) k hs (by decide)
    (fun fuel hf => by
      have := unless_shape (use := lst (T :: body)) (isList_lst _) hB.1 hf
      rw [loc_lst] at this; exact this)]
  exact trS_if2 (c := k) (trS_call headOkD_not (trS_var "not") hT.exprs1 (c := ct + 6) (by omega) (by omega))
    (trS_begin hB (Nat.le_refl _)) (by omega) (by omega) env hs k (Nat.le_refl _)


/-! ## and, or -/

theorem trS_and {C ds es} (h : TrAll C ds es) : TrS (C + 2) (lst (ident "and" :: ds)) (andE es) := by
  induction h with
  | nil =>
    intro env hs n hn
    obtain ⟨k, rfl⟩ : ∃ k, n = k + 1 := ⟨n - 1, by omega⟩
    rw [step_macro (d' := .prim (.bool true) none) k hs (by decide) (fun fuel hf => by
      have := and_empty_shape (use := lst []) (isList_lst _) hf
      rw [loc_lst] at this; exact this)]
    exact trS_prim _ env hs k (by omega)
  | @cons c d e C ds es hd htl ih =>
    intro env hs n hn
    obtain ⟨k, rfl⟩ : ∃ k, n = k + 1 := ⟨n - 1, by omega⟩
    cases htl with
    | nil =>
      rw [step_macro (d' := d) k hs (by decide) (fun fuel hf => by
        have := and_one_shape (use := lst [d]) (isList_lst _) hf
        exact this)]
      exact hd env hs k (by omega)
    | @cons c' d' e' C' ds' es' hd' htl' =>
      rw [step_macro (d' := lst [ident "if", d, lst (ident "and" :: d' :: ds'), .prim (.bool false) none]) k hs
        (by decide) (fun fuel hf => by
          have := and_more_shape (use := lst (d :: d' :: ds')) (isList_lst _) (by simp) hf
          rw [loc_lst] at this; exact this)]
      exact trS_if3 (c := k) hd ih (trS_prim _) (by omega) (by omega) (by omega) env hs k (Nat.le_refl _)

/-- `(let ((x V)) B)` -/
theorem trS_let1 {cv cb V v B b c} (x : String) (hV : TrS cv V v) (hB : TrS cb B b) (h₁ : cv + 6 ≤ c) (h₂ : cb + 8 ≤ c) :
    TrS c (lst [ident "let", lst [lst [ident x, V]], B]) (letE [x] [v] [b]) := fun env hs n hn => by
  obtain ⟨k, rfl⟩ : ∃ k, n = k + 1 := ⟨n - 1, by omega⟩
  rw [step_macro (d' := lst [lst (ident "lambda" :: formalsD [x] none :: [B]), V]) k hs (by decide) (fun fuel hf => by
    have := let_shape (use := lst [lst [lst [ident x, V]], B]) (bs := lst [lst [ident x, V]])
      (bds := [lst [ident x, V]]) (nvs := [(ident x, V)]) (bodies := [B]) (isList_lst _) (isList_lst _)
      (.cons (isList_lst _) .nil) (by simp) (by simp) hf
    rw [loc_lst] at this; exact this)]
  exact trS_lamcall [x] hB.body1 hV.exprs1 (c := k) (by omega) (by omega) env hs k (Nat.le_refl _)

theorem trS_or {C ds es} (h : TrAll C ds es) : TrS (C + 2) (lst (ident "or" :: ds)) (orE es) := by
  induction h with
  | nil =>
    intro env hs n hn
    obtain ⟨k, rfl⟩ : ∃ k, n = k + 1 := ⟨n - 1, by omega⟩
    rw [step_macro (d' := .prim (.bool false) none) k hs (by decide) (fun fuel hf => by
      have := or_empty_shape (use := lst []) (isList_lst _) hf
      rw [loc_lst] at this; exact this)]
    exact trS_prim _ env hs k (by omega)
  | @cons c d e C ds es hd htl ih =>
    intro env hs n hn
    obtain ⟨k, rfl⟩ : ∃ k, n = k + 1 := ⟨n - 1, by omega⟩
    cases htl with
    | nil =>
      rw [step_macro (d' := d) k hs (by decide) (fun fuel hf => by
        have := or_one_shape (use := lst [d]) (isList_lst _) hf
        exact this)]
      exact hd env hs k (by omega)
    | @cons c' d' e' C' ds' es' hd' htl' =>
      rw [step_macro (d' := lst [ident "let", lst [lst [ident "x", d]],
          lst [ident "if", ident "x", ident "x", lst (ident "or" :: d' :: ds')]]) k hs
        (by decide) (fun fuel hf => by
          have := or_more_shape (use := lst (d :: d' :: ds')) (isList_lst _) (by simp) hf
          rw [loc_lst] at this; exact this)]
      exact trS_let1 (c := k) "x" hd
        (trS_if3 (c := c' + C' + 15 + 2 + 2) (trS_var "x") (trS_var "x") ih (by omega) (by omega) (by omega))
        (by omega) (by omega) env hs k (Nat.le_refl _)

/-! ## let, let* -/

theorem TrL.nil_inv {C es} (h : TrL C [] es) : es = [] := by
  have := h _ Std.default (C + 1) (by omega)
  rw [toExprs] at this
  cases this; rfl

/-- `(let ((x v) …) b₁ …)`, any number of bindings -/
theorem trS_let {Cb Ca body bes bds nvs vals c} (names : List String) (hp : IsPairs bds nvs)
    (hn1 : nvs.map (·.1) = names.map ident) (hB : TrB Cb body bes) (hA : TrL Ca (nvs.map (·.2)) vals)
    (h₁ : Cb + 6 ≤ c) (h₂ : Ca + 3 ≤ c) :
    TrS c (lst (ident "let" :: lst bds :: body)) (letE names vals bes) := fun env hs n hn => by
  obtain ⟨k, rfl⟩ : ∃ k, n = k + 1 := ⟨n - 1, by omega⟩
  by_cases hnv : nvs = []
  · subst hnv
    have hb : bds = [] := hp.nil_iff.2 rfl
    subst hb
    have hnames : names = [] := by cases names <;> simp_all
    subst hnames
    have hv := hA.nil_inv
    subst hv
    rw [step_macro (d' := lst [lst (ident "lambda" :: formalsD [] none :: body)]) k hs (by decide) (fun fuel hf => by
      have := let_empty_shape (use := lst (lst [] :: body)) (b := lst []) (isList_lst _) (isList_lst _) hB.1 hf
      rw [loc_lst] at this; exact this)]
    exact trS_lamcall [] hB TrL.nil (c := k) (by omega) (by omega) env hs k (Nat.le_refl _)
  · rw [step_macro (d' := lst (lst (ident "lambda" :: formalsD names none :: body) :: nvs.map (·.2))) k hs (by decide)
      (fun fuel hf => by
        have := let_shape (use := lst (lst bds :: body)) (isList_lst _) (isList_lst _) hp hnv hB.1 hf
        rw [loc_lst, hn1] at this; rw [formalsD_none]; exact this)]
    exact trS_lamcall names hB hA (c := k) (by omega) (by omega) env hs k (Nat.le_refl _)

/-- the bindings `(x v)`, item by item -/
inductive TrBinds : Nat → List Datum → List (String × Expr) → Prop
  | nil : TrBinds 0 [] []
  | cons {c x v e C ds bes} : TrS c v e → TrBinds C ds bes →
      TrBinds (c + C + 15) (lst [ident x, v] :: ds) ((x, e) :: bes)

theorem TrBinds.pairs {C ds bes} (h : TrBinds C ds bes) :
    ∃ nvs, IsPairs ds nvs ∧ nvs.map (·.1) = (bes.map (·.1)).map ident ∧
      TrAll C (nvs.map (·.2)) (bes.map (·.2)) ∧ nvs.map (fun nv => lst [nv.1, nv.2]) = ds := by
  induction h with
  | nil => exact ⟨[], .nil, rfl, .nil, rfl⟩
  | @cons c x v e C ds bes hv _ ih =>
    obtain ⟨nvs, h1, h2, h3, h4⟩ := ih
    exact ⟨(ident x, v) :: nvs, .cons (isList_lst _) h1, by simp [h2], .cons hv h3, by simp [h4]⟩

theorem trS_let_binds {Cv bds bes Cb body bodyE c} (h : TrBinds Cv bds bes) (hB : TrB Cb body bodyE)
    (h₁ : Cb + 6 ≤ c) (h₂ : Cv + 4 ≤ c) :
    TrS c (lst (ident "let" :: lst bds :: body)) (letE (bes.map (·.1)) (bes.map (·.2)) bodyE) := by
  obtain ⟨nvs, h1, h2, h3, _⟩ := h.pairs
  exact trS_let _ h1 h2 hB h3.exprs h₁ (by omega)

theorem trS_letstar {Cv bds bes Cb body bodyE} (h : TrBinds Cv bds bes) (hB : TrB Cb body bodyE) :
    TrS (Cv + Cb + 8) (lst (ident "let*" :: lst bds :: body)) (letStarE bes bodyE) := by
  induction h with
  | nil =>
    intro env hs n hn
    obtain ⟨k, rfl⟩ : ∃ k, n = k + 1 := ⟨n - 1, by omega⟩
    rw [step_macro (d' := lst (ident "let" :: lst [] :: body)) k hs (by decide) (fun fuel hf => by
      have := letstar_empty_shape (use := lst (lst [] :: body)) (b := lst []) (isList_lst _) (isList_lst _) hB.1 hf
      rw [loc_lst] at this; exact this)]
    exact trS_let (c := k) [] .nil rfl hB TrL.nil (by omega) (by omega) env hs k (Nat.le_refl _)
  | @cons c x v e C ds bes hv htl ih =>
    intro env hs n hn
    obtain ⟨k, rfl⟩ : ∃ k, n = k + 1 := ⟨n - 1, by omega⟩
    cases htl with
    | nil =>
      rw [step_macro (d' := lst (ident "let" :: lst [lst [ident x, v]] :: body)) k hs (by decide) (fun fuel hf => by
        have := letstar_one_shape (use := lst (lst [lst [ident x, v]] :: body)) (bs := lst [lst [ident x, v]])
          (b := lst [ident x, v]) (isList_lst _) (isList_lst _) (isList_lst _) hB.1 hf
        rw [loc_lst] at this; exact this)]
      exact trS_let (c := k) (nvs := [(ident x, v)]) [x] (.cons (isList_lst _) .nil) rfl hB hv.exprs1 (by omega) (by omega)
        env hs k (Nat.le_refl _)
    | @cons c' x' v' e' C' ds' bes' hv' htl' =>
      obtain ⟨nvs, h1, h2, h3, h4⟩ := (TrBinds.cons (x := x') hv' htl').pairs
      have hnv : nvs ≠ [] := by intro h0; subst h0; simp at h4
      rw [step_macro (d' := lst [ident "let", lst [lst [ident x, v]],
          lst (ident "let*" :: lst (lst [ident x', v'] :: ds') :: body)]) k hs (by decide) (fun fuel hf => by
        have := letstar_more_shape (use := lst (lst (lst [ident x, v] :: lst [ident x', v'] :: ds') :: body))
          (b := lst [ident x, v]) (isList_lst _) (isList_lst _) (isList_lst _) h1 hnv hB.1 hf
        have h4' : List.map (fun nv : Datum × Datum => L none [nv.1, nv.2]) nvs = lst [ident x', v'] :: ds' := h4
        rw [loc_lst, h4'] at this
        exact this)]
      exact trS_let1 (c := k) x hv ih (by omega) (by omega) env hs k (Nat.le_refl _)


/-! ## cond

`cl` are the remaining clauses (printed), `hR` what `(cond cl…)` is transformed into. -/

theorem trS_cond_else {Cb body bes c} (hB : TrB Cb body bes) (h₁ : Cb + 7 ≤ c) :
    TrS c (lst [ident "cond", lst (ident "else" :: body)]) (beginE bes) := fun env hs n hn => by
  obtain ⟨k, rfl⟩ : ∃ k, n = k + 1 := ⟨n - 1, by omega⟩
  rw [step_macro (d' := lst (ident "begin" :: body)) k hs (by decide) (fun fuel hf => by
    have := cond_else_shape (use := lst [lst (ident "else" :: body)]) (c := lst (ident "else" :: body))
      (e := ident "else") (isList_lst _) (isList_lst _) rfl hB.1 hf
    rw [loc_lst] at this; exact this)]
  exact trS_begin (c := k) hB (by omega) env hs k (Nat.le_refl _)

/-- `(r temp)` -/
theorem trS_receiver {cr R r c} (x : String) (hh : HeadOkD R) (hR : TrS cr R r) (h₁ : cr + 3 ≤ c) (h₂ : 6 ≤ c) :
    TrS c (lst [R, ident x]) (callE r [varE x]) :=
  trS_call hh hR (trS_var x).exprs1 h₁ (by omega)

theorem trS_cond_arrow_last {ct cr T t R r c} (hT : TrS ct T t) (hte : isSym "else" T = false) (hh : HeadOkD R)
    (hR : TrS cr R r) (h₁ : ct + 7 ≤ c) (h₂ : cr + 14 ≤ c) (h₃ : 17 ≤ c) :
    TrS c (lst [ident "cond", lst [T, ident "=>", R]])
      (letE ["temp"] [t] [if2E (varE "temp") (callE r [varE "temp"])]) := fun env hs n hn => by
  obtain ⟨k, rfl⟩ : ∃ k, n = k + 1 := ⟨n - 1, by omega⟩
  rw [step_macro (d' := lst [ident "let", lst [lst [ident "temp", T]],
      lst [ident "if", ident "temp", lst [R, ident "temp"]]]) k hs (by decide) (fun fuel hf => by
    have := cond_arrow_shape (use := lst [lst [T, ident "=>", R]]) (c := lst [T, ident "=>", R])
      (isList_lst _) (isList_lst _) rfl hte hf
    rw [loc_lst] at this; exact this)]
  exact trS_let1 (c := k) "temp" hT
    (trS_if2 (c := k - 8) (trS_var "temp") (trS_receiver (c := k - 10) "temp" hh hR (by omega) (by omega)) (by omega) (by omega))
    (by omega) (by omega) env hs k (Nat.le_refl _)

theorem trS_cond_arrow_more {ct cr cR T t R r cl r' c} (hT : TrS ct T t) (hh : HeadOkD R)
    (hR : TrS cr R r) (hcl : cl ≠ []) (hrest : TrS cR (lst (ident "cond" :: cl)) r')
    (h₁ : ct + 7 ≤ c) (h₂ : cr + 14 ≤ c) (h₃ : 17 ≤ c) (h₄ : cR + 11 ≤ c) :
    TrS c (lst (ident "cond" :: lst [T, ident "=>", R] :: cl))
      (letE ["temp"] [t] [if3E (varE "temp") (callE r [varE "temp"]) r']) := fun env hs n hn => by
  obtain ⟨k, rfl⟩ : ∃ k, n = k + 1 := ⟨n - 1, by omega⟩
  rw [step_macro (d' := lst [ident "let", lst [lst [ident "temp", T]],
      lst [ident "if", ident "temp", lst [R, ident "temp"], lst (ident "cond" :: cl)]]) k hs (by decide) (fun fuel hf => by
    have := cond_arrow_more_shape (use := lst (lst [T, ident "=>", R] :: cl)) (c := lst [T, ident "=>", R])
      (isList_lst _) (isList_lst _) rfl hcl hf
    rw [loc_lst] at this; exact this)]
  exact trS_let1 (c := k) "temp" hT
    (trS_if3 (c := k - 8) (trS_var "temp") (trS_receiver (c := k - 10) "temp" hh hR (by omega) (by omega)) hrest
      (by omega) (by omega) (by omega))
    (by omega) (by omega) env hs k (Nat.le_refl _)

theorem trS_cond_test_last {ct T t c} (hT : TrS ct T t) (h₁ : ct + 1 ≤ c) :
    TrS c (lst [ident "cond", lst [T]]) t := fun env hs n hn => by
  obtain ⟨k, rfl⟩ : ∃ k, n = k + 1 := ⟨n - 1, by omega⟩
  rw [step_macro (d' := T) k hs (by decide) (fun fuel hf => by
    have := cond_test_shape (use := lst [lst [T]]) (c := lst [T]) (isList_lst _) (isList_lst _) hf
    exact this)]
  exact hT env hs k (by omega)

theorem trS_cond_test_more {ct cR T t cl r' c} (hT : TrS ct T t) (hcl : cl ≠ [])
    (hrest : TrS cR (lst (ident "cond" :: cl)) r') (h₁ : ct + 7 ≤ c) (h₂ : cR + 11 ≤ c) (h₃ : 12 ≤ c) :
    TrS c (lst (ident "cond" :: lst [T] :: cl))
      (letE ["temp"] [t] [if3E (varE "temp") (varE "temp") r']) := fun env hs n hn => by
  obtain ⟨k, rfl⟩ : ∃ k, n = k + 1 := ⟨n - 1, by omega⟩
  rw [step_macro (d' := lst [ident "let", lst [lst [ident "temp", T]],
      lst [ident "if", ident "temp", ident "temp", lst (ident "cond" :: cl)]]) k hs (by decide) (fun fuel hf => by
    have := cond_test_more_shape (use := lst (lst [T] :: cl)) (c := lst [T]) (isList_lst _) (isList_lst _) hcl hf
    rw [loc_lst] at this; exact this)]
  exact trS_let1 (c := k) "temp" hT
    (trS_if3 (c := k - 8) (trS_var "temp") (trS_var "temp") hrest (by omega) (by omega) (by omega))
    (by omega) (by omega) env hs k (Nat.le_refl _)

theorem trS_cond_normal_last {ct Cb T t body bes c} (hT : TrS ct T t) (hte : isSym "else" T = false)
    (hB : TrB Cb body bes) (hna : ∀ a r, body = [a, r] → isSym "=>" a = false) (h₁ : ct + 3 ≤ c) (h₂ : Cb + 9 ≤ c) :
    TrS c (lst [ident "cond", lst (T :: body)]) (if2E t (beginE bes)) := fun env hs n hn => by
  obtain ⟨k, rfl⟩ : ∃ k, n = k + 1 := ⟨n - 1, by omega⟩
  rw [step_macro (d' := lst [ident "if", T, lst (ident "begin" :: body)]) k hs (by decide) (fun fuel hf => by
    have := cond_normal_shape (use := lst [lst (T :: body)]) (c := lst (T :: body)) (isList_lst _) (isList_lst _)
      hB.1 hte hna hf
    rw [loc_lst] at this; exact this)]
  exact trS_if2 (c := k) hT (trS_begin hB (Nat.le_refl _)) (by omega) (by omega) env hs k (Nat.le_refl _)

theorem trS_cond_normal_more {ct Cb cR T t body bes cl r' c} (hT : TrS ct T t)
    (hB : TrB Cb body bes) (hna : ∀ a r, body = [a, r] → isSym "=>" a = false) (hcl : cl ≠ [])
    (hrest : TrS cR (lst (ident "cond" :: cl)) r') (h₁ : ct + 3 ≤ c) (h₂ : Cb + 9 ≤ c) (h₃ : cR + 3 ≤ c) :
    TrS c (lst (ident "cond" :: lst (T :: body) :: cl)) (if3E t (beginE bes) r') := fun env hs n hn => by
  obtain ⟨k, rfl⟩ : ∃ k, n = k + 1 := ⟨n - 1, by omega⟩
  rw [step_macro (d' := lst [ident "if", T, lst (ident "begin" :: body), lst (ident "cond" :: cl)]) k hs (by decide)
    (fun fuel hf => by
      have := cond_normal_more_shape (use := lst (lst (T :: body) :: cl)) (c := lst (T :: body)) (isList_lst _)
        (isList_lst _) hB.1 hcl hna hf
      rw [loc_lst] at this; exact this)]
  exact trS_if3 (c := k) hT (trS_begin hB (Nat.le_refl _)) hrest (by omega) (by omega) (by omega) env hs k (Nat.le_refl _)

/-! ## case

`K` is the key as the rules 2–7 see it: not a non-empty list (`NotList K`). -/

/-- not a proper list, or the empty one -/
def NotList (K : Datum) : Prop := ∀ ks, IsList K ks → ks = []

theorem notList_ident (x : String) : NotList (ident x) := by intro ks h; simp [IsList, ident, Datum.spine] at h
theorem notList_prim (p : Prim) : NotList (.prim p none) := by intro ks h; simp [IsList, Datum.spine] at h
theorem notList_vec (xs : List Datum) : NotList (.vec xs none) := by intro ks h; simp [IsList, Datum.spine] at h

/-- `(memv K '(d …))` -/
theorem trS_memv {ck K k' c} (atoms : List Datum) (hK : TrS ck K k') (h₁ : ck + 6 ≤ c) :
    TrS c (lst [ident "memv", K, lst [ident "quote", lst atoms]]) (memvE k' atoms) :=
  trS_call headOkD_memv (trS_var "memv") (TrL.two (c := ck + 4) hK (trS_quote _) (by omega) (by omega)) (by omega) (by omega)

theorem trS_case_listkey {cK cR x xs ke cl r' c} (hK : TrS cK (lst (x :: xs)) ke) (hcl : cl ≠ [])
    (hrest : TrS cR (lst (ident "case" :: ident "atom-key" :: cl)) r') (h₁ : cK + 7 ≤ c) (h₂ : cR + 9 ≤ c) :
    TrS c (lst (ident "case" :: lst (x :: xs) :: cl)) (letE ["atom-key"] [ke] [r']) := fun env hs n hn => by
  obtain ⟨k, rfl⟩ : ∃ k, n = k + 1 := ⟨n - 1, by omega⟩
  rw [step_macro (d' := lst [ident "let", lst [lst [ident "atom-key", lst (x :: xs)]],
      lst (ident "case" :: ident "atom-key" :: cl)]) k hs (by decide) (fun fuel hf => by
    have := case_list_key_shape (use := lst (lst (x :: xs) :: cl)) (k := lst (x :: xs)) (isList_lst _) (isList_lst _)
      (by simp) hcl hf
    rw [loc_lst] at this; exact this)]
  exact trS_let1 (c := k) "atom-key" hK hrest (by omega) (by omega) env hs k (Nat.le_refl _)

/-- `(r K)` -/
theorem trS_receiverK {cr ck R r K k' c} (hh : HeadOkD R) (hR : TrS cr R r) (hK : TrS ck K k') (h₁ : cr + 3 ≤ c)
    (h₂ : ck + 5 ≤ c) : TrS c (lst [R, K]) (callE r [k']) :=
  trS_call hh hR hK.exprs1 h₁ (by omega)

theorem trS_case_else_arrow {cr ck R r K k' c} (hk : NotList K) (hh : HeadOkD R) (hR : TrS cr R r) (hK : TrS ck K k')
    (h₁ : cr + 4 ≤ c) (h₂ : ck + 6 ≤ c) :
    TrS c (lst [ident "case", K, lst [ident "else", ident "=>", R]]) (callE r [k']) := fun env hs n hn => by
  obtain ⟨k, rfl⟩ : ∃ k, n = k + 1 := ⟨n - 1, by omega⟩
  rw [step_macro (d' := lst [R, K]) k hs (by decide) (fun fuel hf => by
    have := case_else_arrow_shape (use := lst [K, lst [ident "else", ident "=>", R]])
      (c := lst [ident "else", ident "=>", R]) (isList_lst _) (isList_lst _) rfl rfl hk hf
    rw [loc_lst] at this; exact this)]
  exact trS_receiverK (c := k) hh hR hK (by omega) (by omega) env hs k (Nat.le_refl _)

theorem trS_case_else {Cb K body bes c} (hk : NotList K) (hB : TrB Cb body bes)
    (hna : ∀ a r, body = [a, r] → isSym "=>" a = false) (h₁ : Cb + 7 ≤ c) :
    TrS c (lst [ident "case", K, lst (ident "else" :: body)]) (beginE bes) := fun env hs n hn => by
  obtain ⟨k, rfl⟩ : ∃ k, n = k + 1 := ⟨n - 1, by omega⟩
  rw [step_macro (d' := lst (ident "begin" :: body)) k hs (by decide) (fun fuel hf => by
    have := case_else_shape (use := lst [K, lst (ident "else" :: body)]) (c := lst (ident "else" :: body))
      (isList_lst _) (isList_lst _) rfl hB.1 hna hk hf
    rw [loc_lst] at this; exact this)]
  exact trS_begin (c := k) hB (by omega) env hs k (Nat.le_refl _)

theorem trS_case_arrow_last {cr ck R r K k' atoms c} (hk : NotList K) (hat : atoms ≠ []) (hh : HeadOkD R)
    (hR : TrS cr R r) (hK : TrS ck K k') (h₁ : cr + 6 ≤ c) (h₂ : ck + 19 ≤ c) :
    TrS c (lst [ident "case", K, lst [lst atoms, ident "=>", R]])
      (if2E (callE (varE "not") [callE (varE "null?") [memvE k' atoms]]) (callE r [k'])) := fun env hs n hn => by
  obtain ⟨k, rfl⟩ : ∃ k, n = k + 1 := ⟨n - 1, by omega⟩
  rw [step_macro (d' := lst [ident "if",
      lst [ident "not", lst [ident "null?", lst [ident "memv", K, lst [ident "quote", lst atoms]]]],
      lst [R, K]]) k hs (by decide) (fun fuel hf => by
    have := case_arrow_shape (use := lst [K, lst [lst atoms, ident "=>", R]])
      (c := lst [lst atoms, ident "=>", R]) (isList_lst _) (isList_lst _) (isList_lst _) hat rfl hk hf
    rw [loc_lst] at this; exact this)]
  exact trS_if2 (c := k)
    (trS_call (c := ck + 16) headOkD_not (trS_var "not")
      (trS_call (c := ck + 11) headOkD_null (trS_var "null?") (trS_memv atoms hK (Nat.le_refl _)).exprs1 (by omega) (by omega)).exprs1
      (by omega) (by omega))
    (trS_receiverK (c := k - 2) hh hR hK (by omega) (by omega)) (by omega) (by omega) env hs k (Nat.le_refl _)

theorem trS_case_normal_last {Cb ck K k' atoms body bes c} (hk : NotList K) (hat : atoms ≠ [])
    (hK : TrS ck K k') (hB : TrB Cb body bes) (hna : ∀ a r, body = [a, r] → isSym "=>" a = false)
    (h₁ : ck + 9 ≤ c) (h₂ : Cb + 9 ≤ c) :
    TrS c (lst [ident "case", K, lst (lst atoms :: body)]) (if2E (memvE k' atoms) (beginE bes)) := fun env hs n hn => by
  obtain ⟨k, rfl⟩ : ∃ k, n = k + 1 := ⟨n - 1, by omega⟩
  rw [step_macro (d' := lst [ident "if", lst [ident "memv", K, lst [ident "quote", lst atoms]],
      lst (ident "begin" :: body)]) k hs (by decide) (fun fuel hf => by
    have := case_normal_shape (use := lst [K, lst (lst atoms :: body)])
      (c := lst (lst atoms :: body)) (isList_lst _) (isList_lst _) (isList_lst _) hat hB.1 hna hk hf
    rw [loc_lst] at this; exact this)]
  exact trS_if2 (c := k) (trS_memv atoms hK (Nat.le_refl _)) (trS_begin hB (Nat.le_refl _)) (by omega) (by omega)
    env hs k (Nat.le_refl _)

theorem trS_case_arrow_more {cr ck cR R r K k' atoms cl r' c} (hk : NotList K) (hat : atoms ≠ []) (hh : HeadOkD R)
    (hR : TrS cr R r) (hK : TrS ck K k') (hcl : cl ≠ []) (hrest : TrS cR (lst (ident "case" :: K :: cl)) r')
    (h₁ : cr + 6 ≤ c) (h₂ : ck + 9 ≤ c) (h₃ : cR + 3 ≤ c) :
    TrS c (lst (ident "case" :: K :: lst [lst atoms, ident "=>", R] :: cl))
      (if3E (memvE k' atoms) (callE r [k']) r') := fun env hs n hn => by
  obtain ⟨k, rfl⟩ : ∃ k, n = k + 1 := ⟨n - 1, by omega⟩
  rw [step_macro (d' := lst [ident "if", lst [ident "memv", K, lst [ident "quote", lst atoms]],
      lst [R, K], lst (ident "case" :: K :: cl)]) k hs (by decide) (fun fuel hf => by
    have := case_arrow_more_shape (use := lst (K :: lst [lst atoms, ident "=>", R] :: cl))
      (c := lst [lst atoms, ident "=>", R]) (isList_lst _) (isList_lst _) (isList_lst _) hat rfl hcl hk hf
    rw [loc_lst] at this; exact this)]
  exact trS_if3 (c := k) (trS_memv atoms hK (Nat.le_refl _)) (trS_receiverK (c := k - 2) hh hR hK (by omega) (by omega))
    hrest (by omega) (by omega) (by omega) env hs k (Nat.le_refl _)

theorem trS_case_normal_more {Cb ck cR K k' atoms body bes cl r' c} (hk : NotList K) (hat : atoms ≠ [])
    (hK : TrS ck K k') (hB : TrB Cb body bes) (hna : ∀ a r, body = [a, r] → isSym "=>" a = false)
    (hcl : cl ≠ []) (hrest : TrS cR (lst (ident "case" :: K :: cl)) r')
    (h₁ : ck + 9 ≤ c) (h₂ : Cb + 9 ≤ c) (h₃ : cR + 3 ≤ c) :
    TrS c (lst (ident "case" :: K :: lst (lst atoms :: body) :: cl))
      (if3E (memvE k' atoms) (beginE bes) r') := fun env hs n hn => by
  obtain ⟨k, rfl⟩ : ∃ k, n = k + 1 := ⟨n - 1, by omega⟩
  rw [step_macro (d' := lst [ident "if", lst [ident "memv", K, lst [ident "quote", lst atoms]],
      lst (ident "begin" :: body), lst (ident "case" :: K :: cl)]) k hs (by decide) (fun fuel hf => by
    have := case_normal_more_shape (use := lst (K :: lst (lst atoms :: body) :: cl))
      (c := lst (lst atoms :: body)) (isList_lst _) (isList_lst _) (isList_lst _) hat hB.1 hcl hna hk hf
    rw [loc_lst] at this; exact this)]
  exact trS_if3 (c := k) (trS_memv atoms hK (Nat.le_refl _)) (trS_begin hB (Nat.le_refl _)) hrest
    (by omega) (by omega) (by omega) env hs k (Nat.le_refl _)


/-! ## the printed surface forms -/

theorem isSym_print (s : String) (a : Surf) : isSym s (print a) = isVar s a := by
  cases a <;> simp [print, isSym, isVar, ident, lst, Datum.ofList]

theorem hna_of_arrowFree {body : List Surf} (h : arrowFree body = true) :
    ∀ a r, printList body = [a, r] → isSym "=>" a = false := by
  intro a r e
  match body, h, e with
  | [x, y], h, e =>
    simp only [printList, List.cons.injEq, and_true] at e
    obtain ⟨rfl, _⟩ := e
    rw [isSym_print]
    simpa [arrowFree] using h
  | [], _, e => simp [printList] at e
  | [_], _, e => simp [printList] at e
  | _ :: _ :: _ :: _, _, e => simp [printList] at e

theorem headOkD_print {s : Surf} (h : headOk s = true) : HeadOkD (print s) := by
  intro kw kl e
  cases s <;> simp [print, ident, lst, Datum.ofList] at e
  obtain ⟨rfl, _⟩ := e
  simpa [headOk] using h

theorem printList_ne_nil {ss : List Surf} (h : ss.isEmpty = false) : printList ss ≠ [] := by
  cases ss <;> simp_all [printList]

theorem printCondClauses_ne_nil {cs : List CondClause} (h : cs ≠ []) : printCondClauses cs ≠ [] := by
  cases cs <;> simp_all [printCondClauses]

theorem printCaseClauses_ne_nil {cs : List CaseClause} (h : cs ≠ []) : printCaseClauses cs ≠ [] := by
  cases cs <;> simp_all [printCaseClauses]

/-- an expression that is not a variable or a literal is printed as a non-empty list -/
theorem print_not_atomic {s : Surf} (h : atomic s = false) : ∃ x xs, print s = lst (x :: xs) := by
  cases s <;> simp [atomic] at h <;> exact ⟨_, _, rfl⟩

theorem atomic_key {s : Surf} (h : atomic s = true) : NotList (print s) ∧ TrS 1 (print s) (desugar s) := by
  cases s <;> simp [atomic] at h
  · exact ⟨notList_ident _, trS_var _⟩
  · exact ⟨notList_prim _, trS_prim _⟩
  · exact ⟨notList_vec _, trS_vec _⟩

theorem desugarCond_test_more {t tl} (h : tl ≠ []) : desugarCond (.test t :: tl) =
    letE ["temp"] [desugar t] [if3E (varE "temp") (varE "temp") (desugarCond tl)] := by
  cases tl with
  | nil => exact absurd rfl h
  | cons c tl => simp only [desugarCond]

theorem desugarCond_arrow_more {t r tl} (h : tl ≠ []) : desugarCond (.arrow t r :: tl) =
    letE ["temp"] [desugar t] [if3E (varE "temp") (callE (desugar r) [varE "temp"]) (desugarCond tl)] := by
  cases tl with
  | nil => exact absurd rfl h
  | cons c tl => simp only [desugarCond]

theorem desugarCond_normal_more {t body tl} (h : tl ≠ []) : desugarCond (.normal t body :: tl) =
    if3E (desugar t) (beginE (desugarList body)) (desugarCond tl) := by
  cases tl with
  | nil => exact absurd rfl h
  | cons c tl => simp only [desugarCond]

theorem desugarCase_arrow_more {key atoms r tl} (h : tl ≠ []) : desugarCase key (.arrow atoms r :: tl) =
    if3E (memvE key atoms) (callE (desugar r) [key]) (desugarCase key tl) := by
  cases tl with
  | nil => exact absurd rfl h
  | cons c tl => simp only [desugarCase]

theorem desugarCase_normal_more {key atoms body tl} (h : tl ≠ []) : desugarCase key (.normal atoms body :: tl) =
    if3E (memvE key atoms) (beginE (desugarList body)) (desugarCase key tl) := by
  cases tl with
  | nil => exact absurd rfl h
  | cons c tl => simp only [desugarCase]


/-! ## the fuel bound is linear in the size of the printed form -/

theorem length_printList (ss : List Surf) : (printList ss).length = ss.length := by
  induction ss with
  | nil => rfl
  | cons s ss ih => simp [printList, ih]
theorem length_printBinds (ss : List Bind) : (printBinds ss).length = ss.length := by
  induction ss with
  | nil => rfl
  | cons s ss ih => simp [printBinds, ih]
theorem length_printCondClauses (ss : List CondClause) : (printCondClauses ss).length = ss.length := by
  induction ss with
  | nil => rfl
  | cons s ss ih => simp [printCondClauses, ih]
theorem length_printCaseClauses (ss : List CaseClause) : (printCaseClauses ss).length = ss.length := by
  induction ss with
  | nil => rfl
  | cons s ss ih => simp [printCaseClauses, ih]

macro "cost_tac" : tactic =>
  `(tactic| (simp only [print, printBind, printCondClause, printCaseClause, printList, printBinds, printCondClauses,
      printCaseClauses, cost, costList, costBinds, costCond, costCase, size_lst, Datum.sizeList, Datum.size,
      List.length_cons, List.length_nil, length_printList, length_printBinds, length_printCondClauses,
      length_printCaseClauses, ident] <;> omega))

mutual
theorem cost_expr : ∀ s : Surf, cost s + 7 ≤ 8 * (print s).size
  | .var x => by cost_tac
  | .lit p => by cost_tac
  | .vec xs => by cost_tac
  | .quote d => by cost_tac
  | .if2 t c => by have := cost_expr t; have := cost_expr c; cost_tac
  | .if3 t c a => by have := cost_expr t; have := cost_expr c; have := cost_expr a; cost_tac
  | .lambda fixed rest body => by have := cost_list body; cost_tac
  | .set x e => by have := cost_expr e; cost_tac
  | .call f args => by have := cost_expr f; have := cost_list args; cost_tac
  | .begin_ body => by have := cost_list body; cost_tac
  | .let_ bs body => by have := cost_binds bs; have := cost_list body; cost_tac
  | .letstar bs body => by have := cost_binds bs; have := cost_list body; cost_tac
  | .and_ es => by have := cost_list es; cost_tac
  | .or_ es => by have := cost_list es; cost_tac
  | .when_ t body => by have := cost_expr t; have := cost_list body; cost_tac
  | .unless_ t body => by have := cost_expr t; have := cost_list body; cost_tac
  | .cond_ cs => by have := cost_cond cs; cost_tac
  | .case_ k cs => by have := cost_expr k; have := cost_case cs; cost_tac
theorem cost_list : ∀ ss : List Surf, costList ss ≤ 8 * (Datum.sizeList (printList ss) + ss.length)
  | [] => by cost_tac
  | s :: ss => by have := cost_expr s; have := cost_list ss; cost_tac
theorem cost_binds : ∀ bs : List Bind, costBinds bs ≤ 8 * (Datum.sizeList (printBinds bs) + bs.length)
  | [] => by cost_tac
  | .mk x v :: bs => by have := cost_expr v; have := cost_binds bs; cost_tac
theorem cost_cond : ∀ cs : List CondClause, costCond cs ≤ 8 * (Datum.sizeList (printCondClauses cs) + cs.length)
  | [] => by cost_tac
  | .test t :: cs => by have := cost_expr t; have := cost_cond cs; cost_tac
  | .arrow t r :: cs => by have := cost_expr t; have := cost_expr r; have := cost_cond cs; cost_tac
  | .normal t body :: cs => by have := cost_expr t; have := cost_list body; have := cost_cond cs; cost_tac
  | .else_ body :: cs => by have := cost_list body; have := cost_cond cs; cost_tac
theorem cost_case : ∀ cs : List CaseClause, costCase cs ≤ 8 * (Datum.sizeList (printCaseClauses cs) + cs.length)
  | [] => by cost_tac
  | .normal atoms body :: cs => by have := cost_list body; have := cost_case cs; cost_tac
  | .arrow atoms r :: cs => by have := cost_expr r; have := cost_case cs; cost_tac
  | .else_ body :: cs => by have := cost_list body; have := cost_case cs; cost_tac
  | .elseArrow r :: cs => by have := cost_expr r; have := cost_case cs; cost_tac
end

end Ruschm.Desugar

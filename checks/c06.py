"""C06 — the reader maps text to the data its tokens denote.
Theorems: lean/RuschmProofs/C06.lean (about RuschmModel/Lex.lean, Read.lean). Tie: (1) every string
up to length 4 (thorough: 5) over a 17-character alphabet of structural characters, real lexer and
reader vs model, token for token with locations; (2) random datum trees rendered with random
layouts (blanks, tabs, CR, LF, CRLF, comments), real reader vs model vs the tree they were rendered
from (this oracle needs no model); (3) oracle on the implementation alone for "split only at
delimiters": every token that is not self-delimiting ends at the end of input or before a
delimiter."""
import itertools, random
from . import common as C

PROP = "C06"
MODULES = ["RuschmProofs.C06", "RuschmProofs.C06More", "RuschmProofs.C06Read"]
ALPHA = list("()'.#\";|\\+-1ae/ ") + ["\n"]
DELIMS = set(" \t\n\r()\";|")


def esc(s):
    out = []
    for ch in s:
        if ch in '\\"() ' or not ("!" <= ch <= "~"):
            out.append("\\u{%x}" % ord(ch))
        else:
            out.append(ch)
    return "".join(out)


ATOMS = [
    # (source text, canonical datum)
    ("0", "i:0"), ("42", "i:42"), ("-17", "i:-17"), ("+5", "i:5"), ("2147483647", "i:2147483647"), ("-2147483648", "i:-2147483648"),
    ("1/2", "q:1/2"), ("-3/4", "q:-3/4"), ("6/4", "q:6/4"), ("1.5", "R:1.5"), ("-0.25", "R:-0.25"), ("1e3", "R:1e3"),
    ("2.5e-3", "R:2.5e-3"), ("+1.e2", "R:+1.e2"), ("1.", "R:1."), ("#t", "#t"), ("#f", "#f"),
    ("#\\a", "c:97"), ("#\\space", "c:32"), ("#\\newline", "c:10"), ("#\\x41", "c:65"), ("#\\(", "c:40"), ("#\;", "c:59"),
    ('"abc"', 's:"abc"'), ('""', 's:""'), ('"a b"', 's:"a\\u{20}b"'), ('"\\n\\t\\\\\\""', 's:"\\u{a}\\u{9}\\u{5c}\\u{22}"'),
    ('"\\x41;z"', 's:"Az"'), ('"(;"', 's:"\\u{28};"'), ("foo", "y:foo"), ("list->vector", "y:list->vector"), ("a1", "y:a1"),
    ("+", "y:+"), ("-", "y:-"), ("...", "y:..."), ("+a", "y:+a"), ("-x.y", "y:-x.y"), ("<=?", "y:<=?"), ("!$%&*/:<=>?@^_~", "y:!$%&*/:<=>?@^_~"),
    ("|a b|", "y:a\\u{20}b"), ("||", "y:"), ("|(;|", "y:\\u{28};"),
]
NAMED_CHARS = {"alarm": 7, "backspace": 8, "delete": 127, "escape": 27, "newline": 10, "null": 0, "return": 13, "space": 32, "tab": 9}
ID_INITIAL = "abcdefghijklmnopqrstuvwxyzABCDEFGHIJKLMNOPQRSTUVWXYZ!$%&*/:<=>?@^_~"
ID_SUBSEQUENT = ID_INITIAL + "0123456789+-.@"
STRING_PIECES = [("a", "a"), ("x", "x"), ("Z", "Z"), (" ", " "), ("(", "("), (")", ")"), (";", ";"), ("|", "|"), ("#", "#"), ("'", "'"),
                 ("\\n", "\n"), ("\\t", "\t"), ("\\\\", "\\"), ('\\"', '"'), ("\\x41;", "A"), ("\\x3bb;", "\u03bb"), ("\n", "\n"), ("\u03bb", "\u03bb")]


def atom(rng):
    """(source text, canonical datum) of one atom: the fixed list above, or one drawn from a whole token class - every
    printable character as a character literal, hex and named characters, identifiers over the full identifier alphabet,
    integers over the i32 range, unreduced ratios, strings made of plain characters, delimiters and escapes"""
    k = rng.random()
    if k < 0.4:
        return rng.choice(ATOMS)
    if k < 0.55:
        j = rng.random()
        if j < 0.6:
            c = rng.randrange(33, 127)
            return "#\\" + chr(c), "c:%d" % c
        if j < 0.7:
            c = rng.choice([0x3bb, 0xe9, 0x4e2d, 0x1f600])
            return "#\\" + chr(c), "c:%d" % c
        if j < 0.85:
            c = rng.choice([rng.randrange(0, 0x80), rng.randrange(0x80, 0xd800), rng.randrange(0xe000, 0x110000)])
            return "#\\x" + rng.choice(["%x", "%X", "%04x"]) % c, "c:%d" % c
        nm = rng.choice(sorted(NAMED_CHARS))
        return "#\\" + nm, "c:%d" % NAMED_CHARS[nm]
    if k < 0.62:
        # peculiar identifiers: a sign followed by a letter-like character, `->`, or two dots, then ANY subsequent characters,
        # digits included
        head = rng.choice(["+", "-", "+", "-", "->", "..", "--", "+-"])
        if head in ("+", "-"):
            head += rng.choice("abcxyzXYZ!$%&*/:<=>?^_~@+-")
        name = head + "".join(rng.choice(ID_SUBSEQUENT) for _ in range(rng.randrange(0, 5)))
        return name, "y:" + name
    if k < 0.7:
        name = rng.choice(ID_INITIAL) + "".join(rng.choice(ID_SUBSEQUENT) for _ in range(rng.randrange(0, 6)))
        return name, "y:" + name
    if k < 0.8:
        n = rng.choice([rng.randrange(-2**31, 2**31), rng.randrange(-300, 300)])
        return (("+" if n >= 0 and rng.random() < 0.2 else "") + str(n)), "i:%d" % n
    if k < 0.87:
        n, d = rng.randrange(-999, 1000), rng.randrange(1, 1000)
        return "%d/%d" % (n, d), "q:%d/%d" % (n, d)
    pieces = [rng.choice(STRING_PIECES) for _ in range(rng.randrange(0, 6))]
    return '"' + "".join(p[0] for p in pieces) + '"', 's:"' + esc("".join(p[1] for p in pieces)) + '"'


SELF_DELIM_END = ('"', "|")     # strings and |idents| end with their own closing character


def gen_tree(rng, depth):
    """-> (tokens as list of source strings, canonical datum)"""
    r = rng.random()
    if depth <= 0 or r < 0.35:
        src, can = atom(rng)
        return [src], can
    if r < 0.7:
        n = rng.randrange(0, 5)
        items = [gen_tree(rng, depth - 1) for _ in range(n)]
        toks = ["("] + [t for it in items for t in it[0]]
        can = "(" + " ".join(it[1] for it in items)
        if n > 0 and rng.random() < 0.3:
            k = rng.random()
            if k < 0.3:
                # the tail is itself a proper list (or the empty list): (a . (b c)) IS (a b c)
                m = rng.randrange(0, 3)
                more = [gen_tree(rng, depth - 1) for _ in range(m)]
                toks += [".", "("] + [t for it in more for t in it[0]] + [")"]
                can += "".join(" " + it[1] for it in more)
                return toks + [")"], can + ")"
            tail_src, tail_can = atom(rng) if k < 0.8 else vec(rng, depth - 1)
            if isinstance(tail_src, str):
                tail_src = [tail_src]
            toks += ["."] + tail_src
            can += " . " + tail_can
        return toks + [")"], can + ")"
    if r < 0.85:
        return vec(rng, depth)
    inner, can = gen_tree(rng, depth - 1)
    return ["'"] + inner, "(y:quote %s)" % can


def vec(rng, depth):
    n = rng.randrange(0, 4)
    items = []
    for _ in range(n):
        # inside a vector the reader uses `datum()`: lists, vectors, atoms, quote
        items.append(gen_tree(rng, depth - 1))
    return ["#("] + [t for it in items for t in it[0]] + [")"], "#(" + " ".join(it[1] for it in items) + ")"


def sep(rng, need):
    """a separator between two tokens: possibly empty when not needed"""
    choices = [" ", "  ", "\t", "\n", "\r\n", "\r", " ; comment ( \" |\n", "\n\n", " \t "]
    if not need and rng.random() < 0.4:
        return ""
    s = rng.choice(choices)
    if rng.random() < 0.2:
        s += rng.choice(choices)
    return s


def render(rng, toks):
    out = []
    for i, t in enumerate(toks):
        out.append(t)
        if i + 1 < len(toks):
            nxt = toks[i + 1]
            self_delim = t in ("(", ")", "'", "#(") or t[:1] in SELF_DELIM_END and len(t) > 1
            nxt_delim = nxt[0] in DELIMS
            out.append(sep(rng, not (self_delim or nxt_delim)))
    return rng.choice(["", " ", "\n", "; lead\n"]) + "".join(out) + rng.choice(["", " ", "\n", " ; trailing"])


def index_of(text, line, col):
    """char index of the lexer cursor [line, col] (1-based; cursor = position after the token)"""
    l, c, i = 1, 1, 0
    while i < len(text) and (l, c) != (line, col):
        if text[i] == "\n":
            l, c = l + 1, 1
        else:
            c += 1
        i += 1
    return i if (l, c) == (line, col) else None


def boundary_oracle(rep, text, toks, kf_seen):
    """tokens: harness output 'canon@line:col'. Every non-self-delimiting token must be followed by
    the end of input or a delimiter."""
    for t in toks:
        if t.startswith("E ") or "@" not in t:
            continue
        can, loc = t.rsplit("@", 1)
        if loc == "-":
            continue
        line, col = map(int, loc.split(":"))
        end = index_of(text, line, col)
        if end is None or end >= len(text):
            continue
        if can in ("(", ")", "'", "`", ",", ",@", "#(", "#u8(") or can.startswith("s:"):
            continue
        prev = text[end - 1] if end > 0 else ""
        if can.startswith("y:") and prev == "|":
            continue                      # |quoted| identifier: ends with its bar
        nxt = text[end]
        if nxt in DELIMS:
            continue
        if nxt == "#" and (can in ("#t", "#f") or can.startswith("c:")):
            kf_seen.add("sharp-after-sharp-token")
            continue
        rep.violation({"what": "a token ends where no delimiter stands", "text": text, "token": can,
                       "ends_before": nxt, "tokens": toks})


def run(rep, tier, rng):
    maxlen = 4 if tier == "quick" else 5
    kf_seen = set()
    # (1) exhaustive short strings: lexer and reader
    cases, texts = [], []
    for L in range(0, maxlen + 1):
        for t in itertools.product(ALPHA, repeat=L):
            texts.append("".join(t))
    for i, s in enumerate(texts):
        cases.append(("l%d" % i, "lex", [s]))
        cases.append(("r%d" % i, "read", [s]))
    impl = C.run_hx(cases)
    model = C.run_driver(cases)
    ndiff = 0
    for cid, kind, f in cases:
        rep.count()
        a, b = impl.get(cid), model.get(cid)
        if a != b:
            ndiff += 1
            if ndiff <= 5:
                rep.violation({"broken": "correspondence RuschmModel/Lex.lean,Read.lean <-> lexer.rs,parser.rs (%s)" % kind,
                               "text": f[0], "implementation": a, "model": b}, no_input=True)
        if kind == "lex" and a:
            if len(a) >= 1 and not a[-1].startswith("E "):
                rep.nontrivial(("lex", f[0]))
            boundary_oracle(rep, f[0], a, kf_seen)
    rep.extra["exhaustive_strings"] = {"alphabet": "".join(ALPHA).replace("\n", "\\n"), "max_length": maxlen, "count": len(texts)}
    # (2) random trees x layouts
    n = 1500 if tier == "quick" else 40000
    cases2, expect = [], {}
    for i in range(n):
        toks, can = gen_tree(rng, rng.randrange(1, 5))
        text = render(rng, toks)
        cases2.append(("t%d" % i, "read", [text]))
        cases2.append(("k%d" % i, "lex", [text]))
        expect["t%d" % i] = (text, can)
    impl2 = C.run_hx(cases2)
    model2 = C.run_driver(cases2)
    for cid, kind, f in cases2:
        a, b = impl2.get(cid), model2.get(cid)
        rep.count()
        if kind == "lex":
            if a:
                boundary_oracle(rep, f[0], a, kf_seen)
            if a != b:
                rep.violation({"broken": "correspondence Lex model <-> lexer.rs", "text": f[0], "implementation": a, "model": b}, no_input=True)
            continue
        text, can = expect[cid]
        rep.nontrivial(("tree", text))
        if len(rep.cov["samples"]) < 5:
            rep.sample({"text": text, "expected_datum": can, "implementation": a})
        if a != ["D " + can]:
            rep.violation({"what": "the reader does not yield the datum the tokens denote (layout-dependent or wrong structure)",
                           "text": text, "expected": "D " + can, "implementation": a, "model": b})
        elif a != b:
            rep.violation({"broken": "correspondence Read model <-> parser.rs", "text": text, "implementation": a, "model": b}, no_input=True)
    # (3) every printable character as a character literal, every single-character identifier, in three surroundings
    cases3, expect3 = [], {}
    for c in list(range(33, 127)) + [0xa1, 0x3bb, 0x4e2d]:
        for j, (pre, post, wrap) in enumerate([("", "", "%s"), ("(", ")", "(%s)"), ("#(1 ", " 2)", "#(i:1 %s i:2)")]):
            cid = "c%d_%d" % (c, j)
            cases3.append((cid, "read", [pre + "#\\" + chr(c) + post]))
            expect3[cid] = "D " + wrap % ("c:%d" % c)
    for ch in ID_INITIAL:
        cases3.append(("y%d" % ord(ch), "read", ["(" + ch + ")"]))
        expect3["y%d" % ord(ch)] = "D (y:%s)" % ch
    impl3 = C.run_hx(cases3)
    model3 = C.run_driver(cases3)
    for cid, _, f in cases3:
        rep.count()
        rep.nontrivial(("class", f[0]))
        a, b = impl3.get(cid), model3.get(cid)
        if a != [expect3[cid]]:
            rep.violation({"what": "a token of a supported class is not read as the datum it denotes", "text": f[0],
                           "expected": expect3[cid], "implementation": a, "model": b})
        elif a != b:
            rep.violation({"broken": "correspondence Read model <-> parser.rs", "text": f[0], "implementation": a, "model": b}, no_input=True)
    # known findings
    for kf in C.known_findings(PROP):
        if kf.get("status") == "open" and kf.get("id") == "sharp-after-sharp-token":
            r = C.run_hx([("w", "lex", [kf["witness"]])])["w"]
            if len(r) == 2 and not r[-1].startswith("E "):
                rep.known("%s: %s lexes as two tokens without a delimiter between them (pinned by the repository's own lexer tests)" % (kf["id"], kf["witness"]))
                kf_seen.discard("sharp-after-sharp-token")
    for k in kf_seen:
        rep.violation({"what": "boundary violation of a kind not listed in known_findings.json", "kind": k})


def main(tier, seed):
    rep = C.Report(PROP, tier, seed)
    rng = random.Random(seed)
    rep.cov["rule"] = ("(1) every string of length <= 4 (thorough 5) over ( ) ' . # \" ; | \\ + - 1 a e / space LF, lexer and reader; "
                       "(2) random datum trees (atoms drawn from every supported token class: any printable / hex / named character, identifiers over "
                       "the whole identifier alphabet, i32 integers, ratios, strings with escapes; proper/dotted lists, vectors, quote; depth <= 4) "
                       "rendered with random separators and comments; (3) every printable character as a character literal and every "
                       "one-character identifier, alone, in a list and in a vector; distinct = distinct texts that lex without error / distinct tree texts")
    rep.cov["exhaustive"] = True
    ok = C.standard_proof_phase(rep, MODULES, directed_search=lambda r: run(r, tier, rng))
    if ok:
        run(rep, tier, rng)
    return rep.finish("cd lean && lake build RuschmProofs.C06 && lake env lean <#print axioms of every theorem in RuschmProofs/C06.lean>")

//! further case kinds, one module per family
mod expand;
pub mod progx;
pub fn run_case(kind: &str, fields: Vec<String>) -> Vec<String> {
    match kind {
        // the REPL's private completeness test, through the ruschm_verif hook
        "bracket" => vec![if ruschm::repl::verif_check_bracket_closed(&fields[0]) {
            "closed".to_string()
        } else {
            "open".to_string()
        }],
        "progx" => progx::run(fields),
        "expand" => crate::on_fresh_thread(move || expand::run(&fields)),
        _ => vec![format!("X unknown-kind {}", kind)],
    }
}

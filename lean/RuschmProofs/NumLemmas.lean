/-
Helper lemmas for properties C09 and C10 (numeric tower).
-/
import RuschmSpec.Num
import Mathlib.Tactic.Ring
import Mathlib.Tactic.Linarith
import Mathlib.Tactic.FieldSimp
import Mathlib.Tactic.Positivity
import Mathlib.Tactic.NormNum
import Mathlib.Data.Rat.Lemmas
import Mathlib.Data.Rat.Floor

namespace Ruschm
namespace Num

/-! ### `fitsI32` -/

theorem fitsI32_iff (x : Int) : fitsI32 x = true ↔ -2147483648 ≤ x ∧ x ≤ 2147483647 := by
  simp [fitsI32]

theorem fitsI32_of_natAbs {x : Int} (h : x.natAbs ≤ 2147483647) : fitsI32 x = true := by
  rw [fitsI32_iff]; omega

/-! ### reduction to lowest terms -/

/-- the divisor used by `exactRatio` -/
def redDiv (n d : Int) : Int := (Int.gcd n d : Int) * d.sign

theorem gcd_pos_of_ne {n d : Int} (hd : d ≠ 0) : 0 < (Int.gcd n d : Int) := by
  have : Int.gcd n d ≠ 0 := by
    intro h; rw [Int.gcd_eq_zero_iff] at h; exact hd h.2
  omega

theorem redDiv_ne_zero {n d : Int} (hd : d ≠ 0) : redDiv n d ≠ 0 := by
  unfold redDiv
  have hg := gcd_pos_of_ne (n := n) hd
  have hs : d.sign ≠ 0 := by
    intro h; exact hd (Int.sign_eq_zero_iff_zero.mp h)
  exact Int.mul_ne_zero (by omega) hs

theorem redDiv_zero (n : Int) : redDiv n 0 = 0 := by simp [redDiv]

theorem tdiv_redDiv_num {n d : Int} (hd : d ≠ 0) : n.tdiv (redDiv n d) = redNum n d := by
  unfold redDiv redNum
  have hgn : (Int.gcd n d : Int) ∣ n := Int.gcd_dvd_left n d
  rcases Int.lt_or_gt_of_ne hd with h | h
  · rw [Int.sign_eq_neg_one_of_neg h]
    rw [Int.mul_neg, Int.mul_one, Int.mul_neg, Int.mul_one, Int.tdiv_neg,
      Int.tdiv_eq_ediv_of_dvd hgn, Int.neg_ediv_of_dvd hgn]
  · rw [Int.sign_eq_one_of_pos h, Int.mul_one, Int.mul_one, Int.tdiv_eq_ediv_of_dvd hgn]

theorem tdiv_redDiv_den {n d : Int} (hd : d ≠ 0) : d.tdiv (redDiv n d) = redDen n d := by
  unfold redDiv redDen
  have hgd : (Int.gcd n d : Int) ∣ d := Int.gcd_dvd_right n d
  rcases Int.lt_or_gt_of_ne hd with h | h
  · rw [Int.sign_eq_neg_one_of_neg h]
    rw [Int.mul_neg, Int.mul_one, Int.tdiv_neg,
      Int.tdiv_eq_ediv_of_dvd hgd, ← Int.neg_ediv_of_dvd hgd]
    congr 1; omega
  · rw [Int.sign_eq_one_of_pos h, Int.mul_one, Int.tdiv_eq_ediv_of_dvd hgd]
    congr 1; omega

theorem redNum_mul {n d : Int} (hd : d ≠ 0) : redNum n d * redDiv n d = n := by
  rw [← tdiv_redDiv_num hd]
  apply Int.tdiv_mul_cancel
  unfold redDiv
  have hgn : (Int.gcd n d : Int) ∣ n := Int.gcd_dvd_left n d
  rcases Int.lt_or_gt_of_ne hd with h | h
  · rw [Int.sign_eq_neg_one_of_neg h, Int.mul_neg, Int.mul_one]; exact Int.neg_dvd.mpr hgn
  · rw [Int.sign_eq_one_of_pos h, Int.mul_one]; exact hgn

theorem redDen_mul {n d : Int} (hd : d ≠ 0) : redDen n d * redDiv n d = d := by
  rw [← tdiv_redDiv_den hd]
  apply Int.tdiv_mul_cancel
  unfold redDiv
  have hgd : (Int.gcd n d : Int) ∣ d := Int.gcd_dvd_right n d
  rcases Int.lt_or_gt_of_ne hd with h | h
  · rw [Int.sign_eq_neg_one_of_neg h, Int.mul_neg, Int.mul_one]; exact Int.neg_dvd.mpr hgd
  · rw [Int.sign_eq_one_of_pos h, Int.mul_one]; exact hgd

theorem redDen_mul_gcd {n d : Int} : redDen n d * (Int.gcd n d : Int) = (d.natAbs : Int) := by
  unfold redDen
  apply Int.ediv_mul_cancel
  have hgd : (Int.gcd n d : Int) ∣ d := Int.gcd_dvd_right n d
  exact Int.dvd_natAbs.mpr hgd

theorem redNum_mul_gcd {n d : Int} : redNum n d * (Int.gcd n d : Int) = n * d.sign := by
  unfold redNum
  apply Int.ediv_mul_cancel
  exact Dvd.dvd.mul_right (Int.gcd_dvd_left n d) _

theorem redDen_pos {n d : Int} (hd : d ≠ 0) : 0 < redDen n d := by
  have hg := gcd_pos_of_ne (n := n) hd
  have h := redDen_mul_gcd (n := n) (d := d)
  have hd' : 0 < (d.natAbs : Int) := by omega
  rw [← h] at hd'
  exact Int.pos_of_mul_pos_left hd' (by omega)

theorem red_coprime {n d : Int} (hd : d ≠ 0) : Int.gcd (redNum n d) (redDen n d) = 1 := by
  have hg := gcd_pos_of_ne (n := n) hd
  have h1 := redNum_mul (n := n) hd
  have h2 := redDen_mul (n := n) hd
  have h := Int.gcd_mul_right (redNum n d) (redDiv n d) (redDen n d)
  rw [h1, h2] at h
  have hna : (redDiv n d).natAbs = Int.gcd n d := by
    unfold redDiv
    rw [Int.natAbs_mul, Int.natAbs_sign_of_ne_zero hd]; simp
  rw [hna] at h
  have hg' : 0 < Int.gcd n d := by omega
  have : Int.gcd n d * 1 = Int.gcd n d * Int.gcd (redNum n d) (redDen n d) := by
    rw [Nat.mul_one, Nat.mul_comm]; exact h
  exact (Nat.eq_of_mul_eq_mul_left hg' this).symm

theorem red_val {n d : Int} (hd : d ≠ 0) :
    (redNum n d : ℚ) / (redDen n d : ℚ) = (n : ℚ) / (d : ℚ) := by
  have hc := redDiv_ne_zero (n := n) hd
  have h1 := redNum_mul (n := n) hd
  have h2 := redDen_mul (n := n) hd
  have hc' : (redDiv n d : ℚ) ≠ 0 := by exact_mod_cast hc
  have e1 : (n : ℚ) = (redNum n d : ℚ) * (redDiv n d : ℚ) := by exact_mod_cast h1.symm
  have e2 : (d : ℚ) = (redDen n d : ℚ) * (redDiv n d : ℚ) := by exact_mod_cast h2.symm
  rw [e1, e2, mul_div_mul_right _ _ hc']

theorem redNum_natAbs_le {n d : Int} (hd : d ≠ 0) : (redNum n d).natAbs ≤ n.natAbs := by
  have hc := redDiv_ne_zero (n := n) hd
  have h1 := redNum_mul (n := n) hd
  have : n.natAbs = (redNum n d).natAbs * (redDiv n d).natAbs := by
    rw [← Int.natAbs_mul, h1]
  rw [this]
  exact Nat.le_mul_of_pos_right _ (by omega)

theorem redDen_natAbs_le {n d : Int} (hd : d ≠ 0) : (redDen n d).natAbs ≤ d.natAbs := by
  have hc := redDiv_ne_zero (n := n) hd
  have h1 := redDen_mul (n := n) hd
  have : d.natAbs = (redDen n d).natAbs * (redDiv n d).natAbs := by
    rw [← Int.natAbs_mul, h1]
  rw [this]
  exact Nat.le_mul_of_pos_right _ (by omega)

/-! ### `exactRatio` -/

/-- The exact number with the given (reduced) numerator and denominator. -/
def mkExact (n d : Int) : Num := if d = 1 then .int n else .rat n d

theorem exactRatio_zero (n : Int) :
    exactRatio n 0 = .error (.panic "exact_ratio: zero denominator") := by
  simp [exactRatio]

theorem exactRatio_eq {n d : Int} (hd : d ≠ 0) :
    exactRatio n d =
      if fitsI32 (redNum n d) && fitsI32 (redDen n d) then .ok (mkExact (redNum n d) (redDen n d))
      else .ok (.real (ratToReal (redNum n d) (redDen n d))) := by
  have hc := redDiv_ne_zero (n := n) hd
  have e : exactRatio n d =
      (if redDiv n d = 0 then .error (.panic "exact_ratio: zero denominator") else
        if fitsI32 (n.tdiv (redDiv n d)) && fitsI32 (d.tdiv (redDiv n d)) then
          if d.tdiv (redDiv n d) = 1 then .ok (.int (n.tdiv (redDiv n d)))
          else .ok (.rat (n.tdiv (redDiv n d)) (d.tdiv (redDiv n d)))
        else .ok (.real (ratToReal (n.tdiv (redDiv n d)) (d.tdiv (redDiv n d))))) := rfl
  rw [e, if_neg hc, tdiv_redDiv_num hd, tdiv_redDiv_den hd]
  unfold mkExact
  split <;> [split <;> rfl; rfl]

theorem exactRatio_ok_ne {n d : Int} {r : Num} (h : exactRatio n d = .ok r) : d ≠ 0 := by
  intro hd; subst hd; rw [exactRatio_zero] at h; cases h

theorem mkExact_isExact (n d : Int) : (mkExact n d).isExact = true := by
  unfold mkExact; split <;> rfl

theorem mkExact_val (n d : Int) : (mkExact n d).val = some ((n : ℚ) / (d : ℚ)) := by
  unfold mkExact; split
  · next h => subst h; simp [val]
  · rfl

theorem mkExact_wf {n d : Int} (hn : fitsI32 n = true) (hd : fitsI32 d = true) (hp : 0 < d)
    (hg : Int.gcd n d = 1) : (mkExact n d).WF := by
  unfold mkExact; split
  · exact hn
  · next h => exact ⟨hn, hd, hp, h, hg⟩

theorem exactRatio_isOk {n d : Int} (hd : d ≠ 0) : IsOk (exactRatio n d) := by
  rw [exactRatio_eq hd]; split <;> exact ⟨_, rfl⟩

/-- Complete case analysis of an `ok` result of `exactRatio`. -/
theorem exactRatio_cases {n d : Int} {r : Num} (h : exactRatio n d = .ok r) :
    d ≠ 0 ∧
    ((fitsI32 (redNum n d) = true ∧ fitsI32 (redDen n d) = true ∧
        r = mkExact (redNum n d) (redDen n d)) ∨
     (¬ (fitsI32 (redNum n d) = true ∧ fitsI32 (redDen n d) = true) ∧
        r = .real (ratToReal (redNum n d) (redDen n d)))) := by
  have hd := exactRatio_ok_ne h
  refine ⟨hd, ?_⟩
  rw [exactRatio_eq hd] at h
  split at h
  · next hf =>
    rw [Bool.and_eq_true] at hf
    left; cases h; exact ⟨hf.1, hf.2, rfl⟩
  · next hf =>
    rw [Bool.and_eq_true] at hf
    right; cases h; exact ⟨hf, rfl⟩

theorem exactRatio_wf' {n d : Int} {r : Num} (h : exactRatio n d = .ok r) : r.WF := by
  obtain ⟨hd, h | h⟩ := exactRatio_cases h
  · obtain ⟨h1, h2, rfl⟩ := h
    exact mkExact_wf h1 h2 (redDen_pos hd) (red_coprime hd)
  · obtain ⟨_, rfl⟩ := h; trivial

theorem exactRatio_sound' {n d : Int} {r : Num} (h : exactRatio n d = .ok r)
    (hr : r.isExact = true) : r.val = some ((n : ℚ) / (d : ℚ)) := by
  obtain ⟨hd, h | h⟩ := exactRatio_cases h
  · obtain ⟨h1, h2, rfl⟩ := h
    rw [mkExact_val, red_val hd]
  · obtain ⟨_, rfl⟩ := h; cases hr

/-- symmetric bounds suffice for an exact result -/
theorem exactRatio_exact_of_natAbs {n d : Int} (hd : d ≠ 0) (hn : n.natAbs ≤ 2147483647)
    (hdb : d.natAbs ≤ 2147483647) :
    ∃ r, exactRatio n d = .ok r ∧ r.isExact = true := by
  have h1 := fitsI32_of_natAbs (Nat.le_trans (redNum_natAbs_le (n := n) hd) hn)
  have h2 := fitsI32_of_natAbs (Nat.le_trans (redDen_natAbs_le (n := n) hd) hdb)
  rw [exactRatio_eq hd, h1, h2]
  exact ⟨_, rfl, mkExact_isExact _ _⟩

/-! ### uniqueness of the reduced representation -/

theorem coprime_div_unique {n1 d1 n2 d2 : Int} (h1 : 0 < d1) (h2 : 0 < d2)
    (g1 : Int.gcd n1 d1 = 1) (g2 : Int.gcd n2 d2 = 1)
    (h : (n1 : ℚ) / (d1 : ℚ) = (n2 : ℚ) / (d2 : ℚ)) : n1 = n2 ∧ d1 = d2 := by
  have c1 : (Int.natAbs n1).Coprime (Int.natAbs d1) := g1
  have c2 : (Int.natAbs n2).Coprime (Int.natAbs d2) := g2
  constructor
  · have a := Rat.num_div_eq_of_coprime h1 c1
    have b := Rat.num_div_eq_of_coprime h2 c2
    rw [← a, ← b, h]
  · have a := Rat.den_div_eq_of_coprime h1 c1
    have b := Rat.den_div_eq_of_coprime h2 c2
    rw [← a, ← b, h]

/-- A `WF` exact number is `mkExact` of a reduced pair. -/
theorem wf_exact_repr {x : Num} (hx : x.WF) (he : x.isExact = true) :
    ∃ n d, x = mkExact n d ∧ fitsI32 n = true ∧ fitsI32 d = true ∧ 0 < d ∧ Int.gcd n d = 1 := by
  cases x with
  | int i => exact ⟨i, 1, by simp [mkExact], hx, by decide, by decide, by simp⟩
  | rat n d =>
    obtain ⟨a, b, c, e, f⟩ := hx
    exact ⟨n, d, by simp [mkExact, e], a, b, c, f⟩
  | real r => cases he

/-- Two `WF` exact numbers with the same value are the same representation. -/
theorem wf_val_inj {x y : Num} (hx : x.WF) (hy : y.WF) {v : ℚ}
    (vx : x.val = some v) (vy : y.val = some v) : x = y := by
  have ex : x.isExact = true := by cases x <;> simp_all [val, isExact]
  have ey : y.isExact = true := by cases y <;> simp_all [val, isExact]
  obtain ⟨n1, d1, rfl, _, _, p1, g1⟩ := wf_exact_repr hx ex
  obtain ⟨n2, d2, rfl, _, _, p2, g2⟩ := wf_exact_repr hy ey
  rw [mkExact_val] at vx vy
  have h : (n1 : ℚ) / (d1 : ℚ) = (n2 : ℚ) / (d2 : ℚ) := by
    rw [Option.some.injEq] at vx vy; rw [vx, vy]
  obtain ⟨rfl, rfl⟩ := coprime_div_unique p1 p2 g1 g2 h
  rfl

/-- `exactRatio` finds the representation whenever one exists: it never falls back to an
inexact result when the true quotient is representable. -/
theorem exactRatio_complete' {n d : Int} (hd : d ≠ 0) {x : Num} (hx : x.WF)
    (vx : x.val = some ((n : ℚ) / (d : ℚ))) : exactRatio n d = .ok x := by
  have ex : x.isExact = true := by cases x <;> simp_all [val, isExact]
  obtain ⟨a, b, rfl, fa, fb, pb, gab⟩ := wf_exact_repr hx ex
  rw [mkExact_val, Option.some.injEq, ← red_val hd] at vx
  obtain ⟨rfl, rfl⟩ := coprime_div_unique pb (redDen_pos hd) gab (red_coprime hd) vx
  rw [exactRatio_eq hd, fa, fb]; rfl

/-! ### the binary operations on exact operands, uniformly through `num`/`den` -/

theorem val_num_den {a : Num} (ha : a.isExact = true) :
    a.val = some ((a.num : ℚ) / (a.den : ℚ)) := by
  cases a with
  | int i => simp [val, num, den]
  | rat n d => rfl
  | real r => cases ha

theorem val_isExact {a : Num} {v : ℚ} (h : a.val = some v) : a.isExact = true := by
  cases a <;> simp_all [val, isExact]

theorem isExact_val {a : Num} (h : a.isExact = true) : ∃ v, a.val = some v := by
  cases a with
  | int i => exact ⟨_, rfl⟩
  | rat n d => exact ⟨_, rfl⟩
  | real r => cases h

theorem posDen_den {a : Num} (h : a.PosDen) : 0 < a.den := by
  cases a with
  | int i => exact Int.one_pos
  | rat n d => exact h
  | real r => exact Int.one_pos

theorem WF.denPos {a : Num} (h : a.WF) : a.DenPos := by
  cases a with
  | int i => exact h
  | rat n d => exact ⟨h.1, h.2.1, h.2.2.1⟩
  | real r => trivial

theorem DenPos.posDen {a : Num} (h : a.DenPos) : a.PosDen := by
  cases a with
  | int i => trivial
  | rat n d => exact h.2.2
  | real r => trivial

theorem WF.posDen {a : Num} (h : a.WF) : a.PosDen := h.denPos.posDen

theorem add_exact {a b : Num} (ha : a.isExact = true) (hb : b.isExact = true) :
    add a b = exactRatio (a.num * b.den + a.den * b.num) (a.den * b.den) := by
  cases a <;> cases b <;> simp_all [isExact, add, upcast, num, den]

theorem sub_exact {a b : Num} (ha : a.isExact = true) (hb : b.isExact = true) :
    sub a b = exactRatio (a.num * b.den - a.den * b.num) (a.den * b.den) := by
  cases a <;> cases b <;> simp_all [isExact, sub, upcast, num, den]

theorem mul_exact {a b : Num} (ha : a.isExact = true) (hb : b.isExact = true) :
    mul a b = exactRatio (a.num * b.num) (a.den * b.den) := by
  cases a <;> cases b <;> simp_all [isExact, mul, upcast, num, den]

theorem div_exact {a b : Num} (ha : a.isExact = true) (hb : b.isExact = true) :
    div a b =
      if b.num = 0 then .error .divZero else
      if a.den = 0 then .error .divZero else
      if b.den = 0 then .error .divZero else
      exactRatio (a.num * b.den) (a.den * b.num) := by
  cases a <;> cases b <;> simp_all [isExact, div, upcast, num, den]
  repeat' split
  all_goals first | rfl | simp_all

theorem abs_exact {a : Num} (ha : a.isExact = true) :
    abs a = exactRatio a.num.natAbs a.den.natAbs := by
  cases a <;> simp_all [isExact, abs, num, den]

/-- dispatch on an inexact operand -/
theorem add_real {a b : Num} (h : a.isExact = false ∨ b.isExact = false) :
    add a b = .ok (.real (a.toReal + b.toReal)) := by
  cases a <;> cases b <;> first | (rcases h with h | h <;> simp [isExact] at h; done) | rfl

theorem sub_real {a b : Num} (h : a.isExact = false ∨ b.isExact = false) :
    sub a b = .ok (.real (a.toReal - b.toReal)) := by
  cases a <;> cases b <;> first | (rcases h with h | h <;> simp [isExact] at h; done) | rfl

theorem mul_real {a b : Num} (h : a.isExact = false ∨ b.isExact = false) :
    mul a b = .ok (.real (a.toReal * b.toReal)) := by
  cases a <;> cases b <;> first | (rcases h with h | h <;> simp [isExact] at h; done) | rfl

theorem div_real {a b : Num} (h : a.isExact = false ∨ b.isExact = false) :
    div a b = .ok (.real (a.toReal / b.toReal)) := by
  cases a <;> cases b <;> first | (rcases h with h | h <;> simp [isExact] at h; done) | rfl

/-! ### soundness: an exact result is the true result -/

theorem den_ne_of_mul_ne {a b : Int} (h : a * b ≠ 0) : (a : ℚ) ≠ 0 ∧ (b : ℚ) ≠ 0 := by
  have := Int.mul_ne_zero_iff.mp h
  exact ⟨by exact_mod_cast this.1, by exact_mod_cast this.2⟩

theorem val_eq_of {a : Num} {x : ℚ} (ha : a.val = some x) : x = (a.num : ℚ) / (a.den : ℚ) := by
  rw [val_num_den (val_isExact ha)] at ha; exact (Option.some.inj ha).symm

theorem add_sound {a b r : Num} {x y : ℚ} (ha : a.val = some x) (hb : b.val = some y)
    (h : add a b = .ok r) (hr : r.isExact = true) : r.val = some (x + y) := by
  rw [add_exact (val_isExact ha) (val_isExact hb)] at h
  obtain ⟨h1, h2⟩ := den_ne_of_mul_ne (exactRatio_ok_ne h)
  rw [exactRatio_sound' h hr, val_eq_of ha, val_eq_of hb]
  congr 1; push_cast; field_simp

theorem sub_sound {a b r : Num} {x y : ℚ} (ha : a.val = some x) (hb : b.val = some y)
    (h : sub a b = .ok r) (hr : r.isExact = true) : r.val = some (x - y) := by
  rw [sub_exact (val_isExact ha) (val_isExact hb)] at h
  obtain ⟨h1, h2⟩ := den_ne_of_mul_ne (exactRatio_ok_ne h)
  rw [exactRatio_sound' h hr, val_eq_of ha, val_eq_of hb]
  congr 1; push_cast; field_simp

theorem mul_sound {a b r : Num} {x y : ℚ} (ha : a.val = some x) (hb : b.val = some y)
    (h : mul a b = .ok r) (hr : r.isExact = true) : r.val = some (x * y) := by
  rw [mul_exact (val_isExact ha) (val_isExact hb)] at h
  obtain ⟨h1, h2⟩ := den_ne_of_mul_ne (exactRatio_ok_ne h)
  rw [exactRatio_sound' h hr, val_eq_of ha, val_eq_of hb]
  congr 1; push_cast; field_simp

/-- what an `ok` exact division tells about the operands -/
theorem div_ok_exact {a b r : Num} (ea : a.isExact = true) (eb : b.isExact = true)
    (h : div a b = .ok r) :
    b.num ≠ 0 ∧ a.den ≠ 0 ∧ b.den ≠ 0 ∧ exactRatio (a.num * b.den) (a.den * b.num) = .ok r := by
  rw [div_exact ea eb] at h
  split at h; · cases h
  split at h; · cases h
  split at h; · cases h
  exact ⟨by assumption, by assumption, by assumption, h⟩

theorem div_sound {a b r : Num} {x y : ℚ} (ha : a.val = some x) (hb : b.val = some y)
    (h : div a b = .ok r) (hr : r.isExact = true) : r.val = some (x / y) := by
  obtain ⟨n0, d1, d2, h⟩ := div_ok_exact (val_isExact ha) (val_isExact hb) h
  have n0' : (b.num : ℚ) ≠ 0 := by exact_mod_cast n0
  have d1' : (a.den : ℚ) ≠ 0 := by exact_mod_cast d1
  have d2' : (b.den : ℚ) ≠ 0 := by exact_mod_cast d2
  rw [exactRatio_sound' h hr, val_eq_of ha, val_eq_of hb]
  congr 1; push_cast; field_simp

theorem abs_sound {a r : Num} {x : ℚ} (ha : a.val = some x)
    (h : abs a = .ok r) (hr : r.isExact = true) : r.val = some |x| := by
  rw [abs_exact (val_isExact ha)] at h
  rw [exactRatio_sound' h hr, val_eq_of ha]
  congr 1
  rw [abs_div]; simp

/-- an exact result can only come from exact operands -/
theorem add_exact_inv {a b r : Num} (h : add a b = .ok r) (hr : r.isExact = true) :
    a.isExact = true ∧ b.isExact = true := by
  by_cases ha : a.isExact = true
  · by_cases hb : b.isExact = true
    · exact ⟨ha, hb⟩
    · rw [add_real (Or.inr (by simpa using hb))] at h; cases h; cases hr
  · rw [add_real (Or.inl (by simpa using ha))] at h; cases h; cases hr

theorem sub_exact_inv {a b r : Num} (h : sub a b = .ok r) (hr : r.isExact = true) :
    a.isExact = true ∧ b.isExact = true := by
  by_cases ha : a.isExact = true
  · by_cases hb : b.isExact = true
    · exact ⟨ha, hb⟩
    · rw [sub_real (Or.inr (by simpa using hb))] at h; cases h; cases hr
  · rw [sub_real (Or.inl (by simpa using ha))] at h; cases h; cases hr

theorem mul_exact_inv {a b r : Num} (h : mul a b = .ok r) (hr : r.isExact = true) :
    a.isExact = true ∧ b.isExact = true := by
  by_cases ha : a.isExact = true
  · by_cases hb : b.isExact = true
    · exact ⟨ha, hb⟩
    · rw [mul_real (Or.inr (by simpa using hb))] at h; cases h; cases hr
  · rw [mul_real (Or.inl (by simpa using ha))] at h; cases h; cases hr

theorem div_exact_inv {a b r : Num} (h : div a b = .ok r) (hr : r.isExact = true) :
    a.isExact = true ∧ b.isExact = true := by
  by_cases ha : a.isExact = true
  · by_cases hb : b.isExact = true
    · exact ⟨ha, hb⟩
    · rw [div_real (Or.inr (by simpa using hb))] at h; cases h; cases hr
  · rw [div_real (Or.inl (by simpa using ha))] at h; cases h; cases hr

/-! ### well-formedness of every result -/

theorem add_wf {a b r : Num} (h : add a b = .ok r) : r.WF := by
  by_cases hr : r.isExact = true
  · obtain ⟨ea, eb⟩ := add_exact_inv h hr
    rw [add_exact ea eb] at h; exact exactRatio_wf' h
  · cases r <;> simp_all [isExact, WF]

theorem sub_wf {a b r : Num} (h : sub a b = .ok r) : r.WF := by
  by_cases hr : r.isExact = true
  · obtain ⟨ea, eb⟩ := sub_exact_inv h hr
    rw [sub_exact ea eb] at h; exact exactRatio_wf' h
  · cases r <;> simp_all [isExact, WF]

theorem mul_wf {a b r : Num} (h : mul a b = .ok r) : r.WF := by
  by_cases hr : r.isExact = true
  · obtain ⟨ea, eb⟩ := mul_exact_inv h hr
    rw [mul_exact ea eb] at h; exact exactRatio_wf' h
  · cases r <;> simp_all [isExact, WF]

theorem div_wf {a b r : Num} (h : div a b = .ok r) : r.WF := by
  by_cases hr : r.isExact = true
  · obtain ⟨ea, eb⟩ := div_exact_inv h hr
    exact exactRatio_wf' (div_ok_exact ea eb h).2.2.2
  · cases r <;> simp_all [isExact, WF]

theorem abs_wf {a r : Num} (h : abs a = .ok r) : r.WF := by
  cases a with
  | int i => exact exactRatio_wf' h
  | rat n d => exact exactRatio_wf' h
  | real f => cases h; trivial

/-! ### no panic, no spurious error -/

theorem isOk_noPanic {e : Except Err Num} (h : IsOk e) : NoPanic e := by
  obtain ⟨r, rfl⟩ := h; intro s hs; cases hs

theorem mul_den_ne {a b : Num} (ha : a.PosDen) (hb : b.PosDen) : a.den * b.den ≠ 0 :=
  Int.ne_of_gt (Int.mul_pos (posDen_den ha) (posDen_den hb))

theorem add_isOk {a b : Num} (ha : a.PosDen) (hb : b.PosDen) : IsOk (add a b) := by
  by_cases ea : a.isExact = true
  · by_cases eb : b.isExact = true
    · rw [add_exact ea eb]; exact exactRatio_isOk (mul_den_ne ha hb)
    · rw [add_real (Or.inr (by simpa using eb))]; exact ⟨_, rfl⟩
  · rw [add_real (Or.inl (by simpa using ea))]; exact ⟨_, rfl⟩

theorem sub_isOk {a b : Num} (ha : a.PosDen) (hb : b.PosDen) : IsOk (sub a b) := by
  by_cases ea : a.isExact = true
  · by_cases eb : b.isExact = true
    · rw [sub_exact ea eb]; exact exactRatio_isOk (mul_den_ne ha hb)
    · rw [sub_real (Or.inr (by simpa using eb))]; exact ⟨_, rfl⟩
  · rw [sub_real (Or.inl (by simpa using ea))]; exact ⟨_, rfl⟩

theorem mul_isOk {a b : Num} (ha : a.PosDen) (hb : b.PosDen) : IsOk (mul a b) := by
  by_cases ea : a.isExact = true
  · by_cases eb : b.isExact = true
    · rw [mul_exact ea eb]; exact exactRatio_isOk (mul_den_ne ha hb)
    · rw [mul_real (Or.inr (by simpa using eb))]; exact ⟨_, rfl⟩
  · rw [mul_real (Or.inl (by simpa using ea))]; exact ⟨_, rfl⟩

theorem abs_isOk {a : Num} (ha : a.PosDen) : IsOk (abs a) := by
  by_cases ea : a.isExact = true
  · rw [abs_exact ea]; apply exactRatio_isOk
    have := posDen_den ha; omega
  · cases a <;> simp_all [isExact]; exact ⟨_, rfl⟩

/-- `div` on operands with positive denominators: `divZero` exactly when both operands are exact
and the divisor is zero, `ok` otherwise. -/
theorem div_cases {a b : Num} (ha : a.PosDen) (hb : b.PosDen) :
    (a.isExact = true ∧ b.isExact = true ∧ b.num = 0 ∧ div a b = .error .divZero) ∨
    (¬ (a.isExact = true ∧ b.isExact = true ∧ b.num = 0) ∧ IsOk (div a b)) := by
  by_cases ea : a.isExact = true
  · by_cases eb : b.isExact = true
    · rw [div_exact ea eb]
      have da := posDen_den ha
      have db := posDen_den hb
      by_cases h0 : b.num = 0
      · left; rw [if_pos h0]; exact ⟨ea, eb, h0, rfl⟩
      · right; rw [if_neg h0, if_neg (by omega), if_neg (by omega)]
        exact ⟨fun h => h0 h.2.2, exactRatio_isOk (Int.mul_ne_zero (by omega) h0)⟩
    · rw [div_real (Or.inr (by simpa using eb))]; exact Or.inr ⟨fun h => eb h.2.1, ⟨_, rfl⟩⟩
  · rw [div_real (Or.inl (by simpa using ea))]; exact Or.inr ⟨fun h => ea h.1, ⟨_, rfl⟩⟩

theorem val_zero_iff {b : Num} (hb : b.PosDen) (eb : b.isExact = true) :
    b.val = some 0 ↔ b.num = 0 := by
  have db := posDen_den hb
  have : (b.den : ℚ) ≠ 0 := by exact_mod_cast (Int.ne_of_gt db)
  rw [val_num_den eb, Option.some.injEq, div_eq_zero_iff]
  constructor
  · rintro (h | h)
    · exact_mod_cast h
    · exact absurd h this
  · intro h; left; exact_mod_cast h

/-- division by an exact zero is `divZero`, whatever the representation of the zero -/
theorem div_exact_zero {a b : Num} (ea : a.isExact = true) (hb : b.val = some 0) :
    div a b = .error .divZero := by
  have eb := val_isExact hb
  rw [val_num_den eb, Option.some.injEq, div_eq_zero_iff] at hb
  rw [div_exact ea eb]
  by_cases h0 : b.num = 0
  · rw [if_pos h0]
  · rw [if_neg h0]
    have : b.den = 0 := by
      rcases hb with h | h
      · exact absurd (by exact_mod_cast h) h0
      · exact_mod_cast h
    split <;> rfl

/-! ### completeness below a bound -/

theorem natAbs_mul_le {x y : Int} {k : Nat} (hx : x.natAbs ≤ k) (hy : y.natAbs ≤ k) :
    (x * y).natAbs ≤ k * k := by
  rw [Int.natAbs_mul]; exact Nat.mul_le_mul hx hy

theorem below_num {B : Int} {a : Num} (h : a.Below B) (hB : 1 < B) :
    a.num.natAbs ≤ (B - 1).toNat := by
  cases a with
  | int i => have := h.1; have := h.2; simp only [num]; omega
  | rat n d => have := h.1; have := h.2.1; simp only [num]; omega
  | real r => simp only [num]; omega

theorem below_den {B : Int} {a : Num} (h : a.Below B) (hB : 1 < B) :
    a.den.natAbs ≤ (B - 1).toNat := by
  cases a with
  | int i => simp only [den]; omega
  | rat n d => have := h.2.2.1; have := h.2.2.2; simp only [den]; omega
  | real r => simp only [den]; omega

/-- `Below 2^15`: products are at most `(2^15-1)^2 < 2^30`, sums of two at most `2^31 - 2^17 + 2`. -/
theorem add_complete {a b : Num} (ea : a.isExact = true) (eb : b.isExact = true)
    (pa : a.PosDen) (pb : b.PosDen) (ba : a.Below 32768) (bb : b.Below 32768) :
    ∃ r, add a b = .ok r ∧ r.isExact = true := by
  rw [add_exact ea eb]
  have n1 := below_num ba (by decide); have n2 := below_num bb (by decide)
  have d1 := below_den ba (by decide); have d2 := below_den bb (by decide)
  have k : (32768 - 1 : Int).toNat = 32767 := by decide
  rw [k] at n1 n2 d1 d2
  have p1 := natAbs_mul_le n1 d2
  have p2 := natAbs_mul_le d1 n2
  have p3 := natAbs_mul_le d1 d2
  have s := Int.natAbs_add_le (a.num * b.den) (a.den * b.num)
  exact exactRatio_exact_of_natAbs (mul_den_ne pa pb) (by omega) (by omega)

theorem sub_complete {a b : Num} (ea : a.isExact = true) (eb : b.isExact = true)
    (pa : a.PosDen) (pb : b.PosDen) (ba : a.Below 32768) (bb : b.Below 32768) :
    ∃ r, sub a b = .ok r ∧ r.isExact = true := by
  rw [sub_exact ea eb]
  have n1 := below_num ba (by decide); have n2 := below_num bb (by decide)
  have d1 := below_den ba (by decide); have d2 := below_den bb (by decide)
  have k : (32768 - 1 : Int).toNat = 32767 := by decide
  rw [k] at n1 n2 d1 d2
  have p1 := natAbs_mul_le n1 d2
  have p2 := natAbs_mul_le d1 n2
  have p3 := natAbs_mul_le d1 d2
  have s := Int.natAbs_sub_le (a.num * b.den) (a.den * b.num)
  exact exactRatio_exact_of_natAbs (mul_den_ne pa pb) (by omega) (by omega)

/-- For `*` and `/` the sharp bound is `46341 = ⌈√(2^31)⌉`: `46340^2 = 2147395600 ≤ 2^31 - 1`. -/
theorem mul_complete {a b : Num} (ea : a.isExact = true) (eb : b.isExact = true)
    (pa : a.PosDen) (pb : b.PosDen) (ba : a.Below 46341) (bb : b.Below 46341) :
    ∃ r, mul a b = .ok r ∧ r.isExact = true := by
  rw [mul_exact ea eb]
  have n1 := below_num ba (by decide); have n2 := below_num bb (by decide)
  have d1 := below_den ba (by decide); have d2 := below_den bb (by decide)
  have k : (46341 - 1 : Int).toNat = 46340 := by decide
  rw [k] at n1 n2 d1 d2
  have p1 := natAbs_mul_le n1 n2
  have p3 := natAbs_mul_le d1 d2
  exact exactRatio_exact_of_natAbs (mul_den_ne pa pb) (by omega) (by omega)

theorem div_complete {a b : Num} (ea : a.isExact = true) (eb : b.isExact = true)
    (pa : a.PosDen) (pb : b.PosDen) (ba : a.Below 46341) (bb : b.Below 46341)
    (h0 : b.num ≠ 0) :
    ∃ r, div a b = .ok r ∧ r.isExact = true := by
  have da := posDen_den pa
  have db := posDen_den pb
  rw [div_exact ea eb, if_neg h0, if_neg (by omega), if_neg (by omega)]
  have n1 := below_num ba (by decide); have n2 := below_num bb (by decide)
  have d1 := below_den ba (by decide); have d2 := below_den bb (by decide)
  have k : (46341 - 1 : Int).toNat = 46340 := by decide
  rw [k] at n1 n2 d1 d2
  have p1 := natAbs_mul_le n1 d2
  have p3 := natAbs_mul_le d1 n2
  exact exactRatio_exact_of_natAbs (Int.mul_ne_zero (by omega) h0) (by omega) (by omega)

theorem Below.mono {a : Num} {B C : Int} (h : a.Below B) (hBC : B ≤ C) : a.Below C := by
  cases a with
  | int i => exact ⟨by have := h.1; omega, by have := h.2; omega⟩
  | rat n d =>
    obtain ⟨h1, h2, h3, h4⟩ := h
    exact ⟨by omega, by omega, by omega, by omega⟩
  | real r => trivial

/-! ### floor and ceiling -/

theorem exactRatio_one {n : Int} (h : fitsI32 n = true) : exactRatio n 1 = .ok (.int n) := by
  have h1 : redNum n 1 = n := by simp [redNum]
  have h2 : redDen n 1 = 1 := by simp [redDen]
  rw [exactRatio_eq (by decide), h1, h2, h]; rfl

theorem floor_rat {a b : Int} (hb : 0 < b) : floor (.rat a b) = exactRatio (a / b) 1 := by
  have e : floor (.rat a b) =
      if ((b.natAbs : Int)) = 0 then .error (.panic "floor: zero denominator")
      else exactRatio ((a * b.sign) / (b.natAbs : Int)) 1 := rfl
  rw [e, if_neg (by omega), Int.sign_eq_one_of_pos hb, Int.mul_one]
  congr 2; omega

theorem ceiling_rat {a b : Int} (hb : 0 < b) :
    ceiling (.rat a b) = exactRatio (-((-a) / b)) 1 := by
  have e : ceiling (.rat a b) =
      if ((b.natAbs : Int)) = 0 then .error (.panic "ceiling: zero denominator")
      else exactRatio (-((-(a * b.sign)) / (b.natAbs : Int))) 1 := rfl
  rw [e, if_neg (by omega), Int.sign_eq_one_of_pos hb, Int.mul_one]
  congr 4; omega

theorem ediv_bounds {a b : Int} (hb : 0 < b) (ha : fitsI32 a = true) : fitsI32 (a / b) = true := by
  rw [fitsI32_iff] at *
  have h1 := Int.ediv_mul_le a (Int.ne_of_gt hb)
  have h2 := Int.lt_ediv_add_one_mul_self a hb
  constructor
  · -- a / b ≥ a when a < 0, ≥ 0 otherwise
    by_cases h : 0 ≤ a
    · have := Int.ediv_nonneg h (Int.le_of_lt hb); omega
    · have : a ≤ a / b := by
        have hq : a / b < 0 := Int.ediv_neg_of_neg_of_pos (by omega) hb
        nlinarith
      omega
  · by_cases h : 0 ≤ a
    · have : a / b ≤ a := Int.ediv_le_self b h
      omega
    · have hq : a / b < 0 := Int.ediv_neg_of_neg_of_pos (by omega) hb
      omega

theorem floor_spec {x : Num} {v : ℚ} (hx : x.DenPos) (hv : x.val = some v) :
    ∃ q : Int, floor x = .ok (.int q) ∧ fitsI32 q = true ∧ (q : ℚ) ≤ v ∧ v < (q : ℚ) + 1 := by
  cases x with
  | int i =>
    simp only [val, Option.some.injEq] at hv; subst hv
    exact ⟨i, rfl, hx, le_refl _, by linarith⟩
  | real r => cases hv
  | rat a b =>
    obtain ⟨fa, fb, pb⟩ := hx
    simp only [val, Option.some.injEq] at hv; subst hv
    have pb' : (0 : ℚ) < (b : ℚ) := by exact_mod_cast pb
    have ff := ediv_bounds pb fa
    refine ⟨a / b, ?_, ff, ?_, ?_⟩
    · rw [floor_rat pb, exactRatio_one ff]
    · rw [le_div_iff₀ pb']
      exact_mod_cast Int.ediv_mul_le a (Int.ne_of_gt pb)
    · rw [div_lt_iff₀ pb']
      exact_mod_cast Int.lt_ediv_add_one_mul_self a pb

theorem neg_ediv_bounds {a b : Int} (hb : 0 < b) (ha : fitsI32 a = true) :
    fitsI32 (-((-a) / b)) = true := by
  rw [fitsI32_iff] at *
  have h1 := Int.ediv_mul_le (-a) (Int.ne_of_gt hb)
  have h2 := Int.lt_ediv_add_one_mul_self (-a) hb
  by_cases h : 0 ≤ -a
  · have := Int.ediv_nonneg h (Int.le_of_lt hb)
    have : (-a) / b ≤ -a := Int.ediv_le_self b h
    omega
  · have hq : (-a) / b < 0 := Int.ediv_neg_of_neg_of_pos (by omega) hb
    have : -a ≤ (-a) / b := by nlinarith
    omega

theorem ceiling_spec {x : Num} {v : ℚ} (hx : x.DenPos) (hv : x.val = some v) :
    ∃ q : Int, ceiling x = .ok (.int q) ∧ fitsI32 q = true ∧ (q : ℚ) - 1 < v ∧ v ≤ (q : ℚ) := by
  cases x with
  | int i =>
    simp only [val, Option.some.injEq] at hv; subst hv
    exact ⟨i, rfl, hx, by linarith, le_refl _⟩
  | real r => cases hv
  | rat a b =>
    obtain ⟨fa, fb, pb⟩ := hx
    simp only [val, Option.some.injEq] at hv; subst hv
    have pb' : (0 : ℚ) < (b : ℚ) := by exact_mod_cast pb
    have ff := neg_ediv_bounds pb fa
    refine ⟨-((-a) / b), ?_, ff, ?_, ?_⟩
    · rw [ceiling_rat pb, exactRatio_one ff]
    · rw [lt_div_iff₀ pb']
      have h2 : (((-a) : Int) : ℚ) < ((((-a) / b + 1) * b : Int) : ℚ) := by
        exact_mod_cast Int.lt_ediv_add_one_mul_self (-a) pb
      push_cast at h2 ⊢; linarith
    · rw [div_le_iff₀ pb']
      have h1 : ((((-a) / b * b : Int)) : ℚ) ≤ (((-a) : Int) : ℚ) := by
        exact_mod_cast Int.ediv_mul_le (-a) (Int.ne_of_gt pb)
      push_cast at h1 ⊢; linarith

theorem floor_isOk {x : Num} (hx : x.PosDen) : IsOk (floor x) := by
  cases x with
  | int i => exact ⟨_, rfl⟩
  | real r => exact ⟨_, rfl⟩
  | rat a b => rw [floor_rat hx]; exact exactRatio_isOk (by decide)

theorem ceiling_isOk {x : Num} (hx : x.PosDen) : IsOk (ceiling x) := by
  cases x with
  | int i => exact ⟨_, rfl⟩
  | real r => exact ⟨_, rfl⟩
  | rat a b => rw [ceiling_rat hx]; exact exactRatio_isOk (by decide)

theorem floor_wf {x r : Num} (hx : x.WF) (h : floor x = .ok r) : r.WF := by
  cases x with
  | int i => cases h; exact hx
  | real f => cases h; trivial
  | rat a b => rw [floor_rat hx.2.2.1] at h; exact exactRatio_wf' h

theorem ceiling_wf {x r : Num} (hx : x.WF) (h : ceiling x = .ok r) : r.WF := by
  cases x with
  | int i => cases h; exact hx
  | real f => cases h; trivial
  | rat a b => rw [ceiling_rat hx.2.2.1] at h; exact exactRatio_wf' h

/-! ### floor-quotient and floor-remainder -/

theorem floorQuotient_ok {x y q : Num} (h : floorQuotient x y = .ok q) :
    ∃ t, div x y = .ok t ∧ floor t = .ok q := by
  unfold floorQuotient at h
  cases hd : div x y with
  | error e => rw [hd] at h; cases h
  | ok t => rw [hd] at h; exact ⟨t, rfl, h⟩

theorem floorRemainder_ok {x y r : Num} (h : floorRemainder x y = .ok r) :
    ∃ q p, floorQuotient x y = .ok q ∧ mul q y = .ok p ∧ sub x p = .ok r := by
  unfold floorRemainder at h
  cases hq : floorQuotient x y with
  | error e => rw [hq] at h; cases h
  | ok q =>
    rw [hq] at h
    cases hp : mul q y with
    | error e =>
      have h' : (mul q y >>= fun p => sub x p) = .ok r := h
      rw [hp] at h'; cases h'
    | ok p =>
      have h' : (mul q y >>= fun p => sub x p) = .ok r := h
      rw [hp] at h'
      exact ⟨q, p, rfl, hp, h'⟩

theorem floor_exact_inv {t q : Num} (h : floor t = .ok q) (hq : q.isExact = true) :
    t.isExact = true := by
  cases t with
  | int i => rfl
  | rat a b => rfl
  | real f => cases h; cases hq

theorem int_le_of_lt_add_one {m k : Int} {v : ℚ} (h1 : (m : ℚ) ≤ v) (h2 : v < (k : ℚ) + 1) :
    m ≤ k := by
  have : (m : ℚ) < ((k + 1 : Int) : ℚ) := by push_cast; linarith
  have := Int.cast_lt.mp this
  omega

theorem floorq_floorr {n d q r : Num} {vn vd : ℚ} (hn : n.val = some vn) (hd : d.val = some vd)
    (hq : floorQuotient n d = .ok q) (hr : floorRemainder n d = .ok r)
    (eq : q.isExact = true) (er : r.isExact = true) :
    ∃ (k : Int) (vr : ℚ), q = .int k ∧ r.val = some vr ∧ vd ≠ 0 ∧
      vn = vd * (k : ℚ) + vr ∧ (k : ℚ) ≤ vn / vd ∧ vn / vd < (k : ℚ) + 1 ∧
      ∀ m : Int, (m : ℚ) ≤ vn / vd → m ≤ k := by
  obtain ⟨t, hdiv, hfl⟩ := floorQuotient_ok hq
  have et := floor_exact_inv hfl eq
  have vt := div_sound hn hd hdiv et
  have wt := div_wf hdiv
  obtain ⟨k, hk, _, k1, k2⟩ := floor_spec wt.denPos vt
  rw [hfl] at hk
  have qk : q = .int k := by injection hk
  subst qk
  obtain ⟨q', p, hq', hmul, hsub⟩ := floorRemainder_ok hr
  rw [hq] at hq'
  have : q' = .int k := by injection hq' with h; exact h.symm
  subst this
  obtain ⟨_, ep⟩ := sub_exact_inv hsub er
  have vp := mul_sound (a := .int k) (x := (k : ℚ)) rfl hd hmul ep
  have vr := sub_sound hn vp hsub er
  obtain ⟨n0, _, d0, _⟩ := div_ok_exact (val_isExact hn) (val_isExact hd) hdiv
  have vd0 : vd ≠ 0 := by
    rw [val_eq_of hd]
    exact div_ne_zero (by exact_mod_cast n0) (by exact_mod_cast d0)
  exact ⟨k, _, rfl, vr, vd0, by ring, k1, k2, fun m hm => int_le_of_lt_add_one hm k2⟩

/-! ### the n-ary folds -/

theorem foldlM_wf {f : Num → Num → Except Err Num}
    (hf : ∀ a b r, f a b = .ok r → r.WF) :
    ∀ (xs : List Num) (init r : Num), init.WF → xs.foldlM f init = .ok r → r.WF := by
  intro xs
  induction xs with
  | nil => intro init r hi h; cases h; exact hi
  | cons x xs ih =>
    intro init r hi h
    rw [List.foldlM_cons] at h
    cases hx : f init x with
    | error e => rw [hx] at h; cases h
    | ok m => rw [hx] at h; exact ih m r (hf _ _ _ hx) h

theorem foldlM_isOk {f : Num → Num → Except Err Num}
    (hf : ∀ a b r, f a b = .ok r → r.WF)
    (hok : ∀ a b, a.PosDen → b.PosDen → IsOk (f a b)) :
    ∀ (xs : List Num) (init : Num), init.PosDen → (∀ x ∈ xs, x.PosDen) →
      IsOk (xs.foldlM f init) := by
  intro xs
  induction xs with
  | nil => intro init _ _; exact ⟨init, rfl⟩
  | cons x xs ih =>
    intro init hi hxs
    rw [List.foldlM_cons]
    obtain ⟨m, hm⟩ := hok init x hi (hxs x (List.mem_cons_self ..))
    rw [hm]
    exact ih m (hf _ _ _ hm).posDen (fun y hy => hxs y (List.mem_cons_of_mem _ hy))

theorem valD_of_val {a : Num} {v : ℚ} (h : a.val = some v) : a.valD = v := by
  simp [valD, h]

theorem val_of_exact {a : Num} (h : a.isExact = true) : a.val = some a.valD := by
  obtain ⟨v, hv⟩ := isExact_val h; rw [valD_of_val hv, hv]

/-- An exact result of a left fold of `+` is the sum of the values (and then every argument was
exact). -/
theorem foldlM_add_sound :
    ∀ (xs : List Num) (init r : Num), xs.foldlM add init = .ok r → r.isExact = true →
      init.isExact = true ∧ (∀ x ∈ xs, x.isExact = true) ∧
      r.val = some (xs.foldl (fun acc x => acc + x.valD) init.valD) := by
  intro xs
  induction xs with
  | nil => intro init r h hr; cases h; exact ⟨hr, by simp, val_of_exact hr⟩
  | cons x xs ih =>
    intro init r h hr
    rw [List.foldlM_cons] at h
    cases hx : add init x with
    | error e => rw [hx] at h; cases h
    | ok m =>
      rw [hx] at h
      obtain ⟨em, exs, vr⟩ := ih m r h hr
      obtain ⟨ei, ex⟩ := add_exact_inv hx em
      have vm := add_sound (val_of_exact ei) (val_of_exact ex) hx em
      refine ⟨ei, ?_, ?_⟩
      · intro y hy
        rcases List.mem_cons.mp hy with rfl | hy
        · exact ex
        · exact exs y hy
      · rw [vr, valD_of_val vm]; rfl

theorem foldlM_mul_sound :
    ∀ (xs : List Num) (init r : Num), xs.foldlM mul init = .ok r → r.isExact = true →
      init.isExact = true ∧ (∀ x ∈ xs, x.isExact = true) ∧
      r.val = some (xs.foldl (fun acc x => acc * x.valD) init.valD) := by
  intro xs
  induction xs with
  | nil => intro init r h hr; cases h; exact ⟨hr, by simp, val_of_exact hr⟩
  | cons x xs ih =>
    intro init r h hr
    rw [List.foldlM_cons] at h
    cases hx : mul init x with
    | error e => rw [hx] at h; cases h
    | ok m =>
      rw [hx] at h
      obtain ⟨em, exs, vr⟩ := ih m r h hr
      obtain ⟨ei, ex⟩ := mul_exact_inv hx em
      have vm := mul_sound (val_of_exact ei) (val_of_exact ex) hx em
      refine ⟨ei, ?_, ?_⟩
      · intro y hy
        rcases List.mem_cons.mp hy with rfl | hy
        · exact ex
        · exact exs y hy
      · rw [vr, valD_of_val vm]; rfl

/-! ### comparisons (C10) -/

theorem lt_exact {a b : Num} (ea : a.isExact = true) (eb : b.isExact = true) :
    lt a b = true ↔ a.num * b.den < b.num * a.den := by
  cases a <;> cases b <;> simp_all [isExact, lt, upcast, num, den]

theorem gt_exact {a b : Num} (ea : a.isExact = true) (eb : b.isExact = true) :
    gt a b = true ↔ b.num * a.den < a.num * b.den := by
  cases a <;> cases b <;> simp_all [isExact, gt, upcast, num, den]

theorem le_exact {a b : Num} (ea : a.isExact = true) (eb : b.isExact = true) :
    le a b = true ↔ a.num * b.den ≤ b.num * a.den := by
  cases a <;> cases b <;> simp_all [isExact, le, upcast, num, den]

theorem ge_exact {a b : Num} (ea : a.isExact = true) (eb : b.isExact = true) :
    ge a b = true ↔ b.num * a.den ≤ a.num * b.den := by
  cases a <;> cases b <;> simp_all [isExact, ge, upcast, num, den]

theorem eq_exact {a b : Num} (ea : a.isExact = true) (eb : b.isExact = true) :
    eq a b = true ↔ a.num * b.den = b.num * a.den := by
  cases a <;> cases b <;> simp_all [isExact, eq, upcast, num, den]

theorem cross_lt {a b : Num} (pa : a.PosDen) (pb : b.PosDen) :
    (a.num : ℚ) / a.den < (b.num : ℚ) / b.den ↔ a.num * b.den < b.num * a.den := by
  have da : (0 : ℚ) < a.den := by exact_mod_cast posDen_den pa
  have db : (0 : ℚ) < b.den := by exact_mod_cast posDen_den pb
  rw [div_lt_div_iff₀ da db]
  exact_mod_cast Iff.rfl

theorem cross_le {a b : Num} (pa : a.PosDen) (pb : b.PosDen) :
    (a.num : ℚ) / a.den ≤ (b.num : ℚ) / b.den ↔ a.num * b.den ≤ b.num * a.den := by
  have da : (0 : ℚ) < a.den := by exact_mod_cast posDen_den pa
  have db : (0 : ℚ) < b.den := by exact_mod_cast posDen_den pb
  rw [div_le_div_iff₀ da db]
  exact_mod_cast Iff.rfl

theorem cross_eq {a b : Num} (pa : a.PosDen) (pb : b.PosDen) :
    (a.num : ℚ) / a.den = (b.num : ℚ) / b.den ↔ a.num * b.den = b.num * a.den := by
  have da : (a.den : ℚ) ≠ 0 := by exact_mod_cast Int.ne_of_gt (posDen_den pa)
  have db : (b.den : ℚ) ≠ 0 := by exact_mod_cast Int.ne_of_gt (posDen_den pb)
  rw [div_eq_div_iff da db]
  exact_mod_cast Iff.rfl

theorem lt_iff {a b : Num} {x y : ℚ} (pa : a.PosDen) (pb : b.PosDen)
    (ha : a.val = some x) (hb : b.val = some y) : lt a b = true ↔ x < y := by
  rw [lt_exact (val_isExact ha) (val_isExact hb), val_eq_of ha, val_eq_of hb, cross_lt pa pb]

theorem gt_iff {a b : Num} {x y : ℚ} (pa : a.PosDen) (pb : b.PosDen)
    (ha : a.val = some x) (hb : b.val = some y) : gt a b = true ↔ x > y := by
  rw [gt_exact (val_isExact ha) (val_isExact hb), val_eq_of ha, val_eq_of hb, gt_iff_lt,
    cross_lt pb pa]

theorem le_iff {a b : Num} {x y : ℚ} (pa : a.PosDen) (pb : b.PosDen)
    (ha : a.val = some x) (hb : b.val = some y) : le a b = true ↔ x ≤ y := by
  rw [le_exact (val_isExact ha) (val_isExact hb), val_eq_of ha, val_eq_of hb, cross_le pa pb]

theorem ge_iff {a b : Num} {x y : ℚ} (pa : a.PosDen) (pb : b.PosDen)
    (ha : a.val = some x) (hb : b.val = some y) : ge a b = true ↔ x ≥ y := by
  rw [ge_exact (val_isExact ha) (val_isExact hb), val_eq_of ha, val_eq_of hb, ge_iff_le,
    cross_le pb pa]

theorem eq_iff {a b : Num} {x y : ℚ} (pa : a.PosDen) (pb : b.PosDen)
    (ha : a.val = some x) (hb : b.val = some y) : eq a b = true ↔ x = y := by
  rw [eq_exact (val_isExact ha) (val_isExact hb), val_eq_of ha, val_eq_of hb, cross_eq pa pb]

/-- dispatch with an inexact operand -/
theorem lt_real {a b : Num} (h : a.isExact = false ∨ b.isExact = false) :
    lt a b = decide (a.toReal < b.toReal) := by
  cases a <;> cases b <;> first | (rcases h with h | h <;> simp [isExact] at h; done) | rfl

theorem gt_real {a b : Num} (h : a.isExact = false ∨ b.isExact = false) :
    gt a b = decide (a.toReal > b.toReal) := by
  cases a <;> cases b <;> first | (rcases h with h | h <;> simp [isExact] at h; done) | rfl

theorem le_real {a b : Num} (h : a.isExact = false ∨ b.isExact = false) :
    le a b = decide (a.toReal ≤ b.toReal) := by
  cases a <;> cases b <;> first | (rcases h with h | h <;> simp [isExact] at h; done) | rfl

theorem ge_real {a b : Num} (h : a.isExact = false ∨ b.isExact = false) :
    ge a b = decide (a.toReal ≥ b.toReal) := by
  cases a <;> cases b <;> first | (rcases h with h | h <;> simp [isExact] at h; done) | rfl

theorem eq_real {a b : Num} (h : a.isExact = false ∨ b.isExact = false) :
    eq a b = (a.toReal == b.toReal) := by
  cases a <;> cases b <;> first | (rcases h with h | h <;> simp [isExact] at h; done) | rfl

/-- The cross products compared by `=`/`<` fit in the `i64` the Rust code computes them in. -/
theorem cross_fits_i64 {a b : Int} (ha : fitsI32 a = true) (hb : fitsI32 b = true) :
    -9223372036854775808 ≤ a * b ∧ a * b ≤ 9223372036854775807 := by
  rw [fitsI32_iff] at ha hb
  have h1 : a.natAbs ≤ 2147483648 := by omega
  have h2 : b.natAbs ≤ 2147483648 := by omega
  have := natAbs_mul_le h1 h2
  omega

/-! ### comparison chains -/

theorem cmpChain_iff (op : Num → Num → Bool) :
    ∀ xs : List Num, cmpChain op xs = true ↔ Adjacent op xs
  | [] => by simp [cmpChain, Adjacent]
  | [_] => by simp [cmpChain, Adjacent]
  | a :: b :: rest => by
    have ih := cmpChain_iff op (b :: rest)
    unfold cmpChain Adjacent
    by_cases h : op a b = true
    · simp [h, ih]
    · simp [h]

theorem adjacent_iff_index (op : Num → Num → Bool) :
    ∀ xs : List Num, Adjacent op xs ↔
      ∀ (i : Nat) (h : i + 1 < xs.length), op (xs[i]'(by omega)) (xs[i + 1]'h) = true
  | [] => by simp [Adjacent]
  | [_] => by simp [Adjacent]
  | a :: b :: rest => by
    have ih := adjacent_iff_index op (b :: rest)
    unfold Adjacent
    rw [ih]
    constructor
    · rintro ⟨h0, hs⟩ i hi
      cases i with
      | zero => exact h0
      | succ j => exact hs j (by simpa using hi)
    · intro h
      refine ⟨h 0 (by simp), fun i hi => ?_⟩
      exact h (i + 1) (by simpa using hi)

/-! ### max / min -/

theorem maxStep_exact {a b : Num} (ea : a.isExact = true) (eb : b.isExact = true) :
    maxStep a b = if gt a b = true then a else b := by
  cases a <;> cases b <;> simp_all [isExact, maxStep, upcast]

theorem minStep_exact {a b : Num} (ea : a.isExact = true) (eb : b.isExact = true) :
    minStep a b = if lt a b = true then a else b := by
  cases a <;> cases b <;> simp_all [isExact, minStep, upcast]

/-- with an inexact operand the kept operand is converted -/
theorem maxStep_real {a b : Num} (h : a.isExact = false ∨ b.isExact = false) :
    maxStep a b = if gt a b = true then .real a.toReal else .real b.toReal := by
  cases a <;> cases b <;> first | (rcases h with h | h <;> simp [isExact] at h; done) | rfl

theorem minStep_real {a b : Num} (h : a.isExact = false ∨ b.isExact = false) :
    minStep a b = if lt a b = true then .real a.toReal else .real b.toReal := by
  cases a <;> cases b <;> first | (rcases h with h | h <;> simp [isExact] at h; done) | rfl

theorem maxStep_isExact (a b : Num) :
    (maxStep a b).isExact = (a.isExact && b.isExact) := by
  by_cases ea : a.isExact = true
  · by_cases eb : b.isExact = true
    · rw [maxStep_exact ea eb]; split <;> simp [ea, eb]
    · rw [maxStep_real (Or.inr (by simpa using eb))]; split <;> simp_all [isExact]
  · rw [maxStep_real (Or.inl (by simpa using ea))]; split <;> simp_all [isExact]

theorem minStep_isExact (a b : Num) :
    (minStep a b).isExact = (a.isExact && b.isExact) := by
  by_cases ea : a.isExact = true
  · by_cases eb : b.isExact = true
    · rw [minStep_exact ea eb]; split <;> simp [ea, eb]
    · rw [minStep_real (Or.inr (by simpa using eb))]; split <;> simp_all [isExact]
  · rw [minStep_real (Or.inl (by simpa using ea))]; split <;> simp_all [isExact]

theorem foldl_maxStep_isExact : ∀ (xs : List Num) (acc : Num),
    (xs.foldl maxStep acc).isExact = (acc.isExact && xs.all isExact)
  | [], acc => by simp
  | x :: xs, acc => by
    rw [List.foldl_cons, foldl_maxStep_isExact xs, maxStep_isExact, List.all_cons, Bool.and_assoc]

theorem foldl_minStep_isExact : ∀ (xs : List Num) (acc : Num),
    (xs.foldl minStep acc).isExact = (acc.isExact && xs.all isExact)
  | [], acc => by simp
  | x :: xs, acc => by
    rw [List.foldl_cons, foldl_minStep_isExact xs, minStep_isExact, List.all_cons, Bool.and_assoc]

theorem foldl_maxStep_inexact_iff (xs : List Num) (acc : Num) :
    (xs.foldl maxStep acc).isExact = false ↔ ∃ y ∈ acc :: xs, y.isExact = false := by
  rw [← Bool.not_eq_true, foldl_maxStep_isExact]
  rcases Bool.eq_false_or_eq_true acc.isExact with h | h <;> simp [h]

theorem foldl_minStep_inexact_iff (xs : List Num) (acc : Num) :
    (xs.foldl minStep acc).isExact = false ↔ ∃ y ∈ acc :: xs, y.isExact = false := by
  rw [← Bool.not_eq_true, foldl_minStep_isExact]
  rcases Bool.eq_false_or_eq_true acc.isExact with h | h <;> simp [h]

/-- one step on exact operands: the result is one of the two and dominates both -/
theorem maxStep_spec {a b : Num} (ea : a.isExact = true) (eb : b.isExact = true)
    (pa : a.PosDen) (pb : b.PosDen) :
    (maxStep a b = a ∨ maxStep a b = b) ∧ a.valD ≤ (maxStep a b).valD ∧
      b.valD ≤ (maxStep a b).valD := by
  rw [maxStep_exact ea eb]
  have h := gt_iff pa pb (val_of_exact ea) (val_of_exact eb)
  split
  · next hg => exact ⟨Or.inl rfl, le_refl _, le_of_lt (h.mp hg)⟩
  · next hg => exact ⟨Or.inr rfl, not_lt.mp (fun hh => hg (h.mpr hh)), le_refl _⟩

theorem minStep_spec {a b : Num} (ea : a.isExact = true) (eb : b.isExact = true)
    (pa : a.PosDen) (pb : b.PosDen) :
    (minStep a b = a ∨ minStep a b = b) ∧ (minStep a b).valD ≤ a.valD ∧
      (minStep a b).valD ≤ b.valD := by
  rw [minStep_exact ea eb]
  have h := lt_iff pa pb (val_of_exact ea) (val_of_exact eb)
  split
  · next hg => exact ⟨Or.inl rfl, le_refl _, le_of_lt (h.mp hg)⟩
  · next hg => exact ⟨Or.inr rfl, not_lt.mp (fun hh => hg (h.mpr hh)), le_refl _⟩

theorem foldl_maxStep_spec : ∀ (xs : List Num) (acc : Num),
    (∀ y ∈ acc :: xs, y.isExact = true ∧ y.PosDen) →
    (xs.foldl maxStep acc) ∈ acc :: xs ∧
      ∀ y ∈ acc :: xs, y.valD ≤ (xs.foldl maxStep acc).valD
  | [], acc, _ => by simp
  | x :: xs, acc, h => by
    have ha := h acc (List.mem_cons_self ..)
    have hx := h x (List.mem_cons_of_mem _ (List.mem_cons_self ..))
    obtain ⟨hm, l1, l2⟩ := maxStep_spec ha.1 hx.1 ha.2 hx.2
    have hm' : (maxStep acc x).isExact = true ∧ (maxStep acc x).PosDen := by
      rcases hm with e | e <;> rw [e] <;> assumption
    have ih := foldl_maxStep_spec xs (maxStep acc x) (by
      intro y hy
      rcases List.mem_cons.mp hy with rfl | hy
      · exact hm'
      · exact h y (List.mem_cons_of_mem _ (List.mem_cons_of_mem _ hy)))
    rw [List.foldl_cons]
    obtain ⟨mem, dom⟩ := ih
    have dm := dom _ (List.mem_cons_self ..)
    refine ⟨?_, ?_⟩
    · rcases List.mem_cons.mp mem with e | e
      · rw [e]; rcases hm with e' | e' <;> rw [e'] <;> simp
      · exact List.mem_cons_of_mem _ (List.mem_cons_of_mem _ e)
    · intro y hy
      rcases List.mem_cons.mp hy with rfl | hy
      · exact le_trans l1 dm
      · rcases List.mem_cons.mp hy with rfl | hy
        · exact le_trans l2 dm
        · exact dom y (List.mem_cons_of_mem _ hy)

theorem foldl_minStep_spec : ∀ (xs : List Num) (acc : Num),
    (∀ y ∈ acc :: xs, y.isExact = true ∧ y.PosDen) →
    (xs.foldl minStep acc) ∈ acc :: xs ∧
      ∀ y ∈ acc :: xs, (xs.foldl minStep acc).valD ≤ y.valD
  | [], acc, _ => by simp
  | x :: xs, acc, h => by
    have ha := h acc (List.mem_cons_self ..)
    have hx := h x (List.mem_cons_of_mem _ (List.mem_cons_self ..))
    obtain ⟨hm, l1, l2⟩ := minStep_spec ha.1 hx.1 ha.2 hx.2
    have hm' : (minStep acc x).isExact = true ∧ (minStep acc x).PosDen := by
      rcases hm with e | e <;> rw [e] <;> assumption
    have ih := foldl_minStep_spec xs (minStep acc x) (by
      intro y hy
      rcases List.mem_cons.mp hy with rfl | hy
      · exact hm'
      · exact h y (List.mem_cons_of_mem _ (List.mem_cons_of_mem _ hy)))
    rw [List.foldl_cons]
    obtain ⟨mem, dom⟩ := ih
    have dm := dom _ (List.mem_cons_self ..)
    refine ⟨?_, ?_⟩
    · rcases List.mem_cons.mp mem with e | e
      · rw [e]; rcases hm with e' | e' <;> rw [e'] <;> simp
      · exact List.mem_cons_of_mem _ (List.mem_cons_of_mem _ e)
    · intro y hy
      rcases List.mem_cons.mp hy with rfl | hy
      · exact le_trans dm l1
      · rcases List.mem_cons.mp hy with rfl | hy
        · exact le_trans dm l2
        · exact dom y (List.mem_cons_of_mem _ hy)

/-! ### eqv? -/

theorem int_ne_rat {i n d : Int} (hd : 0 < d) (h1 : d ≠ 1) (hg : Int.gcd n d = 1) :
    (i : ℚ) ≠ (n : ℚ) / (d : ℚ) := by
  intro h
  have hd' : (d : ℚ) ≠ 0 := by exact_mod_cast Int.ne_of_gt hd
  have e : (i : ℚ) / ((1 : Int) : ℚ) = (n : ℚ) / (d : ℚ) := by simpa using h
  have := coprime_div_unique (n1 := i) (d1 := 1) Int.one_pos hd (by simp) hg e
  exact h1 this.2.symm

theorem exactEqv_iff {a b : Num} (ha : a.WF) (hb : b.WF) :
    exactEqv a b = true ↔
      (∃ v, a.val = some v ∧ b.val = some v) ∨
      (∃ r s, a = .real r ∧ b = .real s ∧ (r == s) = true) := by
  cases a with
  | int i =>
    cases b with
    | int j => simp [exactEqv, val]; exact eq_comm
    | real s => simp [exactEqv, val]
    | rat n d =>
      obtain ⟨_, _, p, d1, g⟩ := hb
      have := int_ne_rat (i := i) p d1 g
      simp [exactEqv, val, Ne.symm this]
  | real r =>
    cases b with
    | int j => simp [exactEqv, val]
    | real s => simp [exactEqv, val]
    | rat n d => simp [exactEqv, val]
  | rat n d =>
    obtain ⟨_, _, p, d1, g⟩ := ha
    cases b with
    | int j =>
      have := int_ne_rat (i := j) p d1 g
      simp [exactEqv, val, this]
    | real s => simp [exactEqv, val]
    | rat n' d' =>
      obtain ⟨_, _, p', _, _⟩ := hb
      have c := cross_eq (a := .rat n d) (b := .rat n' d') p p'
      simp only [num, den] at c
      simp only [exactEqv, val, beq_iff_eq]
      constructor
      · intro h
        left
        refine ⟨_, rfl, ?_⟩
        rw [Option.some.injEq]
        exact (c.mpr (by rw [h]; ring)).symm
      · rintro (⟨v, h1, h2⟩ | ⟨r, s, h, _⟩)
        · rw [Option.some.injEq] at h1 h2
          have := c.mp (h1.trans h2.symm)
          rw [this]; ring
        · cases h

/-! ### floor-quotient / floor-remainder: invariant and absence of panics -/

theorem floorQuotient_wf {a b r : Num} (h : floorQuotient a b = .ok r) : r.WF := by
  obtain ⟨t, ht, hf⟩ := floorQuotient_ok h
  exact floor_wf (div_wf ht) hf

theorem floorRemainder_wf {a b r : Num} (h : floorRemainder a b = .ok r) : r.WF := by
  obtain ⟨q, p, _, _, hs⟩ := floorRemainder_ok h
  exact sub_wf hs

theorem floorQuotient_cases {a b : Num} (pa : a.PosDen) (pb : b.PosDen) :
    IsOk (floorQuotient a b) ∨ floorQuotient a b = .error .divZero := by
  rcases div_cases pa pb with ⟨_, _, _, h⟩ | ⟨_, t, h⟩
  · right; unfold floorQuotient; rw [h]; rfl
  · left
    obtain ⟨q, hq⟩ := floor_isOk (div_wf h).posDen
    exact ⟨q, by unfold floorQuotient; rw [h]; exact hq⟩

theorem floorRemainder_cases {a b : Num} (pa : a.PosDen) (pb : b.PosDen) :
    IsOk (floorRemainder a b) ∨ floorRemainder a b = .error .divZero := by
  rcases floorQuotient_cases pa pb with ⟨q, hq⟩ | h
  · left
    obtain ⟨p, hp⟩ := mul_isOk (floorQuotient_wf hq).posDen pb
    obtain ⟨r, hr⟩ := sub_isOk pa (mul_wf hp).posDen
    refine ⟨r, ?_⟩
    unfold floorRemainder; rw [hq]
    show (mul q b >>= fun p => sub a p) = .ok r
    rw [hp]; exact hr
  · right; unfold floorRemainder; rw [h]; rfl

/-! ### floor-quotient / floor-remainder: remainder range, Mathlib floor, the integer case -/

theorem rem_range {vn vd vr : ℚ} {k : Int} (h : vn = vd * (k : ℚ) + vr)
    (h1 : (k : ℚ) ≤ vn / vd) (h2 : vn / vd < (k : ℚ) + 1) :
    (0 < vd → 0 ≤ vr ∧ vr < vd) ∧ (vd < 0 → vd < vr ∧ vr ≤ 0) := by
  constructor
  · intro hp
    rw [le_div_iff₀ hp] at h1
    rw [div_lt_iff₀ hp] at h2
    constructor <;> nlinarith
  · intro hn
    rw [le_div_iff_of_neg hn] at h1
    rw [div_lt_iff_of_neg hn] at h2
    constructor <;> nlinarith

theorem floor_mul_bounds {n d k : Int} (k1 : (k : ℚ) ≤ (n : ℚ) / (d : ℚ))
    (k2 : (n : ℚ) / (d : ℚ) < (k : ℚ) + 1) :
    (0 < d → k * d ≤ n ∧ n < k * d + d) ∧ (d < 0 → n ≤ k * d ∧ k * d + d < n) := by
  constructor
  · intro hp
    have hp' : (0 : ℚ) < (d : ℚ) := by exact_mod_cast hp
    rw [le_div_iff₀ hp'] at k1
    rw [div_lt_iff₀ hp'] at k2
    constructor
    · exact_mod_cast k1
    · have : (n : ℚ) < ((k * d + d : Int) : ℚ) := by push_cast; linarith
      exact_mod_cast this
  · intro hn
    have hn' : (d : ℚ) < 0 := by exact_mod_cast hn
    rw [le_div_iff_of_neg hn'] at k1
    rw [div_lt_iff_of_neg hn'] at k2
    constructor
    · exact_mod_cast k1
    · have : ((k * d + d : Int) : ℚ) < (n : ℚ) := by push_cast; linarith
      exact_mod_cast this

/-- The integer case (what `floor/`, `floor-quotient`, `floor-remainder`, `modulo` compute): for
`|n|, |d| < 2^30`, `d ≠ 0`, both results are exact integers, `⌊n/d⌋` and `n - d·⌊n/d⌋`. -/
theorem floorq_floorr_int {n d : Int} (hn : n.natAbs ≤ 1073741823) (hd : d.natAbs ≤ 1073741823)
    (d0 : d ≠ 0) :
    floorQuotient (.int n) (.int d) = .ok (.int ⌊(n : ℚ) / (d : ℚ)⌋) ∧
    floorRemainder (.int n) (.int d) = .ok (.int (n - d * ⌊(n : ℚ) / (d : ℚ)⌋)) := by
  have hdiv : div (.int n) (.int d) = exactRatio n d := by simp [div, upcast, d0]
  obtain ⟨t, ht, et⟩ := exactRatio_exact_of_natAbs (n := n) d0 (by omega) (by omega)
  have vt := exactRatio_sound' ht et
  have wt := exactRatio_wf' ht
  obtain ⟨k, hk, fk, k1, k2⟩ := floor_spec wt.denPos vt
  have hkf : ⌊(n : ℚ) / (d : ℚ)⌋ = k := Int.floor_eq_iff.mpr ⟨k1, k2⟩
  rw [hkf]
  have hq : floorQuotient (.int n) (.int d) = .ok (.int k) := by
    unfold floorQuotient; rw [hdiv, ht]; exact hk
  refine ⟨hq, ?_⟩
  obtain ⟨bp, bn⟩ := floor_mul_bounds k1 k2
  have f1 : fitsI32 (k * d) = true := by
    rw [fitsI32_iff]
    rcases Int.lt_or_gt_of_ne d0 with h | h
    · have := bn h; omega
    · have := bp h; omega
  have f2 : fitsI32 (n - k * d) = true := by
    rw [fitsI32_iff]
    rcases Int.lt_or_gt_of_ne d0 with h | h
    · have := bn h; omega
    · have := bp h; omega
  have hm : mul (.int k) (.int d) = .ok (.int (k * d)) := by
    show exactRatio (k * d) 1 = _
    exact exactRatio_one f1
  have hs : sub (.int n) (.int (k * d)) = .ok (.int (n - k * d)) := by
    show exactRatio (n - k * d) 1 = _
    exact exactRatio_one f2
  unfold floorRemainder; rw [hq]
  show (mul (.int k) (.int d) >>= fun p => sub (.int n) p) = _
  rw [hm]
  show sub (.int n) (.int (k * d)) = _
  rw [hs, Int.mul_comm]

/-! ### completeness: a representable true result is returned exactly -/

theorem den_cast_ne {a : Num} (pa : a.PosDen) : (a.den : ℚ) ≠ 0 := by
  exact_mod_cast Int.ne_of_gt (posDen_den pa)

theorem add_repr {a b x : Num} {va vb : ℚ} (pa : a.PosDen) (pb : b.PosDen)
    (ha : a.val = some va) (hb : b.val = some vb) (hx : x.WF) (vx : x.val = some (va + vb)) :
    add a b = .ok x := by
  have h1 := den_cast_ne pa; have h2 := den_cast_ne pb
  rw [add_exact (val_isExact ha) (val_isExact hb)]
  apply exactRatio_complete' (mul_den_ne pa pb) hx
  rw [vx, val_eq_of ha, val_eq_of hb]; congr 1; push_cast; field_simp

theorem sub_repr {a b x : Num} {va vb : ℚ} (pa : a.PosDen) (pb : b.PosDen)
    (ha : a.val = some va) (hb : b.val = some vb) (hx : x.WF) (vx : x.val = some (va - vb)) :
    sub a b = .ok x := by
  have h1 := den_cast_ne pa; have h2 := den_cast_ne pb
  rw [sub_exact (val_isExact ha) (val_isExact hb)]
  apply exactRatio_complete' (mul_den_ne pa pb) hx
  rw [vx, val_eq_of ha, val_eq_of hb]; congr 1; push_cast; field_simp

theorem mul_repr {a b x : Num} {va vb : ℚ} (pa : a.PosDen) (pb : b.PosDen)
    (ha : a.val = some va) (hb : b.val = some vb) (hx : x.WF) (vx : x.val = some (va * vb)) :
    mul a b = .ok x := by
  have h1 := den_cast_ne pa; have h2 := den_cast_ne pb
  rw [mul_exact (val_isExact ha) (val_isExact hb)]
  apply exactRatio_complete' (mul_den_ne pa pb) hx
  rw [vx, val_eq_of ha, val_eq_of hb]; congr 1; push_cast; field_simp

theorem div_repr {a b x : Num} {va vb : ℚ} (pa : a.PosDen) (pb : b.PosDen)
    (ha : a.val = some va) (hb : b.val = some vb) (hb0 : vb ≠ 0) (hx : x.WF)
    (vx : x.val = some (va / vb)) : div a b = .ok x := by
  have h1 := den_cast_ne pa; have h2 := den_cast_ne pb
  have da := posDen_den pa; have db := posDen_den pb
  have n0 : b.num ≠ 0 := by
    intro h
    exact hb0 (Option.some.inj (hb.symm.trans ((val_zero_iff pb (val_isExact hb)).mpr h)))
  have n0' : (b.num : ℚ) ≠ 0 := by exact_mod_cast n0
  rw [div_exact (val_isExact ha) (val_isExact hb), if_neg n0, if_neg (by omega), if_neg (by omega)]
  apply exactRatio_complete' (Int.mul_ne_zero (by omega) n0) hx
  rw [vx, val_eq_of ha, val_eq_of hb]; congr 1; push_cast; field_simp

theorem abs_repr {a x : Num} {va : ℚ} (pa : a.PosDen)
    (ha : a.val = some va) (hx : x.WF) (vx : x.val = some |va|) : abs a = .ok x := by
  have da := posDen_den pa
  rw [abs_exact (val_isExact ha)]
  apply exactRatio_complete' (by omega) hx
  rw [vx, val_eq_of ha]; congr 1
  rw [abs_div]; simp

/-! ### `divAll`: the guard on the exact prefix -/

theorem notReal_eq_isExact (x : Num) : x.notReal = x.isExact := by cases x <;> rfl

/-- `isExactZero`: an exact number whose numerator is 0 -/
theorem isExactZero_iff {z : Num} : z.isExactZero = true ↔ z.isExact = true ∧ z.num = 0 := by
  cases z with
  | int i =>
    by_cases h : i = 0
    · subst h; simp [isExactZero, isExact, num]
    · simp [isExactZero, isExact, num, h]
  | rat n d =>
    by_cases h : n = 0
    · subst h; simp [isExactZero, isExact, num]
    · simp [isExactZero, isExact, num, h]
  | real r => simp [isExactZero, isExact]

theorem divAll_of_guard {xs : List Num} (h : (exactDivisors xs).any isExactZero = true) :
    divAll xs = .error .divZero := by
  unfold divAll; rw [if_pos h]

theorem divAll_of_not_guard {xs : List Num} (h : (exactDivisors xs).any isExactZero = false) :
    divAll xs = divFold xs := by
  unfold divAll; rw [if_neg (by simp [h])]

theorem divFold_cons (x : Num) {ys : List Num} (h : ys ≠ []) : divFold (x :: ys) = ys.foldlM div x := by
  cases ys with
  | nil => exact absurd rfl h
  | cons y rest => rw [List.foldlM_cons]; rfl

theorem exactDivisors_cons {x : Num} {ys : List Num} (h : ys ≠ []) :
    exactDivisors (x :: ys) = if x.notReal then ys.takeWhile notReal else [] := by
  cases ys with
  | nil => exact absurd rfl h
  | cons y rest =>
    show ((x :: y :: rest).takeWhile notReal).drop 1 = _
    rw [List.takeWhile_cons]
    split <;> rfl

theorem mem_takeWhile_split {α} {p : α → Bool} {z : α} : ∀ {l : List α}, z ∈ l.takeWhile p →
    ∃ pre post, l = pre ++ z :: post ∧ ∀ y ∈ pre, p y = true
  | [], h => by simp at h
  | a :: l, h => by
    rw [List.takeWhile_cons] at h
    split at h
    · rename_i hp
      rcases List.mem_cons.mp h with rfl | h'
      · exact ⟨[], l, rfl, by simp⟩
      · obtain ⟨pre, post, rfl, hpre⟩ := mem_takeWhile_split h'
        exact ⟨a :: pre, post, rfl, by
          intro y hy
          rcases List.mem_cons.mp hy with rfl | hy
          · exact hp
          · exact hpre y hy⟩
    · simp at h

/-- the meaning of the guard of `divAll`: the single operand of `(/ z)` is an exact zero, or some operand after the
first is an exact zero and every operand before it is exact -/
theorem guard_iff (xs : List Num) : (exactDivisors xs).any isExactZero = true ↔
    (∃ z, xs = [z] ∧ z.isExact = true ∧ z.num = 0) ∨
    (∃ x pre z post, xs = x :: (pre ++ z :: post) ∧ x.isExact = true ∧ (∀ y ∈ pre, y.isExact = true) ∧
      z.isExact = true ∧ z.num = 0) := by
  constructor
  · intro h
    match xs, h with
    | [], h => simp [exactDivisors] at h
    | [z], h =>
      left
      refine ⟨z, rfl, ?_⟩
      apply isExactZero_iff.mp
      simp only [exactDivisors] at h
      split at h
      · simpa using h
      · simp at h
    | x :: y :: rest, h =>
      right
      rw [exactDivisors_cons (by simp)] at h
      split at h
      · rename_i hx
        obtain ⟨z, hz, h0⟩ := List.any_eq_true.mp h
        obtain ⟨pre, post, he, hpre⟩ := mem_takeWhile_split hz
        obtain ⟨ez, nz⟩ := isExactZero_iff.mp h0
        exact ⟨x, pre, z, post, by rw [he], by rwa [← notReal_eq_isExact],
          fun y hy => by rw [← notReal_eq_isExact]; exact hpre y hy, ez, nz⟩
      · simp at h
  · rintro (⟨z, rfl, ez, nz⟩ | ⟨x, pre, z, post, rfl, ex, epre, ez, nz⟩)
    · have : z.notReal = true := by rw [notReal_eq_isExact]; exact ez
      simp [exactDivisors, this, isExactZero_iff.mpr ⟨ez, nz⟩]
    · rw [exactDivisors_cons (by simp), if_pos (by rw [notReal_eq_isExact]; exact ex),
        List.takeWhile_append_of_pos (fun y hy => by rw [notReal_eq_isExact]; exact epre y hy),
        List.takeWhile_cons, if_pos (by rw [notReal_eq_isExact]; exact ez)]
      simp [isExactZero_iff.mpr ⟨ez, nz⟩]

/-- `div` never panics: its only error is `divZero` -/
theorem div_error {a b : Num} {e : Err} (h : div a b = .error e) : e = .divZero := by
  by_cases ea : a.isExact = true
  · by_cases eb : b.isExact = true
    · rw [div_exact ea eb] at h
      split at h; · cases h; rfl
      split at h; · cases h; rfl
      split at h; · cases h; rfl
      rename_i h1 h2 h3
      obtain ⟨r, hr⟩ := exactRatio_isOk (n := a.num * b.den) (Int.mul_ne_zero h2 h1)
      rw [hr] at h; cases h
    · rw [div_real (Or.inr (by simpa using eb))] at h; cases h
  · rw [div_real (Or.inl (by simpa using ea))] at h; cases h

theorem foldlM_div_real : ∀ (ys : List Num) (f : Float32), ∃ g, ys.foldlM div (.real f) = .ok (.real g)
  | [], f => ⟨f, rfl⟩
  | y :: ys, f => by
    rw [List.foldlM_cons, div_real (Or.inl rfl)]
    exact foldlM_div_real ys _

theorem foldlM_div_error : ∀ {ys : List Num} {init : Num} {e : Err}, ys.foldlM div init = .error e → e = .divZero
  | [], _, _, h => by cases h
  | y :: ys, init, e, h => by
    rw [List.foldlM_cons] at h
    cases hd : div init y with
    | error e' => rw [hd] at h; cases h; exact div_error hd
    | ok m => rw [hd] at h; exact foldlM_div_error h

/-- the plain fold over exact operands up to an exact zero divisor: `divZero`, unless a quotient before it has left
the exact range, and then the result is a real -/
theorem foldlM_div_exact_zero {z : Num} {post : List Num} (ez : z.isExact = true) (nz : z.num = 0) :
    ∀ {pre : List Num} {init : Num}, (∀ y ∈ pre, y.isExact = true) →
      (pre ++ z :: post).foldlM div init = .error .divZero ∨
        ∃ g, (pre ++ z :: post).foldlM div init = .ok (.real g)
  | pre, .real f, _ => Or.inr (foldlM_div_real _ f)
  | [], .int i, _ => by
    left
    rw [List.nil_append, List.foldlM_cons, div_exact rfl ez, if_pos nz]; rfl
  | [], .rat n d, _ => by
    left
    rw [List.nil_append, List.foldlM_cons, div_exact rfl ez, if_pos nz]; rfl
  | p :: pre, .int i, h => by
    rw [List.cons_append, List.foldlM_cons]
    cases hd : div (.int i) p with
    | error e => left; rw [div_error hd]; rfl
    | ok m => exact foldlM_div_exact_zero ez nz (fun y hy => h y (List.mem_cons_of_mem _ hy))
  | p :: pre, .rat n d, h => by
    rw [List.cons_append, List.foldlM_cons]
    cases hd : div (.rat n d) p with
    | error e => left; rw [div_error hd]; rfl
    | ok m => exact foldlM_div_exact_zero ez nz (fun y hy => h y (List.mem_cons_of_mem _ hy))

/-- `divAll` and the plain fold differ only when a quotient overflowed into a real before an exact zero divisor -/
theorem divAll_ne_divFold {xs : List Num} (h : divAll xs ≠ divFold xs) :
    divAll xs = .error .divZero ∧ ∃ g, divFold xs = .ok (.real g) := by
  cases hg : (exactDivisors xs).any isExactZero with
  | false => exact absurd (divAll_of_not_guard hg) h
  | true =>
    have hd := divAll_of_guard hg
    refine ⟨hd, ?_⟩
    rw [hd] at h
    rcases (guard_iff xs).mp hg with ⟨z, rfl, ez, nz⟩ | ⟨x, pre, z, post, rfl, ex, epre, ez, nz⟩
    · exfalso; apply h
      show _ = div (.int 1) z
      rw [div_exact rfl ez, if_pos nz]
    · rw [divFold_cons x (by simp)] at h ⊢
      rcases foldlM_div_exact_zero (post := post) ez nz (init := x) epre with h' | h'
      · exact absurd h'.symm h
      · exact h'

theorem divFold_wf {xs : List Num} {r : Num} (h : divFold xs = .ok r) : r.WF := by
  match xs, h with
  | [x], h => exact div_wf h
  | x :: y :: rest, h =>
    rw [divFold_cons x (by simp), List.foldlM_cons] at h
    cases hs : div x y with
    | error e => rw [hs] at h; cases h
    | ok i =>
      rw [hs] at h
      exact foldlM_wf (fun _ _ _ => div_wf) rest i r (div_wf hs) h

end Num
end Ruschm

/-
Helper lemmas about the model lexer (`RuschmModel/Lex.lean`): what each scanner consumes, where it
stops, and that it always makes progress. Used by `C06.lean` and `C18Bracket.lean`.
-/
import RuschmSpec.Text
namespace Ruschm.Text
open Ruschm Ruschm.Lex

/-! ## cursor -/

@[simp] theorem advs_nil (p : Pos) : advs [] p = p := rfl
@[simp] theorem advs_cons (c : Char) (cs : List Char) (p : Pos) :
    advs (c :: cs) p = advs cs (adv c p) := rfl
theorem advs_append (a b : List Char) (p : Pos) : advs (a ++ b) p = advs b (advs a p) := by
  simp [advs, List.foldl_append]

/-! ## the `Except` monad -/

theorem bind_ok {ε α β} {x : Except ε α} {f : α → Except ε β} {r : β} :
    (x >>= f) = .ok r ↔ ∃ a, x = .ok a ∧ f a = .ok r := by
  cases x <;> simp [bind, Except.bind]

theorem map_ok_some {ε α} {x : Except ε α} {r : α} :
    (x.map some) = .ok (some r) ↔ x = .ok r := by
  cases x <;> simp [Except.map]

theorem map_ok_none {ε α} {x : Except ε α} : (x.map some) = .ok none ↔ False := by
  cases x <;> simp [Except.map]

theorem endOfToken_eq (cs : List Char) (p : Pos) :
    endOfToken cs p = if startsDelim cs then .ok () else .error p := by
  cases cs <;> rfl

theorem endOfToken_ok {cs : List Char} {p : Pos} {u : Unit} :
    endOfToken cs p = .ok u ↔ startsDelim cs = true := by
  rw [endOfToken_eq]; split <;> simp_all

theorem testDelimiter_ok {c : Char} {p : Pos} {u : Unit} :
    testDelimiter p c = .ok u ↔ isDelimiter c = true := by
  unfold testDelimiter; split <;> simp_all

theorem endOfSharpToken_ok {cs : List Char} {p : Pos} {u : Unit} :
    endOfSharpToken cs p = .ok u ↔ (startsDelim cs = true ∨ startsSharp cs = true) := by
  unfold endOfSharpToken
  split
  · simp [startsSharp]
  · rename_i h
    rw [endOfToken_ok]
    have : startsSharp cs = false := by
      unfold startsSharp; split
      · rename_i c r; exact absurd rfl (h r)
      · rfl
    simp [this]

/-! ## character classes -/

/-- characters the bracket counter does not react to -/
def isPlain (c : Char) : Bool :=
  !(c = '(' || c = ')' || c = ';' || c = '"' || c = '|' || c = '#')

/-- the characters that are special for the lexer or the bracket counter -/
def specials : List Char := ['(', ')', ';', '"', '|', '#', ' ', '\t', '\n', '\r']

theorem isPlain_of_not_mem {c : Char} (h : c ∉ specials) : isPlain c = true := by
  simp only [specials, List.mem_cons, List.not_mem_nil, or_false, not_or] at h
  simp [isPlain, h]

theorem isDelimiter_of_not_mem {c : Char} (h : c ∉ specials) : isDelimiter c = false := by
  simp only [specials, List.mem_cons, List.not_mem_nil, or_false, not_or] at h
  simp [isDelimiter, isWs, h]

/-- a character class that contains no special character -/
theorem not_mem_specials_of_class (P : Char → Bool) (hP : specials.all (fun c => !P c) = true)
    {c : Char} (h : P c = true) : c ∉ specials := by
  intro hc
  have := List.all_eq_true.mp hP c hc
  simp [h] at this

theorem isDigit_ns {c : Char} (h : isDigit c = true) : c ∉ specials :=
  not_mem_specials_of_class isDigit (by decide) h
theorem isSubsequent_ns {c : Char} (h : isSubsequent c = true) : c ∉ specials :=
  not_mem_specials_of_class isSubsequent (by decide) h
theorem isAsciiAlnum_ns {c : Char} (h : isAsciiAlnum c = true) : c ∉ specials :=
  not_mem_specials_of_class isAsciiAlnum (by decide) h

/-! ## `takeRun` -/

theorem takeRun_spec (f : Char → Bool) (cs : List Char) (p : Pos) (acc : List Char) :
    takeRun f cs p acc
      = (acc.reverse ++ cs.takeWhile f, cs.dropWhile f, advs (cs.takeWhile f) p) := by
  induction cs generalizing p acc with
  | nil => simp [takeRun]
  | cons c cs ih =>
    unfold takeRun
    split <;> simp [*, List.takeWhile, List.dropWhile]

/-- the text does not start with a character of class `f` -/
def stopsAt (f : Char → Bool) : List Char → Bool
  | [] => true
  | c :: _ => !f c

theorem takeRun_append (f : Char → Bool) (run rest : List Char) (p : Pos) (acc : List Char)
    (hr : ∀ c ∈ run, f c = true) (hs : stopsAt f rest = true) :
    takeRun f (run ++ rest) p acc = (acc.reverse ++ run, rest, advs run p) := by
  induction run generalizing p acc with
  | nil =>
    cases rest with
    | nil => simp [takeRun]
    | cons c r => simp [stopsAt] at hs; simp [takeRun, hs]
  | cons c run ih =>
    have hc : f c = true := hr c (by simp)
    simp only [List.cons_append, takeRun, hc, if_true]
    rw [ih _ _ (fun c h => hr c (by simp [h]))]
    simp

theorem takeRun_ex (f : Char → Bool) (cs : List Char) (p : Pos) :
    ∃ run rest, cs = run ++ rest ∧ (∀ c ∈ run, f c = true) ∧ stopsAt f rest = true ∧
      takeRun f cs p [] = (run, rest, advs run p) := by
  suffices h : ∀ acc, ∃ run rest, cs = run ++ rest ∧ (∀ c ∈ run, f c = true) ∧
      stopsAt f rest = true ∧ takeRun f cs p acc = (acc.reverse ++ run, rest, advs run p) by
    simpa using h []
  induction cs generalizing p with
  | nil => intro acc; exact ⟨[], [], rfl, by simp, rfl, by simp [takeRun]⟩
  | cons c cs ih =>
    intro acc
    by_cases h : f c = true
    · obtain ⟨run, rest, h1, h2, h3, h4⟩ := ih (adv c p) (c :: acc)
      refine ⟨c :: run, rest, by simp [h1], ?_, h3, ?_⟩
      · intro x hx
        rcases List.mem_cons.mp hx with rfl | hx
        · exact h
        · exact h2 x hx
      · simp [takeRun, h, h4]
    · exact ⟨[], c :: cs, rfl, by simp, by simp [stopsAt, h], by simp [takeRun, h]⟩

theorem skipAtmosphere_atmos (b : Bool) (a rest : List Char) (p : Pos)
    (h : isAtmos b a = true) (hr : startsTok rest = true) :
    skipAtmosphere b (a ++ rest) p = (rest, advs a p) := by
  induction a generalizing b p with
  | nil =>
    cases b
    · cases rest with
      | nil => simp [skipAtmosphere]
      | cons c r =>
        simp [startsTok] at hr
        simp [skipAtmosphere, hr]
    · simp [isAtmos] at h
  | cons c a ih =>
    cases b
    · simp only [isAtmos] at h
      simp only [List.cons_append, skipAtmosphere, advs_cons]
      split
      · rename_i hw; simp only [hw, if_true] at h; exact ih _ _ h
      · rename_i hw
        simp only [hw] at h
        split
        · rename_i hc; simp only [hc, if_true] at h; exact ih _ _ h
        · rename_i hc; simp [hc] at h
    · simp only [isAtmos] at h
      simp only [List.cons_append, advs_cons]
      rw [skipAtmosphere]
      split
      · rename_i hn
        simp only [hn, if_true] at h
        have hw : isWs c = true := by
          simp only [Bool.or_eq_true, decide_eq_true_eq] at hn
          rcases hn with rfl | rfl <;> decide
        rw [skipAtmosphere]; simp only [hw, if_true]
        exact ih _ _ h
      · rename_i hn
        simp only [hn] at h
        exact ih _ _ h

theorem skipAtmosphere_inv (b : Bool) (cs : List Char) (p : Pos) :
    ∃ a, cs = a ++ (skipAtmosphere b cs p).1 ∧ (skipAtmosphere b cs p).2 = advs a p ∧
      startsTok (skipAtmosphere b cs p).1 = true ∧ isTrail b a = true ∧
      ((skipAtmosphere b cs p).1 ≠ [] → isAtmos b a = true) := by
  fun_induction skipAtmosphere b cs p with
  | case1 b p => exact ⟨[], by simp, by simp, rfl, by simp [isTrail], by simp⟩
  | case2 c cs p hw ih =>
    obtain ⟨a, h1, h2, h3, h4, h5⟩ := ih
    refine ⟨c :: a, by simp; exact h1, by simpa using h2, h3, by simp [isTrail, hw, h4], ?_⟩
    intro h; simp [isAtmos, hw, h5 h]
  | case3 cs p hw ih =>
    obtain ⟨a, h1, h2, h3, h4, h5⟩ := ih
    refine ⟨';' :: a, by simp; exact h1, by simpa using h2, h3, by simp [isTrail, hw, h4], ?_⟩
    intro h; simp [isAtmos, hw, h5 h]
  | case4 c cs p hw hc =>
    refine ⟨[], by simp, by simp, ?_, by simp [isTrail], by simp [isAtmos]⟩
    simp [startsTok, hw, hc]
  | case5 c cs p hn ih =>
    obtain ⟨a, h1, h2, h3, h4, h5⟩ := ih
    have hw : isWs c = true := by
      simp only [Bool.or_eq_true, decide_eq_true_eq] at hn
      rcases hn with rfl | rfl <;> decide
    cases a with
    | nil =>
      simp only [List.nil_append] at h1
      rw [← h1] at h3
      simp [startsTok, hw] at h3
    | cons c' a =>
      simp only [List.cons_append, List.cons.injEq] at h1
      obtain ⟨rfl, h1⟩ := h1
      refine ⟨c :: a, by simp; exact h1, h2, h3, ?_, ?_⟩
      · simpa [isTrail, hw, hn] using h4
      · intro h; simpa [isAtmos, hw, hn] using h5 h
  | case6 c cs p hn ih =>
    obtain ⟨a, h1, h2, h3, h4, h5⟩ := ih
    refine ⟨c :: a, by simp; exact h1, by simpa using h2, h3, by simp [isTrail, hn, h4], ?_⟩
    intro h; simp [isAtmos, hn, h5 h]

end Ruschm.Text

/-
Property C05 — derived forms behave as R7RS specifies: the MEANING of each bundled derived form.

`C05Shapes.lean` says what each bundled rule of `grammar.sld` expands to (about the generated constant
`Gen.grammarData`). Here the expansion is followed through the parser's transformer (`Xform`) and the
evaluator: each theorem takes a derived form `(kw . rest)` = `.pair (.sym kw l₁) rest l` that the
transformer turned into the expression `e` (`XE env form e`) in a syntax environment with the bundled
forms (`StdSyn env`), names the expressions its sub-forms were turned into, and gives the evaluation
rules of `e` in terms of the evaluation of those: which are evaluated, in which order, in which frame,
and what the value is.

Vocabulary (`MeaningLemmas.lean`):
* `XE env d e` — the transformer turns datum `d` into expression `e` (leaving `env` unchanged).
  (Body forms of the lambdas the templates build are transformed in a fresh child scope, which gives
  the same expressions: `xe_child_iff`.)
* `Means σ ρ e v τ` — the MODEL (`evalExpr`, some fuel) evaluates `e` in store `σ`, frame `ρ`, to the
  value `v`; `τ` is the final store with the activation counters erased (`Store.erase`: `depth` and
  `maxDepth` are instrumentation). It is functional (`Means.unique`) and, by `C01.model_iff_ref_value`,
  the value judgement of the reference semantics. A rule "premises → `Means σ ρ e v τ`" therefore
  fixes the value and the final store whenever the premises hold; sub-expressions that do not occur in
  the premises are NOT evaluated (an evaluation of them could fail or change the store).
* `MeansSeq ρ σ es v τ` — the expressions `es` in order, the value of the last;
  `MeansList ρ σ es vs τ` — operands left to right; `MeansApply σ p args v τ` — procedure application.
* `σ.pushFrame ρ D` — `σ` with one more frame (number `σ.frames.size`), child of frame `ρ`, with the
  bindings `D`.
* `NoDefs env body` — no form of `body` is a definition (the templates put the body forms into a
  `lambda` body, where a leading definition would be an internal definition).
The templates are not hygienic: `temp`, `x`, `atom-key` are bound in a child frame in which the
user's remaining sub-forms are evaluated; the rules say so explicitly.
-/
import RuschmProofs.MeaningLemmas
import RuschmProofs.C11

namespace Ruschm.C05Meaning
open Ruschm Ruschm.Eval Ruschm.Xform Ruschm.Macro Ruschm.Meaning Ruschm.C05

/-! ## begin -/

/-- `(begin form₁ … formₙ)`: the forms are evaluated in order, in a fresh empty frame that is a child of
the current one, and the value is the value of the last. -/
theorem begin_meaning {env l₁ rest l body e} (hstd : StdSyn env) (hu : IsList rest body) (hne : body ≠ [])
    (hnd : NoDefs env body) (hx : XE env (.pair (.sym "begin" l₁) rest l) e) :
    ∃ bes, All2 (XE env) body bes ∧
      ∀ σ ρ v τ, MeansSeq σ.frames.size (σ.pushFrame ρ []) bes v τ → Means σ ρ e v τ := by
  have h₁ := hx.expand_inv hstd.std (by decide) (fun fuel hf => at_loc (begin_shape (isList_withLoc l hu) hne hf))
  obtain ⟨F, bes, aes, la, lb, hF, hbes, haes, rfl⟩ :=
    h₁.lambda_call_inv (isList_ofList _ _) (isList_ofList _ _) rfl hnd
  cases haes
  have := toFormals_list hF (isList_ofList l [])
  subst this
  exact ⟨bes, hbes, fun σ ρ v τ hb => Means.lambda_call (names := []) .nil hb.to_erase rfl⟩

open Ruschm.Macro.Ex in
set_option maxRecDepth 100000 in
/-- `(begin 1 2)` in the interpreter's syntax environment evaluates to `2` -/
example : ∃ e, XE [[], Interp.grammarScope] (lst [sy "begin", num 1, num 2]) e ∧ ∃ τ, Means {} 0 e (.num (.int 2)) τ := by
  have hx : ∃ e, XE [[], Interp.grammarScope] (lst [sy "begin", num 1, num 2]) e := ⟨_, 300, rfl⟩
  obtain ⟨e, hx⟩ := hx
  obtain ⟨bes, hb, rule⟩ := begin_meaning stdSyn_default (l₁ := none) (l := none) (rest := lst [num 1, num 2])
    (body := [num 1, num 2]) rfl (by simp) (by
      intro b hb
      simp only [List.mem_cons, List.mem_nil_iff, or_false] at hb
      rcases hb with rfl | rfl <;> exact not_def_prim) hx
  cases hb with
  | cons h₁ t =>
    cases t with
    | cons h₂ t₂ =>
      cases t₂
      have e₁ := h₁.prim_inv; have e₂ := h₂.prim_inv
      subst e₁ e₂
      exact ⟨e, hx, _, rule {} 0 _ _ (.cons (Means.prim rfl) (.one (Means.prim rfl)))⟩

/-! ## when, unless -/

/-- `(when test form₁ … formₙ)`: the test is evaluated once; if its value is not `#f` the forms are
evaluated in order (in a fresh empty child frame) and the value is the value of the last; if it is `#f`
NO form is evaluated — the store is the one the test left — and the model's value is `Void`. -/
theorem when_meaning {env l₁ rest l test body e} (hstd : StdSyn env) (hu : IsList rest (test :: body))
    (hne : body ≠ []) (hnd : NoDefs env body) (hx : XE env (.pair (.sym "when" l₁) rest l) e) :
    ∃ te bes, XE env test te ∧ All2 (XE env) body bes ∧
      ∀ σ ρ tv σ₁, Means σ ρ te tv σ₁ →
        (tv.truthy = true → ∀ v τ, MeansSeq σ₁.frames.size (σ₁.pushFrame ρ []) bes v τ → Means σ ρ e v τ) ∧
        (tv.truthy = false → Means σ ρ e .void σ₁) := by
  have h₁ := hx.expand_inv hstd.std (by decide) (fun fuel hf => at_loc (when_shape (isList_withLoc l hu) hne hf))
  obtain ⟨te, ce, lc, hte, hce, hcase⟩ := h₁.if_inv (isList_ofList _ _) rfl
  rcases hcase with ⟨_, rfl⟩ | ⟨a, r', ae, hr, _⟩
  · rw [built_eq] at hce
    obtain ⟨bes, hbes, rule⟩ := begin_meaning hstd (isList_ofList none body) hne hnd hce
    exact ⟨te, bes, hte, hbes, fun σ ρ tv σ₁ ht =>
      ⟨fun htv v τ hb => Means.cond_true ht htv (rule σ₁ ρ v τ hb), fun htv => Means.cond_void ht htv⟩⟩
  · cases hr

/-- `(unless test form₁ … formₙ)` (with `not` the native procedure): the test is evaluated once; if its
value is `#f` the forms are evaluated in order and the value is the value of the last; otherwise NO form
is evaluated and the model's value is `Void`. -/
theorem unless_meaning {env l₁ rest l test body e} (hstd : StdSyn env) (hu : IsList rest (test :: body))
    (hne : body ≠ []) (hnd : NoDefs env body) (hx : XE env (.pair (.sym "unless" l₁) rest l) e) :
    ∃ te bes, XE env test te ∧ All2 (XE env) body bes ∧
      ∀ σ ρ tv σ₁, σ.lookup ρ "not" = some (.builtin .not) → Means σ ρ te tv σ₁ →
        (tv.truthy = false → ∀ v τ, MeansSeq σ₁.frames.size (σ₁.pushFrame ρ []) bes v τ → Means σ ρ e v τ) ∧
        (tv.truthy = true → Means σ ρ e .void σ₁) := by
  have h₁ := hx.expand_inv hstd.std (by decide) (fun fuel hf => at_loc (unless_shape (isList_withLoc l hu) hne hf))
  obtain ⟨tne, ce, lc, htne, hce, hcase⟩ := h₁.if_inv (isList_ofList _ _) rfl
  rcases hcase with ⟨_, rfl⟩ | ⟨a, r', ae, hr, _⟩
  · obtain ⟨fe, aes, ln, hfe, haes, rfl⟩ := htne.call_inv (isList_ofList _ _)
      (by intro s l' hs; cases hs; exact ⟨by decide, hstd.not_⟩)
    have := hfe.sym_inv; subst this
    cases haes with
    | cons hte t =>
      cases t
      rename_i te
      rw [built_eq] at hce
      obtain ⟨bes, hbes, rule⟩ := begin_meaning hstd (isList_ofList none body) hne hnd hce
      refine ⟨te, bes, hte, hbes, fun σ ρ tv σ₁ hnot ht => ⟨fun htv v τ hb => ?_, fun htv => ?_⟩⟩
      · exact Means.cond_true (Means.not_call hnot ht) (by rw [htv]; rfl) (rule σ₁ ρ v τ hb)
      · exact Means.cond_void (Means.not_call hnot ht) (by rw [htv]; rfl)
  · cases hr

/-! ## and -/

/-- R7RS `and` on already transformed tests: left to right; the first `#f` is the value and ends the
evaluation; otherwise the value of the last test; `(and)` is `#t` -/
inductive AndMeans (ρ : Nat) : Store → List Expr → Value → Store → Prop
  | nil {σ} : AndMeans ρ σ [] (.bool true) σ.erase
  | one {σ t v τ} (h : Means σ ρ t v τ) : AndMeans ρ σ [t] v τ
  | stop {σ t t' ts tv σ₁} (h : Means σ ρ t tv σ₁) (htv : tv.truthy = false) :
      AndMeans ρ σ (t :: t' :: ts) (.bool false) σ₁
  | next {σ t t' ts tv σ₁ v τ} (h : Means σ ρ t tv σ₁) (htv : tv.truthy = true)
      (ht : AndMeans ρ σ₁ (t' :: ts) v τ) : AndMeans ρ σ (t :: t' :: ts) v τ

/-- `(and test₁ … testₙ)`: the tests are evaluated left to right in the current frame until one yields
`#f`, which is then the value (the later tests are NOT evaluated); if none does the value is the value
of the last test; `(and)` is `#t`. -/
theorem and_meaning {env} (hstd : StdSyn env) : ∀ (tests : List Datum) {l₁ rest l e}, IsList rest tests →
    XE env (.pair (.sym "and" l₁) rest l) e →
    ∃ tes, All2 (XE env) tests tes ∧ ∀ σ ρ v τ, AndMeans ρ σ tes v τ → Means σ ρ e v τ
  | [], l₁, rest, l, e, hu, hx => by
    have h₁ := hx.expand_inv hstd.std (by decide) (fun fuel hf => at_loc (and_empty_shape (isList_withLoc l hu) hf))
    have := h₁.prim_inv; subst this
    exact ⟨[], .nil, fun σ ρ v τ h => by cases h; exact Means.prim rfl⟩
  | [t], l₁, rest, l, e, hu, hx => by
    have h₁ := hx.expand_inv hstd.std (by decide) (fun fuel hf => at_loc (and_one_shape (isList_withLoc l hu) hf))
    exact ⟨[e], .cons h₁ .nil, fun σ ρ v τ h => by cases h; assumption⟩
  | t :: t' :: ts, l₁, rest, l, e, hu, hx => by
    have h₁ := hx.expand_inv hstd.std (by decide) (fun fuel hf =>
      at_loc (and_more_shape (test := t) (tests := t' :: ts) (isList_withLoc l hu) (by simp) hf))
    obtain ⟨te, ce, lc, hte, hce, hcase⟩ := h₁.if_inv (isList_ofList _ _) rfl
    rcases hcase with ⟨hr, _⟩ | ⟨a, r', ae, hr, hae, rfl⟩
    · cases hr
    · cases hr
      have := hae.prim_inv; subst this
      rw [built_eq] at hce
      obtain ⟨tes', hall, rule⟩ := and_meaning hstd (t' :: ts) (isList_ofList none _) hce
      refine ⟨te :: tes', .cons hte hall, fun σ ρ v τ h => ?_⟩
      cases hall with
      | cons _ _ =>
        cases h with
        | stop ht htv =>
          have := Means.cond_false (c := ce) (l := lc) ht htv (Means.prim (p := .bool false) (l := l) rfl)
          rwa [ht.erased] at this
        | next ht htv hrest => exact Means.cond_true ht htv (rule _ ρ v τ hrest)

open Ruschm.Macro.Ex in
set_option maxRecDepth 100000 in
/-- `(and 1 #f zz)` is `#f`; the unbound `zz` is not evaluated -/
example : ∃ e, XE [[], Interp.grammarScope] (lst [sy "and", num 1, .prim (.bool false) none, sy "zz"]) e ∧
    Means {} 0 e (.bool false) {} := by
  have hx : ∃ e, XE [[], Interp.grammarScope] (lst [sy "and", num 1, .prim (.bool false) none, sy "zz"]) e :=
    ⟨_, 300, rfl⟩
  obtain ⟨e, hx⟩ := hx
  obtain ⟨tes, hb, rule⟩ := and_meaning stdSyn_default [num 1, .prim (.bool false) none, sy "zz"]
    (l₁ := none) (l := none) (rest := lst [num 1, .prim (.bool false) none, sy "zz"]) rfl hx
  cases hb with
  | cons h₁ t =>
    cases t with
    | cons h₂ t₂ =>
      cases t₂ with
      | cons h₃ t₃ =>
        cases t₃
        have e₁ := h₁.prim_inv; have e₂ := h₂.prim_inv
        subst e₁ e₂
        exact ⟨e, hx, rule {} 0 _ _ (.next (Means.prim rfl) rfl (.stop (Means.prim rfl) rfl))⟩

/-! ## or -/

/-- R7RS `or` on already transformed tests, as the bundled (non-hygienic) template realises it: left to
right; the first value that is not `#f` is the value and ends the evaluation; each test after the first
is evaluated in a fresh child frame that binds `x` to the (false) value of the test before it, and that
frame stays in the store; `(or)` is `#f` -/
inductive OrMeans : Nat → Store → List Expr → Value → Store → Prop
  | nil {ρ σ} : OrMeans ρ σ [] (.bool false) σ.erase
  | one {ρ σ t v τ} (h : Means σ ρ t v τ) : OrMeans ρ σ [t] v τ
  | stop {ρ σ t t' ts tv σ₁} (h : Means σ ρ t tv σ₁) (htv : tv.truthy = true) :
      OrMeans ρ σ (t :: t' :: ts) tv (σ₁.pushFrame ρ [("x", tv)])
  | next {ρ σ t t' ts tv σ₁ v τ} (h : Means σ ρ t tv σ₁) (htv : tv.truthy = false)
      (ht : OrMeans σ₁.frames.size (σ₁.pushFrame ρ [("x", tv)]) (t' :: ts) v τ) : OrMeans ρ σ (t :: t' :: ts) v τ

/-- `(or test₁ … testₙ)`: the tests are evaluated left to right until one yields a value that is not
`#f`, which is then the value (the later tests are NOT evaluated); if none does the value is the value of
the last test; `(or)` is `#f`. -/
theorem or_meaning {env} (hstd : StdSyn env) : ∀ (tests : List Datum) {l₁ rest l e}, IsList rest tests →
    XE env (.pair (.sym "or" l₁) rest l) e →
    ∃ tes, All2 (XE env) tests tes ∧ ∀ σ ρ v τ, OrMeans ρ σ tes v τ → Means σ ρ e v τ
  | [], l₁, rest, l, e, hu, hx => by
    have h₁ := hx.expand_inv hstd.std (by decide) (fun fuel hf => at_loc (or_empty_shape (isList_withLoc l hu) hf))
    have := h₁.prim_inv; subst this
    exact ⟨[], .nil, fun σ ρ v τ h => by cases h; exact Means.prim rfl⟩
  | [t], l₁, rest, l, e, hu, hx => by
    have h₁ := hx.expand_inv hstd.std (by decide) (fun fuel hf => at_loc (or_one_shape (isList_withLoc l hu) hf))
    exact ⟨[e], .cons h₁ .nil, fun σ ρ v τ h => by cases h; assumption⟩
  | t :: t' :: ts, l₁, rest, l, e, hu, hx => by
    have h₁ := hx.expand_inv hstd.std (by decide) (fun fuel hf =>
      at_loc (or_more_shape (test := t) (tests := t' :: ts) (isList_withLoc l hu) (by simp) hf))
    obtain ⟨te, be, la, lb, hte, hbe, rfl⟩ := XE.let1_inv hstd.std h₁
    obtain ⟨xe, ce, lc, hxe, hce, hcase⟩ := hbe.if_inv (isList_ofList _ _) rfl
    rcases hcase with ⟨hr, _⟩ | ⟨a, r', ae, hr, hae, rfl⟩
    · cases hr
    · cases hr
      have := hxe.sym_inv; subst this
      have := hce.sym_inv; subst this
      rw [built_eq] at hae
      obtain ⟨tes', hall, rule⟩ := or_meaning hstd (t' :: ts) (isList_ofList none _) hae
      refine ⟨te :: tes', .cons hte hall, fun σ ρ v τ h => ?_⟩
      cases hall with
      | cons _ _ =>
        cases h with
        | @stop _ _ _ _ _ _ σ₁ ht htv =>
          refine Means.let1 ht ?_
          have hx : (σ₁.pushFrame ρ [("x", v)]).lookup σ₁.frames.size "x" = some v :=
            Store.lookup_pushFrame_here rfl
          have := Means.cond_true (a := some ae) (l := lc) (Means.sym (l := l) hx) htv (Means.sym (l := l)
            (σ := (σ₁.pushFrame ρ [("x", v)]).erase) (ρ := σ₁.frames.size) (by rw [Store.erase_lookup]; exact hx))
          rw [Store.erase_erase] at this
          rw [show (σ₁.pushFrame ρ [("x", v)]).erase = σ₁.pushFrame ρ [("x", v)] from by
            rw [erase_pushFrame, ht.erased]] at this
          exact this
        | @next _ _ _ _ _ tv₁ σ₁ _ _ ht htv hrest =>
          refine Means.let1 ht ?_
          have hx : (σ₁.pushFrame ρ [("x", tv₁)]).lookup σ₁.frames.size "x" = some tv₁ :=
            Store.lookup_pushFrame_here rfl
          exact Means.cond_false (Means.sym (l := l) hx) htv (means_erase.mpr (rule _ _ v τ hrest))

/-! ## let, let* -/

/-- `(let ((name₁ init₁) …) form₁ … formₙ)` (possibly without bindings): the initialisers are evaluated
left to right IN THE OUTER FRAME; then the forms are evaluated in order in a fresh frame, child of the
outer one, that binds the names to the values; the value is the value of the last form. -/
theorem let_meaning {env l₁ rest l bs bds nvs body e} (hstd : StdSyn env) (hu : IsList rest (bs :: body))
    (hbs : IsList bs bds) (hp : IsPairs bds nvs) (hne : body ≠ []) (hnd : NoDefs env body)
    (hx : XE env (.pair (.sym "let" l₁) rest l) e) :
    ∃ ves bes, All2 (XE env) (nvs.map (·.2)) ves ∧ All2 (XE env) body bes ∧
      ∀ σ ρ vs σ₁ v τ, MeansList ρ σ ves vs σ₁ →
        MeansSeq σ₁.frames.size (σ₁.pushFrame ρ (bindList [] (nvs.map fun nv => symName nv.1) vs)) bes v τ →
        Means σ ρ e v τ := by
  by_cases hnv : nvs = []
  · have hb : bds = [] := hp.nil_iff.2 hnv
    subst hb; subst hnv
    have h₁ := hx.expand_inv hstd.std (by decide) (fun fuel hf =>
      at_loc (let_empty_shape (isList_withLoc l hu) hbs hne hf))
    obtain ⟨F, bes, aes, la, lb, hF, hbes, haes, rfl⟩ :=
      h₁.lambda_call_inv (isList_ofList _ _) (isList_ofList _ _) rfl hnd
    cases haes
    have := toFormals_list hF (isList_ofList l [])
    subst this
    refine ⟨[], bes, .nil, hbes, fun σ ρ vs σ₁ v τ hl hb => ?_⟩
    exact Means.lambda_call (names := []) hl hb rfl
  · have h₁ := hx.expand_inv hstd.std (by decide) (fun fuel hf =>
      at_loc (let_shape (isList_withLoc l hu) hbs hp hnv hne hf))
    obtain ⟨F, bes, aes, la, lb, hF, hbes, haes, rfl⟩ :=
      h₁.lambda_call_inv (isList_ofList _ _) (isList_ofList _ _) rfl hnd
    have := toFormals_list hF (isList_ofList l (nvs.map (·.1)))
    subst this
    refine ⟨aes, bes, haes, hbes, fun σ ρ vs σ₁ v τ hl hb => ?_⟩
    have hlen : (List.map symName (nvs.map (·.1))).length = aes.length := by
      rw [← haes.length]; simp
    have hnames : List.map symName (nvs.map (·.1)) = nvs.map fun nv => symName nv.1 := by simp
    rw [hnames] at hlen ⊢
    exact Means.lambda_call hl hb hlen

/-- a binding `(name init)` and what it is transformed into -/
def XB (env : SynEnv) (nv : Datum × Datum) (b : String × Expr) : Prop := b.1 = symName nv.1 ∧ XE env nv.2 b.2

/-- R7RS `let*`: the bindings one after the other, each initialiser evaluated in the scope of the earlier
bindings (a fresh child frame per binding), then the body in the innermost frame -/
inductive LetStarMeans : Nat → Store → List (String × Expr) → List Expr → Value → Store → Prop
  | nil {ρ σ bes v τ} (h : MeansSeq σ.frames.size (σ.pushFrame ρ []) bes v τ) : LetStarMeans ρ σ [] bes v τ
  | one {ρ σ nm ve bes x σ₁ v τ} (h : Means σ ρ ve x σ₁)
      (hb : MeansSeq σ₁.frames.size (σ₁.pushFrame ρ [(nm, x)]) bes v τ) : LetStarMeans ρ σ [(nm, ve)] bes v τ
  | cons {ρ σ nm ve b₂ bs bes x σ₁ v τ} (h : Means σ ρ ve x σ₁)
      (ht : LetStarMeans σ₁.frames.size (σ₁.pushFrame ρ [(nm, x)]) (b₂ :: bs) bes v τ) :
      LetStarMeans ρ σ ((nm, ve) :: b₂ :: bs) bes v τ

/-- `(let* ((name₁ init₁) …) form₁ … formₙ)`: each initialiser is evaluated in the scope of the bindings
before it; the forms are evaluated in order in the scope of all of them; the value is the value of the
last form. -/
theorem letstar_meaning {env} (hstd : StdSyn env) {body : List Datum} (hne : body ≠ []) (hnd : NoDefs env body) :
    ∀ (nvs : List (Datum × Datum)) {l₁ rest l bs bds e}, IsList rest (bs :: body) → IsList bs bds →
    IsPairs bds nvs → XE env (.pair (.sym "let*" l₁) rest l) e →
    ∃ bnds bes, All2 (XB env) nvs bnds ∧ All2 (XE env) body bes ∧
      ∀ σ ρ v τ, LetStarMeans ρ σ bnds bes v τ → Means σ ρ e v τ
  | [], l₁, rest, l, bs, bds, e, hu, hbs, hp, hx => by
    cases hp
    have h₁ := hx.expand_inv hstd.std (by decide) (fun fuel hf =>
      at_loc (letstar_empty_shape (isList_withLoc l hu) hbs hne hf))
    rw [built_eq] at h₁
    obtain ⟨ves, bes, hves, hbes, rule⟩ := let_meaning (nvs := []) hstd (isList_ofList none _) (isList_ofList l [])
      .nil hne hnd h₁
    cases hves
    refine ⟨[], bes, .nil, hbes, fun σ ρ v τ h => ?_⟩
    cases h with
    | nil hb => exact rule σ ρ [] _ v τ .nil hb.to_erase
  | [nv], l₁, rest, l, bs, bds, e, hu, hbs, hp, hx => by
    cases hp with
    | cons hb hps =>
      cases hps
      have h₁ := hx.expand_inv hstd.std (by decide) (fun fuel hf =>
        at_loc (letstar_one_shape (isList_withLoc l hu) hbs hb hne hf))
      rw [built_eq] at h₁
      obtain ⟨ves, bes, hves, hbes, rule⟩ := let_meaning (nvs := [nv]) hstd (isList_ofList none _)
        (isList_ofList l [_]) (.cons (xy := nv) (isList_ofList _ _) .nil) hne hnd h₁
      cases hves with
      | cons hve t =>
        cases t
        rename_i ve
        refine ⟨[(symName nv.1, ve)], bes, .cons ⟨rfl, hve⟩ .nil, hbes, fun σ ρ v τ h => ?_⟩
        cases h with
        | one h hb => exact rule σ ρ [_] _ v τ (MeansList.one h) hb
  | nv :: nv₂ :: more, l₁, rest, l, bs, bds, e, hu, hbs, hp, hx => by
    cases hp with
    | cons hb hps =>
      have h₁ := hx.expand_inv hstd.std (by decide) (fun fuel hf =>
        at_loc (letstar_more_shape (isList_withLoc l hu) hbs hb hps (by simp) hne hf))
      obtain ⟨ve, be, la, lb, hve, hbe, rfl⟩ := XE.let1_inv hstd.std h₁
      rw [built_eq] at hbe
      obtain ⟨bnds, bes, hbnds, hbes, rule⟩ := letstar_meaning hstd hne hnd (nv₂ :: more)
        (isList_ofList none _) (isList_ofList _ _) (isPairs_built _ _) hbe
      refine ⟨(symName nv.1, ve) :: bnds, bes, .cons ⟨rfl, hve⟩ hbnds, hbes, fun σ ρ v τ h => ?_⟩
      cases hbnds with
      | cons _ _ =>
        cases h with
        | cons h ht => exact Means.let1 h (rule _ _ v τ ht)

/-! ## cond

One theorem per clause kind, for a clause that is the last one (`…_last`) and for a clause followed by
further clauses (`…_more`); in the latter the remaining clauses are the form `(cond clause₂ …)`, whose
expression `er` is characterised by the same theorems. Side conditions as in `C05Shapes.lean` (the rule
order of `grammar.sld`). `Ordinary env r`: the receiver datum, in operator position, makes a procedure
call (it is not the keyword of a core form or of a macro). -/

/-- the call `(receiver temp)` the `=>` templates build -/
theorem receiver_call {env loc r ce} (hce : XE env (L loc [r, S loc "temp"]) ce) (hr : Ordinary env r) :
    ∃ re, XE env r re ∧ ∀ σ ρ fv σ₂ x v τ, Means σ ρ re fv σ₂ → σ₂.lookup ρ "temp" = some x →
      MeansApply σ₂ fv [x] v τ → Means σ ρ ce v τ := by
  obtain ⟨re, aes, lc, hre, haes, rfl⟩ := hce.call_inv (isList_ofList _ _) hr
  cases haes with
  | cons ht t =>
    cases t
    have := ht.sym_inv; subst this
    refine ⟨re, hre, fun σ ρ fv σ₂ x v τ hf hl happ => ?_⟩
    have hs := Means.sym (l := loc) hl
    rw [hf.erased] at hs
    exact Means.call hf (MeansList.one hs) happ

/-- `(cond (else form₁ … formₙ))`: the forms in order (fresh empty child frame), value of the last -/
theorem cond_else_meaning {env l₁ rest l c el body e} (hstd : StdSyn env) (hu : IsList rest [c])
    (hc : IsList c (el :: body)) (he : isSym "else" el = true) (hne : body ≠ []) (hnd : NoDefs env body)
    (hx : XE env (.pair (.sym "cond" l₁) rest l) e) :
    ∃ bes, All2 (XE env) body bes ∧
      ∀ σ ρ v τ, MeansSeq σ.frames.size (σ.pushFrame ρ []) bes v τ → Means σ ρ e v τ := by
  have h₁ := hx.expand_inv hstd.std (by decide) (fun fuel hf =>
    at_loc (cond_else_shape (isList_withLoc l hu) hc he hne hf))
  rw [built_eq] at h₁
  exact begin_meaning hstd (isList_ofList none body) hne hnd h₁

/-- `(cond (test => receiver))`, the last clause: the test is evaluated once; its value is bound to
`temp` in a fresh child frame; if it is not `#f` the receiver EXPRESSION is evaluated (in that frame) and
the procedure it yields is applied to the value (of `temp`); if it is `#f` the receiver expression is NOT
evaluated and the model's value is `Void`. -/
theorem cond_arrow_last_meaning {env l₁ rest l c test a r e} (hstd : StdSyn env) (hu : IsList rest [c])
    (hc : IsList c [test, a, r]) (ha : isSym "=>" a = true) (hte : isSym "else" test = false)
    (hr : Ordinary env r) (hx : XE env (.pair (.sym "cond" l₁) rest l) e) :
    ∃ te re, XE env test te ∧ XE env r re ∧
      ∀ σ ρ tv σ₁, Means σ ρ te tv σ₁ →
        (tv.truthy = true → ∀ fv σ₂ x v τ, Means (σ₁.pushFrame ρ [("temp", tv)]) σ₁.frames.size re fv σ₂ →
          σ₂.lookup σ₁.frames.size "temp" = some x → MeansApply σ₂ fv [x] v τ → Means σ ρ e v τ) ∧
        (tv.truthy = false → Means σ ρ e .void (σ₁.pushFrame ρ [("temp", tv)])) := by
  have h₁ := hx.expand_inv hstd.std (by decide) (fun fuel hf =>
    at_loc (cond_arrow_shape (isList_withLoc l hu) hc ha hte hf))
  obtain ⟨te, be, la, lb, hte', hbe, rfl⟩ := XE.let1_inv hstd.std h₁
  obtain ⟨xe, ce, lc, hxe, hce, hcase⟩ := hbe.if_inv (isList_ofList _ _) rfl
  rcases hcase with ⟨_, rfl⟩ | ⟨_, _, _, hr', _⟩
  · have := hxe.sym_inv; subst this
    obtain ⟨re, hre, rule⟩ := receiver_call hce hr
    refine ⟨te, re, hte', hre, fun σ ρ tv σ₁ ht => ?_⟩
    have hl : (σ₁.pushFrame ρ [("temp", tv)]).lookup σ₁.frames.size "temp" = some tv :=
      Store.lookup_pushFrame_here rfl
    have her : (σ₁.pushFrame ρ [("temp", tv)]).erase = σ₁.pushFrame ρ [("temp", tv)] := by
      rw [erase_pushFrame, ht.erased]
    refine ⟨fun htv fv σ₂ x v τ hf hx' happ => Means.let1 ht ?_, fun htv => Means.let1 ht ?_⟩
    · exact Means.cond_true (Means.sym hl) htv (means_erase.mpr (rule _ _ fv σ₂ x v τ hf hx' happ))
    · have := Means.cond_void (c := ce) (l := lc) (Means.sym (l := l) hl) htv
      rwa [her] at this
  · cases hr'

/-- `(cond (test => receiver) clause₂ …)`: as above when the test's value is not `#f`; when it is `#f`
the receiver expression is NOT evaluated and the value is that of `(cond clause₂ …)`, evaluated in the
frame that binds `temp`. -/
theorem cond_arrow_more_meaning {env l₁ rest l c test a r clauses e} (hstd : StdSyn env)
    (hu : IsList rest (c :: clauses)) (hc : IsList c [test, a, r]) (ha : isSym "=>" a = true)
    (hcl : clauses ≠ []) (hr : Ordinary env r) (hx : XE env (.pair (.sym "cond" l₁) rest l) e) :
    ∃ te re er, XE env test te ∧ XE env r re ∧ XE env (.pair (.sym "cond" l) (Datum.ofList none clauses) l) er ∧
      ∀ σ ρ tv σ₁, Means σ ρ te tv σ₁ →
        (tv.truthy = true → ∀ fv σ₂ x v τ, Means (σ₁.pushFrame ρ [("temp", tv)]) σ₁.frames.size re fv σ₂ →
          σ₂.lookup σ₁.frames.size "temp" = some x → MeansApply σ₂ fv [x] v τ → Means σ ρ e v τ) ∧
        (tv.truthy = false → ∀ v τ, Means (σ₁.pushFrame ρ [("temp", tv)]) σ₁.frames.size er v τ →
          Means σ ρ e v τ) := by
  have h₁ := hx.expand_inv hstd.std (by decide) (fun fuel hf =>
    at_loc (cond_arrow_more_shape (isList_withLoc l hu) hc ha hcl hf))
  obtain ⟨te, be, la, lb, hte', hbe, rfl⟩ := XE.let1_inv hstd.std h₁
  obtain ⟨xe, ce, lc, hxe, hce, hcase⟩ := hbe.if_inv (isList_ofList _ _) rfl
  rcases hcase with ⟨hr', _⟩ | ⟨_, _, er, hr', her', rfl⟩
  · cases hr'
  · cases hr'
    have := hxe.sym_inv; subst this
    obtain ⟨re, hre, rule⟩ := receiver_call hce hr
    rw [built_eq] at her'
    refine ⟨te, re, er, hte', hre, her', fun σ ρ tv σ₁ ht => ?_⟩
    have hl : (σ₁.pushFrame ρ [("temp", tv)]).lookup σ₁.frames.size "temp" = some tv :=
      Store.lookup_pushFrame_here rfl
    refine ⟨fun htv fv σ₂ x v τ hf hx' happ => Means.let1 ht ?_, fun htv v τ hrest => Means.let1 ht ?_⟩
    · exact Means.cond_true (Means.sym hl) htv (means_erase.mpr (rule _ _ fv σ₂ x v τ hf hx' happ))
    · exact Means.cond_false (Means.sym (l := l) hl) htv (means_erase.mpr hrest)

/-- `(cond (test))`, the last clause: the value of the test -/
theorem cond_test_last_meaning {env l₁ rest l c test e} (hstd : StdSyn env) (hu : IsList rest [c])
    (hc : IsList c [test]) (hx : XE env (.pair (.sym "cond" l₁) rest l) e) : XE env test e :=
  hx.expand_inv hstd.std (by decide) (fun fuel hf => at_loc (cond_test_shape (isList_withLoc l hu) hc hf))

/-- `(cond (test) clause₂ …)`: the test is evaluated once and bound to `temp` in a fresh child frame; if
its value is not `#f` it is the value; otherwise the value is that of `(cond clause₂ …)`, evaluated in
that frame. -/
theorem cond_test_more_meaning {env l₁ rest l c test clauses e} (hstd : StdSyn env)
    (hu : IsList rest (c :: clauses)) (hc : IsList c [test]) (hcl : clauses ≠ [])
    (hx : XE env (.pair (.sym "cond" l₁) rest l) e) :
    ∃ te er, XE env test te ∧ XE env (.pair (.sym "cond" l) (Datum.ofList none clauses) l) er ∧
      ∀ σ ρ tv σ₁, Means σ ρ te tv σ₁ →
        (tv.truthy = true → Means σ ρ e tv (σ₁.pushFrame ρ [("temp", tv)])) ∧
        (tv.truthy = false → ∀ v τ, Means (σ₁.pushFrame ρ [("temp", tv)]) σ₁.frames.size er v τ →
          Means σ ρ e v τ) := by
  have h₁ := hx.expand_inv hstd.std (by decide) (fun fuel hf =>
    at_loc (cond_test_more_shape (isList_withLoc l hu) hc hcl hf))
  obtain ⟨te, be, la, lb, hte', hbe, rfl⟩ := XE.let1_inv hstd.std h₁
  obtain ⟨xe, ce, lc, hxe, hce, hcase⟩ := hbe.if_inv (isList_ofList _ _) rfl
  rcases hcase with ⟨hr', _⟩ | ⟨_, _, er, hr', her', rfl⟩
  · cases hr'
  · cases hr'
    have := hxe.sym_inv; subst this
    have := hce.sym_inv; subst this
    rw [built_eq] at her'
    refine ⟨te, er, hte', her', fun σ ρ tv σ₁ ht => ?_⟩
    have hl : (σ₁.pushFrame ρ [("temp", tv)]).lookup σ₁.frames.size "temp" = some tv :=
      Store.lookup_pushFrame_here rfl
    have her : (σ₁.pushFrame ρ [("temp", tv)]).erase = σ₁.pushFrame ρ [("temp", tv)] := by
      rw [erase_pushFrame, ht.erased]
    refine ⟨fun htv => Means.let1 ht ?_, fun htv v τ hrest => Means.let1 ht ?_⟩
    · have := Means.cond_true (a := some er) (l := lc) (Means.sym (l := l) hl) htv (Means.sym (l := l)
        (σ := (σ₁.pushFrame ρ [("temp", tv)]).erase) (ρ := σ₁.frames.size) (by rw [Store.erase_lookup]; exact hl))
      rwa [Store.erase_erase, her] at this
    · exact Means.cond_false (Means.sym (l := l) hl) htv (means_erase.mpr hrest)

/-- `(cond (test form₁ … formₙ))`, the last clause: the test once; if its value is not `#f` the forms in
order (fresh empty child frame), value of the last; otherwise NO form is evaluated and the model's value
is `Void`. -/
theorem cond_clause_last_meaning {env l₁ rest l c test body e} (hstd : StdSyn env) (hu : IsList rest [c])
    (hc : IsList c (test :: body)) (hne : body ≠ []) (hte : isSym "else" test = false)
    (hna : ∀ a r, body = [a, r] → isSym "=>" a = false) (hnd : NoDefs env body)
    (hx : XE env (.pair (.sym "cond" l₁) rest l) e) :
    ∃ te bes, XE env test te ∧ All2 (XE env) body bes ∧
      ∀ σ ρ tv σ₁, Means σ ρ te tv σ₁ →
        (tv.truthy = true → ∀ v τ, MeansSeq σ₁.frames.size (σ₁.pushFrame ρ []) bes v τ → Means σ ρ e v τ) ∧
        (tv.truthy = false → Means σ ρ e .void σ₁) := by
  have h₁ := hx.expand_inv hstd.std (by decide) (fun fuel hf =>
    at_loc (cond_normal_shape (isList_withLoc l hu) hc hne hte hna hf))
  obtain ⟨te, ce, lc, hte', hce, hcase⟩ := h₁.if_inv (isList_ofList _ _) rfl
  rcases hcase with ⟨_, rfl⟩ | ⟨_, _, _, hr', _⟩
  · rw [built_eq] at hce
    obtain ⟨bes, hbes, rule⟩ := begin_meaning hstd (isList_ofList none body) hne hnd hce
    exact ⟨te, bes, hte', hbes, fun σ ρ tv σ₁ ht =>
      ⟨fun htv v τ hb => Means.cond_true ht htv (rule σ₁ ρ v τ hb), fun htv => Means.cond_void ht htv⟩⟩
  · cases hr'

/-- `(cond (test form₁ … formₙ) clause₂ …)`: the test once; if its value is not `#f` the forms in order,
value of the last; otherwise NO form is evaluated and the value is that of `(cond clause₂ …)`, evaluated
in the same frame from the store the test left. -/
theorem cond_clause_more_meaning {env l₁ rest l c test body clauses e} (hstd : StdSyn env)
    (hu : IsList rest (c :: clauses)) (hc : IsList c (test :: body)) (hne : body ≠ []) (hcl : clauses ≠ [])
    (hna : ∀ a r, body = [a, r] → isSym "=>" a = false) (hnd : NoDefs env body)
    (hx : XE env (.pair (.sym "cond" l₁) rest l) e) :
    ∃ te bes er, XE env test te ∧ All2 (XE env) body bes ∧
      XE env (.pair (.sym "cond" l) (Datum.ofList none clauses) l) er ∧
      ∀ σ ρ tv σ₁, Means σ ρ te tv σ₁ →
        (tv.truthy = true → ∀ v τ, MeansSeq σ₁.frames.size (σ₁.pushFrame ρ []) bes v τ → Means σ ρ e v τ) ∧
        (tv.truthy = false → ∀ v τ, Means σ₁ ρ er v τ → Means σ ρ e v τ) := by
  have h₁ := hx.expand_inv hstd.std (by decide) (fun fuel hf =>
    at_loc (cond_normal_more_shape (isList_withLoc l hu) hc hne hcl hna hf))
  obtain ⟨te, ce, lc, hte', hce, hcase⟩ := h₁.if_inv (isList_ofList _ _) rfl
  rcases hcase with ⟨hr', _⟩ | ⟨_, _, er, hr', her', rfl⟩
  · cases hr'
  · cases hr'
    rw [built_eq] at hce her'
    obtain ⟨bes, hbes, rule⟩ := begin_meaning hstd (isList_ofList none body) hne hnd hce
    exact ⟨te, bes, er, hte', hbes, her', fun σ ρ tv σ₁ ht =>
      ⟨fun htv v τ hb => Means.cond_true ht htv (rule σ₁ ρ v τ hb),
       fun htv v τ hrest => Means.cond_false ht htv hrest⟩⟩

/-! ## case

A clause is selected by the VALUE OF `(memv key '(datum …))` — the templates call whatever `memv` (and,
for `=>` in a last clause, `null?` and `not`) is bound to; the rules below are parametric in those
bindings and in the results of applying them, so they assume nothing about the library. With the standard
`memv` of `(scheme base)` (`C11.memv_spec`) the value is the first sublist of the data whose `car` is
`eqv?` to the key, `#f` if there is none: selection by membership (`meansApply_memv_std`). -/

/-- the test `(memv key '(datum …))` -/
theorem memv_test {env loc key atoms ce} (hstd : StdSyn env)
    (hce : XE env (L loc [S loc "memv", key, L loc [S loc "quote", L loc atoms]]) ce) :
    ∃ kee, XE env key kee ∧ ∀ σ ρ mv kv σ₁ qv σ₂ m τ, σ.lookup ρ "memv" = some mv → Means σ ρ kee kv σ₁ →
      readLiteral σ₁ (L loc atoms) = (.ok qv, σ₂) → MeansApply σ₂ mv [kv, qv] m τ → Means σ ρ ce m τ := by
  obtain ⟨fe, aes, lc, hfe, haes, rfl⟩ := hce.call_inv (isList_ofList _ _)
    (by intro s l' hs; cases hs; exact ⟨by decide, hstd.memv⟩)
  have := hfe.sym_inv; subst this
  cases haes with
  | cons hk t =>
    cases t with
    | cons hq t' =>
      cases t'
      obtain ⟨lq, rfl⟩ := hq.quote_inv (isList_ofList _ _) rfl
      rename_i kee
      refine ⟨kee, hk, fun σ ρ mv kv σ₁ qv σ₂ m τ hl hkv hlit happ => ?_⟩
      have hq' := Means.quote (ρ := ρ) (l := lq) hlit
      refine Means.call (Means.sym hl) (.cons (means_erase.mpr hkv) (MeansList.one hq')) ?_
      exact meansApply_erase.mpr happ

/-- the call `(receiver key)` the `=>` templates of `case` build -/
theorem receiver_key_call {env loc r key ce} (hce : XE env (L loc [r, key]) ce) (hr : Ordinary env r) :
    ∃ re kee, XE env r re ∧ XE env key kee ∧ ∀ σ ρ fv σ₁ kv σ₂ v τ, Means σ ρ re fv σ₁ → Means σ₁ ρ kee kv σ₂ →
      MeansApply σ₂ fv [kv] v τ → Means σ ρ ce v τ := by
  obtain ⟨re, aes, lc, hre, haes, rfl⟩ := hce.call_inv (isList_ofList _ _) hr
  cases haes with
  | cons hk t =>
    cases t
    rename_i kee
    exact ⟨re, kee, hre, hk, fun σ ρ fv σ₁ kv σ₂ v τ hf hkv happ => Means.call hf (MeansList.one hkv) happ⟩

/-- `(case (operator operand …) clause …)` — a key that is a (non-empty) list, i.e. a call: the key is
evaluated EXACTLY ONCE, its value bound to `atom-key` in a fresh child frame, and the value is that of
`(case atom-key clause …)` evaluated in that frame. -/
theorem case_list_key_meaning {env l₁ rest l k keys clauses e} (hstd : StdSyn env)
    (hu : IsList rest (k :: clauses)) (hk : IsList k keys) (hkn : keys ≠ []) (hcl : clauses ≠ [])
    (hx : XE env (.pair (.sym "case" l₁) rest l) e) :
    ∃ ke er, XE env (L l keys) ke ∧
      XE env (.pair (.sym "case" l) (Datum.ofList none (S l "atom-key" :: clauses)) l) er ∧
      ∀ σ ρ kv σ₁ v τ, Means σ ρ ke kv σ₁ →
        Means (σ₁.pushFrame ρ [("atom-key", kv)]) σ₁.frames.size er v τ → Means σ ρ e v τ := by
  have h₁ := hx.expand_inv hstd.std (by decide) (fun fuel hf =>
    at_loc (case_list_key_shape (isList_withLoc l hu) hk hkn hcl hf))
  obtain ⟨ke, er, la, lb, hke, her, rfl⟩ := XE.let1_inv hstd.std h₁
  rw [built_eq] at her
  exact ⟨ke, er, hke, her, fun σ ρ kv σ₁ v τ hk' hr' => Means.let1 hk' hr'⟩

/-- `(case key (else => receiver))`: the receiver expression, then the key, then the application -/
theorem case_else_arrow_meaning {env l₁ rest l key c el a r e} (hstd : StdSyn env) (hu : IsList rest [key, c])
    (hc : IsList c [el, a, r]) (he : isSym "else" el = true) (ha : isSym "=>" a = true)
    (hk : ∀ ks, IsList key ks → ks = []) (hr : Ordinary env r) (hx : XE env (.pair (.sym "case" l₁) rest l) e) :
    ∃ re kee, XE env r re ∧ XE env key kee ∧ ∀ σ ρ fv σ₁ kv σ₂ v τ, Means σ ρ re fv σ₁ → Means σ₁ ρ kee kv σ₂ →
      MeansApply σ₂ fv [kv] v τ → Means σ ρ e v τ :=
  receiver_key_call (hx.expand_inv hstd.std (by decide) (fun fuel hf =>
    at_loc (case_else_arrow_shape (isList_withLoc l hu) hc he ha hk hf))) hr

/-- `(case key (else form₁ … formₙ))`: the forms in order (fresh empty child frame), value of the last;
the key is not evaluated -/
theorem case_else_meaning {env l₁ rest l key c el body e} (hstd : StdSyn env) (hu : IsList rest [key, c])
    (hc : IsList c (el :: body)) (he : isSym "else" el = true) (hne : body ≠ [])
    (hna : ∀ a r, body = [a, r] → isSym "=>" a = false) (hk : ∀ ks, IsList key ks → ks = [])
    (hnd : NoDefs env body) (hx : XE env (.pair (.sym "case" l₁) rest l) e) :
    ∃ bes, All2 (XE env) body bes ∧
      ∀ σ ρ v τ, MeansSeq σ.frames.size (σ.pushFrame ρ []) bes v τ → Means σ ρ e v τ := by
  have h₁ := hx.expand_inv hstd.std (by decide) (fun fuel hf =>
    at_loc (case_else_shape (isList_withLoc l hu) hc he hne hna hk hf))
  rw [built_eq] at h₁
  exact begin_meaning hstd (isList_ofList none body) hne hnd h₁

/-- `(case key ((datum …) form₁ … formₙ))`, the last clause: `memv`, the key (once), the quoted data,
the application of `memv`; if its value `m` is not `#f` the forms in order, value of the last; otherwise
NO form is evaluated and the model's value is `Void`. -/
theorem case_clause_last_meaning {env l₁ rest l key c as atoms body e} (hstd : StdSyn env)
    (hu : IsList rest [key, c]) (hc : IsList c (as :: body)) (has : IsList as atoms) (hat : atoms ≠ [])
    (hne : body ≠ []) (hna : ∀ a r, body = [a, r] → isSym "=>" a = false)
    (hk : ∀ ks, IsList key ks → ks = []) (hnd : NoDefs env body)
    (hx : XE env (.pair (.sym "case" l₁) rest l) e) :
    ∃ kee bes, XE env key kee ∧ All2 (XE env) body bes ∧
      ∀ σ ρ mv kv σ₁ qv σ₂ m σ₃, σ.lookup ρ "memv" = some mv → Means σ ρ kee kv σ₁ →
        readLiteral σ₁ (L l atoms) = (.ok qv, σ₂) → MeansApply σ₂ mv [kv, qv] m σ₃ →
        (m.truthy = true → ∀ v τ, MeansSeq σ₃.frames.size (σ₃.pushFrame ρ []) bes v τ → Means σ ρ e v τ) ∧
        (m.truthy = false → Means σ ρ e .void σ₃) := by
  have h₁ := hx.expand_inv hstd.std (by decide) (fun fuel hf =>
    at_loc (case_normal_shape (isList_withLoc l hu) hc has hat hne hna hk hf))
  obtain ⟨te, ce, lc, hte, hce, hcase⟩ := h₁.if_inv (isList_ofList _ _) rfl
  rcases hcase with ⟨_, rfl⟩ | ⟨_, _, _, hr', _⟩
  · obtain ⟨kee, hkee, trule⟩ := memv_test hstd hte
    rw [built_eq] at hce
    obtain ⟨bes, hbes, rule⟩ := begin_meaning hstd (isList_ofList none body) hne hnd hce
    exact ⟨kee, bes, hkee, hbes, fun σ ρ mv kv σ₁ qv σ₂ m σ₃ hl hkv hlit happ =>
      have ht := trule σ ρ mv kv σ₁ qv σ₂ m σ₃ hl hkv hlit happ
      ⟨fun hm v τ hb => Means.cond_true ht hm (rule σ₃ ρ v τ hb), fun hm => Means.cond_void ht hm⟩⟩
  · cases hr'

/-- `(case key ((datum …) form₁ … formₙ) clause₂ …)`: as above when `m` is not `#f`; when it is `#f` NO
form is evaluated and the value is that of `(case key clause₂ …)` (same frame, store after the test). -/
theorem case_clause_more_meaning {env l₁ rest l key c as atoms body clauses e} (hstd : StdSyn env)
    (hu : IsList rest (key :: c :: clauses)) (hc : IsList c (as :: body)) (has : IsList as atoms)
    (hat : atoms ≠ []) (hne : body ≠ []) (hcl : clauses ≠ [])
    (hna : ∀ a r, body = [a, r] → isSym "=>" a = false) (hk : ∀ ks, IsList key ks → ks = [])
    (hnd : NoDefs env body) (hx : XE env (.pair (.sym "case" l₁) rest l) e) :
    ∃ kee bes er, XE env key kee ∧ All2 (XE env) body bes ∧
      XE env (.pair (.sym "case" l) (Datum.ofList none (key :: clauses)) l) er ∧
      ∀ σ ρ mv kv σ₁ qv σ₂ m σ₃, σ.lookup ρ "memv" = some mv → Means σ ρ kee kv σ₁ →
        readLiteral σ₁ (L l atoms) = (.ok qv, σ₂) → MeansApply σ₂ mv [kv, qv] m σ₃ →
        (m.truthy = true → ∀ v τ, MeansSeq σ₃.frames.size (σ₃.pushFrame ρ []) bes v τ → Means σ ρ e v τ) ∧
        (m.truthy = false → ∀ v τ, Means σ₃ ρ er v τ → Means σ ρ e v τ) := by
  have h₁ := hx.expand_inv hstd.std (by decide) (fun fuel hf =>
    at_loc (case_normal_more_shape (isList_withLoc l hu) hc has hat hne hcl hna hk hf))
  obtain ⟨te, ce, lc, hte, hce, hcase⟩ := h₁.if_inv (isList_ofList _ _) rfl
  rcases hcase with ⟨hr', _⟩ | ⟨_, _, er, hr', her, rfl⟩
  · cases hr'
  · cases hr'
    obtain ⟨kee, hkee, trule⟩ := memv_test hstd hte
    rw [built_eq] at hce her
    obtain ⟨bes, hbes, rule⟩ := begin_meaning hstd (isList_ofList none body) hne hnd hce
    exact ⟨kee, bes, er, hkee, hbes, her, fun σ ρ mv kv σ₁ qv σ₂ m σ₃ hl hkv hlit happ =>
      have ht := trule σ ρ mv kv σ₁ qv σ₂ m σ₃ hl hkv hlit happ
      ⟨fun hm v τ hb => Means.cond_true ht hm (rule σ₃ ρ v τ hb),
       fun hm v τ hrest => Means.cond_false ht hm hrest⟩⟩

/-- `(case key ((datum …) => receiver) clause₂ …)`: the test as above; if `m` is not `#f` the receiver
expression is evaluated, then the key again, and the receiver is applied to the key's value; if `m` is
`#f` the receiver expression is NOT evaluated and the value is that of `(case key clause₂ …)`. -/
theorem case_arrow_more_meaning {env l₁ rest l key c as atoms a r clauses e} (hstd : StdSyn env)
    (hu : IsList rest (key :: c :: clauses)) (hc : IsList c [as, a, r]) (has : IsList as atoms)
    (hat : atoms ≠ []) (ha : isSym "=>" a = true) (hcl : clauses ≠ [])
    (hk : ∀ ks, IsList key ks → ks = []) (hr : Ordinary env r)
    (hx : XE env (.pair (.sym "case" l₁) rest l) e) :
    ∃ kee re kee' er, XE env key kee ∧ XE env r re ∧ XE env key kee' ∧
      XE env (.pair (.sym "case" l) (Datum.ofList none (key :: clauses)) l) er ∧
      ∀ σ ρ mv kv σ₁ qv σ₂ m σ₃, σ.lookup ρ "memv" = some mv → Means σ ρ kee kv σ₁ →
        readLiteral σ₁ (L l atoms) = (.ok qv, σ₂) → MeansApply σ₂ mv [kv, qv] m σ₃ →
        (m.truthy = true → ∀ fv σ₄ kv' σ₅ v τ, Means σ₃ ρ re fv σ₄ → Means σ₄ ρ kee' kv' σ₅ →
          MeansApply σ₅ fv [kv'] v τ → Means σ ρ e v τ) ∧
        (m.truthy = false → ∀ v τ, Means σ₃ ρ er v τ → Means σ ρ e v τ) := by
  have h₁ := hx.expand_inv hstd.std (by decide) (fun fuel hf =>
    at_loc (case_arrow_more_shape (isList_withLoc l hu) hc has hat ha hcl hk hf))
  obtain ⟨te, ce, lc, hte, hce, hcase⟩ := h₁.if_inv (isList_ofList _ _) rfl
  rcases hcase with ⟨hr', _⟩ | ⟨_, _, er, hr', her, rfl⟩
  · cases hr'
  · cases hr'
    obtain ⟨kee, hkee, trule⟩ := memv_test hstd hte
    obtain ⟨re, kee', hre, hkee', crule⟩ := receiver_key_call hce hr
    rw [built_eq] at her
    exact ⟨kee, re, kee', er, hkee, hre, hkee', her, fun σ ρ mv kv σ₁ qv σ₂ m σ₃ hl hkv hlit happ =>
      have ht := trule σ ρ mv kv σ₁ qv σ₂ m σ₃ hl hkv hlit happ
      ⟨fun hm fv σ₄ kv' σ₅ v τ hf hk' happ' => Means.cond_true ht hm (crule σ₃ ρ fv σ₄ kv' σ₅ v τ hf hk' happ'),
       fun hm v τ hrest => Means.cond_false ht hm hrest⟩⟩

/-- `(case key ((datum …) => receiver))`, the last clause: the template tests
`(not (null? (memv key '(datum …))))` — `not`, `null?`, `memv`, the key, the data, then the three
applications; if the final value `b` is not `#f` the receiver expression is evaluated, the key again, and
the receiver applied to it; otherwise the receiver expression is NOT evaluated and the model's value is
`Void`. -/
theorem case_arrow_last_meaning {env l₁ rest l key c as atoms a r e} (hstd : StdSyn env)
    (hu : IsList rest [key, c]) (hc : IsList c [as, a, r]) (has : IsList as atoms) (hat : atoms ≠ [])
    (ha : isSym "=>" a = true) (hk : ∀ ks, IsList key ks → ks = []) (hr : Ordinary env r)
    (hx : XE env (.pair (.sym "case" l₁) rest l) e) :
    ∃ kee re kee', XE env key kee ∧ XE env r re ∧ XE env key kee' ∧
      ∀ σ ρ nv nl mv kv σ₁ qv σ₂ m σ₃ n σ₄ b σ₅, σ.lookup ρ "not" = some nv → σ.lookup ρ "null?" = some nl →
        σ.lookup ρ "memv" = some mv → Means σ ρ kee kv σ₁ → readLiteral σ₁ (L l atoms) = (.ok qv, σ₂) →
        MeansApply σ₂ mv [kv, qv] m σ₃ → MeansApply σ₃ nl [m] n σ₄ → MeansApply σ₄ nv [n] b σ₅ →
        (b.truthy = true → ∀ fv σ₆ kv' σ₇ v τ, Means σ₅ ρ re fv σ₆ → Means σ₆ ρ kee' kv' σ₇ →
          MeansApply σ₇ fv [kv'] v τ → Means σ ρ e v τ) ∧
        (b.truthy = false → Means σ ρ e .void σ₅) := by
  have h₁ := hx.expand_inv hstd.std (by decide) (fun fuel hf =>
    at_loc (case_arrow_shape (isList_withLoc l hu) hc has hat ha hk hf))
  obtain ⟨te, ce, lc, hte, hce, hcase⟩ := h₁.if_inv (isList_ofList _ _) rfl
  rcases hcase with ⟨_, rfl⟩ | ⟨_, _, _, hr', _⟩
  · -- `(not (null? (memv …)))`
    obtain ⟨fn, an, ln, hfn, han, rfl⟩ := hte.call_inv (isList_ofList _ _)
      (by intro s l' hs; cases hs; exact ⟨by decide, hstd.not_⟩)
    have := hfn.sym_inv; subst this
    cases han with
    | cons hnl t =>
      cases t
      obtain ⟨fl, al, ll, hfl, hal, rfl⟩ := hnl.call_inv (isList_ofList _ _)
        (by intro s l' hs; cases hs; exact ⟨by decide, hstd.null⟩)
      have := hfl.sym_inv; subst this
      cases hal with
      | cons hmv t' =>
        cases t'
        obtain ⟨kee, hkee, trule⟩ := memv_test hstd hmv
        obtain ⟨re, kee', hre, hkee', crule⟩ := receiver_key_call hce hr
        refine ⟨kee, re, kee', hkee, hre, hkee', fun σ ρ nv nl mv kv σ₁ qv σ₂ m σ₃ n σ₄ b σ₅ hnot hnull hmemv hkv hlit
          hm hn hb => ?_⟩
        have hme : Means σ.erase ρ _ m σ₃ := means_erase.mpr
          (trule σ ρ mv kv σ₁ qv σ₂ m σ₃ hmemv hkv hlit hm)
        have hne' : Means σ.erase ρ _ n σ₄ :=
          Means.call (l := ll) (Means.sym (l := l) (by rw [Store.erase_lookup]; exact hnull))
            (MeansList.one (means_erase.mpr hme)) hn
        have hbe : Means σ ρ _ b σ₅ :=
          Means.call (l := ln) (Means.sym (l := l) hnot) (MeansList.one hne') hb
        exact ⟨fun htv fv σ₆ kv' σ₇ v τ hf hk' happ =>
          Means.cond_true hbe htv (crule σ₅ ρ fv σ₆ kv' σ₇ v τ hf hk' happ),
          fun htv => Means.cond_void hbe htv⟩
  · cases hr'

/-! ## non-vacuity

Every theorem is instantiated on a concrete form that the REAL transformer turns into an expression
in the interpreter's own syntax environment `[[], Interp.grammarScope]` (`stdSyn_default`); for some the
rule is then used to evaluate the expression. `xe_of d` runs the transformer on `d`. -/

section Examples
open Ruschm.Macro.Ex

/-- `f`, `zz` in operator position make ordinary calls in the interpreter's syntax environment -/
theorem ordinary_sym (s : String) (h₁ : s ∉ coreKeywords) (h₂ : SynEnv.get? [[], Interp.grammarScope] s = none) :
    Ordinary [[], Interp.grammarScope] (sy s) := by
  intro s' l h; cases h; exact ⟨h₁, h₂⟩

local macro "xe_of " d:term : term => `((⟨_, 300, rfl⟩ : ∃ e, XE [[], Interp.grammarScope] $d e))

set_option maxRecDepth 100000

/-- `when_meaning`, `unless_meaning` on `(when t 1 2)`, `(unless t 1)` -/
example : True := by
  obtain ⟨e, hx⟩ := xe_of (lst [sy "when", sy "t", num 1, num 2])
  have := when_meaning stdSyn_default (l₁ := none) (l := none) (rest := lst [sy "t", num 1, num 2]) (test := sy "t")
    (body := [num 1, num 2]) rfl (by simp) (noDefs_atoms rfl) hx
  obtain ⟨e', hx'⟩ := xe_of (lst [sy "unless", sy "t", num 1])
  have := unless_meaning stdSyn_default (l₁ := none) (l := none) (rest := lst [sy "t", num 1]) (test := sy "t")
    (body := [num 1]) rfl (by simp) (noDefs_atoms rfl) hx'
  trivial

/-- `or_meaning`: `(or #f 2 zz)` is `2`; the unbound `zz` is not evaluated -/
example : ∃ e, XE [[], Interp.grammarScope] (lst [sy "or", .prim (.bool false) none, num 2, sy "zz"]) e ∧
    ∃ τ, Means {} 0 e (.num (.int 2)) τ := by
  obtain ⟨e, hx⟩ := xe_of (lst [sy "or", .prim (.bool false) none, num 2, sy "zz"])
  obtain ⟨tes, hb, rule⟩ := or_meaning stdSyn_default [.prim (.bool false) none, num 2, sy "zz"]
    (l₁ := none) (l := none) (rest := lst [.prim (.bool false) none, num 2, sy "zz"]) rfl hx
  cases hb with
  | cons h₁ t =>
    cases t with
    | cons h₂ t₂ =>
      cases t₂ with
      | cons h₃ t₃ =>
        cases t₃
        have e₁ := h₁.prim_inv; have e₂ := h₂.prim_inv
        subst e₁ e₂
        exact ⟨e, hx, _, rule {} 0 _ _ (.next (Means.prim rfl) rfl (.stop (Means.prim rfl) rfl))⟩

/-- `let_meaning` on `(let ((a 1) (b 2)) a)`: the value is `1` -/
example : ∃ e, XE [[], Interp.grammarScope] (lst [sy "let", lst [lst [sy "a", num 1], lst [sy "b", num 2]], sy "a"]) e ∧
    ∃ τ, Means {} 0 e (.num (.int 1)) τ := by
  obtain ⟨e, hx⟩ := xe_of (lst [sy "let", lst [lst [sy "a", num 1], lst [sy "b", num 2]], sy "a"])
  obtain ⟨ves, bes, hv, hb, rule⟩ := let_meaning stdSyn_default (l₁ := none) (l := none)
    (rest := lst [lst [lst [sy "a", num 1], lst [sy "b", num 2]], sy "a"])
    (bs := lst [lst [sy "a", num 1], lst [sy "b", num 2]]) (bds := [lst [sy "a", num 1], lst [sy "b", num 2]])
    (nvs := [(sy "a", num 1), (sy "b", num 2)]) (body := [sy "a"]) rfl rfl (.cons rfl (.cons rfl .nil)) (by simp)
    (noDefs_atoms rfl) hx
  cases hv with
  | cons h₁ t =>
    cases t with
    | cons h₂ t₂ =>
      cases t₂
      cases hb with
      | cons h₃ t₃ =>
        cases t₃
        have e₁ := h₁.prim_inv; have e₂ := h₂.prim_inv; have e₃ := h₃.sym_inv
        subst e₁ e₂ e₃
        exact ⟨e, hx, _, rule {} 0 [.num (.int 1), .num (.int 2)] _ _ _
          (.cons (Means.prim rfl) (MeansList.one (Means.prim rfl)))
          (.one (Means.sym (Store.lookup_pushFrame_here rfl)))⟩

/-- `letstar_meaning` on `(let* ((a 1) (b a)) b)`: `b`'s initialiser sees `a`; the value is `1` -/
example : ∃ e, XE [[], Interp.grammarScope] (lst [sy "let*", lst [lst [sy "a", num 1], lst [sy "b", sy "a"]], sy "b"]) e ∧
    ∃ τ, Means {} 0 e (.num (.int 1)) τ := by
  obtain ⟨e, hx⟩ := xe_of (lst [sy "let*", lst [lst [sy "a", num 1], lst [sy "b", sy "a"]], sy "b"])
  obtain ⟨bnds, bes, hv, hb, rule⟩ := letstar_meaning stdSyn_default (body := [sy "b"]) (by simp) (noDefs_atoms rfl)
    [(sy "a", num 1), (sy "b", sy "a")] (l₁ := none) (l := none)
    (rest := lst [lst [lst [sy "a", num 1], lst [sy "b", sy "a"]], sy "b"])
    (bs := lst [lst [sy "a", num 1], lst [sy "b", sy "a"]]) (bds := [lst [sy "a", num 1], lst [sy "b", sy "a"]])
    rfl rfl (.cons rfl (.cons rfl .nil)) hx
  cases hv with
  | cons h₁ t =>
    cases t with
    | cons h₂ t₂ =>
      cases t₂
      cases hb with
      | cons h₃ t₃ =>
        cases t₃
        rename_i b₁ b₂ be
        obtain ⟨n₁, ve₁⟩ := b₁; obtain ⟨n₂, ve₂⟩ := b₂
        obtain ⟨hn₁, hx₁⟩ := h₁; obtain ⟨hn₂, hx₂⟩ := h₂
        simp only at hn₁ hn₂ hx₁ hx₂
        have e₁ := hx₁.prim_inv; have e₂ := hx₂.sym_inv; have e₃ := h₃.sym_inv
        subst e₁ e₂ e₃ hn₁ hn₂
        refine ⟨e, hx, _, rule {} 0 _ _ (.cons (Means.prim rfl) (.one (Means.sym (v := .num (.int 1)) ?_)
          (.one (Means.sym (v := .num (.int 1)) ?_))))⟩
        · exact Store.lookup_pushFrame_here rfl
        · exact Store.lookup_pushFrame_here rfl

/-- `cond_arrow_more_meaning` + `cond_else_meaning`: `(cond (#f => zz) (else 7))` is `7` — the receiver
expression `zz` (unbound: evaluating it would be an error) is NOT evaluated when the test is false -/
example : ∃ e, XE [[], Interp.grammarScope]
      (lst [sy "cond", lst [.prim (.bool false) none, sy "=>", sy "zz"], lst [sy "else", num 7]]) e ∧
    ∃ τ, Means {} 0 e (.num (.int 7)) τ := by
  obtain ⟨e, hx⟩ := xe_of (lst [sy "cond", lst [.prim (.bool false) none, sy "=>", sy "zz"], lst [sy "else", num 7]])
  obtain ⟨te, re, er, hte, _, her, rule⟩ := cond_arrow_more_meaning stdSyn_default (l₁ := none) (l := none)
    (rest := lst [lst [.prim (.bool false) none, sy "=>", sy "zz"], lst [sy "else", num 7]])
    (c := lst [.prim (.bool false) none, sy "=>", sy "zz"]) (test := .prim (.bool false) none) (a := sy "=>")
    (r := sy "zz") (clauses := [lst [sy "else", num 7]]) rfl rfl rfl (by simp)
    (ordinary_sym "zz" (by decide) (by rfl)) hx
  obtain ⟨bes, hb, rule₂⟩ := cond_else_meaning stdSyn_default (l₁ := none) (l := none)
    (rest := Datum.ofList none [lst [sy "else", num 7]]) (c := lst [sy "else", num 7]) (el := sy "else")
    (body := [num 7]) rfl rfl rfl (by simp) (noDefs_atoms rfl) her
  have e₁ := hte.prim_inv; subst e₁
  cases hb with
  | cons h₁ t =>
    cases t
    have e₂ := h₁.prim_inv; subst e₂
    exact ⟨e, hx, _, (rule {} 0 (.bool false) _ (Means.prim rfl)).2 rfl _ _
      (rule₂ _ _ _ _ (.one (Means.prim rfl)))⟩

/-- the other `cond` theorems on `(cond (t => f))`, `(cond (t))`, `(cond (t) (else 1))`, `(cond (t 1 2))`,
`(cond (t 1) (else 2))` -/
example : True := by
  obtain ⟨e₁, hx₁⟩ := xe_of (lst [sy "cond", lst [sy "t", sy "=>", sy "f"]])
  have := cond_arrow_last_meaning stdSyn_default (l₁ := none) (l := none) (rest := lst [lst [sy "t", sy "=>", sy "f"]])
    (c := lst [sy "t", sy "=>", sy "f"]) (test := sy "t") (a := sy "=>") (r := sy "f") rfl rfl rfl rfl
    (ordinary_sym "f" (by decide) (by rfl)) hx₁
  obtain ⟨e₂, hx₂⟩ := xe_of (lst [sy "cond", lst [sy "t"]])
  have := cond_test_last_meaning stdSyn_default (l₁ := none) (l := none) (rest := lst [lst [sy "t"]])
    (c := lst [sy "t"]) (test := sy "t") rfl rfl hx₂
  obtain ⟨e₃, hx₃⟩ := xe_of (lst [sy "cond", lst [sy "t"], lst [sy "else", num 1]])
  have := cond_test_more_meaning stdSyn_default (l₁ := none) (l := none)
    (rest := lst [lst [sy "t"], lst [sy "else", num 1]]) (c := lst [sy "t"]) (test := sy "t")
    (clauses := [lst [sy "else", num 1]]) rfl rfl (by simp) hx₃
  obtain ⟨e₄, hx₄⟩ := xe_of (lst [sy "cond", lst [sy "t", num 1, num 2]])
  have := cond_clause_last_meaning stdSyn_default (l₁ := none) (l := none) (rest := lst [lst [sy "t", num 1, num 2]])
    (c := lst [sy "t", num 1, num 2]) (test := sy "t") (body := [num 1, num 2]) rfl rfl (by simp) rfl
    (by intro a r h; cases h; rfl) (noDefs_atoms rfl) hx₄
  obtain ⟨e₅, hx₅⟩ := xe_of (lst [sy "cond", lst [sy "t", num 1], lst [sy "else", num 2]])
  have := cond_clause_more_meaning stdSyn_default (l₁ := none) (l := none)
    (rest := lst [lst [sy "t", num 1], lst [sy "else", num 2]]) (c := lst [sy "t", num 1]) (test := sy "t")
    (body := [num 1]) (clauses := [lst [sy "else", num 2]]) rfl rfl (by simp) (by simp)
    (by intro a r h; cases h) (noDefs_atoms rfl) hx₅
  trivial

/-- the key of a `case` that is a literal or a variable is not a list -/
theorem not_list_of_atom {key : Datum} (h : isAtom key = true) : ∀ ks, IsList key ks → ks = [] := by
  intro ks hk; cases key <;> simp_all [isAtom, IsList, Datum.spine]

/-- the `case` theorems on `(case (f x) ((1) 2))`, `(case k (else => f))`, `(case k (else 1))`,
`(case k ((1 2) 3))`, `(case k ((1) => f) (else 4))`, `(case k ((1) => f))` -/
example : True := by
  obtain ⟨e₁, hx₁⟩ := xe_of (lst [sy "case", lst [sy "f", sy "x"], lst [lst [num 1], num 2]])
  have := case_list_key_meaning stdSyn_default (l₁ := none) (l := none)
    (rest := lst [lst [sy "f", sy "x"], lst [lst [num 1], num 2]]) (k := lst [sy "f", sy "x"])
    (keys := [sy "f", sy "x"]) (clauses := [lst [lst [num 1], num 2]]) rfl rfl (by simp) (by simp) hx₁
  obtain ⟨e₂, hx₂⟩ := xe_of (lst [sy "case", sy "k", lst [sy "else", sy "=>", sy "f"]])
  have := case_else_arrow_meaning stdSyn_default (l₁ := none) (l := none)
    (rest := lst [sy "k", lst [sy "else", sy "=>", sy "f"]]) (key := sy "k") (c := lst [sy "else", sy "=>", sy "f"])
    (el := sy "else") (a := sy "=>") (r := sy "f") rfl rfl rfl rfl (not_list_of_atom rfl)
    (ordinary_sym "f" (by decide) (by rfl)) hx₂
  obtain ⟨e₃, hx₃⟩ := xe_of (lst [sy "case", sy "k", lst [sy "else", num 1]])
  have := case_else_meaning stdSyn_default (l₁ := none) (l := none) (rest := lst [sy "k", lst [sy "else", num 1]])
    (key := sy "k") (c := lst [sy "else", num 1]) (el := sy "else") (body := [num 1]) rfl rfl rfl (by simp)
    (by intro a r h; cases h) (not_list_of_atom rfl) (noDefs_atoms rfl) hx₃
  obtain ⟨e₄, hx₄⟩ := xe_of (lst [sy "case", sy "k", lst [lst [num 1, num 2], num 3]])
  have := case_clause_last_meaning stdSyn_default (l₁ := none) (l := none)
    (rest := lst [sy "k", lst [lst [num 1, num 2], num 3]]) (key := sy "k") (c := lst [lst [num 1, num 2], num 3])
    (as := lst [num 1, num 2]) (atoms := [num 1, num 2]) (body := [num 3]) rfl rfl rfl (by simp) (by simp)
    (by intro a r h; cases h) (not_list_of_atom rfl) (noDefs_atoms rfl) hx₄
  obtain ⟨e₅, hx₅⟩ := xe_of (lst [sy "case", sy "k", lst [lst [num 1], sy "=>", sy "f"], lst [sy "else", num 4]])
  have := case_arrow_more_meaning stdSyn_default (l₁ := none) (l := none)
    (rest := lst [sy "k", lst [lst [num 1], sy "=>", sy "f"], lst [sy "else", num 4]]) (key := sy "k")
    (c := lst [lst [num 1], sy "=>", sy "f"]) (as := lst [num 1]) (atoms := [num 1]) (a := sy "=>") (r := sy "f")
    (clauses := [lst [sy "else", num 4]]) rfl rfl rfl (by simp) rfl (by simp) (not_list_of_atom rfl)
    (ordinary_sym "f" (by decide) (by rfl)) hx₅
  obtain ⟨e₆, hx₆⟩ := xe_of (lst [sy "case", sy "k", lst [lst [num 1], sy "=>", sy "f"]])
  have := case_arrow_last_meaning stdSyn_default (l₁ := none) (l := none)
    (rest := lst [sy "k", lst [lst [num 1], sy "=>", sy "f"]]) (key := sy "k")
    (c := lst [lst [num 1], sy "=>", sy "f"]) (as := lst [num 1]) (atoms := [num 1]) (a := sy "=>") (r := sy "f")
    rfl rfl rfl (by simp) rfl (not_list_of_atom rfl) (ordinary_sym "f" (by decide) (by rfl)) hx₆
  trivial

open Ruschm.ListLib Ruschm.ListSpec in
/-- with the `memv` of `(scheme base)`: the value is `memS key lst` — the first sublist whose `car` is
`eqv?` to the key, `#f` if the (proper) list has none: a `case` clause is selected by membership -/
theorem meansApply_memv_std {σ b k lst m} (h : LibFrame σ b) (hm : memS k lst = .ok m) :
    ∃ τ, MeansApply σ (libProc "memv" b) [k, lst] m τ := by
  have h' : LibFrame (enter σ) b := ⟨h.frame⟩
  obtain ⟨σ', happ, _⟩ := C11.memv_spec h' k lst 0
  rw [hm] at happ
  exact ⟨_, MeansApply.of_applies happ⟩

open Ruschm.ListLib Ruschm.ListSpec in
/-- `case_clause_more_meaning` with the library's `memv` (the store `libStore` whose frame 0 holds the
bindings of `(scheme base)`): `(case 2 ((1 2) 3) (else 4))` is `3` -/
example : ∃ e, XE [[], Interp.grammarScope]
      (lst [sy "case", num 2, lst [lst [num 1, num 2], num 3], lst [sy "else", num 4]]) e ∧
    ∃ τ, Means libStore 0 e (.num (.int 3)) τ := by
  obtain ⟨e, hx⟩ := xe_of (lst [sy "case", num 2, lst [lst [num 1, num 2], num 3], lst [sy "else", num 4]])
  obtain ⟨kee, bes, er, hk, hb, _, rule⟩ := case_clause_more_meaning stdSyn_default (l₁ := none) (l := none)
    (rest := lst [num 2, lst [lst [num 1, num 2], num 3], lst [sy "else", num 4]]) (key := num 2)
    (c := lst [lst [num 1, num 2], num 3]) (as := lst [num 1, num 2]) (atoms := [num 1, num 2]) (body := [num 3])
    (clauses := [lst [sy "else", num 4]]) rfl rfl rfl (by simp) (by simp) (by simp)
    (by intro a r h; cases h) (not_list_of_atom rfl) (noDefs_atoms rfl) hx
  have e₁ := hk.prim_inv; subst e₁
  cases hb with
  | cons h₁ t =>
    cases t
    have e₂ := h₁.prim_inv; subst e₂
    have hlib : LibFrame libStore.erase 0 := ⟨libFrame_libStore.frame⟩
    obtain ⟨σ₃, happ⟩ := meansApply_memv_std (k := .num (.int 2))
      (lst := .pair (.num (.int 1)) (.pair (.num (.int 2)) .nil)) (m := .pair (.num (.int 2)) .nil) hlib rfl
    obtain ⟨f, hf, _, hdefs, _⟩ := libFrame_libStore.frame
    have hmv : libStore.lookup 0 "memv" = some (libProc "memv" 0) :=
      Store.lookup_here hf (hdefs "memv" (by decide))
    exact ⟨e, hx, _, (rule libStore 0 _ _ _ _ _ _ σ₃ hmv (Means.prim rfl) rfl happ).1 rfl _ _
      (.one (Means.prim rfl))⟩

/-- THE HYPOTHESES ARE THOSE OF THE INTERPRETER. Syntax: the syntax environment of `Interpreter::default()`
(and of `new_with_stdlib()`, which only imports) is `[[], Interp.grammarScope]`, for which `StdSyn` holds.
Store: in a frame that holds the bindings of `(scheme base)` (`LibFrame`; `C11.libFrame_of_evalLibraryDef`
shows that instantiating the generated `base.sld` builds such a frame) `not` is the native procedure and
`memv`, `null?` are the library's closures, whose standard behaviour is `C11.memv_spec` / `C11.null_spec`. -/
example : StdSyn (Interp.default_ false).syn ∧ StdSyn (Interp.default_ true).syn ∧
    Ruschm.ListLib.libStore.lookup 0 "not" = some (.builtin .not) ∧
    Ruschm.ListLib.libStore.lookup 0 "memv" = some (Ruschm.ListLib.libProc "memv" 0) ∧
    Ruschm.ListLib.libStore.lookup 0 "null?" = some (Ruschm.ListLib.libProc "null?" 0) ∧
    Ruschm.ListLib.LibFrame Ruschm.ListLib.libStore 0 := by
  obtain ⟨f, hf, _, hdefs, hnat⟩ := Ruschm.ListLib.libFrame_libStore.frame
  exact ⟨stdSyn_default, stdSyn_default, Store.lookup_here hf (hnat .not (by decide)),
    Store.lookup_here hf (hdefs "memv" (by decide)), Store.lookup_here hf (hdefs "null?" (by decide)),
    Ruschm.ListLib.libFrame_libStore⟩

end Examples
end Ruschm.C05Meaning

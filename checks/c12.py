"""C12 — import sets bind exactly the names the import-set algebra yields.
Theorems: lean/RuschmProofs/C12.lean (evalImportSet = the declarative denotation for every term;
rename is simultaneous; only after rename uses the new names; several sets give the union;
independence of the export-list order for admissible declarations). Tie: every import-set term of
depth <= 2 over a 4-export native library (all subsets for only/except, renamings into exported and
fresh names incl. swaps and chains, two prefixes), and two-set declarations, on the real interpreter
(in 3 separate processes: different HashMap seeds) and on the model. Oracle on the implementation
alone: an independent Python implementation of the import-set algebra."""
import itertools, random
from . import common as C, progrun as R

PROP = "C12"
MODULES = ["RuschmProofs.C12", "RuschmProofs.C12More", "RuschmProofs.C12Seq"]
EXPORTS = {"a": 1, "b": 2, "c": 3, "d": 4}
NAMES = ["a", "b", "c", "d"]


def operators():
    ops = []
    for k in range(0, 5):
        for sub in itertools.combinations(NAMES + ["zz"], k):
            if k <= 3:
                ops.append(("only", list(sub)))
                ops.append(("except", list(sub)))
    for p in ["p-", "q"]:
        ops.append(("prefix", p))
    ren_targets = NAMES + ["x", "y"]
    for a in NAMES:
        for t in ren_targets:
            if t != a:
                ops.append(("rename", [(a, t)]))
    ops.append(("rename", [("a", "b"), ("b", "a")]))
    ops.append(("rename", [("a", "b"), ("b", "c"), ("c", "a")]))
    ops.append(("rename", [("a", "x"), ("x", "y")]))
    ops.append(("rename", [("a", "x"), ("b", "y")]))
    ops.append(("rename", [("zz", "a")]))
    ops.append(("rename", []))
    return ops


def apply_op(op, binds):
    """binds: list of (name, value). Python reference of the algebra."""
    k, arg = op
    if k == "only":
        return [(n, v) for n, v in binds if n in arg]
    if k == "except":
        return [(n, v) for n, v in binds if n not in arg]
    if k == "prefix":
        return [(arg + n, v) for n, v in binds]
    table = dict(arg)
    return [(table.get(n, n), v) for n, v in binds]


def show_op(op, inner):
    k, arg = op
    if k in ("only", "except"):
        return "(%s %s %s)" % (k, inner, " ".join(arg))
    if k == "prefix":
        return "(prefix %s %s)" % (inner, arg)
    return "(rename %s %s)" % (inner, " ".join("(%s %s)" % p for p in arg))


def admissible(binds):
    names = [n for n, _ in binds]
    return len(names) == len(set(names))


def run(rep, tier, rng):
    ops = operators()
    base = list(EXPORTS.items())
    terms = [("(m)", base)]
    d1 = [(show_op(o, "(m)"), apply_op(o, base)) for o in ops]
    terms += d1
    if tier == "quick":
        pairs = [(o1, o2) for o1 in ops for o2 in ops]
        rng.shuffle(pairs)
        pairs = pairs[:6000]
    else:
        pairs = [(o1, o2) for o1 in ops for o2 in ops]
    for o1, o2 in pairs:
        inner = apply_op(o1, base)
        terms.append((show_op(o2, show_op(o1, "(m)")), apply_op(o2, inner)))
    if tier != "quick":
        trip = [(rng.choice(ops), rng.choice(ops), rng.choice(ops)) for _ in range(60000)]
        for o1, o2, o3 in trip:
            b = apply_op(o3, apply_op(o2, apply_op(o1, base)))
            terms.append((show_op(o3, show_op(o2, show_op(o1, "(m)"))), b))
    # terms whose identifiers are drawn from the names the INNER set has at that point (so that only / except / rename select
    # something at every level), with prefixes that are themselves names or beginnings of names, applied once or twice
    for _ in range(2500 if tier == "quick" else 40000):
        text, binds = "(m)", base
        for _lvl in range(rng.randrange(1, 4)):
            names = [n for n, _ in binds]
            kind = rng.choice(["only", "except", "prefix", "rename", "prefix"])
            if kind in ("only", "except"):
                ids = rng.sample(names, min(len(names), rng.randrange(0, 4))) if names else []
                if rng.random() < 0.2:
                    ids.append(rng.choice(["zz", "a", "p-a"]))
                op = (kind, ids)
            elif kind == "prefix":
                op = ("prefix", rng.choice(["p-", "a", "b", "q", "p-", "ab"]))
            else:
                src = rng.sample(names, min(len(names), rng.randrange(0, 3))) if names else []
                op = ("rename", [(x, rng.choice(names + ["x", "y", x + "2"])) for x in src])
            text, binds = show_op(op, text), apply_op(op, binds)
        terms.append((text, binds))
    cases, expect = [], {}
    k = 0
    inadmissible = 0
    for text, binds in terms:
        cid = "i%d" % k; k += 1
        cases.append((cid, "imports", ["(import %s)" % text]))
        if not admissible(binds):
            # one name with two different bindings: an error, the same on every run
            inadmissible += 1
            expect[cid] = "conflict"
        else:
            expect[cid] = sorted("%s=i:%d" % (n, v) for n, v in binds)
    # two import sets in one declaration: union (later wins on equal names with equal values only: admissible)
    adm = [(t, b) for t, b in d1 if admissible(b)]
    for _ in range(400 if tier == "quick" else 5000):
        (t1, b1), (t2, b2) = rng.choice(adm), rng.choice(adm)
        merged = dict(b1)
        conflict = any(n in merged and merged[n] != v for n, v in b2)
        merged.update(dict(b2))
        cid = "u%d" % k; k += 1
        cases.append((cid, "imports", ["(import %s %s)" % (t1, t2)]))
        expect[cid] = "conflict" if conflict else sorted("%s=i:%d" % (n, v) for n, v in merged.items())
    # declarations of two or three sets of ANY depth, the bare library among them a third of the time, at any position: each set
    # contributes its own bindings whatever the others are (a set is never redundant just because another set names the same library)
    adm_all = [(t, b) for t, b in terms if admissible(b)]
    deep = [(t, b) for t, b in adm_all if t.count("(") >= 3] or adm_all
    for _ in range(1500 if tier == "quick" else 20000):
        sets = [rng.choice(deep if rng.random() < 0.7 else adm_all) for _ in range(rng.randrange(2, 4))]
        if rng.random() < 0.35:
            sets[rng.randrange(len(sets))] = ("(m)", base)
        merged, conflict = {}, False
        for _t, b in sets:
            for n, v in b:
                if n in merged and merged[n] != v:
                    conflict = True
                merged[n] = v
        cid = "w%d" % k; k += 1
        cases.append((cid, "imports", ["(import %s)" % " ".join(t for t, _ in sets)]))
        expect[cid] = "conflict" if conflict else sorted("%s=i:%d" % (n, v) for n, v in merged.items())
    impls = [C.run_hx(cases) for _ in range(3)]
    model = C.run_driver(cases)
    for cid, _, f in cases:
        rep.count()
        rep.nontrivial(f[0])
        a = impls[0].get(cid)
        if len(rep.cov["samples"]) < 5 and cid.endswith("7"):
            rep.sample({"declaration": f[0], "bindings": a})
        if any(im.get(cid) != a for im in impls[1:]):
            rep.violation({"what": "the outcome of an import differs between runs", "declaration": f[0],
                           "runs": [im.get(cid) for im in impls]})
        elif expect[cid] == "conflict":
            if not (a and a[0].startswith("E other")):
                rep.violation({"what": "a declaration that imports one name with two different bindings is not rejected",
                               "declaration": f[0], "implementation": a})
            elif (model.get(cid) or ["?"])[0].split(" ")[:2] != a[0].split(" ")[:2]:
                rep.violation({"broken": "correspondence Interp.evalImport <-> eval_import (conflict)", "declaration": f[0],
                               "implementation": a, "model": model.get(cid)}, no_input=True)
        elif a != expect[cid]:
            rep.violation({"what": "the environment after the import is not what the import-set algebra yields",
                           "declaration": f[0], "expected": expect[cid], "implementation": a})
        elif model.get(cid) != a:
            rep.violation({"broken": "correspondence Interp.evalImportSet <-> eval_import_set", "declaration": f[0],
                           "implementation": a, "model": model.get(cid)}, no_input=True)
    # SEVERAL import declarations one after another, a later one binding a name AGAIN - to another export whose value looks the same
    # (two counters made by one procedure, two vectors with equal contents) but is another object: after each declaration the name
    # means what THAT declaration's import set yields; told apart through state (calling the counter, writing the vector)
    KLIB = ("(define-library (k) (import (scheme base)) (export c1 c2 v1 v2 n1 n2) (begin (define n1 1) (define n2 2) (define (mk) (let ((n 0)) (lambda () (set! n (+ n 1)) n))) "
            "(define c1 (mk)) (define c2 (mk)) (define v1 (make-vector 2 0)) (define v2 (make-vector 2 0))))")
    scases, swant = [], {}
    for j in range(120 if tier == "quick" else 3000):
        env = {}
        fields = ["nostd", "Rk=" + KLIB, ">(import (scheme base))"]
        want = ["N"]
        for _d in range(rng.randrange(2, 4)):
            srcs = rng.sample(["c1", "c2", "v1", "v2", "n1", "n2"], rng.randrange(1, 4))
            pairs = []
            used = set()
            for sname in srcs:
                pool = (["next", "c1", "c2", "cc"] if sname[0] == "c" else ["v", "v1", "v2", "vv"] if sname[0] == "v" else ["num", "n1", "n2", "nn"])
                t = rng.choice([x for x in pool if x not in used] or [sname])
                used.add(t); pairs.append((sname, t))
            ren = [(a, b) for a, b in pairs if a != b]
            # rename is simultaneous: a target that is also a selected source is fine only if that source is renamed away too
            names_after = [b for _, b in pairs]
            if len(set(names_after)) != len(names_after):
                continue
            inner = "(only (k) %s)" % " ".join(a for a, _ in pairs)
            decl = "(import (rename %s %s))" % (inner, " ".join("(%s %s)" % p for p in ren)) if ren else "(import %s)" % inner
            srcset = {a for a, _ in pairs}
            if any(b in srcset and b != a and (b, b) in pairs for a, b in pairs):
                continue
            fields.append(">" + decl); want.append("N")
            for a, b in pairs:
                env[b] = a
        counts, vecs = {"c1": 0, "c2": 0}, {"v1": [0, 0], "v2": [0, 0]}
        for _p in range(rng.randrange(3, 9)):
            if not env:
                break
            nm = rng.choice(sorted(env))
            obj = env[nm]
            if obj[0] == "n":
                fields.append(">%s" % nm); want.append("V i:%s" % obj[1])
            elif obj[0] == "c":
                counts[obj] += 1
                fields.append(">(%s)" % nm); want.append("V i:%d" % counts[obj])
            elif rng.random() < 0.5:
                x = rng.randrange(1, 99); vecs[obj][0] = x
                fields.append(">(vector-set! %s 0 %d)" % (nm, x)); want.append("V <void>")
            else:
                fields.append(">(vector-ref %s 0)" % nm); want.append("V i:%d" % vecs[obj][0])
        cid = "q%d" % j
        scases.append((cid, "libs", fields)); swant[cid] = want
    sres, smod = C.run_hx(scases), C.run_driver(scases)
    for cid, _, fields in scases:
        r = sres.get(cid, [])
        rep.count()
        rep.nontrivial(("sequence", tuple(fields)))
        if r != swant[cid]:
            jx = next((x for x in range(min(len(r), len(swant[cid]))) if r[x] != swant[cid][x]), None)
            rep.violation({"what": "after several import declarations a name does not mean what the LAST declaration binding it yields",
                           "library": KLIB, "submissions": [f[1:] for f in fields if f.startswith(">")], "expected": swant[cid], "implementation": r,
                           "first_difference": jx})
        elif smod.get(cid) != r:
            rep.violation({"broken": "correspondence Interp.evalImport <-> eval_import (declarations in sequence)", "submissions": fields,
                           "implementation": r, "model": smod.get(cid)}, no_input=True)
    rep.extra["declaration_sequences"] = len(scases)
    rep.extra["operators"] = len(ops)
    rep.extra["conflicting_terms"] = inadmissible


def library_soup(rep, tier, rng):
    """LIBRARY SOUP (checks/pylib.py): a DAG of two to four stateful libraries importing one another through every kind of import
    set, a program that imports some of them and calls what it sees - judged by an independent reference module system in Python"""
    from . import pylib
    pylib.soup_phase(rep, rng, 100 if tier == "quick" else 2000, C, R)


def main(tier, seed):
    rep = C.Report(PROP, tier, seed)
    rng = random.Random(seed)
    rep.cov["rule"] = ("import-set terms over a native library exporting a b c d: every operator (only/except with every subset of "
                       "<=3 of the exports plus an unknown name, prefix with 2 prefixes, rename with every single renaming into "
                       "exported/fresh names, a swap, a 3-cycle, a chain, an unknown source, the empty renaming) at depth 1 "
                       "(exhaustive) and depth 2 (6000 sampled in quick, exhaustive in thorough; sampled depth 3 in thorough), and "
                       "two-set declarations of depth-1 terms, declarations of two or three sets of any depth with the bare library among them; sequences of two or three declarations that bind a name again to an equal-looking but different object (told apart through state); terms that bind one name twice must be rejected; each run in 3 processes; "
                       "distinct = distinct declaration texts")
    ok = C.standard_proof_phase(rep, MODULES, directed_search=lambda r: (run(r, tier, rng), library_soup(r, tier, rng)))
    if ok:
        run(rep, tier, rng)
        library_soup(rep, tier, rng)
    return rep.finish("cd lean && lake build RuschmProofs.C12 && lake env lean <#print axioms of every theorem in RuschmProofs/C12.lean>")

/-
Property C14 — library loading terminates; the outcome depends only on the dependency graph.

"Importing a library terminates for every dependency graph: it fails with a cyclic-import error
exactly when a cycle is reachable from it, fails with the underlying error when a reachable library
is missing, unreadable, malformed or faults while being evaluated, and succeeds otherwise (shared
dependencies reached by several paths are not cycles). The outcome of an import does not depend on
which imports were attempted or failed earlier on the same interpreter, and library files are
located relative to the program's directory, not the process's working directory."

Only property theorems live here (each is audited with `#print axioms`); helper lemmas are in
`RuschmProofs/LibLemmas.lean`; the abstract loader (`Loader.load`, same control structure as
`Interp.evalImportSet (.direct ..)` / `getLibrary` / `evalLibraryDef`, over a finite dependency
graph) and the graph vocabulary are in `RuschmSpec/Lib.lean`.
-/
import RuschmProofs.LibLemmas

namespace Ruschm.C14
open Ruschm Ruschm.Interp Ruschm.Loader

/-! ## the abstract loader -/

/-- the diamond: 0 imports 1 and 2, both import 3 -/
def diamond : Graph := [(0, .healthy [1, 2]), (1, .healthy [3]), (2, .healthy [3]), (3, .healthy [])]

/-- a cycle behind a healthy node, a missing library and a faulting one -/
def tangled : Graph := [(0, .healthy [1]), (1, .healthy [2]), (2, .healthy [1]), (4, .healthy [5]),
  (6, .faulty [3]), (3, .healthy [])]

/-- Loading terminates for every dependency graph: as many units of fuel as there are nodes not
in progress, plus one — so `|g| + 1` in every state — always suffice; the loader never reports
that it ran out of fuel. (A call for a node that is not in progress marks it, so the number of
unmarked nodes of the finite graph strictly decreases along every chain of nested calls.) -/
theorem load_terminates (g : Graph) (st : LState) (x : Name) (fuel : Nat) (hfuel : g.length + 1 ≤ fuel) :
    (load fuel g st x).1 ≠ .fuel := by
  rw [load_eq_dfs']
  exact dfs_ne_fuel g fuel _ _ x (by have := free_le g st.inProgress; omega)

example : (load 7 tangled {} 0).1 = .cyclic ∧ (load 7 tangled {} 4).1 = .notFound ∧
    (load 7 tangled {} 6).1 = .fault ∧ (load 7 tangled {} 3).1 = .ok := by decide

/-- After ANY outcome (success, any error, even exhausted fuel) the in-progress list is the one
before the call. -/
theorem in_progress_restored (g : Graph) (st : LState) (x : Name) (fuel : Nat) :
    (load fuel g st x).2.inProgress = st.inProgress := by
  rw [load_eq_dfs']

example : (load 7 tangled ⟨[], [9]⟩ 0) = (.cyclic, ⟨[], [9]⟩) := by decide

/-- The cache is sound: a sound cache (`CacheOK`: only libraries that load from scratch, closed
under dependencies, nothing in progress) stays sound after any load, with any outcome and any
fuel; it only grows; a successful load puts the library into it; and a cached library loads `ok`
immediately, without touching the state. The empty cache is sound. -/
theorem cache_sound (g : Graph) (st : LState) (x : Name) (fuel : Nat) (h : CacheOK g st) :
    CacheOK g (load fuel g st x).2 ∧
    (∀ y ∈ st.cache, y ∈ (load fuel g st x).2.cache) ∧
    ((load fuel g st x).1 = .ok → x ∈ (load fuel g st x).2.cache ∧ Loadable g x) ∧
    (x ∈ st.cache → load (fuel + 1) g st x = (.ok, st)) ∧
    CacheOK g {} := by
  have hp := dfs_post g fuel st.cache st.inProgress x (cacheOK_iff.1 h)
  refine ⟨?_, ?_, ?_, ?_, ⟨by simp, by simp, by simp⟩⟩
  · rw [load_eq_dfs']; exact cacheOK_iff.2 hp.1.cok
  · rw [load_eq_dfs']; exact hp.1.mono
  · rw [load_eq_dfs']; intro hok; exact ⟨hp.2 hok, hp.1.cok.loadable _ (hp.2 hok)⟩
  · intro hx
    rw [load_eq_dfs', dfs_cached (h.disjoint x hx) hx]

example : (load 7 diamond {} 0) = (.ok, ⟨[0, 2, 1, 3], []⟩) := by decide

/-- From an empty in-progress set (and a sound cache, e.g. the empty one) the load succeeds
exactly when every library reachable from `x` is healthy and no dependency cycle is reachable
from `x`. -/
theorem load_ok_iff (g : Graph) (st : LState) (x : Name) (fuel : Nat) (hfuel : g.length + 1 ≤ fuel)
    (hc : CacheOK g st) (hip : st.inProgress = []) :
    (load fuel g st x).1 = .ok ↔
      (∀ y, Reachable g x y → ∃ deps, g.node y = .healthy deps) ∧ ¬ HasCycleFrom g x := by
  constructor
  · intro h
    exact ((cache_sound g st x fuel hc).2.2.1 h).2.healthy_acyclic
  · rintro ⟨hh, hcyc⟩
    rw [load_eq_dfs', hip]
    exact dfs_ok_of_healthy_acyclic hh hcyc hfuel

example : (∀ y, Reachable diamond 0 y → ∃ deps, diamond.node y = .healthy deps) ∧ ¬ HasCycleFrom diamond 0 :=
  (load_ok_iff diamond {} 0 5 (by decide) ⟨by simp, by simp, by simp⟩ rfl).1 (by decide)

/-- A node that is reached along two different paths is not a cycle: if all reachable libraries
are healthy and there is no cycle, the load succeeds although `d` is a dependency of both `a` and
`b`, themselves both dependencies of `x` (the second visit finds the cached instance). -/
theorem diamond_not_cycle (g : Graph) (x a b d : Name) (fuel : Nat) (hfuel : g.length + 1 ≤ fuel)
    (_hab : a ≠ b) (_ha : a ∈ (g.node x).deps) (_hb : b ∈ (g.node x).deps)
    (_hda : d ∈ (g.node a).deps) (_hdb : d ∈ (g.node b).deps)
    (hh : ∀ y, Reachable g x y → ∃ deps, g.node y = .healthy deps) (hcyc : ¬ HasCycleFrom g x) :
    (load fuel g {} x).1 = .ok :=
  (load_ok_iff g {} x fuel hfuel ⟨by simp, by simp, by simp⟩ rfl).2 ⟨hh, hcyc⟩

/-- the concrete diamond: 3 is visited once and found in the cache the second time -/
example : load 5 diamond {} 0 = (.ok, ⟨[0, 2, 1, 3], []⟩) := by decide

/-- The outcome is exactly that of the depth-first traversal `Dfs` of the dependencies in order
(a relational, fuel-free description: a node in progress is `cyclic`; a cached node is `ok`; the
dependencies of a node are visited in order and the FIRST outcome that is not `ok` is the node's
outcome; a healthy node whose dependencies are all `ok` is `ok` and enters the cache; a faulty
one then faults). In particular the outcome is `cyclic` iff the traversal meets a node in progress
before it meets any other fault, and every error names a fault that is really reachable: `cyclic`
a node in progress or a cycle, `notFound` a missing library, and so on. If every reachable library
is healthy, the outcome is `cyclic` exactly when a cycle is reachable. -/
theorem load_cyclic_iff (g : Graph) (st : LState) (x : Name) (fuel : Nat) (hfuel : g.length + 1 ≤ fuel) :
    (∀ r st', load fuel g st x = (r, st') ↔
      Dfs g st.cache st.inProgress x r st'.cache ∧ st'.inProgress = st.inProgress) ∧
    ((load fuel g st x).1 = .cyclic ↔ ∃ c', Dfs g st.cache st.inProgress x .cyclic c') ∧
    Blame g st.inProgress x (load fuel g st x).1 ∧
    (st.inProgress = [] → CacheOK g st → (∀ y, Reachable g x y → ∃ deps, g.node y = .healthy deps) →
      ((load fuel g st x).1 = .cyclic ↔ HasCycleFrom g x)) := by
  have hiff := fun r c' => dfs_iff_Dfs g fuel st.cache st.inProgress x r c' hfuel
  have hblame : Blame g st.inProgress x (load fuel g st x).1 := by
    rw [load_eq_dfs']; exact dfs_blame g fuel _ _ x
  refine ⟨fun r st' => ?_, ?_, hblame, fun hip hcok hh => ?_⟩
  · rw [load_eq_dfs']
    constructor
    · intro h
      cases h
      exact ⟨(hiff _ _).1 rfl, rfl⟩
    · rintro ⟨h, hip⟩
      have := (hiff _ _).2 h
      rw [this]
      cases st'
      simp_all
  · rw [load_eq_dfs']
    constructor
    · intro h
      exact ⟨_, (hiff _ _).1 (Prod.ext h rfl)⟩
    · rintro ⟨c', h⟩
      rw [(hiff _ _).2 h]
  · constructor
    · intro h
      rw [h, hip] at hblame
      rcases hblame with ⟨y, hy, _⟩ | hb
      · cases hy
      · exact hb
    · intro hcyc
      have hne := load_terminates g st x fuel hfuel
      have hok := (load_ok_iff g st x fuel hfuel hcok hip).1
      generalize (load fuel g st x).1 = r at hblame hne hok
      rw [hip] at hblame
      cases r with
      | cyclic => rfl
      | fuel => exact absurd rfl hne
      | ok => exact absurd hcyc (hok rfl).2
      | notFound => obtain ⟨y, h1, h2⟩ := hblame; obtain ⟨ds, h3⟩ := hh y h1; rw [h2] at h3; cases h3
      | io => obtain ⟨y, h1, h2⟩ := hblame; obtain ⟨ds, h3⟩ := hh y h1; rw [h2] at h3; cases h3
      | «syntax» => obtain ⟨y, h1, h2⟩ := hblame; obtain ⟨ds, h3⟩ := hh y h1; rw [h2] at h3; cases h3
      | fault => obtain ⟨y, ds', h1, h2⟩ := hblame; obtain ⟨ds, h3⟩ := hh y h1; rw [h2] at h3; cases h3

/-- in `tangled`, loading 0 is cyclic: the traversal derives it, and a cycle is indeed reachable -/
example : (∃ c', Dfs tangled [] [] 0 .cyclic c') ∧ HasCycleFrom tangled 0 := by
  have h := load_cyclic_iff tangled {} 0 7 (by decide)
  refine ⟨h.2.1.1 (by decide), ?_⟩
  have hb := h.2.2.1
  rw [show (load 7 tangled {} 0).1 = .cyclic by decide] at hb
  rcases hb with ⟨y, hy, _⟩ | hb
  · cases hy
  · exact hb

/-- The sentence "cyclic exactly when a cycle is reachable" needs the proviso of `load_cyclic_iff`:
the FIRST fault in depth-first order is reported. Here 0 imports a missing library and then 1,
which imports 0 back: a cycle is reachable from 0, yet the outcome is `notFound`. -/
theorem first_fault_wins_over_cycle :
    ∃ g : Graph, HasCycleFrom g 0 ∧ (load (g.length + 1) g {} 0).1 = .notFound := by
  refine ⟨[(0, .healthy [9, 1]), (1, .healthy [0])], ⟨0, 1, .refl _, by decide, .step (y := 0) (by decide) (.refl _)⟩, by decide⟩

/-- MAIN THEOREM. Whatever was attempted before on the same loader — any list of loads of any
names, each with any amount of fuel, successful or failed — the outcome of loading `x` afterwards
is the outcome of loading `x` on the fresh loader: it is a function of the graph alone. (The
in-progress list is restored by every attempt, and the cache only ever holds libraries that would
load anyway.) -/
theorem history_independent (g : Graph) (hist : List (Nat × Name)) (x : Name) (fuel : Nat)
    (hfuel : g.length + 1 ≤ fuel) :
    (load fuel g (attempts g {} hist) x).1 = (load fuel g {} x).1 := by
  have h0 : CacheOK g {} := ⟨by simp, by simp, by simp⟩
  obtain ⟨hok, hip⟩ := attempts_ok g hist {} h0
  rw [load_eq_dfs', load_eq_dfs', hip]
  exact dfs_indep g fuel _ _ _ x (hip ▸ cacheOK_iff.1 hok) (cacheOK_iff.1 h0)
    (by have := free_le g ({} : LState).inProgress; omega)

example : (load 7 tangled (attempts tangled {} [(7, 0), (1, 6), (7, 3), (7, 4)]) 6).1 = .fault := by
  rw [history_independent tangled _ 6 7 (by decide)]; decide

/-! ## the bridge to the model of the interpreter -/

/-- The in-progress set of the REAL `evalImportSet` is restored after any outcome, for every
state, fuel and import set (the repaired behaviour: the mark is removed on failure too); and an
import of a library that is in progress is the cyclic-import error, with the state unchanged. -/
theorem model_in_progress_restored (fuel : Nat) (st : State) :
    (∀ s, (evalImportSet fuel st s).2.inProgress = st.inProgress) ∧
    (∀ sets ρ, (evalImport fuel st sets ρ).2.inProgress = st.inProgress) ∧
    (∀ name loc, name ∈ st.inProgress →
      evalImportSet (fuel + 1) st (.direct name loc) = (.error (.cyclic, loc), st)) := by
  refine ⟨fun s => ?_, fun sets ρ => ?_, fun name loc h => ?_⟩
  · exact ((invAt storeRel_true fuel).importSet (r := _) (st' := _) rfl).inProgress
  · exact ((invAt storeRel_true fuel).import_ (r := _) (st' := _) rfl).inProgress
  · rw [evalImportSet]
    have : st.inProgress.contains name = true := by simpa using h
    rw [if_pos this]

/-- a failing import (the library does not exist) leaves the in-progress set as it was -/
example : (evalImportSet 5 { inProgress := [[.ident "x"]] } (.direct [.ident "nope"] none)).2.inProgress
    = [[.ident "x"]] :=
  (model_in_progress_restored 5 _).1 _

/-- `get_library` looks for a library file only at `libPath name` — the name's elements joined by
`/`, with extension `sld`, RELATIVE to the directory the interpreter looks libraries up in at that
moment (`fileKey st.dir`: the directory of the program file, or the working directory while none
is recorded; `files` is keyed by directory-qualified paths) — and what it
finds depends on nothing else: `getLibrary` is the cached instance or else `instantiate` of the
factory `findFactory` finds, and two states (each with its own lookup directory) that agree on the
registered factory for `name` and on the file at `libPath name` in their lookup directory find the
same factory (or fail with the same error). -/
theorem libPath_relative (name : LibName) (loc : Loc) :
    libPath name = "/".intercalate (name.map LibElem.toString) ++ ".sld" ∧
    (∀ fuel st, getLibrary (fuel + 1) st name loc =
      match libLookup st.instances name with
      | some defs => (.ok defs, st)
      | none =>
        match findFactory st name loc with
        | (.error e, st) => (.error e, st)
        | (.ok f, st) => instantiate fuel st f name) ∧
    (∀ st₁ st₂ : State, libLookup st₁.factories name = libLookup st₂.factories name →
      st₁.files.lookup (fileKey st₁.dir (libPath name)) = st₂.files.lookup (fileKey st₂.dir (libPath name)) →
      (findFactory st₁ name loc).1 = (findFactory st₂ name loc).1) := by
  refine ⟨rfl, fun fuel st => getLibrary_succ_eq fuel st name loc, fun st₁ st₂ hf hfile => ?_⟩
  unfold findFactory
  rw [hf, hfile]
  cases libLookup st₂.factories name with
  | some f => rfl
  | none =>
    simp only
    cases List.lookup (fileKey st₂.dir (libPath name)) st₂.files with
    | none => rfl
    | some fe =>
      cases fe with
      | unreadable => rfl
      | text t => simp only; cases factoryOfText name t <;> rfl

example : libPath [.ident "util", .ident "list", .int 2] = "util/list/2.sld" := by decide

end Ruschm.C14

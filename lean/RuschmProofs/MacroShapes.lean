/-
Helper lemmas for C05 (shape theorems): the rules of the bundled derived forms in explicit form
(checked against the GENERATED `Gen.grammarData` by `rfl`), and lemmas for computing the
declarative matcher and instantiation on symbolic data.
-/
import RuschmProofs.MacroSubst

namespace Ruschm.Macro
open Ruschm

/-! ## Short names for writing rules down -/

abbrev pl : List Pat → Pat := Pat.ofList
abbrev pv : String → Pat := Pat.ident
abbrev pe : Pat := Pat.ellipsis
abbrev tl : List (Tmpl × Bool) → Tmpl := Tmpl.list
abbrev tv : String → Tmpl := Tmpl.ident

/-! ## The bundled rules, explicitly (pretty-printed from `grammarRules`, re-checked by `rfl`) -/

def beginRules : Rules :=
  { literals := [],
    rules := [
      (pl [pv "exp1", pe],
       tl [(tl [(tv "lambda", false), (tl [], false), (tv "exp1", true)], false)])] }

theorem begin_rules : grammarRules "begin" = some beginRules := by rfl

def letRules : Rules :=
  { literals := [],
    rules := [
      (pl [pl [], pv "body", pe],
       tl [(tl [(tv "lambda", false), (tl [], false), (tv "body", true)], false)]),
      (pl [pl [pl [pv "name", pv "val"], pe], pv "body", pe],
       tl [(tl [(tv "lambda", false), (tl [(tv "name", true)], false), (tv "body", true)], false), (tv "val", true)])] }

theorem let_rules : grammarRules "let" = some letRules := by rfl

def letstarRules : Rules :=
  { literals := [],
    rules := [
      (pl [pl [], pv "body", pe],
       tl [(tv "let", false), (tl [], false), (tv "body", true)]),
      (pl [pl [pl [pv "name", pv "val"]], pv "body", pe],
       tl [(tv "let", false), (tl [(tl [(tv "name", false), (tv "val", false)], false)], false), (tv "body", true)]),
      (pl [pl [pl [pv "name1", pv "val1"], pl [pv "name2", pv "val2"], pe], pv "body", pe],
       tl [(tv "let", false), (tl [(tl [(tv "name1", false), (tv "val1", false)], false)], false), (tl [(tv "let*", false), (tl [(tl [(tv "name2", false), (tv "val2", false)], true)], false), (tv "body", true)], false)])] }

theorem letstar_rules : grammarRules "let*" = some letstarRules := by rfl

def condRules : Rules :=
  { literals := ["else", "=>"],
    rules := [
      (pl [pl [pv "else", pv "result", pe]],
       tl [(tv "begin", false), (tv "result", true)]),
      (pl [pl [pv "test", pv "=>", pv "result"]],
       tl [(tv "let", false), (tl [(tl [(tv "temp", false), (tv "test", false)], false)], false), (tl [(tv "if", false), (tv "temp", false), (tl [(tv "result", false), (tv "temp", false)], false)], false)]),
      (pl [pl [pv "test", pv "=>", pv "result"], pv "clause", pe],
       tl [(tv "let", false), (tl [(tl [(tv "temp", false), (tv "test", false)], false)], false), (tl [(tv "if", false), (tv "temp", false), (tl [(tv "result", false), (tv "temp", false)], false), (tl [(tv "cond", false), (tv "clause", true)], false)], false)]),
      (pl [pl [pv "test"]],
       tv "test"),
      (pl [pl [pv "test"], pv "clause", pe],
       tl [(tv "let", false), (tl [(tl [(tv "temp", false), (tv "test", false)], false)], false), (tl [(tv "if", false), (tv "temp", false), (tv "temp", false), (tl [(tv "cond", false), (tv "clause", true)], false)], false)]),
      (pl [pl [pv "test", pv "result", pe]],
       tl [(tv "if", false), (tv "test", false), (tl [(tv "begin", false), (tv "result", true)], false)]),
      (pl [pl [pv "test", pv "result", pe], pv "clause", pe],
       tl [(tv "if", false), (tv "test", false), (tl [(tv "begin", false), (tv "result", true)], false), (tl [(tv "cond", false), (tv "clause", true)], false)])] }

theorem cond_rules : grammarRules "cond" = some condRules := by rfl

def caseRules : Rules :=
  { literals := ["else", "=>"],
    rules := [
      (pl [pl [pv "key", pe], pv "clauses", pe],
       tl [(tv "let", false), (tl [(tl [(tv "atom-key", false), (tl [(tv "key", true)], false)], false)], false), (tl [(tv "case", false), (tv "atom-key", false), (tv "clauses", true)], false)]),
      (pl [pv "key", pl [pv "else", pv "=>", pv "result"]],
       tl [(tv "result", false), (tv "key", false)]),
      (pl [pv "key", pl [pv "else", pv "result", pe]],
       tl [(tv "begin", false), (tv "result", true)]),
      (pl [pv "key", pl [pl [pv "atoms", pe], pv "=>", pv "result"]],
       tl [(tv "if", false), (tl [(tv "not", false), (tl [(tv "null?", false), (tl [(tv "memv", false), (tv "key", false), (tl [(tv "quote", false), (tl [(tv "atoms", true)], false)], false)], false)], false)], false), (tl [(tv "result", false), (tv "key", false)], false)]),
      (pl [pv "key", pl [pl [pv "atoms", pe], pv "result", pe]],
       tl [(tv "if", false), (tl [(tv "memv", false), (tv "key", false), (tl [(tv "quote", false), (tl [(tv "atoms", true)], false)], false)], false), (tl [(tv "begin", false), (tv "result", true)], false)]),
      (pl [pv "key", pl [pl [pv "atoms", pe], pv "=>", pv "result"], pv "clauses", pe],
       tl [(tv "if", false), (tl [(tv "memv", false), (tv "key", false), (tl [(tv "quote", false), (tl [(tv "atoms", true)], false)], false)], false), (tl [(tv "result", false), (tv "key", false)], false), (tl [(tv "case", false), (tv "key", false), (tv "clauses", true)], false)]),
      (pl [pv "key", pl [pl [pv "atoms", pe], pv "result", pe], pv "clauses", pe],
       tl [(tv "if", false), (tl [(tv "memv", false), (tv "key", false), (tl [(tv "quote", false), (tl [(tv "atoms", true)], false)], false)], false), (tl [(tv "begin", false), (tv "result", true)], false), (tl [(tv "case", false), (tv "key", false), (tv "clauses", true)], false)])] }

theorem case_rules : grammarRules "case" = some caseRules := by rfl

def andRules : Rules :=
  { literals := [],
    rules := [
      (pl [],
       (.prim (Ruschm.Prim.bool true))),
      (pl [pv "test"],
       tv "test"),
      (pl [pv "test1", pv "test2", pe],
       tl [(tv "if", false), (tv "test1", false), (tl [(tv "and", false), (tv "test2", true)], false), ((.prim (Ruschm.Prim.bool false)), false)])] }

theorem and_rules : grammarRules "and" = some andRules := by rfl

def orRules : Rules :=
  { literals := [],
    rules := [
      (pl [],
       (.prim (Ruschm.Prim.bool false))),
      (pl [pv "test"],
       tv "test"),
      (pl [pv "test1", pv "test2", pe],
       tl [(tv "let", false), (tl [(tl [(tv "x", false), (tv "test1", false)], false)], false), (tl [(tv "if", false), (tv "x", false), (tv "x", false), (tl [(tv "or", false), (tv "test2", true)], false)], false)])] }

theorem or_rules : grammarRules "or" = some orRules := by rfl

def whenRules : Rules :=
  { literals := [],
    rules := [
      (pl [pv "test", pv "result", pe],
       tl [(tv "if", false), (tv "test", false), (tl [(tv "begin", false), (tv "result", true)], false)])] }

theorem when_rules : grammarRules "when" = some whenRules := by rfl

def unlessRules : Rules :=
  { literals := [],
    rules := [
      (pl [pv "test", pv "result", pe],
       tl [(tv "if", false), (tl [(tv "not", false), (tv "test", false)], false), (tl [(tv "begin", false), (tv "result", true)], false)])] }

theorem unless_rules : grammarRules "unless" = some unlessRules := by rfl



/-! ## From the model expander to the declarative expander -/

/-- every bundled pattern has at most 64 nodes, so that `matchFuel use` is enough fuel -/
def smallRules (r : Rules) : Bool := r.rules.all fun rule => decide (rule.1.size ≤ 64)

theorem expand1_eq_spec {kw r fuel use} (hr : grammarRules kw = some r)
    (hs : SupportedRules r = true) (hsmall : smallRules r = true) (hf : matchFuel use ≤ fuel) :
    expand1 fuel kw use = specTransform r.literals r.rules use := by
  unfold expand1
  rw [hr]
  simp only [transform]
  apply transformRules_eq_spec r.rules (by simpa [SupportedRules] using hs)
  intro rule hrule
  simp only [smallRules, List.all_eq_true, decide_eq_true_eq] at hsmall
  have := hsmall rule hrule
  unfold matchFuel at hf
  omega

theorem specTransform_cons_none {lits p t rest use} (h : specMatch lits p use = none) :
    specTransform lits ((p, t) :: rest) use = specTransform lits rest use := by
  simp [specTransform, h]

theorem specTransform_cons_some {lits p t rest use β} (h : specMatch lits p use = some β) :
    specTransform lits ((p, t) :: rest) use = .ok (specInst t β use.loc) := by
  simp [specTransform, h]

/-! ## Computing the declarative matcher on symbolic data -/

theorem IsList.properElems {d es} (h : IsList d es) : properElems d = some es := by
  rw [properElems_eq_spine, h]

theorem Pat.ok_ofList {lits ps} : Pat.ok lits (Pat.ofList ps) = Pat.okList lits ps := by
  induction ps with
  | nil => rfl
  | cons p ps ih =>
    have h1 : (Pat.ofList ps).isEllTail = Pat.isEllOnly ps := by
      cases ps with
      | nil => rfl
      | cons q qs =>
        cases qs with
        | nil => cases q <;> rfl
        | cons q' qs' => cases q <;> rfl
    have h2 : Pat.okTail lits (Pat.ofList ps) = Pat.ok lits (Pat.ofList ps) := by
      cases ps <;> rfl
    simp only [Pat.ofList, Pat.ok, Pat.okList, h1, h2, ih]

/-- a list pattern against a proper list with elements `es` -/
theorem specMatch_ofList_isList {lits ps d es} (hd : IsList d es)
    (hp : Pat.okList lits ps = true) :
    specMatch lits (Pat.ofList ps) d = specMatchList lits ps es := by
  rw [specMatch_ofList (by rw [Pat.ok_ofList]; exact hp), hd.properElems]

/-- a list pattern against a datum that is not a proper list -/
theorem specMatch_ofList_not_list {lits ps d} (hd : properElems d = none)
    (hp : Pat.okList lits ps = true) :
    specMatch lits (Pat.ofList ps) d = none := by
  rw [specMatch_ofList (by rw [Pat.ok_ofList]; exact hp), hd]

theorem specMatchList_nil_eq {lits} (ds : List Datum) :
    specMatchList lits [] ds = if ds = [] then some [] else none := by
  cases ds <;> rfl

theorem specMatchList_ell {lits p} (ds : List Datum) :
    specMatchList lits [p, pe] ds = specRun (specMatch lits p) (some ds) := by
  simp [specMatchList, Pat.isEllOnly]

/-- both match: the bindings, concatenated -/
def optApp : Option Bindings → Option Bindings → Option Bindings
  | some β₁, some β₂ => some (β₁ ++ β₂)
  | _, _ => none

@[simp] theorem optApp_some (a b : Bindings) : optApp (some a) (some b) = some (a ++ b) := rfl
@[simp] theorem optApp_none_left (b : Option Bindings) : optApp none b = none := rfl
@[simp] theorem optApp_none_right (a : Option Bindings) : optApp a none = none := by
  cases a <;> rfl

theorem specMatchList_cons_cons {lits p ps d ds} (h : Pat.isEllOnly ps = false) :
    specMatchList lits (p :: ps) (d :: ds) =
      optApp (specMatch lits p d) (specMatchList lits ps ds) := by
  simp only [specMatchList, h, Bool.false_eq_true, if_false]
  cases specMatch lits p d <;> cases specMatchList lits ps ds <;> rfl

theorem specMatchList_cons_nil {lits p ps} (h : Pat.isEllOnly ps = false) :
    specMatchList lits (p :: ps) [] = none := by
  simp [specMatchList, h]

/-- `d` is the symbol `s` -/
def isSym (s : String) : Datum → Bool
  | .sym t _ => t == s
  | _ => false

theorem specMatch_lit {lits v d} (hv : lits.contains v = true) :
    specMatch lits (.ident v) d = if isSym v d then some [] else none := by
  simp only [specMatch, hv, if_true]
  cases d <;> simp [isSym]

theorem specMatch_var {lits v d} (hv : lits.contains v = false) :
    specMatch lits (.ident v) d = some [(v, [d])] := by
  simp only [specMatch, hv, Bool.false_eq_true, if_false]

/-- the run of a variable under an ellipsis binds it to all the items -/
theorem specRun_var {lits v} (hv : lits.contains v = false) (es : List Datum) :
    specRun (specMatch lits (.ident v)) (some es) = if es = [] then none else some [(v, es)] := by
  cases es with
  | nil => rfl
  | cons e es =>
    rw [specRun_cons_some (specMatch_var hv)]
    simp only [List.cons_ne_nil, if_false]
    have : ∀ (es : List Datum) (acc : List Datum),
        (mapOpt (specMatch lits (.ident v)) es).map (fun βs => βs.foldl zipB [(v, acc)]) =
          some [(v, acc ++ es)] := by
      intro es
      induction es with
      | nil => intro acc; simp [mapOpt]
      | cons x xs ih =>
        intro acc
        have := ih (acc ++ [x])
        simp only [mapOpt, specMatch_var hv] at this ⊢
        cases hm : mapOpt (specMatch lits (.ident v)) xs with
        | none => simp [hm] at this
        | some βs =>
          simp only [hm, Option.map_some, Option.some.injEq] at this ⊢
          simp only [List.foldl_cons, zipB, List.map_cons, List.map_nil, List.lookup_cons,
            beq_self_eq_true, Option.getD_some]
          simpa using this
    simpa using this es [e]

/-- the run of a two-element list sub-pattern `(n v)` under an ellipsis: `n` is bound to the
first elements, `v` to the second elements -/
theorem specRun_pair2 {lits n v} (hn : lits.contains n = false) (hv : lits.contains v = false)
    (hnv : n ≠ v) {bs : List Datum} {nvs : List (Datum × Datum)}
    (h : IsPairs bs nvs) :
    specRun (specMatch lits (pl [pv n, pv v])) (some bs) =
      if nvs = [] then none else some [(n, nvs.map (·.1)), (v, nvs.map (·.2))] := by
  have hone : ∀ b (nv : Datum × Datum), IsList b [nv.1, nv.2] →
      specMatch lits (pl [pv n, pv v]) b = some [(n, [nv.1]), (v, [nv.2])] := by
    intro b nv hb
    rw [specMatch_ofList_isList hb (by simp [Pat.okList, Pat.isEllOnly, Pat.ok])]
    simp [specMatchList, Pat.isEllOnly, specMatch_var hn, specMatch_var hv]
  have hvn : (v == n) = false := by simp [beq_eq_false_iff_ne, Ne.symm hnv]
  have key : ∀ (bs : List Datum) (nvs : List (Datum × Datum)),
      IsPairs bs nvs → ∀ (a1 a2 : List Datum),
      (mapOpt (specMatch lits (pl [pv n, pv v])) bs).map (fun βs => βs.foldl zipB [(n, a1), (v, a2)]) =
        some [(n, a1 ++ nvs.map (·.1)), (v, a2 ++ nvs.map (·.2))] := by
    intro bs nvs h
    induction h with
    | nil => intro a1 a2; simp [mapOpt]
    | @cons b bs' nv nvs' hb _ ih =>
      intro a1 a2
      have := ih (a1 ++ [nv.1]) (a2 ++ [nv.2])
      simp only [mapOpt, hone b nv hb]
      cases hm : mapOpt (specMatch lits (pl [pv n, pv v])) bs' with
      | none => simp [hm] at this
      | some βs =>
        simp only [hm, Option.map_some, Option.some.injEq] at this ⊢
        simp only [List.foldl_cons, zipB, List.map_cons, List.map_nil, List.lookup_cons,
          beq_self_eq_true, Option.getD_some, hvn, List.lookup_nil]
        simpa using this
  cases h with
  | nil => rfl
  | @cons b bs' nv nvs' hb htl =>
    rw [specRun_cons_some (hone b nv hb)]
    simpa using key bs' nvs' htl [nv.1] [nv.2]

theorem isList_of_properElems {d ks} (h : properElems d = some ks) : IsList d ks := by
  rw [properElems_eq_spine] at h
  unfold IsList
  cases hd : d.spine.2 with
  | some t => simp [hd] at h
  | none =>
    simp only [hd, Option.some.injEq] at h
    rw [← h, ← hd]

/-- `(v ...)` does not match a datum that is not a non-empty proper list -/
theorem specMatch_var_ell_nonlist {lits v d} (hv : lits.contains v = false)
    (hk : ∀ ks, IsList d ks → ks = []) : specMatch lits (pl [pv v, pe]) d = none := by
  rw [specMatch_ofList (by simp only [Pat.ofList, Pat.ok, Pat.isEllTail, Pat.ellFree, Pat.isLit, hv]; rfl)]
  cases hp : properElems d with
  | none => rfl
  | some ks =>
    have := hk ks (isList_of_properElems hp)
    subst this
    simp [specMatchList_ell, specRun_var hv]

/-- a non-empty list is not a symbol -/
theorem isSym_of_isList {s d x xs} (h : IsList d (x :: xs)) : isSym s d = false := by
  cases d <;> simp_all [IsList, Datum.spine, isSym]

theorem IsPairs.nil_iff {bs nvs} (h : IsPairs bs nvs) : bs = [] ↔ nvs = [] := by
  cases h <;> simp

/-! ## Computing the declarative instantiation -/

@[simp] theorem range_map_getD {α} (l : List α) (d : α) :
    (List.range l.length).map (fun j => l[j]?.getD d) = l := by
  apply List.ext_getElem
  · simp
  · intro i h1 h2
    simp at h1
    simp [h1]

@[simp] theorem range_map_getD_map {α β} (l : List α) (f : α → β) (d : β) :
    (List.range l.length).map (fun j => (Option.map f l[j]?).getD d) = l.map f := by
  apply List.ext_getElem
  · simp
  · intro i h1 h2
    simp at h1
    simp [h1]

@[simp] theorem range_map_getD_pair {α} (l : List α) (f1 f2 : α → Datum) (d1 d2 : Datum) (loc : Loc) :
    (List.range l.length).map (fun j =>
        Datum.ofList loc [(Option.map f1 l[j]?).getD d1, (Option.map f2 l[j]?).getD d2]) =
      l.map (fun x => Datum.ofList loc [f1 x, f2 x]) := by
  apply List.ext_getElem
  · simp
  · intro i h1 h2
    simp at h1
    simp [h1]

end Ruschm.Macro

/-
Helper lemmas for C06, forward direction: the text of every supported token is read back as that
token (`token_*`), and token sequences under a valid layout are read back unchanged.
-/
import RuschmProofs.LexLemmas
namespace Ruschm.Text
open Ruschm Ruschm.Lex

/-! ## punctuation -/
theorem token_lparen (rest : List Char) (p : Pos) :
    token ('(' :: rest) p = .ok (some (.lparen, rest, adv '(' p)) := by simp [token]
theorem token_rparen (rest : List Char) (p : Pos) :
    token (')' :: rest) p = .ok (some (.rparen, rest, adv ')' p)) := by simp [token]
theorem token_quote (rest : List Char) (p : Pos) :
    token ('\'' :: rest) p = .ok (some (.quote, rest, adv '\'' p)) := by simp [token]
theorem token_quasiquote (rest : List Char) (p : Pos) :
    token ('`' :: rest) p = .ok (some (.quasiquote, rest, adv '`' p)) := by simp [token]
theorem token_vecIntro (rest : List Char) (p : Pos) :
    token ('#' :: '(' :: rest) p = .ok (some (.vecIntro, rest, adv '(' (adv '#' p))) := by
  simp [token]
theorem token_byteVecIntro (rest : List Char) (p : Pos) :
    token ('#' :: 'u' :: '8' :: '(' :: rest) p
      = .ok (some (.byteVecIntro, rest, adv '(' (adv '8' (adv 'u' (adv '#' p))))) := by
  simp [token]
theorem token_unquoteSplicing (rest : List Char) (p : Pos) :
    token (',' :: '@' :: rest) p = .ok (some (.unquoteSplicing, rest, adv '@' (adv ',' p))) := by
  simp [token]
theorem token_unquote (c : Char) (rest : List Char) (p : Pos) (h : c ≠ '@') :
    token (',' :: c :: rest) p = .ok (some (.unquote, c :: rest, adv ',' p)) := by
  simp [token, h]
theorem token_period (rest : List Char) (p : Pos) (h : startsDelim rest = true) :
    token ('.' :: rest) p = .ok (some (.period, rest, adv '.' p)) := by
  cases rest with
  | nil => simp [token]
  | cons c r => simp only [startsDelim] at h; simp [token, h]

/-! ## booleans and characters -/

theorem endOfSharpToken_of {rest : List Char} {p : Pos}
    (h : startsDelim rest = true ∨ startsSharp rest = true) : endOfSharpToken rest p = .ok () :=
  endOfSharpToken_ok.mpr h

theorem token_bool (b : Bool) (rest : List Char) (p : Pos)
    (h : startsDelim rest = true ∨ startsSharp rest = true) :
    token ('#' :: (if b then 't' else 'f') :: rest) p
      = .ok (some (.prim (.bool b), rest, adv (if b then 't' else 'f') (adv '#' p))) := by
  cases b <;> simp [token, endOfSharpToken_of h, bind, Except.bind, pure, Except.pure]

theorem stopsAt_alnum_of {rest : List Char}
    (h : startsDelim rest = true ∨ startsSharp rest = true) : stopsAt isAsciiAlnum rest = true := by
  cases rest with
  | nil => rfl
  | cons c r =>
    simp only [stopsAt, Bool.not_eq_true']
    cases hc : isAsciiAlnum c with
    | false => rfl
    | true =>
      have := isAsciiAlnum_ns hc
      rcases h with h | h
      · simp only [startsDelim] at h
        rw [isDelimiter_of_not_mem this] at h; cases h
      · simp only [startsSharp] at h
        split at h
        · rename_i heq; cases heq; exact absurd (by decide) this
        · cases h

theorem token_char (c : Char) (rest : List Char) (p : Pos)
    (h : startsDelim rest = true ∨ startsSharp rest = true) :
    token ('#' :: '\\' :: c :: rest) p
      = .ok (some (.prim (.chr c), rest, adv c (adv '\\' (adv '#' p)))) := by
  have : character c rest (adv c (adv '\\' (adv '#' p)))
      = .ok (.prim (.chr c), rest, adv c (adv '\\' (adv '#' p))) := by
    unfold character
    have := takeRun_append isAsciiAlnum [] rest (adv c (adv '\\' (adv '#' p))) [] (by simp)
      (stopsAt_alnum_of h)
    simp only [List.nil_append, List.reverse_nil, advs_nil] at this
    rw [this]
    simp [endOfSharpToken_of h, bind, Except.bind, pure, Except.pure]
  simp [token, this, Except.map]

/-! ## `|quoted|` identifiers -/

theorem quotedIdentifier_fwd (body rest : List Char) (p : Pos) (acc : List Char)
    (h : '|' ∉ body) :
    quotedIdentifier (body ++ '|' :: rest) p acc
      = .ok (.ident (String.ofList (acc.reverse ++ body)), rest, advs (body ++ ['|']) p) := by
  induction body generalizing p acc with
  | nil => simp [quotedIdentifier]
  | cons c body ih =>
    simp only [List.mem_cons, not_or] at h
    have hc : c ≠ '|' := fun e => h.1 e.symm
    simp only [List.cons_append, quotedIdentifier, hc, if_false]
    rw [ih _ _ h.2]
    simp

theorem token_quoted (body rest : List Char) (p : Pos) (h : '|' ∉ body) :
    token ('|' :: (body ++ '|' :: rest)) p
      = .ok (some (.ident (String.ofList body), rest, advs ('|' :: (body ++ ['|'])) p)) := by
  have hd : isDigit '|' = false := by decide
  simp [token, hd, quotedIdentifier_fwd body rest _ [] h, Except.map]

/-! ## strings -/

theorem mnemonic_cases {c : Char} (h : (mnemonic? c).isSome = true) :
    c = '\x07' ∨ c = '\x08' ∨ c = '\t' ∨ c = '\n' ∨ c = '\r' ∨ c = '"' ∨ c = '\\' ∨ c = '|' := by
  unfold mnemonic? at h
  repeat' split at h
  all_goals simp_all

theorem string_fwd (ps : List StrPiece) (rest : List Char) (p : Pos) (acc : List Char)
    (h : ∀ x ∈ ps, x.valid = true) :
    Lex.string (ps.flatMap StrPiece.text ++ '"' :: rest) p acc
      = .ok (.prim (.str (String.ofList (acc.reverse ++ ps.map StrPiece.char))), rest,
          advs (ps.flatMap StrPiece.text ++ ['"']) p) := by
  induction ps generalizing p acc with
  | nil => rw [Lex.string.eq_def]; simp
  | cons x ps ih =>
    have hx := h x (by simp)
    have ih' := fun p acc => ih p acc (fun y hy => h y (by simp [hy]))
    cases x with
    | lit c =>
      simp only [StrPiece.valid, Bool.and_eq_true, Bool.not_eq_true', decide_eq_false_iff_not] at hx
      simp only [List.flatMap_cons, StrPiece.text, List.cons_append, List.nil_append]
      rw [Lex.string.eq_def]
      simp only [hx.1, hx.2, if_false]
      rw [ih']
      simp [StrPiece.char]
    | esc c =>
      simp only [StrPiece.valid] at hx
      simp only [List.flatMap_cons, StrPiece.text, List.cons_append, List.nil_append]
      rcases mnemonic_cases hx with rfl | rfl | rfl | rfl | rfl | rfl | rfl | rfl <;>
      · rw [Lex.string.eq_def]
        simp [mnemonic?, ih', StrPiece.char]

theorem char_le_iff (a b : Char) : a ≤ b ↔ a.toNat ≤ b.toNat := by
  rw [Char.le_def, UInt32.le_iff_toNat_le]; rfl

theorem isDigit_iff (c : Char) : isDigit c = true ↔ 48 ≤ c.toNat ∧ c.toNat ≤ 57 := by
  simp only [isDigit, Bool.and_eq_true, decide_eq_true_eq, char_le_iff]
  rfl

theorem isLetter_iff (c : Char) :
    isLetter c = true ↔ (97 ≤ c.toNat ∧ c.toNat ≤ 122) ∨ (65 ≤ c.toNat ∧ c.toNat ≤ 90) := by
  simp only [isLetter, Bool.or_eq_true, Bool.and_eq_true, decide_eq_true_eq, char_le_iff]
  rfl

theorem isInitial_not_digit {c : Char} (h : isInitial c = true) : isDigit c = false := by
  cases hd : isDigit c with
  | false => rfl
  | true =>
    rw [isDigit_iff] at hd
    simp only [isInitial, Bool.or_eq_true, decide_eq_true_eq] at h
    rw [isLetter_iff] at h
    simp only [or_assoc] at h
    rcases h with h | h | h | h | h | h | h | h | h | h | h | h | h | h | h | h | h
    all_goals first | omega | (subst h; revert hd; decide)

theorem canonPiece_valid (c : Char) : (canonPiece c).valid = true := by
  unfold canonPiece
  split
  · rename_i h; simpa [StrPiece.valid] using h
  · rename_i h
    simp only [StrPiece.valid, Bool.and_eq_true, Bool.not_eq_true', decide_eq_false_iff_not]
    constructor <;> (rintro rfl; exact h (by decide))

theorem canonPiece_char (s : List Char) : (s.map canonPiece).map StrPiece.char = s := by
  induction s with
  | nil => rfl
  | cons c s ih =>
    simp only [List.map_cons, ih, List.cons.injEq, and_true]
    unfold canonPiece; split <;> rfl

theorem token_string (ps : List StrPiece) (rest : List Char) (p : Pos)
    (h : ∀ x ∈ ps, x.valid = true) :
    token (showPieces ps ++ rest) p
      = .ok (some (.prim (.str (String.ofList (ps.map StrPiece.char))), rest,
          advs (showPieces ps) p)) := by
  have := string_fwd ps rest (adv '"' p) [] h
  simp only [showPieces, List.cons_append, List.append_assoc]
  rw [token.eq_def]
  simp [this, Except.map]

/-! ## identifiers -/

/-- the characters on which `token` does not fall through to `normalIdentifier` (besides digits) -/
def tokenStarters : List Char := ['(', ')', '\'', '`', '#', ',', '.', '+', '-', '"', '|']

theorem token_other (c : Char) (cs : List Char) (p : Pos) (h : c ∉ tokenStarters)
    (hd : isDigit c = false) :
    token (c :: cs) p = (normalIdentifier c cs (adv c p)).map some := by
  simp only [tokenStarters, List.mem_cons, List.not_mem_nil, or_false, not_or] at h
  rw [token.eq_def]
  simp [h, hd]

theorem isInitial_not_starter {c : Char} (h : isInitial c = true) : c ∉ tokenStarters := by
  intro hc
  have : tokenStarters.all (fun c => !isInitial c) = true := by decide
  have := List.all_eq_true.mp this c hc
  simp [h] at this

theorem stopsAt_of_startsDelim (f : Char → Bool) (hf : ∀ c, f c = true → c ∉ specials)
    {rest : List Char} (h : startsDelim rest = true) : stopsAt f rest = true := by
  cases rest with
  | nil => rfl
  | cons c r =>
    simp only [stopsAt, Bool.not_eq_true']
    cases hc : f c with
    | false => rfl
    | true =>
      simp only [startsDelim] at h
      rw [isDelimiter_of_not_mem (hf c hc)] at h; cases h

theorem normalIdentifier_fwd (first : Char) (run rest : List Char) (p : Pos)
    (hr : ∀ c ∈ run, isSubsequent c = true) (hd : startsDelim rest = true) :
    normalIdentifier first (run ++ rest) p
      = .ok (.ident (String.ofList (first :: run)), rest, advs run p) := by
  unfold normalIdentifier
  rw [takeRun_append isSubsequent run rest p [] hr
    (stopsAt_of_startsDelim _ (fun c => isSubsequent_ns) hd)]
  cases rest with
  | nil => simp
  | cons c r =>
    simp only [startsDelim] at hd
    simp [testDelimiter, hd, bind, Except.bind, pure, Except.pure]

theorem dotSubsequent_nil (acc rest : List Char) (p : Pos) (hd : startsDelim rest = true) :
    dotSubsequent acc rest p = .ok (acc, rest, p) := by
  unfold dotSubsequent
  cases rest with
  | nil => rfl
  | cons c r =>
    simp only [startsDelim] at hd
    have hn : c ∈ specials := by
      apply Decidable.byContradiction; intro hn; rw [isDelimiter_of_not_mem hn] at hd; cases hd
    have h1 : isInitial c = false := by
      cases hi : isInitial c with
      | false => rfl
      | true => exact absurd hn (not_mem_specials_of_class isInitial (by decide) hi)
    have h2 : c ≠ '+' ∧ c ≠ '-' ∧ c ≠ '.' ∧ c ≠ '@' := by
      refine ⟨?_, ?_, ?_, ?_⟩ <;> (rintro rfl; revert hn; decide)
    simp [h1, h2, testDelimiter, hd, bind, Except.bind, pure, Except.pure]

theorem dotSubsequent_fwd (acc : List Char) (d : Char) (more rest : List Char) (p : Pos)
    (h0 : (d = '+' || d = '-' || d = '.' || d = '@' || isInitial d) = true)
    (hr : ∀ c ∈ d :: more, isSubsequent c = true) (hd : startsDelim rest = true) :
    dotSubsequent acc (d :: more ++ rest) p
      = .ok (acc ++ d :: more, rest, advs (d :: more) p) := by
  unfold dotSubsequent
  simp only [List.cons_append, h0, if_true]
  have := takeRun_append isSubsequent (d :: more) rest p [] hr
    (stopsAt_of_startsDelim _ (fun c => isSubsequent_ns) hd)
  simp only [List.cons_append, List.reverse_nil, List.nil_append] at this
  rw [this]
  cases rest with
  | nil => simp
  | cons c r =>
    simp only [startsDelim] at hd
    simp [testDelimiter, hd, bind, Except.bind, pure, Except.pure]

theorem peculiar_sign (s : Char) (hs : s = '+' ∨ s = '-') (cs : List Char) (p : Pos)
    (hc : cs.head? ≠ some '.') :
    peculiarIdentifier s cs p
      = (dotSubsequent [s] cs p).map (fun r => (.ident (String.ofList r.1), r.2.1, r.2.2)) := by
  have h1 : (s = '+' || s = '-') = true := by rcases hs with rfl | rfl <;> rfl
  unfold peculiarIdentifier
  simp only [h1, if_true]
  cases cs with
  | nil => simp [dotSubsequent, Except.map]
  | cons c r =>
    have : c ≠ '.' := by intro e; subst e; simp at hc
    simp only [this, if_false]
    cases dotSubsequent [s] (c :: r) p <;> rfl

theorem peculiar_dot (cs : List Char) (p : Pos) :
    peculiarIdentifier '.' cs p
      = (dotSubsequent ['.'] cs p).map (fun r => (.ident (String.ofList r.1), r.2.1, r.2.2)) := by
  unfold peculiarIdentifier
  have : ('.' = '+' || '.' = '-') = false := by decide
  simp only [this]
  cases dotSubsequent ['.'] cs p <;> rfl

theorem startsDelim_head {c : Char} {r : List Char} (h : startsDelim (c :: r) = true) :
    c ∈ specials := by
  apply Decidable.byContradiction; intro hn
  simp only [startsDelim] at h
  rw [isDelimiter_of_not_mem hn] at h; cases h

theorem token_sign_pec (s : Char) (hs : s = '+' ∨ s = '-') (cs : List Char) (p : Pos)
    (hc : ∀ c r, cs = c :: r → isDigit c = false ∧ c ≠ '.') :
    token (s :: cs) p = (peculiarIdentifier s cs (adv s p)).map some := by
  rw [token.eq_def]
  cases cs with
  | nil => rcases hs with rfl | rfl <;> simp
  | cons c r =>
    obtain ⟨h1, h2⟩ := hc c r rfl
    rcases hs with rfl | rfl <;> simp [h1, h2]

theorem token_plainIdent (s rest : List Char) (p : Pos) (h : isPlainIdent s = true)
    (hd : startsDelim rest = true) :
    token (s ++ rest) p = .ok (some (.ident (String.ofList s), rest, advs s p)) := by
  cases s with
  | nil => simp [isPlainIdent] at h
  | cons c cs =>
    rw [isPlainIdent.eq_def] at h; dsimp only at h
    by_cases hi : isInitial c = true
    · rw [if_pos hi] at h
      rw [List.cons_append, token_other c _ p (isInitial_not_starter hi) (isInitial_not_digit hi),
        normalIdentifier_fwd c cs rest _ (by simpa using h) hd]
      rfl
    rw [if_neg hi] at h
    by_cases hs : (c = '+' || c = '-') = true
    · rw [if_pos hs] at h
      have hs : c = '+' ∨ c = '-' := by simpa using hs
      cases cs with
      | nil =>
        simp only [List.cons_append, List.nil_append]
        rw [token_sign_pec c hs rest p, peculiar_sign c hs rest _, dotSubsequent_nil _ _ _ hd]
        · rfl
        · cases rest with
          | nil => simp
          | cons x r =>
            have := startsDelim_head hd
            simp only [List.head?_cons, ne_eq, Option.some.injEq]
            rintro rfl; revert this; decide
        · intro x r e
          subst e
          have := startsDelim_head hd
          constructor
          · cases hx : isDigit x with
            | false => rfl
            | true => exact absurd this (isDigit_ns hx)
          · rintro rfl; revert this; decide
      | cons d more =>
        simp only [Bool.and_eq_true] at h
        obtain ⟨h0, hall⟩ := h
        have hall' : ∀ c ∈ d :: more, isSubsequent c = true := by simpa using hall
        have hd1 : isDigit d = false ∧ d ≠ '.' := by
          simp only [Bool.or_eq_true, decide_eq_true_eq] at h0
          rcases h0 with ((rfl | rfl) | rfl) | h0
          · decide
          · decide
          · decide
          · exact ⟨isInitial_not_digit h0, by rintro rfl; revert h0; decide⟩
        have h0' : (d = '+' || d = '-' || d = '.' || d = '@' || isInitial d) = true := by
          simp only [Bool.or_eq_true, decide_eq_true_eq] at h0 ⊢
          rcases h0 with ((h0 | h0) | h0) | h0 <;> simp [h0]
        simp only [List.cons_append]
        rw [token_sign_pec c hs _ p, peculiar_sign c hs _ _]
        · have := dotSubsequent_fwd [c] d more rest (adv c p) h0' hall' hd
          simp only [List.cons_append] at this
          rw [this]; rfl
        · simp [hd1.2]
        · intro x r e; cases e; exact hd1
    rw [if_neg hs] at h
    by_cases hdot : c = '.'
    · rw [if_pos hdot] at h
      subst hdot
      cases cs with
      | nil => simp at h
      | cons d more =>
        simp only [Bool.and_eq_true] at h
        obtain ⟨h0, hall⟩ := h
        have hall' : ∀ c ∈ d :: more, isSubsequent c = true := by simpa using hall
        have hnd : isDelimiter d = false :=
          isDelimiter_of_not_mem (isSubsequent_ns (hall' d (by simp)))
        simp only [List.cons_append]
        rw [token.eq_def]
        simp only [hnd]
        have := dotSubsequent_fwd ['.'] d more rest (adv '.' p) h0 hall' hd
        simp only [List.cons_append] at this
        simp [peculiar_dot, this, Except.map]
    · rw [if_neg hdot] at h; cases h

/-! ## numbers -/

theorem Char_isDigit_eq (c : Char) : c.isDigit = isDigit c := by
  rw [Bool.eq_iff_iff, isDigit_iff]
  simp only [Char.isDigit, ge_iff_le, Bool.and_eq_true, decide_eq_true_eq, UInt32.le_iff_toNat_le]
  rfl

theorem showNat_digits (n : Nat) : ∀ c ∈ showNat n, isDigit c = true := by
  intro c hc
  rw [← Char_isDigit_eq]
  exact Nat.isDigit_of_mem_toDigits (by decide) (by decide) hc

theorem showNat_ne_nil (n : Nat) : showNat n ≠ [] := Nat.toDigits_ne_nil

theorem digitsVal_snoc (l : List Char) (d : Char) :
    digitsVal (l ++ [d]) = digitsVal l * 10 + (d.toNat - 48) := by
  simp [digitsVal, List.foldl_append]

theorem digitsVal_showNat (n : Nat) : digitsVal (showNat n) = n := by
  induction n using Nat.strongRecOn with
  | _ n ih =>
    unfold showNat
    rw [Nat.toDigits_eq_if (by decide)]
    split
    · rename_i h
      simp [digitsVal, Nat.toNat_digitChar_sub_48_of_lt_ten h]
    · rename_i h
      have := ih (n / 10) (by omega)
      unfold showNat at this
      rw [digitsVal_snoc, this, Nat.toNat_digitChar_sub_48_of_lt_ten (Nat.mod_lt _ (by decide))]
      omega

theorem all_isDigit_of {ds : List Char} (h : ∀ c ∈ ds, isDigit c = true) :
    ds.all isDigit = true := by simpa using h

/-- the round trip `str::parse::<i32>` ∘ `to_string` -/
theorem parseI32_showInt (i : Int) (h : fitsI32 i = true) : parseI32? (showInt i) = some i := by
  unfold showInt
  split
  · rename_i hneg
    unfold parseI32?
    have h1 : (showNat i.natAbs).isEmpty = false := by
      cases hh : showNat i.natAbs with
      | nil => exact absurd hh (showNat_ne_nil _)
      | cons => rfl
    simp only [h1, all_isDigit_of (showNat_digits _), digitsVal_showNat]
    have : -((i.natAbs : Nat) : Int) = i := by omega
    simp [this, h]
  · rename_i hneg
    cases hh : showNat i.natAbs with
    | nil => exact absurd hh (showNat_ne_nil _)
    | cons d ds =>
      have hd : isDigit d = true := showNat_digits i.natAbs d (by simp [hh])
      have hd1 : d ≠ '-' := by rintro rfl; revert hd; decide
      have hd2 : d ≠ '+' := by rintro rfl; revert hd; decide
      have hall := all_isDigit_of (showNat_digits i.natAbs)
      have hv := digitsVal_showNat i.natAbs
      rw [hh] at hall hv
      unfold parseI32?
      have : ((i.natAbs : Nat) : Int) = i := by omega
      split
      rename_i heq
      split at heq
      · rename_i e; simp at e; exact absurd e.1 hd1
      · rename_i e; simp at e; exact absurd e.1 hd2
      · cases heq
        simp [hall, hv, this, h]

theorem parseU32_showNat (n : Nat) (h : n ≤ 4294967295) : parseU32? (showNat n) = some n := by
  unfold parseU32?
  have h1 : (showNat n).isEmpty = false := by
    cases hh : showNat n with
    | nil => exact absurd hh (showNat_ne_nil _)
    | cons => rfl
  simp [h1, all_isDigit_of (showNat_digits _), digitsVal_showNat, h]

end Ruschm.Text

/-
Property C11, the ERROR side — "… and raise an error rather than return a value when a list is too
short for the request."

`RuschmProofs/C11.lean` proves, for every library procedure, that the outcome is the one its spec
function gives; the spec functions return `.error typeErr` on too-short structures, so the error
outcomes are instances of those theorems. This file states them EXPLICITLY, for the procedures
obtained from `RuschmGen/BaseLib.lean` through the same `libStatement_eq`/`libProc`/`LibFrame`
machinery, and adds what C11.lean left open: negative, non-integer and inexact indices, and improper
list arguments of every list procedure.

`Raises σ p args env e` (in `ListErrLemmas.lean`): the application ends with the error `e`, having
only appended frames to the store, and NO run of it returns a value. The error of a too-short list
is always `typeErr` = `(Err.type, none)`: the `TypeMisMatch` of the native `car`/`cdr` reached on a
non-pair (the model has no separate "index out of range" error for lists).

Findings (a VALUE where R7RS says "it is an error"; none of them is a too-short list):
* `map` / `for-each` accept an improper list: `map` returns the mapped elements on the same tail,
  `for-each` stops silently at the tail (`map_improper`, `for_each_improper`);
* `last-pair` of an improper list returns its last pair (`last_pair_improper`), `memq`/`memv` return
  the sublist when a match comes before the improper tail (`memq_improper_found`);
* an inexact index (`2.0`) is accepted by `list-tail`/`list-ref` (`list_tail_inexact`).
-/
import RuschmProofs.ListErrLemmas

namespace Ruschm.C11Errors
open Ruschm Ruschm.Eval Ruschm.ListSpec Ruschm.ListLib

/-! ## sample data -/

def num (i : Int) : Value := .num (.int i)
/-- `(1 2 3)` -/
def l123 : Value := Value.ofList [num 1, num 2, num 3]
/-- `(1 2 . 3)` -/
def l12d3 : Value := withTail [num 1, num 2] (num 3)

section
variable {σ : Store} {b : Nat}

/-! ## the natives and the c[ad]r compositions on structures that are too short -/

/-- `car` / `cdr` of `()` or of any other non-pair: a type error, store untouched, never a value -/
theorem car_too_short (σ : Store) (v : Value) (hv : isPair v = false) (env : Nat) :
    Applies σ (.builtin .car) [v] env (.error typeErr) σ ∧
    ∀ w σ'', ¬ Applies σ (.builtin .car) [v] env (.ok w) σ'' := by
  have h : Applies σ (.builtin .car) [v] env (.error typeErr) σ :=
    carS_nonpair hv ▸ Applies.builtin (by decide) (by rfl) (applyPure_car σ v) (notFuel_carS v)
  exact ⟨h, not_value_of_error h⟩

example : Applies libStore (.builtin .car) [.nil] 0 (.error typeErr) libStore := (car_too_short _ _ rfl 0).1

theorem cdr_too_short (σ : Store) (v : Value) (hv : isPair v = false) (env : Nat) :
    Applies σ (.builtin .cdr) [v] env (.error typeErr) σ ∧
    ∀ w σ'', ¬ Applies σ (.builtin .cdr) [v] env (.ok w) σ'' := by
  have h : Applies σ (.builtin .cdr) [v] env (.error typeErr) σ :=
    cdrS_nonpair hv ▸ Applies.builtin (by decide) (by rfl) (applyPure_cdr σ v) (notFuel_cdrS v)
  exact ⟨h, not_value_of_error h⟩

example : Applies libStore (.builtin .cdr) [num 5] 0 (.error typeErr) libStore := (cdr_too_short _ _ rfl 0).1

/-- the twelve compositions: whenever the structure is too short for the composition (the spec
function of `RuschmSpec/ListLib.lean` is the error), the procedure raises -/
theorem caar_too_short (h : LibFrame σ b) (x : Value) (hx : caarS x = .error typeErr) (env : Nat) :
    Raises σ (libProc "caar" b) [x] env typeErr :=
  .of_appliesE (hx ▸ papp_caar b x σ env h rfl)
theorem cadr_too_short (h : LibFrame σ b) (x : Value) (hx : cadrS x = .error typeErr) (env : Nat) :
    Raises σ (libProc "cadr" b) [x] env typeErr :=
  .of_appliesE (hx ▸ papp_cadr b x σ env h rfl)
theorem cdar_too_short (h : LibFrame σ b) (x : Value) (hx : cdarS x = .error typeErr) (env : Nat) :
    Raises σ (libProc "cdar" b) [x] env typeErr :=
  .of_appliesE (hx ▸ papp_cdar b x σ env h rfl)
theorem cddr_too_short (h : LibFrame σ b) (x : Value) (hx : cddrS x = .error typeErr) (env : Nat) :
    Raises σ (libProc "cddr" b) [x] env typeErr :=
  .of_appliesE (hx ▸ papp_cddr b x σ env h rfl)
theorem caaar_too_short (h : LibFrame σ b) (x : Value) (hx : caaarS x = .error typeErr) (env : Nat) :
    Raises σ (libProc "caaar" b) [x] env typeErr :=
  .of_appliesE (hx ▸ papp_caaar b x σ env h rfl)
theorem caadr_too_short (h : LibFrame σ b) (x : Value) (hx : caadrS x = .error typeErr) (env : Nat) :
    Raises σ (libProc "caadr" b) [x] env typeErr :=
  .of_appliesE (hx ▸ papp_caadr b x σ env h rfl)
theorem cadar_too_short (h : LibFrame σ b) (x : Value) (hx : cadarS x = .error typeErr) (env : Nat) :
    Raises σ (libProc "cadar" b) [x] env typeErr :=
  .of_appliesE (hx ▸ papp_cadar b x σ env h rfl)
theorem caddr_too_short (h : LibFrame σ b) (x : Value) (hx : caddrS x = .error typeErr) (env : Nat) :
    Raises σ (libProc "caddr" b) [x] env typeErr :=
  .of_appliesE (hx ▸ papp_caddr b x σ env h rfl)
theorem cdaar_too_short (h : LibFrame σ b) (x : Value) (hx : cdaarS x = .error typeErr) (env : Nat) :
    Raises σ (libProc "cdaar" b) [x] env typeErr :=
  .of_appliesE (hx ▸ papp_cdaar b x σ env h rfl)
theorem cdadr_too_short (h : LibFrame σ b) (x : Value) (hx : cdadrS x = .error typeErr) (env : Nat) :
    Raises σ (libProc "cdadr" b) [x] env typeErr :=
  .of_appliesE (hx ▸ papp_cdadr b x σ env h rfl)
theorem cddar_too_short (h : LibFrame σ b) (x : Value) (hx : cddarS x = .error typeErr) (env : Nat) :
    Raises σ (libProc "cddar" b) [x] env typeErr :=
  .of_appliesE (hx ▸ papp_cddar b x σ env h rfl)
theorem cdddr_too_short (h : LibFrame σ b) (x : Value) (hx : cdddrS x = .error typeErr) (env : Nat) :
    Raises σ (libProc "cdddr" b) [x] env typeErr :=
  .of_appliesE (hx ▸ papp_cdddr b x σ env h rfl)

example : Raises libStore (libProc "caddr" 0) [Value.ofList [num 1, num 2]] 0 typeErr :=
  caddr_too_short libFrame_libStore _ rfl 0
example : Raises libStore (libProc "caar" 0) [l123] 0 typeErr := caar_too_short libFrame_libStore _ rfl 0
example : Raises libStore (libProc "cdddr" 0) [l12d3] 0 typeErr := cdddr_too_short libFrame_libStore _ rfl 0

/-! ## `list-tail` and `list-ref`: index past the end -/

/-- `(list-tail l k)` for ANY list value `l` (elements `xs`, final tail `t`, `()` or not) and every
exact integer `k` (`i32`) greater than the number of elements: the walk reaches the non-pair tail
and `cdr` raises the type error -/
theorem list_tail_improper_too_short (h : LibFrame σ b) (xs : List Value) (t : Value) (ht : isPair t = false)
    (k : Int) (hk : (xs.length : Int) < k) (hmax : k ≤ 2147483647) (env : Nat) :
    Raises σ (libProc "list-tail" b) [withTail xs t, .num (.int k)] env typeErr := by
  have hk' : ((k.toNat : Nat) : Int) = k := Int.toNat_of_nonneg (by omega)
  have := papp_list_tail b k.toNat (withTail xs t) (by omega) σ env h rfl
  rw [hk', listTailS_withTail_short xs t ht k.toNat (by omega)] at this
  exact .of_appliesE this

/-- … in particular for a proper list of length `n` and `k > n` -/
theorem list_tail_too_short (h : LibFrame σ b) (xs : List Value) (k : Int) (hk : (xs.length : Int) < k)
    (hmax : k ≤ 2147483647) (env : Nat) :
    Raises σ (libProc "list-tail" b) [Value.ofList xs, .num (.int k)] env typeErr :=
  withTail_nil xs ▸ list_tail_improper_too_short h xs .nil rfl k hk hmax env

example : Raises libStore (libProc "list-tail" 0) [l123, num 4] 0 typeErr :=
  list_tail_too_short libFrame_libStore [num 1, num 2, num 3] 4 (by decide) (by decide) 0
/-- `(list-tail '(1 2 . 3) 3)` -/
example : Raises libStore (libProc "list-tail" 0) [l12d3, num 3] 0 typeErr :=
  list_tail_improper_too_short libFrame_libStore [num 1, num 2] (num 3) rfl 3 (by decide) (by decide) 0

/-- `(list-ref l k)` with `k` not below the number of elements: `(car (list-tail l k))` fails in
`list-tail` (`k` greater) or in `car` (`k` equal: the tail is not a pair) -/
theorem list_ref_improper_out_of_range (h : LibFrame σ b) (xs : List Value) (t : Value) (ht : isPair t = false)
    (k : Int) (hk : (xs.length : Int) ≤ k) (hmax : k ≤ 2147483647) (env : Nat) :
    Raises σ (libProc "list-ref" b) [withTail xs t, .num (.int k)] env typeErr := by
  have hk' : ((k.toNat : Nat) : Int) = k := Int.toNat_of_nonneg (by omega)
  have := papp_list_ref b k.toNat (withTail xs t) (by omega) σ env h rfl
  rw [hk', listRefS_withTail_short xs t ht k.toNat (by omega)] at this
  exact .of_appliesE this

theorem list_ref_out_of_range (h : LibFrame σ b) (xs : List Value) (k : Int) (hk : (xs.length : Int) ≤ k)
    (hmax : k ≤ 2147483647) (env : Nat) :
    Raises σ (libProc "list-ref" b) [Value.ofList xs, .num (.int k)] env typeErr :=
  withTail_nil xs ▸ list_ref_improper_out_of_range h xs .nil rfl k hk hmax env

example : Raises libStore (libProc "list-ref" 0) [l123, num 3] 0 typeErr :=
  list_ref_out_of_range libFrame_libStore [num 1, num 2, num 3] 3 (by decide) (by decide) 0
example : Raises libStore (libProc "list-ref" 0) [l12d3, num 2] 0 typeErr :=
  list_ref_improper_out_of_range libFrame_libStore [num 1, num 2] (num 3) rfl 2 (by decide) (by decide) 0

/-! ## indices outside the natural numbers -/

/-- a NEGATIVE integer index: `(= k 0)` never holds, the walk runs down the whole list with
`k-1, k-2, …` and ends in the `cdr` type error at the final tail — for every list value. (The
index stays an `i32` integer as long as `k - length - 1 ≥ -2³¹`: true of every list the interpreter
can hold unless `k` is within `length` of the smallest integer.) The real code reports the same
type error. -/
theorem list_tail_negative (h : LibFrame σ b) (xs : List Value) (t : Value) (ht : isPair t = false) (k : Int)
    (hk : k < 0) (hmin : -2147483648 ≤ k - xs.length - 1) (env : Nat) :
    Raises σ (libProc "list-tail" b) [withTail xs t, .num (.int k)] env typeErr :=
  .of_appliesE (papp_list_tail_neg b t ht xs k hk hmin σ env h rfl)

theorem list_ref_negative (h : LibFrame σ b) (xs : List Value) (t : Value) (ht : isPair t = false) (k : Int)
    (hk : k < 0) (hmin : -2147483648 ≤ k - xs.length - 1) (env : Nat) :
    Raises σ (libProc "list-ref" b) [withTail xs t, .num (.int k)] env typeErr :=
  .of_appliesE (papp_list_ref_of_tail b (papp_list_tail_neg b t ht xs k hk hmin) σ env h rfl)

/-- `(list-tail '(1 2 3) -1)` and `(list-ref '(1 2 3) -1)` -/
example : Raises libStore (libProc "list-tail" 0) [l123, num (-1)] 0 typeErr :=
  list_tail_negative libFrame_libStore [num 1, num 2, num 3] .nil rfl (-1) (by decide) (by decide) 0
example : Raises libStore (libProc "list-ref" 0) [l123, num (-1)] 0 typeErr :=
  list_ref_negative libFrame_libStore [num 1, num 2, num 3] .nil rfl (-1) (by decide) (by decide) 0

/-- a NON-INTEGER exact ratio `n/d` (a value of the interpreter: lowest terms, `d > 1`, `i32`
components): `(= k 0)` never holds either, the index runs through `n/d - 1, n/d - 2, …` (all
non-integers) and the walk ends in the `cdr` type error — for every list value, as long as the
numerators stay in the `i32` range. The real code reports the same type error. -/
theorem list_tail_ratio (h : LibFrame σ b) (xs : List Value) (t : Value) (ht : isPair t = false) (n d : Int)
    (hwf : Num.WF (.rat n d)) (hmin : -2147483648 ≤ n - (xs.length + 1) * d) (env : Nat) :
    Raises σ (libProc "list-tail" b) [withTail xs t, .num (.rat n d)] env typeErr := by
  obtain ⟨hn, hd, hpos, hd1, hg⟩ := hwf
  have hn' : n ≤ 2147483647 := by simp [fitsI32] at hn; omega
  exact .of_appliesE (papp_list_tail_rat b t ht d hpos hd1 hd xs n hg hn' hmin σ env h rfl)

theorem list_ref_ratio (h : LibFrame σ b) (xs : List Value) (t : Value) (ht : isPair t = false) (n d : Int)
    (hwf : Num.WF (.rat n d)) (hmin : -2147483648 ≤ n - (xs.length + 1) * d) (env : Nat) :
    Raises σ (libProc "list-ref" b) [withTail xs t, .num (.rat n d)] env typeErr := by
  obtain ⟨hn, hd, hpos, hd1, hg⟩ := hwf
  have hn' : n ≤ 2147483647 := by simp [fitsI32] at hn; omega
  exact .of_appliesE (papp_list_ref_of_tail b (papp_list_tail_rat b t ht d hpos hd1 hd xs n hg hn' hmin) σ env h rfl)

/-- `(list-ref '(1 2 3) 1/2)` and `(list-tail '(1 2 3) 1/2)` -/
example : Raises libStore (libProc "list-ref" 0) [l123, .num (.rat 1 2)] 0 typeErr :=
  list_ref_ratio libFrame_libStore [num 1, num 2, num 3] .nil rfl 1 2 (by decide) (by decide) 0
example : Raises libStore (libProc "list-tail" 0) [l123, .num (.rat 1 2)] 0 typeErr :=
  list_tail_ratio libFrame_libStore [num 1, num 2, num 3] .nil rfl 1 2 (by decide) (by decide) 0

/-- an INEXACT index `r` (binary32): NOT an error in general. `list-tail` makes the same walk with
the floating-point tests `r = 0`, `r - 1 = 0`, … (`listTailRealS`): it returns the sublist reached
when a test first succeeds and raises the `cdr` type error only if the list is exhausted first.
So `(list-tail '(1 2 3) 2.0)` returns `(3)`, as the real code does: an out-of-domain behaviour
(R7RS wants an exact index), characterised here, not an error. -/
theorem list_tail_inexact (h : LibFrame σ b) (x : Value) (r : Float32) (env : Nat) :
    ∃ σ', Applies σ (libProc "list-tail" b) [x, .num (.real r)] env (listTailRealS x r) σ' ∧ σ.Ext σ' :=
  papp_list_tail_real b x r σ env h rfl

theorem list_ref_inexact (h : LibFrame σ b) (x : Value) (r : Float32) (env : Nat) :
    ∃ σ', Applies σ (libProc "list-ref" b) [x, .num (.real r)] env ((listTailRealS x r).bind carS) σ' ∧ σ.Ext σ' :=
  papp_list_ref_of_tail b (papp_list_tail_real b x r) σ env h rfl

/-- for an index that passes the test after two decrements — `2.0` does, by IEEE arithmetic; the
kernel cannot compute with the opaque `Float32` — `(list-tail '(1 2 3) r)` is `(3)` -/
example (r : Float32) (h0 : (r == Float32.ofInt 0) = false) (h1 : (r - Float32.ofInt 1 == Float32.ofInt 0) = false)
    (h2 : (r - Float32.ofInt 1 - Float32.ofInt 1 == Float32.ofInt 0) = true) :
    ∃ σ', Applies libStore (libProc "list-tail" 0) [l123, .num (.real r)] 0 (.ok (Value.ofList [num 3])) σ' ∧
      libStore.Ext σ' := by
  have := list_tail_inexact libFrame_libStore l123 r 0
  simpa [l123, Value.ofList, listTailRealS, h0, h1, h2] using this

/-! ## improper list arguments of the other list procedures -/

/-- `fold-right` over a list whose final tail is neither a pair nor `()`: the type error, and the
procedure argument `f` — any value whatsoever — is never applied (the recursion reaches the tail
before any application) -/
theorem fold_right_improper (h : LibFrame σ b) (f init : Value) (xs : List Value) (t : Value)
    (ht : isPair t = false) (hn : isNil t = false) (env : Nat) :
    Raises σ (libProc "fold-right" b) [f, init, withTail xs t] env typeErr :=
  .of_appliesE (papp_fold_right_improper b f init t ht hn xs σ env h rfl)

/-- `(fold-right cons '() '(1 2 . 3))` -/
example : Raises libStore (libProc "fold-right" 0) [.builtin .cons, .nil, l12d3] 0 typeErr :=
  fold_right_improper libFrame_libStore _ _ [num 1, num 2] (num 3) rfl rfl 0

/-- `fold-left` over such a list: `f` is applied to every element, in order (the chain `FoldLM`),
and then — unless `f` raised before — the `car` of the tail raises the type error: never a value -/
theorem fold_left_improper {K : Store → Prop} {f : Value} (h : LibFrame σ b) (hK : K σ) (init : Value)
    (xs : List Value) (t : Value) (ht : isPair t = false) (hn : isNil t = false)
    (hf : ProcArg b σ.frames.size K f (fun args => ∃ x ∈ xs, ∃ a, args = [x, a])) (env : Nat) :
    ∃ r e σ', Applies σ (libProc "fold-left" b) [f, init, withTail xs t] env (.error e) σ' ∧
      FoldLM (AppOf f) Store.DExt σ init xs r σ' ∧
      (e = match r with | .ok _ => typeErr | .error e' => e') ∧
      ∀ v σ'', ¬ Applies σ (libProc "fold-left" b) [f, init, withTail xs t] env (.ok v) σ'' := by
  obtain ⟨r, σ', h₁, h₂, _⟩ := fold_left_run t ht xs σ init h hK (Nat.le_refl _) hf env
  cases r with
  | ok v =>
    have h₁' : Applies σ (libProc "fold-left" b) [f, init, withTail xs t] env (.error typeErr) σ' := by
      simpa [Except.bind, foldEnd, hn] using h₁
    exact ⟨_, _, σ', h₁', h₂, rfl, not_value_of_error h₁'⟩
  | error e => exact ⟨_, e, σ', h₁, h₂, rfl, not_value_of_error h₁⟩

/-- `(fold-left cons '() '(1 2 . 3))` -/
example : ∃ e σ', Applies libStore (libProc "fold-left" 0) [.builtin .cons, .nil, l12d3] 0 (.error e) σ' := by
  obtain ⟨r, e, σ', h₁, _⟩ := fold_left_improper (K := fun _ => True) libFrame_libStore trivial .nil
    [num 1, num 2] (num 3) rfl rfl (procArg_cons 0 _ _ fun args ⟨x, _, a, e⟩ => e ▸ rfl) 0
  exact ⟨e, σ', h₁⟩

/-- FINDING (a value, not an error): `map` over an improper list applies `f` to every element in
order and returns the results ON THE SAME TAIL — `(map f '(1 2 . 3))` is `((f 1) (f 2) . 3)`, and
`(map f 5)` is `5`. R7RS: "it is an error" if the argument is not a list. -/
theorem map_improper {K : Store → Prop} {f : Value} (h : LibFrame σ b) (hK : K σ) (xs : List Value) (t : Value)
    (ht : isPair t = false) (hf : ProcArg b σ.frames.size K f (fun args => ∃ x ∈ xs, args = [x])) (env : Nat) :
    ∃ r σ', Applies σ (libProc "map" b) [f, withTail xs t] env (r.map (withTail · t)) σ' ∧
      MapM (AppOf f) Store.DExt σ xs r σ' :=
  let ⟨r, σ', h₁, h₂, _⟩ := map_run t ht xs σ h hK (Nat.le_refl _) hf env
  ⟨r, σ', h₁, h₂⟩

/-- `(map tick '(1 2 . 3))` returns `(1 2 . 3)` -/
example : ∃ σ', Applies libStore (libProc "map" 0) [.builtin .tick, l12d3] 0 (.ok l12d3) σ' := by
  obtain ⟨r, σ', h₁, h₂⟩ := map_improper (K := fun _ => True) libFrame_libStore trivial [num 1, num 2] (num 3) rfl
    (procArg_tick 0 _ _ fun args ⟨x, _, e⟩ => e ▸ rfl) 0
  obtain ⟨rfl, _⟩ := mapM_tick h₂
  exact ⟨σ', h₁⟩

/-- FINDING (a value, not an error): `for-each` over an improper list applies `f` to every element
and stops silently at the tail; the value is `Void` -/
theorem for_each_improper {K : Store → Prop} {f : Value} (h : LibFrame σ b) (hK : K σ) (xs : List Value) (t : Value)
    (ht : isPair t = false) (hf : ProcArg b σ.frames.size K f (fun args => ∃ x ∈ xs, args = [x])) (env : Nat) :
    ∃ r σ', Applies σ (libProc "for-each" b) [f, withTail xs t] env (r.map fun _ => Value.void) σ' ∧
      MapM (AppOf f) Store.DExt σ xs r σ' :=
  let ⟨r, σ', h₁, h₂, _⟩ := for_each_run t ht xs σ h hK (Nat.le_refl _) hf env
  ⟨r, σ', h₁, h₂⟩

example : ∃ σ', Applies libStore (libProc "for-each" 0) [.builtin .tick, l12d3] 0 (.ok .void) σ' := by
  obtain ⟨r, σ', h₁, h₂⟩ := for_each_improper (K := fun _ => True) libFrame_libStore trivial [num 1, num 2] (num 3)
    rfl (procArg_tick 0 _ _ fun args ⟨x, _, e⟩ => e ▸ rfl) 0
  obtain ⟨rfl, _⟩ := mapM_tick h₂
  exact ⟨σ', h₁⟩

/-- `append` with an argument other than the last that is not a proper list (an improper list or
a non-list): the type error of the `car` taken of its tail -/
theorem append_improper_nonlast (h : LibFrame σ b) (args : List Value) (hd : ¬ appendDomain args) (env : Nat) :
    Raises σ (libProc "append" b) args env typeErr := by
  have : AppliesE σ (libProc "append" b) args env (appendE args) := by
    cases args with
    | nil => exact papp_append_nil b σ env h rfl
    | cons l rest => exact papp_append b rest l σ env h rfl
  rw [appendE_improper args hd] at this
  exact .of_appliesE this

/-- `(append '(1 2 . 3) '(1 2 3))` and `(append 5 '(1 2 3))` -/
example : Raises libStore (libProc "append" 0) [l12d3, l123] 0 typeErr :=
  append_improper_nonlast libFrame_libStore _ (fun hd => by cases hd.1) 0
example : Raises libStore (libProc "append" 0) [num 5, l123] 0 typeErr :=
  append_improper_nonlast libFrame_libStore _ (fun hd => by cases hd.1) 0

/-- `last-pair` of `()` or of any other non-pair: the `cdr` type error -/
theorem last_pair_nonpair (h : LibFrame σ b) (x : Value) (hx : isPair x = false) (env : Nat) :
    Raises σ (libProc "last-pair" b) [x] env typeErr :=
  .of_appliesE (lastPairS_nonpair hx ▸ papp_last_pair b x σ env h rfl)

example : Raises libStore (libProc "last-pair" 0) [.nil] 0 typeErr := last_pair_nonpair libFrame_libStore _ rfl 0

/-- … and of a non-empty improper list: its last pair, dotted tail included (a value) -/
theorem last_pair_improper (h : LibFrame σ b) (xs : List Value) (x t : Value) (ht : isPair t = false) (env : Nat) :
    ∃ σ', Applies σ (libProc "last-pair" b) [withTail (xs ++ [x]) t] env (.ok (.pair x t)) σ' ∧ σ.Ext σ' :=
  lastPairS_withTail xs x t ht ▸ papp_last_pair b _ σ env h rfl

example : ∃ σ', Applies libStore (libProc "last-pair" 0) [l12d3] 0 (.ok (.pair (num 2) (num 3))) σ' ∧
    libStore.Ext σ' :=
  last_pair_improper libFrame_libStore [num 1] (num 2) (num 3) rfl 0

/-- `memq` on an improper list none of whose elements matches: the walk reaches the tail and
`(car tail)` raises the type error -/
theorem memq_improper (h : LibFrame σ b) (obj : Value) (xs : List Value) (t : Value) (ht : isPair t = false)
    (hn : isNil t = false) (hno : ∀ a ∈ xs, Prim.eqv obj a = false) (env : Nat) :
    Raises σ (libProc "memq" b) [obj, withTail xs t] env typeErr := by
  have := papp_memq b obj (withTail xs t) σ env h rfl
  rw [memS_withTail_none obj xs t ht hno, hn] at this
  exact .of_appliesE this

theorem memv_improper (h : LibFrame σ b) (obj : Value) (xs : List Value) (t : Value) (ht : isPair t = false)
    (hn : isNil t = false) (hno : ∀ a ∈ xs, Prim.eqv obj a = false) (env : Nat) :
    Raises σ (libProc "memv" b) [obj, withTail xs t] env typeErr := by
  have := papp_memv b obj (withTail xs t) σ env h rfl
  rw [memS_withTail_none obj xs t ht hno, hn] at this
  exact .of_appliesE this

/-- `(memv 7 '(1 2 . 3))` -/
example : Raises libStore (libProc "memv" 0) [num 7, l12d3] 0 typeErr :=
  memv_improper libFrame_libStore (num 7) [num 1, num 2] (num 3) rfl rfl (by decide) 0
example : Raises libStore (libProc "memq" 0) [num 3, l12d3] 0 typeErr :=
  memq_improper libFrame_libStore (num 3) [num 1, num 2] (num 3) rfl rfl (by decide) 0

/-- … while a match before the tail is found as on a proper list: the sublist from the first
match on, whatever the final tail is (a value) -/
theorem memq_improper_found (h : LibFrame σ b) (obj : Value) (pre : List Value) (a : Value) (post : List Value)
    (t : Value) (hno : ∀ x ∈ pre, Prim.eqv obj x = false) (ha : Prim.eqv obj a = true) (env : Nat) :
    (∃ σ', Applies σ (libProc "memq" b) [obj, withTail (pre ++ a :: post) t] env (.ok (withTail (a :: post) t)) σ' ∧
      σ.Ext σ') ∧
    (∃ σ', Applies σ (libProc "memv" b) [obj, withTail (pre ++ a :: post) t] env (.ok (withTail (a :: post) t)) σ' ∧
      σ.Ext σ') :=
  ⟨memS_withTail_found obj pre a post t hno ha ▸ papp_memq b obj _ σ env h rfl,
   memS_withTail_found obj pre a post t hno ha ▸ papp_memv b obj _ σ env h rfl⟩

/-- `(memv 2 '(1 2 . 3))` is `(2 . 3)` -/
example : ∃ σ', Applies libStore (libProc "memv" 0) [num 2, l12d3] 0 (.ok (.pair (num 2) (num 3))) σ' ∧
    libStore.Ext σ' :=
  (memq_improper_found libFrame_libStore (num 2) [num 1] (num 2) [] (num 3) (by decide) (by decide) 0).2

/-- the walk of `list?` down an improper list ends with `#f` (a value, the right one) -/
theorem list_pred_improper (h : LibFrame σ b) (xs : List Value) (t : Value) (ht : isPair t = false)
    (hn : isNil t = false) (env : Nat) :
    ∃ σ', Applies σ (libProc "list?" b) [withTail xs t] env (.ok (.bool false)) σ' ∧ σ.Ext σ' := by
  have hp : isProperList (withTail xs t) = false := by
    induction xs with
    | nil =>
      cases t with
      | nil => simp [isNil] at hn
      | pair a d => simp [isPair] at ht
      | _ => rfl
    | cons x xs ih => simpa [withTail, isProperList] using ih
  exact hp ▸ papp_list_pred b (withTail xs t) σ env h rfl

example : ∃ σ', Applies libStore (libProc "list?" 0) [l12d3] 0 (.ok (.bool false)) σ' ∧ libStore.Ext σ' :=
  list_pred_improper libFrame_libStore [num 1, num 2] (num 3) rfl rfl 0

end

end Ruschm.C11Errors

#!/usr/bin/env python3
"""process newly delivered seeded changes: confirm each, then run the property's check against it"""
import glob, json, os, subprocess, sys
src = sys.argv[1]           # e.g. /tmp/seed-out2
state_path = os.path.join(src, "results.json")
state = json.load(open(state_path)) if os.path.exists(state_path) else {}
for d in sorted(glob.glob(os.path.join(src, "C??"))):
    pid = os.path.basename(d)
    if pid in state or not os.path.exists(os.path.join(d, "meta.json")) or not os.path.exists(os.path.join(d, "patch.diff")):
        continue
    c = subprocess.run([sys.executable, "/verif/tools/seedtest.py", "confirm", d], stdout=subprocess.PIPE, text=True).stdout
    try:
        conf = json.loads(c)
    except Exception:
        conf = {"confirmed": False, "raw": c[-500:]}
    entry = {"confirmed": conf.get("confirmed"), "confirm": {k: conf.get(k) for k in ("demo_without_change", "demo_with_change", "existing_suite_with_change", "patch_applies")}}
    if conf.get("confirmed"):
        extra = sys.argv[2:] if len(sys.argv) > 2 else []
        r = subprocess.run([sys.executable, "/verif/tools/seedtest.py", "detect", d, pid] + extra, stdout=subprocess.PIPE, text=True).stdout
        try:
            entry["detect"] = json.loads(r)
        except Exception:
            entry["detect"] = {"raw": r[-800:]}
    state[pid] = entry
    json.dump(state, open(state_path, "w"), indent=1)
    det = entry.get("detect", {}).get(pid, {})
    print(pid, "confirmed" if entry["confirmed"] else "NOT-CONFIRMED", "exit", det.get("exit"), (det.get("what") or "")[:90], (det.get("lines") or [""])[0][-40:])

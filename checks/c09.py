"""C09 — exact arithmetic is exact, inexactness is contagious.
Theorems: lean/RuschmProofs/C09.lean (about RuschmModel/Num.lean). Tie: the operand grid below is
evaluated by the real interpreter (operands are Scheme *expressions*), the operand values it
produced are fed to the model's operations, and the results are compared; independently the
implementation's results on exact operands are checked against exact rational arithmetic."""
import itertools, random
from . import common as C
from . import numgrid as G

PROP = "C09"
MODULES = ["RuschmProofs.C09", "RuschmProofs.C09More"]
UNARY = ["abs", "floor", "ceiling", "exact", "-", "/"]
BINARY = ["+", "-", "*", "/", "floor-quotient", "floor-remainder"]
TERNARY = ["+", "-", "*", "/"]


def operand_pool(tier, rng):
    pool = list(G.OPERANDS)
    for n in range(60 if tier == "quick" else 600):
        k = rng.choice([1, 2, 15, 16, 17, 30, 31])
        v = rng.randrange(-2**k, 2**k) if k < 31 else rng.randrange(-2**31, 2**31)
        if rng.random() < 0.5:
            d = rng.randrange(1, 2**rng.choice([1, 2, 15, 16, 31]))
            pool.append("%d/%d" % (v, d))
        else:
            pool.append(str(v))
    return pool


def build_forms(tier, rng, unary=None, binary=None, ternary=None):
    """list of (operation, [operand expressions]); operands come from the grid plus random
    exact numbers near the overflow boundaries"""
    unary = UNARY if unary is None else unary
    binary = BINARY if binary is None else binary
    ternary = TERNARY if ternary is None else ternary
    forms = []
    grid = G.OPERANDS
    for a in grid:
        for op in unary:
            forms.append((op, [a]))
    for a in grid:
        for b in grid:
            for op in binary:
                forms.append((op, [a, b]))
    tern = G.SMALL if tier == "quick" else grid
    triples = list(itertools.product(tern, repeat=3))
    if tier != "quick":
        rng.shuffle(triples)
        triples = triples[:150000]
    if tier == "quick":
        triples += [t for t in itertools.product(G.ROUND, repeat=3) if not all(x in tern for x in t)]
    for (a, b, c) in triples:
        for op in ternary:
            forms.append((op, [a, b, c]))
    pool = operand_pool(tier, rng)[len(grid):]
    for n in range(len(pool) * 6):
        a, b = rng.choice(pool), rng.choice(pool + grid)
        if rng.random() < 0.5:
            a, b = b, a
        for op in binary:
            forms.append((op, [a, b]))
    return forms


CHUNK = 400


def run(rep, tier, rng, forms=None, oracle="arith"):
    forms = build_forms(tier, rng) if forms is None else forms
    operands = sorted({e for _, es in forms for e in es})
    texts = operands + ["(%s %s)" % (op, " ".join(es)) for op, es in forms]
    cases = [("c%d" % (i // CHUNK), "prog", ["std"] + texts[i:i + CHUNK]) for i in range(0, len(texts), CHUNK)]
    impl = C.run_hx(cases)
    flat = []
    for cid, _, fields in cases:
        r = impl.get(cid, [])
        if len(r) != len(fields) - 1:
            rep.violation({"what": "harness lost results", "case": cid}, no_input=True); return
        flat += r
    val = {}
    for e, r in zip(operands, flat):
        if r.startswith("V ") and r[2:3] in "iqr":
            val[e] = r[2:]
        else:
            rep.violation({"what": "operand expression did not evaluate to a number", "form": e, "implementation": r})
    # the operands themselves: a LITERAL integer or ratio denotes the number its digits spell - as an exact number equal to it when
    # its lowest terms fit the exact range, and never as a DIFFERENT exact number
    import re
    from fractions import Fraction
    for e in operands:
        if e in val and re.fullmatch(r"[+-]?\d+(/\d+)?", e) and not e.endswith("/0"):
            want = Fraction(e)
            got_exact = G.exact_of(val[e])
            rep.count(); rep.nontrivial(("literal", e))
            fits = -2**31 <= want.numerator < 2**31 and want.denominator < 2**31
            if (got_exact is not None and got_exact != want) or (fits and got_exact is None):
                rep.violation({"what": "implementation breaks the property", "form": e, "implementation": "V " + val[e],
                               "problem": "the literal %s denotes %s%s" % (e, want, " exactly (its lowest terms fit the exact range)" if fits else
                                                                            "; an exact number different from it was produced")})
    model_cases, index = [], []
    for k, (op, es) in enumerate(forms):
        if not all(e in val for e in es):
            continue
        vals = [val[e] for e in es]
        model_cases.append(("m%d" % k, "numop", [op] + vals))
        index.append((k, op, vals, flat[len(operands) + k]))
    model = C.run_driver(model_cases)
    seen = set()
    pairs, pair_checked = {}, [0]
    for k, op, vals, got in index:
        rep.count()
        key = (op, tuple(vals))
        if key in seen:
            continue
        seen.add(key)
        rep.nontrivial(key)
        form = texts[len(operands) + k]
        m = model.get("m%d" % k, ["X missing"])[0]
        g = got if not got.startswith("E ") else "E " + got.split(" ")[1]
        if len(rep.cov["samples"]) < 8 and (k * 2654435761) % 4099 == 0:
            rep.sample({"form": form, "operand_values": vals, "implementation": got, "model": m})
        bad = None
        if oracle == "cmp" and op in G.CMP_OPS and len(vals) == 2:
            pairs[key] = got
        if oracle == "arith":
            bad = G.check_arith_oracle(op, vals, got)
        elif oracle == "cmp":
            bad = G.check_cmp_oracle(op, vals, got)
            if not bad and op in G.CMP_OPS and len(vals) == 3:
                # an n-ary comparison is the conjunction of its adjacent pairs (the implementation's own answers for them)
                p1, p2 = pairs.get((op, (vals[0], vals[1]))), pairs.get((op, (vals[1], vals[2])))
                if p1 in ("V #t", "V #f") and p2 in ("V #t", "V #f") and got in ("V #t", "V #f"):
                    pair_checked[0] += 1
                    if (got == "V #t") != (p1 == "V #t" and p2 == "V #t"):
                        bad = "(%s a b c) is %s but (%s a b) is %s and (%s b c) is %s" % (op, got[2:], op, p1[2:], op, p2[2:])
        if bad:
            rep.violation({"what": "implementation breaks the property", "form": form, "operand_values": vals,
                           "implementation": got, "problem": bad, "model": m})
        elif m != g:
            rep.violation({"what": "model and implementation disagree: correspondence RuschmModel/Num.lean <-> src/values.rs broken",
                           "form": form, "operand_values": vals, "implementation": got, "model": m}, no_input=True)
    if oracle == "cmp":
        rep.cov["chains_checked_against_their_adjacent_pairs"] = pair_checked[0]


def directed_search(rep, tier, rng):
    run(rep, tier, rng)


def main(tier, seed):
    rep = C.Report(PROP, tier, seed)
    rng = random.Random(seed)
    rep.cov["rule"] = ("operand grid of %d Scheme expressions (integers at the i32/i16 edges, ratios incl. computed and "
                       "unreduced ones, reals incl. -0.0, NaN, inf, 2^24, 2^31): every unary op on every operand, every "
                       "binary op on every ordered pair, 3-operand folds on a sub-grid, plus random operands near the "
                       "overflow boundaries; a case is an (operation, operand values) tuple, counted once") % len(G.OPERANDS)
    rep.cov["exhaustive"] = True
    rep.assumptions = ["operand values are obtained from the real interpreter and fed to the model; the model is "
                       "exercised only on values the implementation can produce"]
    ok = C.standard_proof_phase(rep, MODULES, directed_search=lambda r: directed_search(r, tier, rng))
    if ok:
        run(rep, tier, rng)
    return rep.finish("cd lean && lake build RuschmProofs.C09 && lake env lean <#print axioms of every theorem in RuschmProofs/C09.lean>")

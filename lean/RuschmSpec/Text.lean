/-
Specification vocabulary for the text properties C06 (lexer / reader) and C18 (bracket counter).

Everything here is *spec side*: how tokens and data are written down as text (`renderTok`,
`interleave`, `Syn.toks`), what may stand between two tokens (`isAtmos`, `ValidLayout`), which
tokens are covered (`SupportedTok`) and what the written text denotes (`Syn.denote`). The model
of the Rust code lives in `RuschmModel/{Lex,Read,Bracket}.lean`; the theorems relating the two
are in `RuschmProofs/C06.lean` and `RuschmProofs/C18Bracket.lean`.
-/
import RuschmModel.Read
import RuschmModel.Bracket

namespace Ruschm.Text
open Ruschm Ruschm.Lex

/-! ## Cursor -/

/-- the lexer cursor after the characters `cs` have been consumed -/
def advs (cs : List Char) (p : Pos) : Pos := cs.foldl (fun p c => adv c p) p

/-! ## Atmosphere: blanks, line breaks and comments -/

/-- `isAtmos false a`: `a` consists of blanks (space, tab, LF, CR) and of `;` comments, each of
them *terminated* by LF or CR. (`isAtmos true a`: same, starting inside a comment.) -/
def isAtmos : Bool → List Char → Bool
  | false, [] => true
  | true, [] => false
  | false, c :: cs =>
    if isWs c then isAtmos false cs else if c = ';' then isAtmos true cs else false
  | true, c :: cs => if c = '\n' || c = '\r' then isAtmos false cs else isAtmos true cs

/-- like `isAtmos`, but a last comment may run to the end of the text (only allowed after the
last token) -/
def isTrail : Bool → List Char → Bool
  | _, [] => true
  | false, c :: cs =>
    if isWs c then isTrail false cs else if c = ';' then isTrail true cs else false
  | true, c :: cs => if c = '\n' || c = '\r' then isTrail false cs else isTrail true cs

/-- the text is empty or starts with a character that is not atmosphere -/
def startsTok : List Char → Bool
  | [] => true
  | c :: _ => !isWs c && !decide (c = ';')

/-- the text is empty or starts with a delimiter -/
def startsDelim : List Char → Bool
  | [] => true
  | c :: _ => isDelimiter c

/-- the text starts with `#` -/
def startsSharp : List Char → Bool
  | '#' :: _ => true
  | _ => false

/-! ## How the supported tokens are written -/

/-- decimal digits of a natural number (this is `toString n`) -/
def showNat (n : Nat) : List Char := Nat.toDigits 10 n

/-- decimal text of an integer, `-` for negatives (this is `toString i`) -/
def showInt (i : Int) : List Char :=
  if i < 0 then '-' :: showNat i.natAbs else showNat i.natAbs

/-- the mnemonic escapes of string literals: `\a \b \t \n \r \" \\ \|` -/
def mnemonic? (c : Char) : Option Char :=
  if c = '\x07' then some 'a' else if c = '\x08' then some 'b' else if c = '\t' then some 't'
  else if c = '\n' then some 'n' else if c = '\r' then some 'r' else if c = '"' then some '"'
  else if c = '\\' then some '\\' else if c = '|' then some '|' else none

/-- one element of the body of a string literal: a character standing for itself (anything but
`"` and `\`, line breaks included) or a mnemonic escape -/
inductive StrPiece where
  | lit (c : Char)
  | esc (c : Char)
  deriving DecidableEq, Repr

namespace StrPiece
/-- the character a piece denotes -/
def char : StrPiece → Char
  | lit c => c
  | esc c => c
def valid : StrPiece → Bool
  | lit c => !decide (c = '"') && !decide (c = '\\')
  | esc c => (mnemonic? c).isSome
def text : StrPiece → List Char
  | lit c => [c]
  | esc c => ['\\', (mnemonic? c).getD c]
end StrPiece

/-- a string literal written with the given pieces -/
def showPieces (ps : List StrPiece) : List Char := '"' :: ps.flatMap StrPiece.text ++ ['"']

/-- the canonical choice: every character that has a mnemonic escape is escaped -/
def canonPiece (c : Char) : StrPiece := if (mnemonic? c).isSome then .esc c else .lit c

/-- canonical string literal -/
def showStr (s : List Char) : List Char := showPieces (s.map canonPiece)

/-- the character names of R7RS: `#\\space` etc. -/
def charNames : List (List Char × Char) :=
  [("alarm".toList, '\x07'), ("backspace".toList, '\x08'), ("delete".toList, '\x7f'),
   ("escape".toList, '\x1b'), ("newline".toList, '\n'), ("null".toList, '\x00'),
   ("return".toList, '\r'), ("space".toList, ' '), ("tab".toList, '\t')]

/-- Identifiers the lexer reads without bars:
* `<initial> <subsequent>*`,
* `+`, `-`, and `<sign> <sign subsequent> <subsequent>*` (sign subsequent: initial, `+`, `-`, `@`),
* `. <dot subsequent> <subsequent>*` (dot subsequent: sign subsequent or `.`), e.g. `...`.
(R7RS's `<sign> . <dot subsequent> …`, e.g. `+.a`, is *not* read by Ruschm: after a sign a `.`
always starts a number.) -/
def isPlainIdent : List Char → Bool
  | [] => false
  | c :: cs =>
    if isInitial c then cs.all isSubsequent
    else if c = '+' || c = '-' then
      match cs with
      | [] => true
      | d :: _ => (d = '+' || d = '-' || d = '@' || isInitial d) && cs.all isSubsequent
    else if c = '.' then
      match cs with
      | [] => false
      | d :: _ => (d = '+' || d = '-' || d = '.' || d = '@' || isInitial d) && cs.all isSubsequent
    else false

/-- All R7RS identifiers written without bars: `isPlainIdent` plus the form
`<sign> . <dot subsequent> <subsequent>*` (e.g. `+.a`), which Ruschm does not read — used only to
state what is *not* supported (`C06.lex_one_ident_full_fails`). -/
def isR7rsIdent (s : List Char) : Bool :=
  isPlainIdent s ||
    match s with
    | c :: '.' :: d :: cs =>
      (c = '+' || c = '-') && (d = '+' || d = '-' || d = '.' || d = '@' || isInitial d)
        && cs.all isSubsequent
    | _ => false

/-- a decimal literal `sign? digits+ ('.' digits*)? ('e' sign? digits+)?` with a fraction or an
exponent (otherwise it is an integer) -/
structure RealLit where
  sign : List Char := []
  ip : List Char
  frac : Option (List Char) := none
  exp : Option (List Char × List Char) := none
  deriving DecidableEq, Repr

def isSign (s : List Char) : Bool := s = [] || s = ['+'] || s = ['-']

namespace RealLit
def wf (r : RealLit) : Bool :=
  isSign r.sign && !r.ip.isEmpty && r.ip.all isDigit
  && (match r.frac with
      | none => true
      | some f => f.all isDigit)
  && (match r.exp with
      | none => true
      | some (s, d) => isSign s && !d.isEmpty && d.all isDigit)
  && (r.frac.isSome || r.exp.isSome)

def fracText (r : RealLit) : List Char :=
  match r.frac with
  | none => []
  | some f => '.' :: f

def expText (r : RealLit) : List Char :=
  match r.exp with
  | none => []
  | some (s, d) => 'e' :: s ++ d

def text (r : RealLit) : List Char := r.sign ++ (r.ip ++ (r.fracText ++ r.expText))
end RealLit

/-- the text of a token (meaningful for `SupportedTok` tokens) -/
def renderTok : Token → List Char
  | .lparen => ['(']
  | .rparen => [')']
  | .vecIntro => ['#', '(']
  | .byteVecIntro => ['#', 'u', '8', '(']
  | .quote => ['\'']
  | .quasiquote => ['`']
  | .unquote => [',']
  | .unquoteSplicing => [',', '@']
  | .period => ['.']
  | .ident s => if isPlainIdent s.toList then s.toList else '|' :: s.toList ++ ['|']
  | .prim (.str s) => showStr s.toList
  | .prim (.chr c) => ['#', '\\', c]
  | .prim (.bool b) => ['#', if b then 't' else 'f']
  | .prim (.int i) => showInt i
  | .prim (.rat n d) => showInt n ++ '/' :: showNat d
  | .prim (.real t) => t.toList

/-- the token classes covered by the C06 theorems -/
def SupportedTok : Token → Prop
  | .ident s => isPlainIdent s.toList = true ∨ '|' ∉ s.toList
  | .prim (.int i) => fitsI32 i = true
  | .prim (.rat n d) => fitsI32 n = true ∧ 0 < d ∧ d ≤ 4294967295
  | .prim (.real t) => ∃ r : RealLit, r.wf = true ∧ t = String.ofList r.text
  | _ => True

/-- tokens after which any character may follow (`,` is treated separately in `followOK`) -/
def selfDelimiting : Token → Bool
  | .lparen | .rparen | .vecIntro | .byteVecIntro | .quote | .quasiquote | .unquoteSplicing => true
  | .prim (.str _) => true
  | .ident s => !isPlainIdent s.toList
  | _ => false

/-- punctuation and string literals: tokens whose end does not depend on what follows -/
def closedTok : Token → Bool
  | .lparen | .rparen | .vecIntro | .byteVecIntro | .quote | .quasiquote | .unquote
  | .unquoteSplicing => true
  | .prim (.str _) => true
  | _ => false

/-- booleans and characters: may also be followed by `#` -/
def sharpTok : Token → Bool
  | .prim (.bool _) | .prim (.chr _) => true
  | _ => false

/-- what may follow the text of token `t`:
* after a self-delimiting token: anything;
* after `,`: anything but `@` and the end of the text (`,@` is another token, and a `,` that is
  the very last character of the text is dropped by the lexer);
* after `#t`, `#f`, `#\c`: the end of the text, a delimiter, or `#`;
* after every other token: the end of the text or a delimiter. -/
def followOK (t : Token) (after : List Char) : Bool :=
  match t with
  | .unquote => !after.isEmpty && after.head? != some '@'
  | t => selfDelimiting t || startsDelim after || (sharpTok t && startsSharp after)

/-! ## Token sequences with layout -/

/-- `interleave ts [a₀, a₁, …, aₙ]` is `a₀ t₁ a₁ t₂ … tₙ aₙ`: the layout has one more element
than there are tokens; `a₀` precedes the first token, `aₙ` follows the last -/
def interleave : List Token → List (List Char) → List Char
  | [], l => l.headD []
  | t :: ts, l => l.headD [] ++ (renderTok t ++ interleave ts l.tail)

/-- A layout is valid for `ts` when every separator is atmosphere (the last one may end in an
unterminated comment) and every token is followed by something that ends it (`followOK`). A
non-empty separator always does (`followOK_of_sep`); see `ValidGaps` for the explicit form. -/
def ValidLayout : List Token → List (List Char) → Prop
  | [], [a] => isTrail false a = true
  | t :: ts, a :: l =>
    isAtmos false a = true ∧ followOK t (interleave ts l) = true ∧ ValidLayout ts l
  | _, _ => False

/-- explicit form of the gap condition: a separator may be empty only where the token before it
is self-delimiting, or the token after it starts with a delimiter (or with `#` after a boolean or
character), or — after the last token — always, except after `,` -/
def gapOK (t : Token) (sep : List Char) (next : Option Token) : Bool :=
  !sep.isEmpty ||
    match next with
    | none => t != .unquote
    | some t2 => followOK t (renderTok t2)

def ValidGaps : List Token → List (List Char) → Prop
  | [], [a] => isTrail false a = true
  | t :: ts, a :: l =>
    isAtmos false a = true ∧ gapOK t (l.headD []) ts.head? = true ∧ ValidGaps ts l
  | _, _ => False

/-- the gap condition one would expect if `,` were an ordinary punctuation token (ending by
itself, whatever follows) — used only to state what is *not* true (`C06.lex_render_full_fails`) -/
def gapOKNaive (t : Token) (sep : List Char) (next : Option Token) : Bool :=
  !sep.isEmpty || closedTok t || selfDelimiting t ||
    match next with
    | none => true
    | some t2 => startsDelim (renderTok t2) || (sharpTok t && startsSharp (renderTok t2))

def ValidGapsNaive : List Token → List (List Char) → Prop
  | [], [a] => isTrail false a = true
  | t :: ts, a :: l =>
    isAtmos false a = true ∧ gapOKNaive t (l.headD []) ts.head? = true ∧ ValidGapsNaive ts l
  | _, _ => False

/-! ## Brackets -/

/-- what a token adds to the nesting depth -/
def weight : Token → Int
  | .lparen | .vecIntro | .byteVecIntro => 1
  | .rparen => -1
  | _ => 0

/-- number of opening tokens minus number of closing tokens -/
def depth (ts : List Token) : Int :=
  (ts.count .lparen + ts.count .vecIntro + ts.count .byteVecIntro : Nat) - (ts.count .rparen : Nat)

/-! ## Written data -/

/-- concrete syntax of a datum: atoms, `( … )`, `( … . tail)`, `#( … )`, `'x` -/
inductive Syn where
  | atom (t : Token)
  | list (xs : List Syn)
  | dotted (xs : List Syn) (tail : Syn)
  | vec (xs : List Syn)
  | quote (x : Syn)
  deriving Repr, Inhabited

namespace Syn

mutual
/-- the tokens that write a datum down -/
def toks : Syn → List Token
  | atom t => [t]
  | list xs => .lparen :: (toksL xs ++ [.rparen])
  | dotted xs t => .lparen :: (toksL xs ++ (.period :: (toks t ++ [.rparen])))
  | vec xs => .vecIntro :: (toksL xs ++ [.rparen])
  | quote x => .quote :: toks x
def toksL : List Syn → List Token
  | [] => []
  | x :: xs => toks x ++ toksL xs
end

mutual
/-- the datum R7RS assigns to the written form (no locations): atoms denote themselves,
`(x₁ … xₙ)` the proper list, `(x₁ … xₙ . t)` the chain of pairs ending in `t`, `#(…)` the vector,
`'x` the list `(quote x)` -/
def denote : Syn → Datum
  | atom (.prim p) => .prim p none
  | atom (.ident s) => .sym s none
  | atom _ => .nil none
  | list xs => denoteL xs (.nil none)
  | dotted xs t => denoteL xs (denote t)
  | vec xs => .vec (denoteV xs) none
  | quote x => .pair (.sym "quote" none) (.pair (denote x) (.nil none) none) none
def denoteL : List Syn → Datum → Datum
  | [], tl => tl
  | x :: xs, tl => .pair (denote x) (denoteL xs tl) none
def denoteV : List Syn → List Datum
  | [] => []
  | x :: xs => denote x :: denoteV xs
end

/-- atoms are primitives and identifiers -/
def isAtomTok : Token → Bool
  | .prim _ | .ident _ => true
  | _ => false

mutual
/-- atoms are supported tokens; a dotted list has at least one element before the dot -/
def Supported : Syn → Prop
  | atom t => isAtomTok t = true ∧ SupportedTok t
  | list xs => SupportedL xs
  | dotted xs t => xs ≠ [] ∧ SupportedL xs ∧ Supported t
  | vec xs => SupportedL xs
  | quote x => Supported x
def SupportedL : List Syn → Prop
  | [] => True
  | x :: xs => Supported x ∧ SupportedL xs
end

/-- the text of a datum under a layout -/
def render (d : Syn) (layout : List (List Char)) : List Char := interleave d.toks layout

end Syn

/-! ## Data as written text -/

namespace Syn
mutual
/-- the canonical written form of a datum: lists as `( … )`, improper lists as `( … . t)`,
vectors as `#( … )`; `(quote x)` is written in full -/
def ofDatum : Datum → Syn
  | .prim p _ => .atom (.prim p)
  | .sym s _ => .atom (.ident s)
  | .nil _ => .list []
  | .vec xs _ => .vec (ofDatums xs)
  | .pair a d _ =>
    match (ofTail d).2 with
    | none => .list (ofDatum a :: (ofTail d).1)
    | some t => .dotted (ofDatum a :: (ofTail d).1) t
/-- the elements of the cdr chain and its improper end, if any -/
def ofTail : Datum → List Syn × Option Syn
  | .pair a d _ => (ofDatum a :: (ofTail d).1, (ofTail d).2)
  | .nil _ => ([], none)
  | .prim p _ => ([], some (.atom (.prim p)))
  | .sym s _ => ([], some (.atom (.ident s)))
  | .vec xs _ => ([], some (.vec (ofDatums xs)))
def ofDatums : List Datum → List Syn
  | [] => []
  | x :: xs => ofDatum x :: ofDatums xs
end
end Syn

mutual
/-- all atoms of the datum are supported tokens -/
def SupportedD : Datum → Prop
  | .prim p _ => SupportedTok (.prim p)
  | .sym s _ => SupportedTok (.ident s)
  | .nil _ => True
  | .vec xs _ => SupportedDs xs
  | .pair a d _ => SupportedD a ∧ SupportedD d
def SupportedDs : List Datum → Prop
  | [] => True
  | x :: xs => SupportedD x ∧ SupportedDs xs
end

/-- the text of a datum under a layout: its canonical written form (`Syn.ofDatum`) -/
def renderDatum (d : Datum) (layout : List (List Char)) : List Char :=
  (Syn.ofDatum d).render layout

end Ruschm.Text

/-
Specification vocabulary for property C01 and the REFERENCE semantics of the core forms.

`Ref.eval` is a direct-style, store-passing evaluator written from the R7RS evaluation rules
(§4.1 primitive expression types, §5.3 definitions): there is no trampoline, no
`TailExpressionResult`, no loop — a procedure call evaluates the operator and the operands and then
`Ref.apply` runs the WHOLE body, the last expression included, by plain recursion.  It shares with
the model only data-level definitions (`Store`, `lookup`/`define`/`set`, `readLiteral`,
`evalPrim`, `procArity`, `arityOk`, `bindFixed`, `spreadApply`, `Prim.applyPure`), none of the
control structure of `RuschmModel/Eval.lean`.

The activation-depth instrumentation of the store (`depth`, `maxDepth`) is not part of the
semantics: the reference never touches it and stores are compared after `Store.erase`.
-/
import RuschmModel.Eval
namespace Ruschm

/-- forget the activation-depth instrumentation (`depth`, `maxDepth`) -/
def Store.erase (σ : Store) : Store := { σ with depth := 0, maxDepth := 0 }

namespace Ref
open Eval (evalPrim readLiteral procArity arityOk bindFixed spreadApply)

/-! ## vocabulary: the parent chain of a frame -/

/-- the frames on `ρ`'s parent chain, innermost first (`k` bounds the length) -/
def chainAux (σ : Store) : Nat → Nat → List Nat
  | 0, _ => []
  | k + 1, ρ =>
    match σ.frames[ρ]? with
    | none => []
    | some f => ρ :: (match f.parent with | some p => chainAux σ k p | none => [])

/-- the parent chain of frame `ρ` (a chain without repetition has at most `frames.size` members) -/
def chain (σ : Store) (ρ : Nat) : List Nat := chainAux σ σ.frames.size ρ

/-- the parent chain of `ρ` followed only through links to OLDER frames (a link to a frame that is
not older — never created by the evaluator — ends the chain, as it ends `LexicalScope::get` in the
model) -/
def chainOlderAux (σ : Store) : Nat → Nat → List Nat
  | 0, _ => []
  | k + 1, ρ =>
    match σ.frames[ρ]? with
    | none => []
    | some f => ρ :: (match f.parent with
      | some p => if p < ρ then chainOlderAux σ k p else []
      | none => [])
def chainOlder (σ : Store) (ρ : Nat) : List Nat := chainOlderAux σ (ρ + 1) ρ

/-- parents are older than their children (new frames are pushed at the end of the store) -/
def ParentsOlder (σ : Store) : Prop :=
  ∀ (i : Nat) (f : Frame) (p : Nat), σ.frames[i]? = some f → f.parent = some p → p < i

/-- the binding of `x` in frame `i` itself, if any -/
def frameBinding (σ : Store) (x : String) (i : Nat) : Option Value :=
  (σ.frames[i]?).bind (fun f => f.defs.lookup x)

/-! ## vocabulary: left-to-right evaluation of a list of expressions -/

/-- the store-threading `mapM` of a one-expression evaluator `ev`: every expression is handed to
`ev` exactly once, left to right, each in the store the previous one left; the first error stops
the traversal and is the outcome -/
def mapEval (ev : Store → Expr → Res Value) : Store → List Expr → Res (List Value)
  | σ, [] => (.ok [], σ)
  | σ, e :: es =>
    match ev σ e with
    | (.error er, σ₁) => (.error er, σ₁)
    | (.ok v, σ₁) =>
      match mapEval ev σ₁ es with
      | (.error er, σ₂) => (.error er, σ₂)
      | (.ok vs, σ₂) => (.ok (v :: vs), σ₂)

/-- the same for a fuel-free evaluation relation `ev σ e r σ'` -/
def MapEvals (ev : Store → Expr → Except SErr Value → Store → Prop) :
    Store → List Expr → Except SErr (List Value) → Store → Prop
  | σ, [], r, σ' => r = .ok [] ∧ σ' = σ
  | σ, e :: es, r, σ' =>
    (∃ er, ev σ e (.error er) σ' ∧ r = .error er) ∨
    (∃ v σ₁, ev σ e (.ok v) σ₁ ∧
      ((∃ er, MapEvals ev σ₁ es (.error er) σ' ∧ r = .error er) ∨
       (∃ vs, MapEvals ev σ₁ es (.ok vs) σ' ∧ r = .ok (v :: vs))))

/-- the store after binding the rest parameter (if any) to the list of the remaining arguments -/
def bindRest (σ : Store) (ρ : Nat) (rest : Option String) (restArgs : List Value) : Store :=
  match rest with
  | some r => σ.define ρ r (Value.ofList restArgs)
  | none => σ

/-- bind names to values pairwise, in order, in frame `ρ` -/
def bindAll (σ : Store) (ρ : Nat) : List String → List Value → Store
  | x :: xs, v :: vs => bindAll (σ.define ρ x v) ρ xs vs
  | _, _ => σ

/-- internal definitions, fuel-free: each right-hand side is evaluated (by `ev`) in frame `ρ`, in
the store in which all earlier definitions have already been bound in frame `ρ` -/
def DefsSeq (ev : Store → Expr → Except SErr Value → Store → Prop) (ρ : Nat) :
    Store → List Def → Except SErr Unit → Store → Prop
  | σ, [], r, σ' => r = .ok () ∧ σ' = σ
  | σ, (.mk x e _) :: ds, r, σ' =>
    (∃ er, ev σ e (.error er) σ' ∧ r = .error er) ∨
    (∃ v σ₁, ev σ e (.ok v) σ₁ ∧ DefsSeq ev ρ (σ₁.define ρ x v) ds r σ')

/-! ## the reference evaluator -/

mutual
/-- R7RS §4.1: the value of an expression -/
def eval : Nat → Store → Nat → Expr → Res Value
  | 0, σ, _, _ => (.error (.fuel, none), σ)
  | k + 1, σ, ρ, e =>
    match e with
    -- literals: self-evaluating constants, quotations, vector literals
    | .prim p _ =>
      match evalPrim p with
      | .ok v => (.ok v, σ)
      | .error er => (.error (er, none), σ)
    | .quote d _ => readLiteral σ d
    | .datum d _ => readLiteral σ d
    -- variable reference: the innermost binding
    | .sym s loc =>
      match σ.lookup ρ s with
      | some v => (.ok v, σ)
      | none => (.error (.unbound, loc), σ)
    -- a lambda expression evaluates to a procedure that remembers the current environment
    | .lambda lam _ => (.ok (.closure lam ρ), σ)
    | .assign x e loc =>
      match eval k σ ρ e with
      | (.error er, σ) => (.error er, σ)
      | (.ok v, σ) =>
        match σ.set ρ x v with
        | (true, σ) => (.ok .void, σ)
        | (false, σ) => (.error (.unbound, loc), σ)
    -- conditional: the test, then exactly one arm; only `#f` is false
    | .cond t c a _ =>
      match eval k σ ρ t with
      | (.error er, σ) => (.error er, σ)
      | (.ok tv, σ) =>
        if tv.truthy then eval k σ ρ c
        else match a with
          | some alt => eval k σ ρ alt
          | none => (.ok .void, σ)
    -- procedure call: operator, operands (left to right), then the application;
    -- a non-procedure operator is reported once the operands have been evaluated
    | .call f args _ =>
      match eval k σ ρ f with
      | (.error er, σ) => (.error er, σ)
      | (.ok fv, σ) =>
        let (ra, σ) := evalList k σ ρ args
        match procArity fv with
        | none =>
          match ra with
          | .error (.fuel, l) => (.error (.fuel, l), σ)   -- (fuel is not an outcome)
          | _ => (.error (.nonProcedure, f.loc), σ)
        | some _ =>
          match ra with
          | .error er => (.error er, σ)
          | .ok vs => apply k σ fv vs

/-- operands, left to right, each exactly once -/
def evalList : Nat → Store → Nat → List Expr → Res (List Value)
  | 0, σ, _, _ => (.error (.fuel, none), σ)
  | _ + 1, σ, _, [] => (.ok [], σ)
  | k + 1, σ, ρ, e :: es =>
    match eval k σ ρ e with
    | (.error er, σ) => (.error er, σ)
    | (.ok v, σ) =>
      match evalList k σ ρ es with
      | (.error er, σ) => (.error er, σ)
      | (.ok vs, σ) => (.ok (v :: vs), σ)

/-- R7RS §4.1.3/§4.1.4: apply a procedure to argument values -/
def apply : Nat → Store → Value → List Value → Res Value
  | 0, σ, _, _ => (.error (.fuel, none), σ)
  | k + 1, σ, p, args =>
    match procArity p with
    | none => (.error (.nonProcedure, none), σ)
    | some (fixed, variadic) =>
      if !arityOk fixed variadic args.length then (.error (.arity, none), σ) else
      match p with
      -- `(apply proc arg … args)` is the call of `proc` on `arg … ++ args`
      | .builtin .apply =>
        match spreadApply args with
        | .error er => (.error (er, none), σ)
        | .ok (f, args') => apply k σ f args'
      | .builtin b => Prim.applyPure σ b args
      -- a closure: a new frame under the frame the lambda was evaluated in; the fixed parameters
      -- are bound to the first arguments, the rest parameter to the list of the others; then the
      -- internal definitions, in order, in that frame; then the body, whose last value is returned
      | .closure lam cenv =>
        let (ρ, σ) := σ.newFrame (some cenv)
        match bindFixed σ ρ lam.formals.fixed args with
        | (.error er, σ) => (.error (er, none), σ)
        | (.ok restArgs, σ) =>
          match evalDefs k (bindRest σ ρ lam.formals.rest restArgs) ρ lam.defs with
          | (.error er, σ) => (.error er, σ)
          | (.ok (), σ) => evalSeq k σ ρ lam.body
      | _ => (.error (.nonProcedure, none), σ)

/-- internal definitions: each right-hand side is evaluated in the body's frame and bound there -/
def evalDefs : Nat → Store → Nat → List Def → Res Unit
  | 0, σ, _, _ => (.error (.fuel, none), σ)
  | _ + 1, σ, _, [] => (.ok (), σ)
  | k + 1, σ, ρ, (.mk x e _) :: ds =>
    match eval k σ ρ e with
    | (.error er, σ) => (.error er, σ)
    | (.ok v, σ) => evalDefs k (σ.define ρ x v) ρ ds

/-- a body: every expression in order, the value of the last one -/
def evalSeq : Nat → Store → Nat → List Expr → Res Value
  | 0, σ, _, _ => (.error (.fuel, none), σ)
  | _ + 1, σ, _, [] => (.error (.panic "apply_scheme_procedure: empty body", none), σ)
  | k + 1, σ, ρ, [e] => eval k σ ρ e
  | k + 1, σ, ρ, e :: es =>
    match eval k σ ρ e with
    | (.error er, σ) => (.error er, σ)
    | (.ok _, σ) => evalSeq k σ ρ es
end

/-- R7RS §5.3.1: a top-level form in the frame `ρ` — an expression yields its value; a definition
evaluates its right-hand side and binds the name in `ρ` (no value) -/
def evalTop (k : Nat) (σ : Store) (ρ : Nat) : Statement → Res (Option Value)
  | .expr e =>
    match eval k σ ρ e with
    | (.ok v, σ) => (.ok (some v), σ)
    | (.error er, σ) => (.error er, σ)
  | .definition (.mk x e _) =>
    match eval k σ ρ e with
    | (.ok v, σ) => (.ok none, σ.define ρ x v)
    | (.error er, σ) => (.error er, σ)
  | _ => (.error (.syntax, none), σ)

/-! ## how outcomes of the model and of the reference are compared

R7RS leaves the order of the checks of a procedure call unspecified.  The reference (like
`eval_expression` for a call that is not in tail position) reports a non-procedure operator
before an operand error and locates it at the operator; the trampoline of `apply_procedure`
evaluates a pending tail call with `eval_procedure_call`, which reports the operand error first
(and the non-procedure error, located at the operator too, only when all operands evaluate).  So
the two agree exactly on every value and on every error except that where the reference reports
`nonProcedure` the model may report that call's operand error instead. -/
def AgreeErr (model ref : SErr) : Prop := model = ref ∨ ∃ l, ref = (.nonProcedure, l)

/-- equal values; errors equal up to `AgreeErr` -/
def Agree {α} : (model ref : Except SErr α) → Prop
  | .ok a, .ok b => a = b
  | .error e, .error e' => AgreeErr e e'
  | _, _ => False

end Ref
end Ruschm
